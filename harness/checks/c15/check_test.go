package c15

// C15 — Workflow field mappings move exactly the mapped values; overlaps are rejected.
//
// Runtime monitoring of compose.Workflow through its public API. See NOTES.md.

import (
	"context"
	"fmt"
	"os"
	"reflect"
	"strings"
	"testing"

	"verifharness/internal/mon"
)

var debug = os.Getenv("C15_DEBUG") != ""

// declared: a target in processing order (AddInput calls in order, static values last).
func (c *Case) declared(o order) []target {
	var seq []target
	for _, g := range o.Groups {
		p := c.Preds[g]
		if p.Whole {
			seq = append(seq, target{Kind: "whole-input", Pred: g})
			continue
		}
		for _, mi := range o.Within[g] {
			k := "mapping"
			if len(c.Maps[mi].To) == 0 {
				k = "whole-target"
			}
			seq = append(seq, target{Path: c.Maps[mi].To, Kind: k, Pred: g, Idx: mi})
		}
	}
	for i, s := range c.Statics {
		seq = append(seq, target{Path: s.To, Kind: "static", Idx: i, Pred: -1})
	}
	return seq
}

// overlapClass names the first overlapping pair of an accepted declaration order: the
// relation of the two target paths, and the way the two were declared when it is not
// the plain AddInput / SetStaticValue.
func (c *Case) overlapClass(o order) string {
	seq := c.declared(o)
	for j := 1; j < len(seq); j++ {
		for i := 0; i < j; i++ {
			a, b := seq[i], seq[j]
			if !overlapsIn(c.Tgt, a.Path, b.Path) {
				continue
			}
			if aliased(c.Tgt, a.Path, b.Path) {
				// one cause however the two were declared
				return c.overlapRelation(o)
			}
			via := ""
			for _, t := range []target{a, b} {
				if t.Pred < 0 {
					continue
				}
				switch p := c.Preds[t.Pred]; {
				case p.Mode == mAddEnd:
					via = "/declared-through-AddEnd"
				case p.indirect() && via == "":
					via = "/declared-with-no-direct-dependency"
				}
			}
			if via == "/declared-through-AddEnd" {
				// one cause whatever the relation of the two paths is
				return "declared-through-AddEnd"
			}
			return c.overlapRelation(o) + via
		}
	}
	return c.overlapRelation(o)
}

func (c *Case) overlapRelation(o order) string {
	seq := c.declared(o)
	for j := 1; j < len(seq); j++ {
		for i := 0; i < j; i++ {
			a, b := seq[i], seq[j]
			if !overlapsIn(c.Tgt, a.Path, b.Path) {
				continue
			}
			switch {
			case aliased(c.Tgt, a.Path, b.Path):
				// the two paths are spelled differently but denote the same position or nested positions
				return "same-position-through-promoted-field-name-and-embedded-field"
			case b.Kind == "whole-input":
				return "whole-input-declared-after-field-mapping"
			case a.Kind == "whole-input":
				return "whole-input-declared-before-field-mapping"
			case len(a.Path) == len(b.Path):
				if len(a.Path) == 0 {
					return "duplicate-target/whole-target-twice"
				}
				kinds := "mapping-vs-mapping"
				if a.Kind == "static" || b.Kind == "static" {
					kinds = "static-vs-mapping"
				}
				depth := "nested"
				if len(a.Path) == 1 {
					depth = "top-level"
				}
				return "duplicate-target/" + kinds + "/" + depth
			case a.Kind == "whole-target" || b.Kind == "whole-target":
				return "whole-target-mapping-with-field-mapping"
			case len(a.Path) < len(b.Path):
				if len(a.Path) == 1 {
					return "prefix-declared-before-longer-path/top-level-prefix"
				}
				return "prefix-declared-before-longer-path/nested-prefix"
			default:
				return "longer-path-declared-before-prefix"
			}
		}
	}
	return "no-overlapping-pair"
}

// panicFrame: the eino function in which the (original) panic was raised. A panic
// that unwinds through runner.run is replaced by a second one in its deferred
// onGraphEnd; the frames of the first are still on the stack, below the last "panic(".
func panicFrame(p *mon.Panic) string {
	st := p.Stack
	if i := strings.LastIndex(st, "\npanic("); i >= 0 {
		st = st[i+1:]
	}
	for _, l := range strings.Split(st, "\n") {
		if !strings.HasPrefix(l, "github.com/cloudwego/eino/") {
			continue
		}
		if i := strings.LastIndexByte(l, '('); i > 0 {
			l = l[:i]
		}
		l = strings.TrimPrefix(l, "github.com/cloudwego/eino/")
		l = strings.ReplaceAll(l, "[...]", "")
		// closure numbering is not stable: compose.newGenericHelper.func14 -> compose.newGenericHelper.func
		var b strings.Builder
		for _, part := range strings.Split(l, ".") {
			if part == "" {
				continue
			}
			if part[0] >= '0' && part[0] <= '9' {
				part = "func" // a closure inside a closure
			}
			if strings.HasPrefix(part, "func") && len(part) > 4 && part[4] >= '0' && part[4] <= '9' {
				part = "func"
			}
			if b.Len() > 0 {
				b.WriteByte('.')
			}
			b.WriteString(part)
		}
		return b.String()
	}
	return "outside-eino"
}

func short(s string, n int) string {
	if len(s) > n {
		return s[:n] + "…"
	}
	return s
}

func TestCheck(t *testing.T) {
	cfg := mon.Load("C15")
	rep := mon.NewReporter(cfg,
		"exploration",
		"a case = successor input type x 1..3 predecessors (START and/or lambda nodes; successor = END, a lambda node with Invoke and Transform forms, or "+
			"a lambda node with the Invoke form only) x 1..6 declarations "+
			"(field mappings in all six constructor forms, whole-output inputs, SetStaticValue) generated over a universe of 21 declared "+
			"source and 21 target types (nested structs, pointers, pointer to pointer, map[string]T with struct/pointer/string elements, "+
			"map[string]any, any holes up to 5 levels, any- and Shape-typed fields, structs with embedded structs: by value, by pointer, two "+
			"embedded pointers deep, pointer to an unexported type, as map elements - promoted field names and the embedded fields are both path elements). "+
			"7% of the cases map one source position onto the whole successor input (FromField/FromFieldPath) of any type. "+
			"In 30% of the non-overlapping cases a branch (four constructor forms) below a gate node selects none, some or all of the gated lambda predecessors "+
			"while a control-only predecessor of the successor (a node picked by the same branch, a node below START, START, the gate) finishes: the "+
			"skipped predecessors contribute nothing, with all of them skipped the successor runs on the zero value plus static values. Every predecessor is declared in one of six ways (AddInput; "+
			"AddInputWithOptions; AddInputWithOptions+WithNoDirectDependency with AddDependency next to it before/after, with a relay node, or below a "+
			"branch that selects the successor; the deprecated AddEnd), mixed freely inside one set. Source paths continue up to 6 elements through one "+
			"or two interface-typed positions into dynamic values of 12 shapes (structs, pointers, typed maps, map[string]any, nested). Predecessor "+
			"outputs are concrete values (nil pointers / absent keys off the used paths, also inside dynamic values; at most one hostile element on a "+
			"used path: at any interface-typed position of the path a nil / typed nil / non-container / map with non-string key / struct or map that "+
			"lacks a step at any depth below concretely typed fields, elements of typed maps or run-time made structs / a look-alike struct / a value of "+
			"another type or nil at the end; a nil embedded pointer behind a promoted field; nil in the interface-typed position that feeds the whole input). 40% of the cases get one overlapping declaration; the set without it must compile (else the case is skipped); "+
			"4% of the others get one path that leaves the declared types (refused by Compile, or every run must return an error). "+
			"10% of the successors (75% of their predecessors then) come from the array family: structs with array- and slice-typed fields, map[string][2]string, and arrays "+
			"([2]string, *[2]string, [2]Leaf, [3]int) as the whole input of the successor or the whole output of a predecessor - arrays are moved as values (field, map element, any position, whole input), no path leads into one. "+
			"Every eighth case is a workflow with one to three nodes (lambda, lambda with the Invoke form only, END) of which at least one has static values and no field mapping that delivers "+
			"(fed by static values only, waiting for START / a node / a relay node / a branch; or its one mapped predecessor is never selected by a branch), alone and next to ordinary mapped nodes: "+
			"every node must be handed the zero value of its input type plus its static values (plus what was mapped) in Invoke x3, Stream x2, Transform and Collect; 8% of them carry a static value that "+
			"does not fit (refused by Compile, or every run returns an error); a quarter get one more static value on an overlapping path (must be refused). "+
			"One case in 16 has a predecessor (lambda or START) whose output type is an interface (any, Shape) and a successor that takes its whole output and one or two of its fields in one AddInput call: "+
			"the dynamic value is a container of 12 shapes or a scalar / slice / struct without the field / map with int keys / map without the key / nil / typed nil / look-alike struct (value due, error required, "+
			"or error-or-unset by the reference; never a panic; Invoke x2, Stream, Transform, Collect; lambda, invoke-only lambda and END successors). "+
			"One case in 16 declares a source path, a target path or a static value path that goes on below a pointer to an interface, a map, a scalar or a slice (field of a struct, of a nested / pointed-to / map-held struct, "+
			"element of map[string]*any; controls: pointer to struct, any-typed field): refused by Compile, or every run delivers the reference value / returns an error. "+
			"One case in 8 declares 1..4 field mappings and static values on a pass-through node that gets its type from the node it feeds (lambda, END, through a second pass-through node); 60% with one "+
			"overlapping declaration (same spelling, promoted name vs embedded field, prefix): refused in every order of creating the nodes and declaring the inputs (each half of the pair compiles alone), "+
			"the others run against the reference. "+
			"Every case is compiled in all declaration orders (<=4 declarations; 24 random orders above), 3x each. Non-trivial = the declaration set overlaps and >=2 "+
			"orders were compiled, or it does not overlap, was accepted, has >=2 declarations or a nested path, and two accepted orders were "+
			"each run 3x with Invoke and 7x in stream mode (Stream, Transform, Collect; 3 chunkings; 4x with single chunks when the successor needs one assembled value), "+
			"every run compared with the reference, Invoke and Stream compared with each other also where no value is due, the predecessor outputs "+
			"hashed after every run. Distinct = distinct (types, ways of declaring, mapping set, static paths).",
		[]string{
			"the reference (own reflect walker for path get/set, overlap predicate, canonical rendering) is written from the property statement",
			"where no value exists at a source path (absent map key, nil pointer or nil interface on the way) an error and 'target left unset' are both accepted, a panic is not",
			"an untyped nil reaching a typed nillable position may be refused with an error",
			"stream runs are compared chunk-wise (one target chunk per source chunk and predecessor, one for the static values), not through the framework's concat of user types; " +
				"a successor with the Invoke form only (and END under Collect) must receive the Invoke value when every predecessor emits its output as one chunk",
			"two target paths overlap when they denote the same or nested positions of the input value, however the fields are spelled (promoted name / through the embedded field)",
			"instantiated but empty containers (pointer to a zero struct, empty map) count as zero-valued",
			"acceptance of non-overlapping sets is counted, not demanded (the property only speaks about accepted sets)",
			"schedules/goroutine interleavings inside eino vary between runs and are not controlled",
		},
		cfg.Pick(800, 20000))
	defer func() {
		if err := rep.Flush(); err != nil {
			t.Fatalf("flush: %v", err)
		}
	}()
	rep.Require("nonoverlap_sets_accepted_and_run", int64(cfg.Pick(100, 2000)))
	rep.Require("overlap_sets_rejected_in_every_order", int64(cfg.Pick(20, 400)))
	rep.Require("runs_equal_to_reference", int64(cfg.Pick(1000, 20000)))
	rep.Require("stream_chunks_compared", int64(cfg.Pick(500, 10000)))
	rep.Require("runtime_type_check_errors_observed", int64(cfg.Pick(3, 50)))
	rep.Require("overlap_sets_with_no_direct_dependency_rejected_in_every_order", int64(cfg.Pick(20, 400)))
	rep.Require("overlap_sets_mixing_declaration_kinds_rejected_in_every_order", int64(cfg.Pick(10, 200)))
	rep.Require("nonoverlap_sets_with_no_direct_dependency_run", int64(cfg.Pick(50, 1000)))
	rep.Require("dynamic_source_paths_run/3_steps_below_the_first_interface", int64(cfg.Pick(10, 200)))
	rep.Require("dynamic_source_paths_run/through_two_interfaces", int64(cfg.Pick(10, 200)))
	rep.Require("errors_observed_for_a_step_missing_deeper_below_an_interface", int64(cfg.Pick(5, 100)))
	rep.Require("sets_run_with/all-mapped-predecessors-skipped-by-a-branch", int64(cfg.Pick(20, 400)))
	rep.Require("sets_run_with/some-mapped-predecessors-skipped-by-a-branch", int64(cfg.Pick(10, 200)))
	rep.Require("mappings_run/target-field-promoted-from-an-embedded-struct", int64(cfg.Pick(50, 1000)))
	rep.Require("mappings_run/source-field-promoted-from-an-embedded-struct", int64(cfg.Pick(50, 1000)))
	rep.Require("mappings_run/whole-input-of-a-container-type-from-one-source-position", int64(cfg.Pick(20, 400)))
	rep.Require("stream_runs_in_which_one_input_value_is_assembled", int64(cfg.Pick(100, 2000)))
	rep.Require("hostile/nil-embedded-pointer-on-source-path", int64(cfg.Pick(5, 100)))
	rep.Require("hostile/nil-interface-value-for-whole-input", int64(cfg.Pick(5, 100)))
	rep.Require("sets_run_with/"+fArrayInput, int64(cfg.Pick(20, 400)))
	rep.Require("sets_run_with/"+fArrayInput+"/END", int64(cfg.Pick(5, 100)))
	rep.Require("mappings_run/value-of-array-type/to-field-or-map-element", int64(cfg.Pick(20, 400)))

	rep.Require("static_only/sets_accepted_and_run", int64(cfg.Pick(200, 4000)))
	rep.Require("static_only/nodes_run/"+clsStaticOnly+"/END", int64(cfg.Pick(20, 400)))
	rep.Require("static_only/nodes_run/"+clsStaticOnly+"/invoke-only-lambda", int64(cfg.Pick(20, 400)))
	rep.Require("static_only/nodes_run/"+clsStaticOnly+"/selected-by-a-branch", int64(cfg.Pick(20, 400)))
	rep.Require("static_only/nodes_run/"+clsStaticOnly+"/input-type-map", int64(cfg.Pick(20, 400)))
	rep.Require("static_only/nodes_run/"+clsStaticOnly+"/input-type-any", int64(cfg.Pick(5, 100)))
	rep.Require("static_only/nodes_run/"+clsSkipped, int64(cfg.Pick(30, 600)))
	rep.Require("static_only/sets_run/one-node-alone", int64(cfg.Pick(50, 1000)))
	rep.Require("static_only/sets_run/several-nodes", int64(cfg.Pick(50, 1000)))
	rep.Require("static_only/static_values_on_nested_paths", int64(cfg.Pick(100, 2000)))
	rep.Require("static_only/node_inputs_equal_to_reference/stream", int64(cfg.Pick(500, 10000)))
	rep.Require("static_only/overlapping_static_sets_rejected_in_every_order", int64(cfg.Pick(20, 400)))

	rep.Require("iface_pred/sets_accepted_and_run", int64(cfg.Pick(100, 2000)))
	rep.Require("iface_pred/sets_run/only-an-error-is-right", int64(cfg.Pick(20, 400)))
	rep.Require("iface_pred/sets_run/value-due", int64(cfg.Pick(50, 1000)))
	rep.Require("iface_pred/sets_run/START-is-the-predecessor", int64(cfg.Pick(10, 200)))
	rep.Require("ptr_deadend/sets_total", int64(cfg.Pick(100, 2000)))
	rep.Require("ptr_deadend/control_sets_accepted_and_run", int64(cfg.Pick(15, 300)))
	rep.Require("pass_through/overlap_sets", int64(cfg.Pick(100, 2000)))
	rep.Require("pass_through/nonoverlap_sets_accepted_and_run", int64(cfg.Pick(50, 1000)))
	rep.Require("pass_through/runs_of_orders_in_which_p_is_typed_late", int64(cfg.Pick(50, 1000)))

	ctx := context.Background()
	n := int64(cfg.Pick(800, 72000))
	rep.Cases(n, func(idx int64, rng *mon.Rand) {
		switch idx % 16 {
		case 7, 15:
			// every eighth case: nodes fed by static values only (static_only_test.go)
			runStaticCase(ctx, rep, rng, genStaticCase(rng), idx)
			return
		case 3:
			// predecessor with an interface output type, whole-output and field mappings in one call (iface_pred_test.go)
			runIfacePredCase(ctx, rep, rng, genIfacePredCase(rng), idx)
			return
		case 11:
			// paths that go on below a pointer to an interface / map / scalar / slice (ptr_deadend_test.go)
			runPtrDeadEndCase(ctx, rep, rng, genPtrDeadEndCase(rng), idx)
			return
		case 5, 13:
			// field mappings and static values declared on a pass-through node (passthrough_overlap_test.go)
			runPassCase(ctx, rep, rng, genPassCase(rng), idx)
			return
		}
		c := genCase(rng)
		runCase(ctx, rep, rng, c, idx)
	})
}

func runCase(ctx context.Context, rep *mon.Reporter, rng *mon.Rand, c *Case, idx int64) {
	orders := c.orders(rng)
	rep.Count("sets_total", 1)
	rep.Count("declarations_total", int64(len(c.Maps)+len(c.Statics)))
	if idx < 2 {
		rep.Sample(c.witness(orders[0].String(c), ""))
	}
	snap := c.snap()

	if c.Overlap {
		// the set without the overlapping declaration must compile: otherwise a rejection says nothing about overlaps
		sk := c.skeleton()
		if sk == nil {
			rep.Count("overlap_sets_without_a_non_overlapping_part", 1)
		} else {
			var b *built
			p := mon.Safe(func() { b = sk.build(ctx, sk.plainOrder()) })
			rep.AddEvaluations(1)
			if p != nil || b.cerr != nil {
				rep.Count("overlap_sets_skipped_because_the_non_overlapping_part_is_refused", 1)
				if b != nil && b.cerr != nil {
					rep.Distinct("nonoverlap_reject_reasons", short(b.cerr.Error(), 40))
				}
				return
			}
		}
	}

	// ---- compile in every order, 3x each
	var accepted []*built
	var acceptedOrd []order
	compiles, rejectedOrders := 0, 0
	var firstErr string
	for _, o := range orders {
		acc := 0
		var keep *built
		for k := 0; k < 3; k++ {
			var b *built
			p := mon.Safe(func() { b = c.build(ctx, o) })
			compiles++
			if p != nil {
				rep.Violation("C15/panic/compile/"+c.attribute("compile", nil, nil), "Compile panicked: "+short(p.Value, 300)+"\n"+short(p.Stack, 1500), c.witness(o.String(c), ""))
				continue
			}
			if b.cerr == nil {
				acc++
				keep = b
			} else if firstErr == "" {
				firstErr = b.cerr.Error()
			}
		}
		if acc > 0 {
			accepted = append(accepted, keep)
			acceptedOrd = append(acceptedOrd, o)
			if acc < 3 {
				rep.Count("orders_accepted_only_sometimes", 1)
			}
		} else {
			rejectedOrders++
		}
	}
	rep.AddEvaluations(int64(compiles))
	rep.Count("compiles", int64(compiles))
	rep.Count("orders_compiled", int64(len(orders)))
	rep.Distinct("orders", c.digest()+fmt.Sprint(len(orders)))

	indirect, viaAddEnd := false, false
	for _, p := range c.Preds {
		rep.Count("declared_by/"+modeNames[p.Mode], 1)
		indirect = indirect || p.indirect()
		viaAddEnd = viaAddEnd || p.Mode == mAddEnd
	}
	if c.Overlap {
		rep.Count("overlap_sets", 1)
		if len(orders) >= 2 {
			rep.NonTrivial(c.digest())
		}
		if len(accepted) == 0 {
			rep.Count("overlap_sets_rejected_in_every_order", 1)
			if indirect {
				rep.Count("overlap_sets_with_no_direct_dependency_rejected_in_every_order", 1)
			}
			if len(c.Preds) > 1 {
				kinds := map[int]bool{}
				for _, p := range c.Preds {
					kinds[p.Mode] = true
				}
				if len(kinds) > 1 {
					rep.Count("overlap_sets_mixing_declaration_kinds_rejected_in_every_order", 1)
				}
			}
			return
		}
		rep.Count("overlap_sets_accepted_in_some_order", 1)
		seen := map[string]bool{}
		for i, o := range acceptedOrd {
			cls := c.overlapClass(o)
			if seen[cls] {
				continue
			}
			seen[cls] = true
			cons := c.consequences(ctx, accepted[i], snap)
			rep.Violation("C15/overlap-accepted/"+cls,
				fmt.Sprintf("a declaration set with overlapping targets compiled (%d of %d declaration orders accepted, %d rejected).\naccepted order: %s\nconsequences when run: %s",
					len(accepted), len(orders), rejectedOrders, o.String(c), cons),
				c.witness(o.String(c), cons))
		}
		return
	}

	rep.Count("nonoverlap_sets", 1)
	if c.Ill != "" {
		if len(accepted) == 0 {
			rep.Count("sets_with_a_path_outside_the_declared_types_rejected", 1)
			return
		}
		rep.Count("sets_with_a_path_outside_the_declared_types_accepted_and_run", 1)
	}
	if len(accepted) == 0 {
		rep.Count("nonoverlap_sets_rejected", 1)
		rep.Distinct("nonoverlap_reject_reasons", short(firstErr, 40))
		if debug {
			fmt.Printf("REJECTED case %d: %s\n  %+v\n", idx, firstErr, c.witness(orders[0].String(c), ""))
		}
		return
	}
	if len(accepted) < len(orders) {
		rep.Count("nonoverlap_sets_accepted_in_some_orders_only", 1)
	}
	rep.Count("nonoverlap_sets_accepted_and_run", 1)
	if indirect {
		rep.Count("nonoverlap_sets_with_no_direct_dependency_run", 1)
	}
	if viaAddEnd {
		rep.Count("nonoverlap_sets_with_AddEnd_run", 1)
	}
	for _, m := range c.Maps {
		if !m.src.Dyn {
			continue
		}
		rep.Count("dynamic_source_paths_run", 1)
		rep.Count(fmt.Sprintf("dynamic_source_paths_run/%d_steps_below_the_first_interface", len(m.From)-m.src.IfaceAt), 1)
		if len(m.src.Ifaces) > 1 {
			rep.Count("dynamic_source_paths_run/through_two_interfaces", 1)
		}
	}
	if c.Hazard != "" {
		rep.Count("hostile/"+c.Hazard, 1)
	}
	if sk := c.skipClass(); sk != "" {
		rep.Count("sets_run_with/"+sk, 1)
		if len(c.Statics) > 0 && sk == "all-mapped-predecessors-skipped-by-a-branch" {
			rep.Count("sets_run_with/static-values-and-all-mapped-predecessors-skipped", 1)
		}
	} else if c.Gate != nil {
		rep.Count("sets_run_with/a-branch-that-selects-every-gated-predecessor", 1)
	}
	if c.SuccInv {
		rep.Count("sets_run_with/invoke-only-successor", 1)
	}
	for _, m := range c.Maps {
		if strings.Contains(m.src.Shape, "E") {
			rep.Count("mappings_run/source-field-promoted-from-an-embedded-struct", 1)
		}
		if strings.Contains(m.tgt.Shape, "E") {
			rep.Count("mappings_run/target-field-promoted-from-an-embedded-struct", 1)
		}
		if len(m.To) == 0 && c.Tgt != tString {
			rep.Count("mappings_run/whole-input-of-a-container-type-from-one-source-position", 1)
		}
	}
	if c.Struct != "" {
		rep.Count("structure/"+c.Struct, 1)
	}
	if arrayType(c.Tgt) {
		rep.Count("sets_run_with/"+fArrayInput, 1)
		if c.SuccEnd {
			rep.Count("sets_run_with/"+fArrayInput+"/END", 1)
		}
	}
	for _, m := range c.Maps {
		if m.lt.Kind() == reflect.Array || (m.lt.Kind() == reflect.Ptr && m.lt.Elem().Kind() == reflect.Array) {
			where := "whole-input"
			if len(m.To) > 0 {
				where = "field-or-map-element"
				if strings.Contains(m.tgt.Shape, "A") {
					where = "any-hole"
				}
			}
			rep.Count("mappings_run/value-of-array-type/to-"+where, 1)
		}
	}

	// ---- run: the first accepted order and one more
	pick := []int{0}
	if len(accepted) > 1 {
		pick = append(pick, 1+rng.Intn(len(accepted)-1))
	}
	sels := [][]int{make([]int, len(c.Preds))}
	for k := 0; k < 2; k++ {
		sel := make([]int, len(c.Preds))
		for i, p := range c.Preds {
			sel[i] = rng.Intn(len(p.Chunk))
		}
		sels = append(sels, sel)
	}
	invokeRuns, streamRuns := 0, 0
	conform := true
	for _, pi := range pick {
		b, o := accepted[pi], acceptedOrd[pi]
		ordStr := o.String(c)
		expI := c.expectInvoke()
		c.invokeOK = true
		var invKeys []string
		var invOut outcome
		var invFail *outcome
		for k := 0; k < 3; k++ {
			out := c.runInvoke(ctx, b)
			invokeRuns++
			invOut = out
			if out.Kind != "value" && invFail == nil {
				f := out
				invFail = &f
			}
			invKeys = append(invKeys, out.key())
			if !c.judge(rep, "invoke", ordStr, expI, out) {
				conform = false
				if out.Kind != "value" {
					c.invokeOK = false // Invoke itself fails (not merely a wrong value)
				}
			}
			c.checkSnap(rep, snap, "invoke", ordStr)
		}
		if invKeys[0] != invKeys[1] || invKeys[1] != invKeys[2] {
			// (a panic and an error are both "no value": outcome.key() maps them to "failed")
			rep.Violation("C15/nondeterministic/invoke/"+c.attribute("invoke", expI, invFail), "three Invoke runs of the same compiled workflow on the same input differ:\n"+strings.Join(invKeys, "\n"), c.witness(ordStr, ""))
		}
		// stream mode: full values as single chunks 3x (Stream, Stream, Transform), then two other chunkings, the last one twice
		type srun struct {
			sel []int
			api int
		}
		plan := []srun{{sels[0], 1}, {sels[0], 1}, {sels[0], 0}, {sels[1], 0}, {sels[2], 0}, {sels[2], 0}}
		if c.SuccInv {
			// the successor needs one assembled value: only runs in which every predecessor emits its output as one
			// chunk (concatenating the chunks of a user's stream is not the subject here)
			plan = []srun{{sels[0], 1}, {sels[0], 1}, {sels[0], 0}, {sels[0], 2}}
		} else if c.SuccEnd {
			plan = append(plan, srun{sels[0], 2})
		} else {
			plan = append(plan, srun{sels[rng.Intn(3)], 2})
		}
		concatFailed := false // a streaming run failed where Invoke delivers, and values of the input type had to be put together
		keys := map[string][]string{}
		fails := map[string]*outcome{}
		var full outcome
		for i, sr := range plan {
			// assembled: the framework has to make ONE value of the successor's input type out of the chunks
			assembled := c.SuccInv || (sr.api == 2 && c.SuccEnd)
			expS := c.expectStream(sr.sel)
			parts := expS.Chunks
			if assembled {
				expS = c.expectInvoke()
			}
			out := c.runStream(ctx, b, sr.sel, sr.api)
			streamRuns++
			if i == 0 {
				full = out
			}
			if assembled {
				rep.Count("stream_runs_in_which_one_input_value_is_assembled", 1)
				for i := range expS.Chunks {
					expS.Chunks[i] = emptyForNilMaps(expS.Chunks[i])
				}
				for i := range out.Chunks {
					out.Chunks[i] = emptyForNilMaps(out.Chunks[i])
				}
				if out.Kind == "error" && invOut.Kind == "value" && !expS.Must && c.concatOfInputTypeNeeded(parts) {
					concatFailed = true
					// Invoke delivers the value; the streaming run cannot put the partial structs together
					rep.Violation("C15/invoke-stream-differ/successor-input-assembled-from-per-predecessor-chunks",
						fmt.Sprintf("Invoke hands the successor %s; the streaming run (%s) of the same compiled workflow on the same input fails: %s\nevery predecessor's mapped values (and the static values) become a value of the input type on their own: %s",
							expS.key(), []string{"Transform", "Stream", "Collect"}[sr.api], short(out.Err, 500), treesString(parts)),
						c.witness(ordStr, "stream"))
					conform = false
					continue
				}
			}
			if !c.judge(rep, "stream", ordStr+fmt.Sprintf(" ; chunking %v", sr.sel), expS, out) {
				conform = false
			}
			c.checkSnap(rep, snap, "stream", ordStr)
			ks := fmt.Sprint(sr.sel)
			if sr.api == 2 && c.SuccEnd {
				ks += "collect" // one assembled value, not the chunks
			}
			keys[ks] = append(keys[ks], out.key())
			if out.Kind != "value" && fails[ks] == nil {
				f := out
				fails[ks] = &f
			}
			if out.Kind == "value" {
				rep.Count("stream_chunks_compared", int64(len(out.Chunks)))
			}
		}
		for _, ks := range mon.SortedKeys(keys) {
			for _, k := range keys[ks][1:] {
				if k != keys[ks][0] {
					rep.Violation("C15/nondeterministic/stream/"+c.attribute("stream", nil, fails[ks]), "stream runs with the same chunking differ:\n"+strings.Join(keys[ks], "\n"), c.witness(ordStr, "chunking "+ks))
					break
				}
			}
		}
		// Invoke against stream: both deliver or both fail (the streaming run with every output as a single chunk)
		if concatFailed {
			// already reported under its own signature
		} else if (invOut.Kind == "error") != (full.Kind == "error") && invOut.Kind != "panic" && full.Kind != "panic" && (expI.May || expI.Must) {
			rep.Violation("C15/invoke-stream-differ/"+modeDiffClass(expI),
				fmt.Sprintf("the same compiled workflow on the same input: Invoke -> %s, Stream -> %s\nreference: %s", short(invOut.label()+" "+invOut.Err, 400), short(full.label()+" "+full.Err, 400), expI.describe()),
				c.witness(ordStr, ""))
		} else if expI.May || expI.Must {
			rep.Count("invoke_and_stream_agree_where_no_value_is_due", 1)
		}
		// Invoke against stream: overlay the chunks the successor received
		if invOut.Kind == "value" && full.Kind == "value" && !expI.May && !expI.Must && len(invOut.Chunks) == 1 {
			var merged *tree
			conflict := false
			for _, ch := range full.Chunks {
				if merged == nil {
					merged = ch
					continue
				}
				var cf bool
				merged, cf = mergeTrees(merged, ch)
				conflict = conflict || cf
			}
			inv := invOut.Chunks[0]
			if c.SuccInv {
				inv = emptyForNilMaps(inv) // the streaming value was assembled by the framework: see emptyForNilMaps
			}
			if merged != nil {
				rep.Count("invoke_stream_compared", 1)
				if conflict || merged.String() != inv.String() {
					// containers that a chunk instantiated without content do not count as a difference
					if !(inv.empty() && merged.empty()) {
						rep.Violation("C15/invoke-stream-differ/"+c.diffClass(inv, merged, c.attribute("stream", nil, nil)),
							fmt.Sprintf("successor input under Invoke: %s\noverlay of the chunks under Stream: %s (conflict=%v)", inv, merged, conflict),
							c.witness(ordStr, ""))
					}
				}
			}
		}
	}
	rep.AddEvaluations(int64(invokeRuns + streamRuns))
	rep.Count("runs_invoke", int64(invokeRuns))
	rep.Count("runs_stream", int64(streamRuns))
	nested := false
	for _, m := range c.Maps {
		if len(m.To) > 1 || len(m.From) > 1 {
			nested = true
		}
	}
	if conform {
		rep.Count("nonoverlap_sets_conforming_in_every_run", 1)
	}
	if len(c.Maps)+len(c.Statics) >= 2 || nested {
		rep.NonTrivial(c.digest())
	}
	rep.Distinct("type_pairs", fmt.Sprintf("%v>%v", c.Preds[0].Type, c.Tgt))
	for _, m := range c.Maps {
		rep.Distinct("path_shapes", m.src.Shape+">"+m.tgt.Shape)
	}
}

// attribute: the input class a failure of one run is attributed to (naming only; the
// verdict never depends on it).
func (c *Case) attribute(mode string, e *expectation, o *outcome) string {
	if c.Ill != "" {
		// the set should not have been accepted at all
		return c.Ill
	}
	refClass := ""
	if e != nil && (e.May || e.Must) {
		refClass = e.Class
	}
	failed := o != nil && o.Kind != "value"
	if failed && arrayType(c.Tgt) {
		// the whole input is an array (or a pointer to one): named by that when the empty input value cannot even be
		// made, or when the run fails without any finding of the reference
		st := ""
		if o.Kind == "panic" {
			st = panicFrame(o.Panic)
		}
		if strings.Contains(st, "newInstanceByType") || (refClass == "" && (st == "" || strings.Contains(st, "convertTo"))) {
			return fArrayInput
		}
	}
	if sk := c.skipClass(); sk == "all-mapped-predecessors-skipped-by-a-branch" && failed {
		// a branch skipped every data predecessor of the successor: no source value is even looked at
		return sk
	}
	site := ""
	if o != nil && o.Kind == "panic" {
		site = panicFrame(o.Panic)
	}
	if mode == "stream" && c.Tgt == tAny && e != nil && e.hasNilChunk() && strings.HasSuffix(site, "newGenericHelper.func.func") {
		// raised by the per-chunk conversion of the stream form of the pre-node converter
		return "any-typed-successor-receives-stream-chunk-without-values"
	}
	assignSite := false
	for _, fn := range []string{"assignOne", "checkAndExtractToField", "checkAndExtractToMapKey", "settableFieldByName", "instantiateIfNeeded"} {
		assignSite = assignSite || strings.Contains(site, fn)
	}
	// (a panic raised by convertTo itself reports an error of the assignment and is named by the rules below)
	if c.tgtThroughEmbPtr() && (assignSite || (failed && refClass == "" && (c.Struct == "" || c.Struct == fRtWithOthers) && site == "")) {
		// raised while assigning (or an error without any finding of the reference) and a target field is promoted
		// through an embedded pointer, which is nil in a fresh input value
		return fTgtEmbPtr
	}
	if refClass != "" && c.Struct != fSrcNestedPtr && (strings.Contains(site, "takeOne") || strings.Contains(site, "checkAndExtractFrom") || strings.Contains(site, "fieldMap")) {
		// a panic while walking the source value belongs to what the reference found on the source side;
		// several findings in one run: a panic raised by fieldMap itself (a walk error it does not turn into
		// an error value) belongs to a step that does not exist; a panic raised inside the walk (reflect)
		// to the finding that leaves the walker without a value to inspect
		noValue := []string{"interface-source-holds-nil", "interface-source-holds-nil-pointer", "nil-pointer-on-source-path",
			"nil-interface-deeper-below-interface-source", "nil-pointer-deeper-below-interface-source"}
		if strings.Contains(site, "checkAndExtractFromField") {
			// raised while a struct field is looked up by name: one nil pointer can be met as a plain pointer by one
			// mapping and as the embedded pointer behind a promoted field by another; the latter is the field lookup
			noValue = append([]string{"nil-embedded-pointer-on-source-path", "interface-source-holds-struct-with-nil-embedded-pointer",
				"nil-embedded-pointer-deeper-below-interface-source"}, noValue...)
		}
		noStep := []string{"interface-source-holds-struct-without-the-field", "interface-source-holds-map-with-non-string-key", "interface-source-holds-non-container",
			"field-missing-deeper-below-interface-source", "non-string-key-map-deeper-below-interface-source", "non-container-deeper-below-interface-source"}
		prio := append(append([]string(nil), noValue...), noStep...)
		if strings.Contains(site, "fieldMap") {
			prio = append(append([]string(nil), noStep...), noValue...)
		}
		for _, k := range prio {
			if e.All[k] {
				return k
			}
		}
		return refClass
	}
	if strings.Contains(site, "convertTo") && (c.Struct == fTwoBelowEntry || c.Struct == fBelowEmbedded) {
		// raised while assigning below an entry of a map with struct elements: the structure is what fails,
		// whatever else the reference found in this run (e.g. a nil in a partial stream chunk)
		return c.Struct
	}
	if e != nil && strings.Contains(site, "convertTo") {
		// raised while assigning: an untyped nil that reached a typed position is the one finding of the
		// reference that concerns the target side
		for _, k := range []string{"interface-source-value-nil", "interface-source-path-yields-nil"} {
			if e.All[k] {
				return k
			}
		}
	}
	if mode == "stream" && failed && c.hasRtChecked() && (strings.HasSuffix(site, "newGenericHelper.func") || (site == "" && c.invokeOK)) {
		// raised while the stream form of the pre-node converter is set up, or an error although the same
		// compiled workflow conforms under Invoke: the failure is specific to the stream form
		return fRtInStreamMode
	}
	switch {
	case c.Hazard != "":
		return c.Hazard
	case c.Struct != "":
		return c.Struct
	case refClass != "":
		return refClass
	case c.tgtThroughEmbPtr():
		return fTgtEmbPtr
	case c.skipClass() != "":
		return c.skipClass()
	}
	return "no-known-hazard"
}

const fTgtEmbPtr = "target-field-promoted-through-embedded-pointer"

// fArrayInput: the successor's declared input type is an array or a pointer to an array
const fArrayInput = "successor-input-of-array-type"

// tgtThroughEmbPtr: a declared target names a field that is promoted through an embedded pointer.
func (c *Case) tgtThroughEmbPtr() bool {
	for _, m := range c.Maps {
		if len(m.tgt.EmbPtrs) > 0 {
			return true
		}
	}
	for _, s := range c.Statics {
		if len(s.tgt.EmbPtrs) > 0 {
			return true
		}
	}
	return false
}

// judge compares one run with the reference; true = the run conforms.
func (c *Case) judge(rep *mon.Reporter, mode, ord string, e *expectation, o outcome) bool {
	w := func(extra string) witness { return c.witness(ord, extra) }
	cls := c.attribute(mode, e, &o)
	switch o.Kind {
	case "panic":
		// a value was due: "run-failed" (shared with unexpected errors); an error was acceptable or required: "panic"
		sig := "C15/panic/" + cls
		if cls == "no-known-hazard" || cls == fRtInStreamMode || cls == c.Struct || !(e.May || e.Must) {
			sig = "C15/run-failed/" + cls
		}
		if cls == "no-known-hazard" {
			sig += "/" + panicFrame(o.Panic)
		}
		rep.Violation(sig, fmt.Sprintf("%s panicked through the public API (at %s): %s\nreference: %s\n%s", mode, panicFrame(o.Panic), short(o.Panic.Value, 400), e.describe(), short(o.Panic.Stack, 2500)), w(mode))
		return false
	case "error":
		if e.Must {
			rep.Count("runtime_type_check_errors_observed", 1)
			for _, k := range mon.SortedKeys(e.All) {
				if k == "field-missing-deeper-below-interface-source" || k == "non-container-deeper-below-interface-source" || k == "non-string-key-map-deeper-below-interface-source" {
					rep.Count("errors_observed_for_a_step_missing_deeper_below_an_interface", 1)
					break
				}
			}
			return true
		}
		if e.May {
			rep.Count("runs_error_where_no_source_value_exists", 1)
			return true
		}
		rep.Violation("C15/run-failed/"+cls, fmt.Sprintf("%s returned an error although every source path holds an assignable value: %s\nreference: %s", mode, short(o.Err, 600), e.describe()), w(mode))
		return false
	}
	if e.Must {
		rep.Violation("C15/missing-error/"+cls, fmt.Sprintf("%s delivered %s although the reference requires an error (%s)", mode, o.key(), e.Why), w(mode))
		return false
	}
	ok := true
	if !c.SuccEnd && o.Calls != 1 {
		rep.Violation("C15/successor-call-count", fmt.Sprintf("%s: successor lambda was called %d times", mode, o.Calls), w(mode))
		ok = false
	}
	if o.key() != e.key() {
		dc := cls
		if dc == "no-known-hazard" {
			dc = "chunk-multiset"
		}
		if len(e.Chunks) == 1 && len(o.Chunks) == 1 {
			dc = c.diffClass(e.Chunks[0], o.Chunks[0], cls)
		} else if c.Struct == "" && c.Hazard == "" {
			// several chunks: name the class by the declared targets that can be affected
			for _, m := range c.Maps {
				if c.belowEmbedded(m.tgt, m.To) {
					dc = fBelowEmbedded
				}
			}
		}
		rep.Violation("C15/wrong-value/"+dc, fmt.Sprintf("%s handed the successor\n  %s\nthe reference says\n  %s", mode, o.key(), e.key()), w(mode))
		return false
	}
	rep.Count("runs_equal_to_reference", 1)
	rep.Count("mappings_compared", int64(len(c.Maps)+len(c.Statics)))
	return ok
}

func (e *expectation) hasNilChunk() bool {
	for _, t := range e.Chunks {
		if t.K == "iface" && t.Nil {
			return true
		}
	}
	return false
}

func (e *expectation) describe() string {
	s := e.key()
	if e.Must {
		s += " [error required: " + e.Why + "]"
	} else if e.May {
		s += " [error acceptable: " + e.Why + "]"
	}
	return s
}

// snapshot of the predecessor outputs: rendered once (for the report) and hashed
// after every run. Chunks share their inner pointers and maps with the full value.
type snapshot struct {
	text []string
	hash []uint64
}

func (c *Case) snapValues() []any {
	var vs []any
	for _, p := range c.Preds {
		vs = append(vs, p.Value)
	}
	for _, s := range c.Statics {
		vs = append(vs, s.Val)
	}
	return vs
}

func (c *Case) snap() *snapshot {
	sn := &snapshot{}
	for _, v := range c.snapValues() {
		sn.text = append(sn.text, treeOf(v).String())
		sn.hash = append(sn.hash, hashAny(v))
	}
	return sn
}

func hashAny(v any) uint64 {
	if v == nil {
		return 0x9e3779b97f4a7c15
	}
	return hashValue(reflect.ValueOf(v), 0)
}

func mix64(h, x uint64) uint64 {
	h ^= x + 0x9e3779b97f4a7c15 + (h << 6) + (h >> 2)
	h *= 0xbf58476d1ce4e5b9
	return h ^ (h >> 29)
}

// hashValue: order-independent for maps, sensitive to nil-ness, dynamic types and every leaf.
func hashValue(v reflect.Value, depth int) uint64 {
	if !v.IsValid() {
		return 1
	}
	if depth > 40 {
		return 14 // cyclic value (see toTree)
	}
	switch v.Kind() {
	case reflect.String:
		return mix64(2, mon.HashStr(v.String()))
	case reflect.Int, reflect.Int64, reflect.Int32:
		return mix64(3, uint64(v.Int()))
	case reflect.Bool:
		if v.Bool() {
			return 5
		}
		return 4
	case reflect.Struct:
		h := uint64(6)
		for i := 0; i < v.NumField(); i++ {
			h = mix64(h, hashValue(v.Field(i), depth+1))
		}
		return h
	case reflect.Ptr:
		if v.IsNil() {
			return 7
		}
		return mix64(8, hashValue(v.Elem(), depth+1))
	case reflect.Map:
		if v.IsNil() {
			return 9
		}
		h := uint64(10)
		it := v.MapRange()
		var sum uint64
		for it.Next() {
			sum += mix64(hashValue(it.Key(), depth+1), hashValue(it.Value(), depth+1))
		}
		return mix64(h, sum+uint64(v.Len()))
	case reflect.Interface:
		if v.IsNil() {
			return 11
		}
		e := v.Elem()
		return mix64(mix64(12, mon.HashStr(e.Type().String())), hashValue(e, depth+1))
	case reflect.Array, reflect.Slice:
		if v.Kind() == reflect.Slice && v.IsNil() {
			return 15
		}
		h := mix64(16, uint64(v.Len()))
		for i := 0; i < v.Len(); i++ {
			h = mix64(h, hashValue(v.Index(i), depth+1))
		}
		return h
	default:
		return mix64(13, mon.HashStr(fmt.Sprintf("%v", v.Interface())))
	}
}

func (c *Case) checkSnap(rep *mon.Reporter, before *snapshot, mode, ord string) bool {
	rep.Count("predecessor_snapshots_compared", 1)
	for i, v := range c.snapValues() {
		if h := hashAny(v); h != before.hash[i] {
			after := treeOf(v).String()
			rep.Violation("C15/predecessor-output-mutated/"+c.attribute(mode, nil, nil), fmt.Sprintf("a predecessor output changed during the run:\nbefore %s\nafter  %s", before.text[i], after), c.witness(ord, mode))
			before.hash[i], before.text[i] = h, after
			return false
		}
	}
	return true
}

// consequences runs an accepted overlapping set a few times and describes what happens.
func (c *Case) consequences(ctx context.Context, b *built, before *snapshot) string {
	keys := map[string]int{}
	for k := 0; k < 6; k++ {
		o := c.runInvoke(ctx, b)
		keys[short(o.label(), 160)]++
	}
	o := c.runStream(ctx, b, make([]int, len(c.Preds)), 1)
	var parts []string
	ks := mon.SortedKeys(keys)
	if len(ks) > 1 {
		parts = append(parts, fmt.Sprintf("6 Invoke runs gave %d different outcomes", len(ks)))
	}
	for _, k := range ks {
		parts = append(parts, fmt.Sprintf("invoke x%d: %s", keys[k], k))
	}
	parts = append(parts, "stream: "+short(o.label(), 160))
	after := c.snap()
	for i := range before.text {
		if before.text[i] != after.text[i] {
			parts = append(parts, "a predecessor output was modified: "+short(before.text[i], 120)+" => "+short(after.text[i], 120))
			break
		}
	}
	return strings.Join(parts, " | ")
}

// modeDiffClass names an Invoke/Stream difference on an input for which no value is due: an absent
// map key has one name wherever on the source path it is met.
func modeDiffClass(e *expectation) string {
	// of everything the reference can find on a source path an absent key is the one thing that a single
	// stream chunk may legitimately show: it decides the name whatever else was found in the same run
	for k := range e.All {
		if strings.Contains(k, "absent-map-key") || strings.Contains(k, "map-without-the-key") {
			return "absent-source-map-key"
		}
	}
	return e.Class
}

// emptyForNilMaps: the same tree with every empty map shown as a nil one (nil and empty maps look alike). A
// value that the framework assembles from stream chunks went through its generic concat of maps, which
// rebuilds every map it meets (a typed nil map comes out empty); that function is not the subject of this check.
func emptyForNilMaps(t *tree) *tree {
	if t == nil {
		return nil
	}
	c := *t
	if t.K == "map" && !t.Nil && len(t.Kids) == 0 {
		c.Nil, c.Kids = true, nil
		return &c
	}
	if t.Kids != nil {
		c.Kids = make(map[string]*tree, len(t.Kids))
		for k, v := range t.Kids {
			c.Kids[k] = emptyForNilMaps(v)
		}
	}
	c.Elem = emptyForNilMaps(t.Elem)
	return &c
}

// concatOfInputTypeNeeded: in a streaming run the mapped values of every predecessor that ran (one chunk
// each here) and the static values arrive as separate chunks; when none ran there is one chunk without
// values. Does making one input value out of them mean putting together two values of the input type (or
// of a struct / pointer type below a map key) that both carry something? Pointers count even when they
// point to a zero struct, an `any` when it is not nil.
func (c *Case) concatOfInputTypeNeeded(parts []*tree) bool {
	ran := false
	for i := range c.Preds {
		ran = ran || !c.skipped(i)
	}
	return concatNeeded(c.Tgt, parts, !ran)
}

// concatNeeded: parts are the per-source partial values of input type t that arrive as separate chunks;
// noInputChunk: one more chunk without any value arrives (no data predecessor ran).
func concatNeeded(t reflect.Type, parts []*tree, noInputChunk bool) bool {
	chunks := len(parts)
	if noInputChunk {
		chunks++
	}
	nonEmpty := 0
	for _, p := range parts {
		if !p.empty() {
			nonEmpty++
		}
	}
	switch {
	case t.Kind() == reflect.Ptr:
		return chunks >= 2
	case t.Kind() == reflect.Struct, t.Kind() == reflect.Interface:
		return nonEmpty >= 2
	}
	return structMergeNeeded(parts)
}

// structMergeNeeded: putting the partial values together means merging two non-zero struct
// values (or two non-nil pointers) that sit at the same position.
func structMergeNeeded(parts []*tree) bool {
	var merged *tree
	need := false
	for _, p := range parts {
		if p.empty() {
			continue
		}
		if merged == nil {
			merged = p
			continue
		}
		need = need || mergeNeedsStruct(merged, p)
		merged, _ = mergeTrees(merged, p)
	}
	return need
}

func mergeNeedsStruct(a, b *tree) bool {
	if a == nil || b == nil || a.zero() || b.zero() || a.K != b.K {
		return false
	}
	switch a.K {
	case "struct", "ptr":
		return true
	case "map":
		for k, av := range a.Kids {
			if bv, ok := b.Kids[k]; ok && mergeNeedsStruct(av, bv) {
				return true
			}
		}
	case "iface":
		return mergeNeedsStruct(a.Elem, b.Elem)
	}
	return false
}

func treesString(ts []*tree) string {
	var ss []string
	for _, t := range ts {
		if !t.empty() {
			ss = append(ss, t.String())
		}
	}
	return strings.Join(ss, " || ")
}
