package c06

import (
	"context"
	"errors"
	"fmt"
	"io"
	"strings"
	"sync"

	"github.com/cloudwego/eino/callbacks"
	"github.com/cloudwego/eino/components/tool"
	"github.com/cloudwego/eino/compose"
	"github.com/cloudwego/eino/schema"

	"verifharness/internal/gspec"
	"verifharness/internal/mon"
)

// Sub-workload "run inside a node": the graph under test is compiled with its own checkpoint store and is
// driven through its interrupts and resumes (WithCheckPointID on every call) not by the test itself but by
// application code that executes inside a node of ANOTHER running graph and passes on the context it was
// handed: a Lambda (in any of its four forms), a tool of a ToolsNode, or a callback handler, in a Graph
// (any-/all-predecessor), a Chain or a Workflow, that outer graph itself possibly nested in a further graph,
// run by Invoke or by Stream. Either every call of the history is made from a fresh outer run, or the whole
// history (run, resume, resume ...) is made inside one execution of the outer node.
//
// The statement knows no such distinction: a run that was given a checkpoint id and interrupts returns an
// error from which the interrupt information can be extracted, writes exactly one checkpoint under that id,
// and a call with the same id resumes it. The oracle is the one of the top-level histories (judgeHistory),
// plus: the history completes, the resumed calls never see the input of the resume call (= they did not
// start from scratch), and nothing is stored under another id.

type hostSpec struct {
	Kind      string `json:"kind"`       // lambda | tool | callback
	Form      string `json:"form"`       // graph | dag | chain | workflow: what the hosting node is a node of
	NodeForm  string `json:"node_form"`  // lambda: I S C T; tool: invokable | streamable; callback: start | end
	Levels    int    `json:"levels"`     // 1: the hosting graph is run directly; 2: it is a graph node of a further graph
	OuterPara string `json:"outer_para"` // I | S: how the outer run is made
	Whole     bool   `json:"whole"`      // the whole history inside ONE execution of the hosting node
}

func (h hostSpec) String() string {
	w := "one outer run per call"
	if h.Whole {
		w = "whole history inside one node execution"
	}
	return fmt.Sprintf("%s(%s) in %s, %d level(s), outer %s, %s", h.Kind, h.NodeForm, h.Form, h.Levels, h.OuterPara, w)
}

func genHost(r *mon.Rand) hostSpec {
	h := hostSpec{Levels: 1 + r.Intn(2), OuterPara: []string{"I", "S"}[r.Intn(2)], Whole: r.Prob(0.4)}
	switch k := r.Intn(10); {
	case k < 5:
		h.Kind = "lambda"
		h.NodeForm = []string{"I", "S", "C", "T"}[r.Intn(4)]
		h.Form = []string{"graph", "dag", "chain", "workflow"}[r.Intn(4)]
	case k < 8:
		h.Kind = "tool"
		h.NodeForm = []string{"invokable", "streamable"}[r.Intn(2)]
		h.Form = []string{"graph", "dag", "chain"}[r.Intn(3)]
	default:
		h.Kind = "callback"
		h.NodeForm = []string{"start", "end"}[r.Intn(2)]
		h.Form = []string{"graph", "dag", "chain", "workflow"}[r.Intn(4)]
	}
	return h
}

// job: what the hosting node has to do in this outer run
type job struct {
	mu  sync.Mutex
	fn  func(ctx context.Context)
	ran int
}

type jobKey struct{}

func runJob(ctx context.Context) {
	j, _ := ctx.Value(jobKey{}).(*job)
	if j == nil {
		return
	}
	j.mu.Lock()
	first := j.ran == 0
	j.ran++
	j.mu.Unlock()
	if first {
		j.fn(ctx)
	}
}

const hostNode = "host_node"

func hostLambda(form string) *compose.Lambda {
	switch form {
	case "S":
		return compose.StreamableLambda(func(ctx context.Context, in string) (*schema.StreamReader[string], error) {
			runJob(ctx)
			return schema.StreamReaderFromArray([]string{in, "."}), nil
		})
	case "C":
		return compose.CollectableLambda(func(ctx context.Context, in *schema.StreamReader[string]) (string, error) {
			defer in.Close()
			runJob(ctx)
			var b strings.Builder
			for {
				s, err := in.Recv()
				if err != nil {
					break
				}
				b.WriteString(s)
			}
			return b.String(), nil
		})
	case "T":
		return compose.TransformableLambda(func(ctx context.Context, in *schema.StreamReader[string]) (*schema.StreamReader[string], error) {
			runJob(ctx)
			return in, nil
		})
	}
	return compose.InvokableLambda(func(ctx context.Context, in string) (string, error) {
		runJob(ctx)
		return in + ".", nil
	})
}

type hostTool struct{}

func (hostTool) Info(context.Context) (*schema.ToolInfo, error) {
	return &schema.ToolInfo{Name: "host_tool", Desc: "runs another graph"}, nil
}

type hostInvokableTool struct{ hostTool }

func (hostInvokableTool) InvokableRun(ctx context.Context, _ string, _ ...tool.Option) (string, error) {
	runJob(ctx)
	return "done", nil
}

type hostStreamableTool struct{ hostTool }

func (hostStreamableTool) StreamableRun(ctx context.Context, _ string, _ ...tool.Option) (*schema.StreamReader[string], error) {
	runJob(ctx)
	return schema.StreamReaderFromArray([]string{"do", "ne"}), nil
}

// buildHost: the outer graph(s) string -> string whose hosting node runs the job found in the context.
func buildHost(ctx context.Context, h hostSpec) (compose.Runnable[string, string], []compose.Option, error) {
	var inner compose.AnyGraph
	plain := compose.InvokableLambda(func(_ context.Context, in string) (string, error) { return in + "-", nil })
	var callOpts []compose.Option
	name := compose.WithNodeName(hostNode)
	switch h.Kind {
	case "lambda", "callback":
		l := hostLambda(h.NodeForm)
		if h.Kind == "callback" {
			l = plain
		}
		switch h.Form {
		case "chain":
			inner = compose.NewChain[string, string]().AppendLambda(plain).AppendLambda(l, name)
		case "workflow":
			wf := compose.NewWorkflow[string, string]()
			wf.AddLambdaNode("host_pre", plain).AddInput(compose.START)
			wf.AddLambdaNode(hostNode, l, name).AddInput("host_pre")
			wf.End().AddInput(hostNode)
			inner = wf
		default:
			g := compose.NewGraph[string, string]()
			_ = g.AddLambdaNode("host_pre", plain)
			_ = g.AddLambdaNode(hostNode, l, name)
			_ = g.AddEdge(compose.START, "host_pre")
			_ = g.AddEdge("host_pre", hostNode)
			_ = g.AddEdge(hostNode, compose.END)
			inner = g
		}
		if h.Kind == "callback" {
			fire := func(ctx context.Context, info *callbacks.RunInfo) {
				if info != nil && info.Name == hostNode {
					runJob(ctx)
				}
			}
			hb := callbacks.NewHandlerBuilder()
			if h.NodeForm == "start" {
				hb = hb.OnStartFn(func(ctx context.Context, info *callbacks.RunInfo, _ callbacks.CallbackInput) context.Context {
					fire(ctx, info)
					return ctx
				}).OnStartWithStreamInputFn(func(ctx context.Context, info *callbacks.RunInfo, in *schema.StreamReader[callbacks.CallbackInput]) context.Context {
					in.Close()
					fire(ctx, info)
					return ctx
				})
			} else {
				hb = hb.OnEndFn(func(ctx context.Context, info *callbacks.RunInfo, _ callbacks.CallbackOutput) context.Context {
					fire(ctx, info)
					return ctx
				}).OnEndWithStreamOutputFn(func(ctx context.Context, info *callbacks.RunInfo, out *schema.StreamReader[callbacks.CallbackOutput]) context.Context {
					out.Close()
					fire(ctx, info)
					return ctx
				})
			}
			callOpts = append(callOpts, compose.WithCallbacks(hb.Build()))
		}
	case "tool":
		var t tool.BaseTool = hostInvokableTool{}
		if h.NodeForm == "streamable" {
			t = hostStreamableTool{}
		}
		tn, err := compose.NewToolNode(ctx, &compose.ToolsNodeConfig{Tools: []tool.BaseTool{t}})
		if err != nil {
			return nil, nil, err
		}
		mk := compose.InvokableLambda(func(_ context.Context, in string) (*schema.Message, error) {
			return schema.AssistantMessage("", []schema.ToolCall{{ID: "call-1", Function: schema.FunctionCall{Name: "host_tool", Arguments: "{}"}}}), nil
		})
		fin := compose.InvokableLambda(func(_ context.Context, in []*schema.Message) (string, error) {
			var b strings.Builder
			for _, m := range in {
				b.WriteString(m.Content)
			}
			return b.String(), nil
		})
		if h.Form == "chain" {
			inner = compose.NewChain[string, string]().AppendLambda(mk).AppendToolsNode(tn, name).AppendLambda(fin)
		} else {
			g := compose.NewGraph[string, string]()
			_ = g.AddLambdaNode("host_mk", mk)
			_ = g.AddToolsNode(hostNode, tn, name)
			_ = g.AddLambdaNode("host_fin", fin)
			_ = g.AddEdge(compose.START, "host_mk")
			_ = g.AddEdge("host_mk", hostNode)
			_ = g.AddEdge(hostNode, "host_fin")
			_ = g.AddEdge("host_fin", compose.END)
			inner = g
		}
	}
	var copts []compose.GraphCompileOption
	if h.Form == "dag" {
		copts = append(copts, compose.WithNodeTriggerMode(compose.AllPredecessor))
	}
	if h.Levels == 1 {
		switch x := inner.(type) {
		case *compose.Graph[string, string]:
			r, err := x.Compile(ctx, copts...)
			return r, callOpts, err
		case *compose.Chain[string, string]:
			r, err := x.Compile(ctx)
			return r, callOpts, err
		case *compose.Workflow[string, string]:
			r, err := x.Compile(ctx)
			return r, callOpts, err
		}
		return nil, nil, fmt.Errorf("unknown host form %T", inner)
	}
	top := compose.NewGraph[string, string]()
	var nodeOpts []compose.GraphAddNodeOpt
	if len(copts) > 0 {
		nodeOpts = append(nodeOpts, compose.WithGraphCompileOptions(copts...))
	}
	_ = top.AddLambdaNode("host_top_pre", plain)
	if err := top.AddGraphNode("host_sub", inner, nodeOpts...); err != nil {
		return nil, nil, err
	}
	_ = top.AddEdge(compose.START, "host_top_pre")
	_ = top.AddEdge("host_top_pre", "host_sub")
	_ = top.AddEdge("host_sub", compose.END)
	r, err := top.Compile(ctx)
	return r, callOpts, err
}

// hosted: the graph under test, every call of which is made by the hosting node of a fresh outer run.
type hosted struct {
	outer    compose.Runnable[string, string]
	opts     []compose.Option
	inner    compose.Runnable[gspec.V, gspec.V]
	h        hostSpec
	mu       sync.Mutex
	problems []string
}

func (x *hosted) problem(format string, a ...any) {
	x.mu.Lock()
	x.problems = append(x.problems, fmt.Sprintf(format, a...))
	x.mu.Unlock()
}

// via makes one outer run whose hosting node executes fn with the context it was handed.
func (x *hosted) via(ctx context.Context, fn func(ctx context.Context)) {
	j := &job{}
	j.fn = func(c context.Context) {
		if p := mon.Safe(func() { fn(c) }); p != nil {
			x.problem("panic inside the hosting node: %s\n%s", p.Value, p.Stack)
		}
	}
	ctx = context.WithValue(ctx, jobKey{}, j)
	var err error
	if x.h.OuterPara == "S" {
		var sr *schema.StreamReader[string]
		if sr, err = x.outer.Stream(ctx, "x", x.opts...); err == nil {
			for {
				if _, e := sr.Recv(); e != nil {
					if !errors.Is(e, io.EOF) {
						err = e
					}
					break
				}
			}
			sr.Close()
		}
	} else {
		_, err = x.outer.Invoke(ctx, "x", x.opts...)
	}
	if err != nil {
		x.problem("the outer run failed: %v", err)
	}
	j.mu.Lock()
	ran := j.ran
	j.mu.Unlock()
	if ran == 0 {
		x.problem("the hosting node was never executed")
	}
}

func (x *hosted) Invoke(ctx context.Context, in gspec.V, opts ...compose.Option) (out gspec.V, err error) {
	x.via(ctx, func(c context.Context) { out, err = x.inner.Invoke(c, in, opts...) })
	return
}

func (x *hosted) Stream(ctx context.Context, in gspec.V, opts ...compose.Option) (out *schema.StreamReader[gspec.V], err error) {
	x.via(ctx, func(c context.Context) { out, err = x.inner.Stream(c, in, opts...) })
	return
}

func (x *hosted) Collect(ctx context.Context, in *schema.StreamReader[gspec.V], opts ...compose.Option) (out gspec.V, err error) {
	x.via(ctx, func(c context.Context) { out, err = x.inner.Collect(c, in, opts...) })
	return
}

func (x *hosted) Transform(ctx context.Context, in *schema.StreamReader[gspec.V], opts ...compose.Option) (out *schema.StreamReader[gspec.V], err error) {
	x.via(ctx, func(c context.Context) { out, err = x.inner.Transform(c, in, opts...) })
	return
}

func insideNodeCasesPerShard(cfg mon.Config) int64 { return int64(cfg.Pick(12, 80)) }

const insidePfx = ID + "/run-inside-node"

func insideNodeCase(ctx context.Context, rep *mon.Reporter, rng *mon.Rand, cfg mon.Config, idx int64) {
	mode := gspec.Mode(idx % 3)
	spec := gspec.Gen(rng, genOpts(rng, cfg, mode))
	addReruns(rng, spec)
	in := gspec.V{"in": rng.Str(1, 5)}
	ref := gspec.EvalGraph(spec, in, nil)
	if ref.Err != "" {
		return
	}
	ps := plans(gspec.AllPoints(spec), 2)
	if len(ps) == 0 {
		return
	}
	perm := rng.Perm(len(ps))
	k := cfg.Pick(8, 16)
	if k > len(ps) {
		k = len(ps)
	}
	for _, pi := range perm[:k] {
		plan := ps[pi]
		h := genHost(rng)
		paras := []string{[]string{"I", "S"}[rng.Intn(2)]}
		insideNodePlan(ctx, rep, spec, in, ref, plan, paras, h)
	}
}

func insideNodePlan(ctx context.Context, rep *mon.Reporter, spec *gspec.GraphSpec, in gspec.V, ref *gspec.RefResult, plan gspec.Plan, paras []string, hs hostSpec) {
	ps := gspec.ApplyPlan(spec, plan)
	store := gspec.NewByteStore()
	inner, err := gspec.Build(ctx, ps, gspec.BuildOpts{Store: store})
	if err != nil {
		rep.Violation(ID+"/build-error/with-interrupts", err.Error(), map[string]any{"spec": ps, "plan": plan.String()})
		return
	}
	outer, callOpts, err := buildHost(ctx, hs)
	if err != nil {
		rep.Violation(insidePfx+"/host-build-error", fmt.Sprintf("%s: %v", hs, err), hs)
		return
	}
	x := &hosted{outer: outer, opts: callOpts, inner: inner, h: hs}
	maxCalls := 4*(len(ref.Execs)+len(plan)+2) + 4
	ho := gspec.HistoryOpts{Paras: paras, CheckPoint: true, MaxCalls: maxCalls}
	var h *gspec.History
	if hs.Whole {
		x.via(ctx, func(c context.Context) { h = gspec.RunHistory(c, ps, inner, store, in, plan, ho) })
	} else {
		h = gspec.RunHistory(ctx, ps, x, store, in, plan, ho)
	}
	rep.Count("inside_node_histories", 1)
	more := map[string]any{"host": hs.String()}
	wit := map[string]any{"spec": ps, "input": in, "plan": plan.String(), "paradigms": paras, "host": hs}
	if h == nil {
		rep.Violation(insidePfx+"/host-did-not-run", fmt.Sprintf("%s: %v", hs, x.problems), wit)
		return
	}
	if !judgeHistory(rep, insidePfx, ps, spec, in, ref, plan, paras, true, h, false, more) {
		return
	}
	desc := func() string { return fmt.Sprintf("host: %s\ninput=%s\n%s", hs, gspec.Canon(in), h.Render()) }
	x.mu.Lock()
	problems := append([]string(nil), x.problems...)
	x.mu.Unlock()
	if len(problems) > 0 {
		cl := "outer-run-failed"
		if strings.HasPrefix(problems[0], "panic") {
			cl = "panic-inside-hosting-node"
		}
		rep.Violation(insidePfx+"/"+cl+"/"+hs.Kind, strings.Join(problems, "\n")+"\n"+desc(), wit)
		return
	}
	// the history ends: every resume makes progress
	if !h.Completed {
		rep.Violation(insidePfx+"/history-does-not-complete", fmt.Sprintf("after %d calls under one checkpoint id the run has still not finished\n%s", len(h.Calls), desc()), wit)
		return
	}
	// a resumed call continues: no body ever sees the input handed to a resume call
	for j, c := range h.Calls {
		if j == 0 {
			continue
		}
		for _, e := range c.Execs {
			if strings.Contains(e.In, "IGNORED-ON-RESUME") {
				rep.Violation(insidePfx+"/resume-started-from-scratch", fmt.Sprintf("call %d resumes checkpoint id \"cp\" but node %s was executed on the input of the resume call: the run started again instead of continuing\n%s", j, e.Path, desc()), wit)
				return
			}
		}
		rep.Count("inside_node_resumes_checked", 1)
	}
	// nothing is stored under another id; the checkpoint of an interrupted call is under the supplied id
	snap := store.Snapshot()
	for _, id := range mon.SortedKeys(snap) {
		if id != "cp" {
			rep.Violation(insidePfx+"/store/checkpoint-under-another-id", fmt.Sprintf("the calls were given the checkpoint id \"cp\", the store holds %q\n%s", id, desc()), wit)
			return
		}
	}
	if len(h.Calls) > 1 {
		if _, ok := snap["cp"]; !ok {
			rep.Violation(insidePfx+"/store/no-checkpoint-under-the-supplied-id", "a call was interrupted, nothing is stored under \"cp\"\n"+desc(), wit)
			return
		}
		rep.Count("inside_node_interrupted_histories", 1)
		rep.Distinct("inside_node_hosts", fmt.Sprintf("%s|%s|%s|%d|%s|%v", hs.Kind, hs.Form, hs.NodeForm, hs.Levels, hs.OuterPara, hs.Whole))
	}
	for _, c := range h.Calls {
		if c.Interrupted {
			rep.Count("inside_node_interrupts_checked", 1)
		}
	}
}
