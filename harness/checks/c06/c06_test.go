// Package c06: interrupt points are honoured and reported exactly.
package c06

import (
	"context"
	"fmt"
	"sort"
	"strings"
	"testing"

	"github.com/cloudwego/eino/compose"

	"verifharness/internal/gspec"
	"verifharness/internal/mon"
)

const ID = "C06"

func genOpts(r *mon.Rand, cfg mon.Config, mode gspec.Mode) gspec.GenOpts {
	o := gspec.GenOpts{
		Mode: mode, MinNodes: 2, MaxNodes: cfg.Pick(5, 7),
		Branches: 0.55, Multi: 0.4, StreamCond: 0.2, AllowEmpty: 0.15,
		Nest: cfg.Pick(1, 2), NestProb: 0.2, State: 0.5, StreamState: 0.15,
		Streamy: r.Prob(0.25), Keys: 0.1, Renames: 0.1, Passthrough: 0.15, Wide: 0.2,
		CtrlOnly: 0.2, DataOnly: 0.3, Fields: 0.4, TwoBranches: 0.15,
	}
	if mode == gspec.Pregel {
		o.Cycles = 0.45
	}
	return o
}

func addReruns(r *mon.Rand, g *gspec.GraphSpec) {
	if g.State {
		for i := range g.Nodes {
			n := &g.Nodes[i]
			if n.Kind == gspec.Hash && n.InputKey == "" && !n.StreamPre && r.Prob(0.15) {
				n.Pre, n.Rerun, n.Lazy = true, true, false
			}
		}
	}
	for i := range g.Nodes {
		if g.Nodes[i].Sub != nil {
			addReruns(r, g.Nodes[i].Sub)
		}
	}
}

func plans(points []gspec.IntPoint, k int) []gspec.Plan {
	var out []gspec.Plan
	var rec func(start int, cur gspec.Plan)
	rec = func(start int, cur gspec.Plan) {
		if len(cur) > 0 {
			out = append(out, append(gspec.Plan(nil), cur...))
		}
		if len(cur) == k {
			return
		}
		for i := start; i < len(points); i++ {
			rec(i+1, append(cur, points[i]))
		}
	}
	rec(0, nil)
	return out
}

func TestCheck(t *testing.T) {
	cfg := mon.Load(ID)
	rep := mon.NewReporter(cfg, "fault_enumeration",
		"generated specs (all three modes, nested graphs, state, self-interrupting nodes) × every subset of <=2 (quick) / <=3 (thorough, capped) interrupt points at every nesting level, including direct successors of START, nodes reached through branches, the last node before END and nodes inside nested graphs; every history is driven to completion through a byte-only store. Trace monitor over the per-call execution logs, the returned errors, the store accesses and the task-hook events: (1) a node configured interrupt-before executes at most once per call and only in a call that follows an interrupt which reported it at its nesting level; (2) after an interrupt-after node has completed and been collected no further task of that graph is started, and unless the call finished the run, the call returns an interrupt listing it; (3) every interrupt is an error from which ExtractInterruptInfo yields before/after/rerun/sub-graph lists that are consistent with the configuration and with what executed, and a state iff the graph has one, whose counter continues the handler history; (4) with a checkpoint id exactly one Set per interrupted call and none otherwise; without an id no store access at all. Non-trivial: a history with >=1 interrupt; distinct = (spec, input, plan). PLUS a typed sub-workload (the last 14 (quick) / 28 (thorough) cases of every shard, typed_test.go; engine shared with C05): typed graphs and workflows (struct values behind field mappings, any->T edges, input keys, nil interface values, schema.Message values, deep nesting) with every single interrupt point, sampled pairs and self-interrupting nodes, each history in one form (Invoke only / Stream only, sometimes entered through Collect/Transform), with and without checkpoint id: every call finishes or returns an extractable interrupt, one Set iff interrupted, no store access without id, info lists consistent with configuration and log, state carried iff declared and owned by that graph, interrupt-before nodes run only after being reported. PLUS a sub-workload 'run inside a node' (the last 12 (quick) / 30 (thorough) cases of every shard, inside_node_test.go): generated specs x sampled plans of <=2 interrupt points (and self-interrupting nodes), compiled with their own store and driven to completion with WithCheckPointID by code that executes inside a node of another running graph and passes on the context it was handed - a Lambda (four forms), a tool of a ToolsNode (invokable / streamable), a callback handler (start / end) - in a Graph (both trigger modes), a Chain or a Workflow, 1-2 outer nesting levels, outer run by Invoke or Stream, one outer run per call or the whole history inside one node execution: the same trace monitor, plus: the history completes, no resumed call executes a body on the resume call's input, the store holds the checkpoint under the supplied id and nothing else.",
		[]string{"what a resumed run computes is C05's business; here only the interrupt protocol is judged"},
		300)
	defer func() {
		if err := rep.Flush(); err != nil {
			t.Fatalf("flush: %v", err)
		}
	}()
	gspec.EnableInterruptHook()
	ctx := context.Background()
	n := int64(cfg.Pick(60, 240))
	// the last cases of every shard belong to the typed sub-workload (typed_test.go)
	rep.Require("typed_interrupt_infos_checked", 50)
	// ... and the cases after those to the histories driven from inside a node of another graph (inside_node_test.go)
	rep.Require("inside_node_interrupts_checked", 200)
	rep.Require("inside_node_resumes_checked", 200)
	nt := typedCasesPerShard(cfg)
	rep.Cases(n+nt+insideNodeCasesPerShard(cfg), func(idx int64, rng *mon.Rand) {
		if idx >= n+nt {
			insideNodeCase(ctx, rep, rng, cfg, idx-n-nt)
			return
		}
		if idx >= n {
			typedCase(ctx, rep, rng, cfg, idx-n)
			return
		}
		mode := gspec.Mode(idx % 3)
		spec := gspec.Gen(rng, genOpts(rng, cfg, mode))
		addReruns(rng, spec)
		specCase(ctx, rep, rng, cfg, spec, idx < 2)
	})
}

func specCase(ctx context.Context, rep *mon.Reporter, rng *mon.Rand, cfg mon.Config, spec *gspec.GraphSpec, sample bool) {
	in := gspec.V{"in": rng.Str(1, 5)}
	ref := gspec.EvalGraph(spec, in, nil)
	if ref.Err != "" {
		rep.Count("skipped_reference_fails_"+ref.Err, 1)
		return
	}
	rep.Distinct("shapes", spec.Shape())
	pts := gspec.AllPoints(spec)
	ps := plans(pts, cfg.Pick(2, 3))
	limit := cfg.Pick(150, 400)
	if len(ps) > limit {
		var keep, rest []gspec.Plan
		for _, p := range ps {
			if len(p) <= 1 {
				keep = append(keep, p)
			} else {
				rest = append(rest, p)
			}
		}
		perm := rng.Perm(len(rest))
		for i := 0; len(keep) < limit && i < len(rest); i++ {
			keep = append(keep, rest[perm[i]])
		}
		ps = keep
	}
	for pi, plan := range ps {
		paras := []string{"I"}
		if pi%4 == 3 {
			paras = []string{"S"}
		}
		onePlan(ctx, rep, spec, in, ref, plan, paras, true, sample && pi == 0)
		if pi%7 == 0 {
			onePlan(ctx, rep, spec, in, ref, plan, paras, false, false) // without checkpoint id
		}
	}
}

// graphPaths: graph name -> chain of sub-graph node keys from the top level
func graphPaths(g *gspec.GraphSpec, prefix []string, out map[string][]string, specs map[string]*gspec.GraphSpec) {
	out[g.Name] = append([]string(nil), prefix...)
	specs[g.Name] = g
	for i := range g.Nodes {
		if g.Nodes[i].Sub != nil {
			graphPaths(g.Nodes[i].Sub, append(append([]string(nil), prefix...), g.Nodes[i].Key), out, specs)
		}
	}
}

func infoAt(info *compose.InterruptInfo, path []string) *compose.InterruptInfo {
	cur := info
	for _, k := range path {
		if cur == nil {
			return nil
		}
		cur = cur.SubGraphs[k]
	}
	return cur
}

func contains(xs []string, x string) bool {
	for _, y := range xs {
		if y == x {
			return true
		}
	}
	return false
}

func isRerunAbort(e gspec.Exec) bool { return strings.Contains(e.Err, "interrupt and rerun") }

func startSuccessor(g *gspec.GraphSpec, node string) bool {
	for _, e := range g.Edges {
		if e.From == gspec.START && e.To == node {
			return true
		}
	}
	for _, b := range g.Branches {
		if b.From == gspec.START && contains(b.Targets, node) {
			return true
		}
	}
	return false
}

func onePlan(ctx context.Context, rep *mon.Reporter, spec *gspec.GraphSpec, in gspec.V, ref *gspec.RefResult, plan gspec.Plan, paras []string, withID bool, sample bool) {
	ps := gspec.ApplyPlan(spec, plan)
	store := gspec.NewByteStore()
	r, err := gspec.Build(ctx, ps, gspec.BuildOpts{Store: store})
	if err != nil {
		rep.Violation(ID+"/build-error/with-interrupts", err.Error(), map[string]any{"spec": ps, "plan": plan.String()})
		return
	}
	maxCalls := 4*(len(ref.Execs)+len(plan)+2) + 4
	h := gspec.RunHistory(ctx, ps, r, store, in, plan, gspec.HistoryOpts{Paras: paras, CheckPoint: withID, MaxCalls: maxCalls})
	rep.Count("plans_run", 1)
	judgeHistory(rep, ID, ps, spec, in, ref, plan, paras, withID, h, sample, nil)
}

// judgeHistory applies the trace monitor to one history of calls on the plan-applied spec ps. pfx is the
// prefix of the violation signatures (ID for top-level runs); more is added to the witness and the detail.
func judgeHistory(rep *mon.Reporter, pfx string, ps, spec *gspec.GraphSpec, in gspec.V, ref *gspec.RefResult, plan gspec.Plan, paras []string, withID bool, h *gspec.History, sample bool, more map[string]any) bool {
	ID := pfx // every signature below starts with the prefix
	rep.AddEvaluations(int64(len(h.Calls)))
	wit := map[string]any{"spec": ps, "input": in, "plan": plan.String(), "paradigms": paras, "with_checkpoint_id": withID}
	for k, v := range more {
		wit[k] = v
	}
	extra := func() string {
		s := fmt.Sprintf("input=%s paradigms=%v checkpoint-id=%v\nreference (uninterrupted): %s\n%s", gspec.Canon(in), paras, withID, ref.String(), h.Render())
		if len(more) > 0 {
			s = fmt.Sprintf("%s\n%s", gspec.Canon(more), s)
		}
		return s
	}
	if h.Stuck != "" {
		rep.Violation(ID+"/hang/"+h.Stuck, "a call of the history can never finish\n"+h.StuckDetail+"\n"+extra(), wit)
		return false
	}
	if h.Inconclusive {
		rep.Inconclusive("watchdog fired while goroutines were active")
		return false
	}
	paths := map[string][]string{}
	specs := map[string]*gspec.GraphSpec{}
	graphPaths(ps, nil, paths, specs)
	owner := map[string]string{} // node key -> graph name
	for name, g := range specs {
		for _, n := range g.Nodes {
			owner[n.Key] = name
		}
	}
	lastVal := map[int64]int64{}
	for j, c := range h.Calls {
		rep.Count("calls_checked", 1)
		// ---- (3) interrupt errors are extractable
		if !c.Interrupted && c.Out.Err != nil && gspec.IsInterruptErrorText(c.Out.Err) {
			rep.Violation(ID+"/interrupt-not-extractable", "the call failed with an interrupt from which ExtractInterruptInfo yields nothing: "+c.Out.Err.Error()+"\n"+extra(), wit)
			return false
		}
		// nothing in these histories is made to fail and the uninterrupted reference succeeds: a call
		// either finishes the run or stops at an interrupt point, and then it must return the interrupt
		if !c.Interrupted && (c.Out.Err != nil || c.Out.Panic != nil) {
			rep.Violation(ID+"/call-failed-instead-of-returning-an-interrupt", fmt.Sprintf("call %d (paradigm %s) neither finished the run nor returned an error from which the interrupt information can be extracted: err=%v panic=%v\n%s", j, c.Para, c.Out.Err, c.Out.Panic, extra()), wit)
			return false
		}
		// ---- (4) store accesses
		if withID {
			if c.Interrupted && c.StoreSets != 1 {
				rep.Violation(ID+"/store/sets-on-interrupt", fmt.Sprintf("call %d returned an interrupt but wrote the checkpoint %d times\n%s", j, c.StoreSets, extra()), wit)
				return false
			}
			if !c.Interrupted && c.StoreSets != 0 {
				rep.Violation(ID+"/store/set-without-interrupt", fmt.Sprintf("call %d did not return an interrupt but wrote a checkpoint (%d Set)\n%s", j, c.StoreSets, extra()), wit)
				return false
			}
		} else if c.StoreSets != 0 || c.StoreGets != 0 {
			rep.Violation(ID+"/store/access-without-id", fmt.Sprintf("no checkpoint id was supplied but the store was accessed (sets=%d gets=%d)\n%s", c.StoreSets, c.StoreGets, extra()), wit)
			return false
		}
		rep.Count("store_access_checks", 1)
		// ---- (1) interrupt-before
		perNode := map[string]int{}
		for _, e := range c.Execs {
			g := specs[owner[e.Node]]
			if g == nil || !contains(g.IntBefore, e.Node) {
				continue
			}
			perNode[e.Node]++
			okPrev := false
			if j > 0 && h.Calls[j-1].Interrupted {
				// reported as about to start, or as a node that asked to be interrupted and is now re-run
				if inf := infoAt(h.Calls[j-1].Info, paths[g.Name]); inf != nil && (contains(inf.BeforeNodes, e.Node) || contains(inf.RerunNodes, e.Node)) {
					okPrev = true
				}
			}
			if !okPrev || perNode[e.Node] > 1 {
				where := "other-position"
				if startSuccessor(g, e.Node) {
					where = "direct-successor-of-START"
				}
				if g.Name != "" {
					where += "/nested"
				}
				rep.Violation(ID+"/before-node-ran-without-interrupt/"+where, fmt.Sprintf("node %s is configured interrupt-before but began executing in call %d without a preceding interrupt that reported it (executions in this call: %d)\n%s", e.Path, j, perNode[e.Node], extra()), wit)
				return false
			}
			rep.Count("before_points_honoured", 1)
		}
		// Sub / passthrough nodes have no body: an interrupt-before sub-graph node is seen through its inner executions
		// ---- (2) interrupt-after
		for _, n := range c.HookNotes {
			rep.Violation(ID+"/after-node/successor-started", n+"\n"+extra(), wit)
			return false
		}
		for _, e := range c.Execs {
			g := specs[owner[e.Node]]
			if g == nil || !contains(g.IntAfter, e.Node) || !e.Done || e.Err != "" {
				continue
			}
			if g.Name != "" {
				// a nested graph may run several times within one call (loops): the info at its level may
				// belong to another execution of it; nested interrupt-after points are judged by the
				// task-hook monitor (no task started after the node was collected) and by C05
				continue
			}
			if c.Out.Err == nil && c.Out.Panic == nil {
				continue // the run finished with it
			}
			if !c.Interrupted {
				continue // failed for another reason: not judged here
			}
			inf := infoAt(c.Info, paths[g.Name])
			if inf == nil {
				continue // its own (nested) graph did not interrupt: that run finished with it
			}
			if !contains(inf.AfterNodes, e.Node) {
				rep.Violation(ID+"/after-node/not-reported", fmt.Sprintf("node %s (interrupt-after) completed in call %d, the call returned an interrupt, but the node is not in the after-list at its level\n%s", e.Path, j, extra()), wit)
				return false
			}
			rep.Count("after_points_honoured", 1)
		}
		// ---- (3) the info is consistent with configuration and log
		if c.Interrupted {
			if m := checkInfo(ps, c.Info, c, lastVal); m != "" {
				cl := m
				if i := strings.IndexByte(m, ':'); i > 0 {
					cl = m[:i]
				}
				rep.Violation(ID+"/info/"+cl, m+"\n"+extra(), wit)
				return false
			}
			rep.Count("interrupt_infos_checked", 1)
		}
		for _, s := range c.States {
			if s.Kind != "gen" {
				lastVal[s.Serial] = s.Val
			}
		}
	}
	if len(h.Calls) > 1 {
		d := spec.Digest() + "|" + gspec.Canon(in) + "|" + plan.String() + fmt.Sprint(paras, withID)
		if len(more) > 0 {
			d += "|" + gspec.Canon(more)
		}
		rep.NonTrivial(d)
	}
	if sample {
		rep.Sample(map[string]any{"spec": ps, "input": in, "plan": plan.String(), "history": h.Render()})
	}
	return true
}

// checkInfo validates one InterruptInfo against the configured spec (recursively).
func checkInfo(g *gspec.GraphSpec, info *compose.InterruptInfo, c gspec.CallRec, lastVal map[int64]int64) string {
	if info == nil {
		return "nil-info: interrupt info missing for graph " + g.Name
	}
	for _, n := range info.BeforeNodes {
		if !contains(g.IntBefore, n) {
			return fmt.Sprintf("before-list: graph %q reports %s which is not configured interrupt-before", g.Name, n)
		}
	}
	for _, n := range info.AfterNodes {
		if !contains(g.IntAfter, n) {
			return fmt.Sprintf("after-list: graph %q reports %s which is not configured interrupt-after", g.Name, n)
		}
		// it must have completed in this call (body nodes only)
		if nd := g.Node(n); nd != nil && nd.Kind != gspec.Sub && nd.Kind != gspec.Passthrough {
			ok := false
			for _, e := range c.Execs {
				// (in the stream forms a body call returns a lazily produced stream: "completed" means the call returned)
				if e.Node == n && e.Err == "" && (e.Done || c.Para != "I") {
					ok = true
				}
			}
			if !ok {
				return fmt.Sprintf("after-list: graph %q reports %s as completed but it did not complete in this call", g.Name, n)
			}
		}
	}
	var aborted []string
	for _, e := range c.Execs {
		if isRerunAbort(e) && g.Node(e.Node) != nil {
			aborted = append(aborted, e.Node)
		}
	}
	sort.Strings(aborted)
	rr := append([]string(nil), info.RerunNodes...)
	sort.Strings(rr)
	if strings.Join(aborted, ",") != strings.Join(rr, ",") {
		return fmt.Sprintf("rerun-list: graph %q reports rerun nodes %v but the nodes that asked to be interrupted in this call are %v", g.Name, rr, aborted)
	}
	for k, sub := range info.SubGraphs {
		nd := g.Node(k)
		if nd == nil || nd.Sub == nil {
			return fmt.Sprintf("subgraph-list: graph %q reports sub-graph %s which is not a graph node", g.Name, k)
		}
		if m := checkInfo(nd.Sub, sub, c, lastVal); m != "" {
			return m
		}
	}
	if len(info.BeforeNodes)+len(info.AfterNodes)+len(info.RerunNodes)+len(info.SubGraphs) == 0 {
		return fmt.Sprintf("empty: graph %q returned an interrupt that names no node", g.Name)
	}
	if g.State {
		st, ok := info.State.(*gspec.St)
		if !ok || st == nil {
			return fmt.Sprintf("state: graph %q has state but the interrupt info carries %T", g.Name, info.State)
		}
		// the reported state continues the handler history of that state object
		last := int64(-1)
		seen := false
		for _, s := range c.States {
			if s.Kind != "gen" && s.Serial == st.Serial {
				last, seen = s.Val, true
			}
		}
		if !seen {
			if v, ok := lastVal[st.Serial]; ok {
				last, seen = v, true
			}
		}
		if seen && st.Counter != last+1 {
			return fmt.Sprintf("state: graph %q: reported state has counter %d but its handlers were last entered at %d", g.Name, st.Counter, last)
		}
		if !seen && st.Counter != 0 {
			return fmt.Sprintf("state: graph %q: reported state has counter %d although no handler of it ever ran", g.Name, st.Counter)
		}
	}
	// (a nested graph without state of its own inherits its parent's through the context and reports
	// that one; the statement does not forbid it, so it is not judged)
	return ""
}
