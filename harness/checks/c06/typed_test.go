package c06

// Typed interrupt/resume workload, written directly against eino's public API.
//
// internal/gspec generates graphs whose node values are all map[string]any. Everything that depends on the
// *types* of the values that are pending, parked in a channel or kept in the state when a checkpoint is taken
// is invisible to it: structs behind field mappings, edges that are checked at run time (any -> T), interface
// typed outputs holding nil, nodes and nested graphs added WithInputKey, eino's own schema.Message values,
// state addressed by node path in deeply nested graphs. This file generates such graphs (typed spec -> real
// compose.Graph / compose.Workflow through a two-level generic dispatch), runs them to completion through
// interrupts and resumes over a byte-only store, and records what every call returned and every node body saw.
// The judge (typed_test.go) compares a history with the uninterrupted run of the same spec.
//
// This file does not refer to the property id: the same engine is used by check C06 (copy).

import (
	"context"
	"encoding/json"
	"errors"
	"fmt"
	"io"
	"sort"
	"strconv"
	"strings"
	"sync"
	"time"

	"github.com/cloudwego/eino/compose"
	"github.com/cloudwego/eino/schema"

	"verifharness/internal/gspec"
	"verifharness/internal/mon"
)

// ---------------------------------------------------------------- kinds and values

type kind int

const (
	kStr kind = iota
	kRec
	kPRec
	kAny
	kIface
	kMap
	kMsg
	kMsgs
	kJoin
	nKinds
)

var kindNames = [...]string{"string", "tRec", "*tRec", "any", "tIface", "map", "*Message", "[]*Message", "tJoin"}

func (k kind) String() string {
	if k < 0 || k >= nKinds {
		return "kind(" + strconv.Itoa(int(k)) + ")"
	}
	return kindNames[k]
}
func (k kind) MarshalText() ([]byte, error) { return []byte(k.String()), nil }
func (k kind) iface() bool                  { return k == kAny || k == kIface }
func (k kind) rec() bool                    { return k == kRec || k == kPRec }

type tSub struct{ Z string }

type tRec struct {
	F   string
	N   int
	Sub tSub
	L   []string
	P   *tSub
	A   any
}

// Tag makes tRec and *tRec implement tIface. It is never called on a value (a nil *tRec would panic).
func (r tRec) Tag() string { return "rec:" + r.F }

type tIface interface{ Tag() string }

// tJoin is the struct target of field mappings.
type tJoin struct {
	A0, A1, A2, AS any
	S0, S1, S2, SS string
}

// tState is the state type of every stateful graph of the workload.
type tState struct {
	Owner   string // node path of the graph that generated it ("" = top level), "/"-joined
	Counter int
	Log     []string
	Saved   map[string]any
	Mods    []string // paths the caller's state modifier was called with for this state
}

func init() {
	_ = compose.RegisterSerializableType[tSub]("verif_typed_sub")
	_ = compose.RegisterSerializableType[tRec]("verif_typed_rec")
	_ = compose.RegisterSerializableType[tIface]("verif_typed_iface")
	_ = compose.RegisterSerializableType[tJoin]("verif_typed_join")
	_ = compose.RegisterSerializableType[tState]("verif_typed_state")
	// several predecessors mapped onto the fields of one struct arrive as several chunks in the stream forms
	compose.RegisterStreamChunkConcatFunc(concatJoin)
}

// concatJoin merges the partial structs that several predecessors (and several chunks of one predecessor) give.
func concatJoin(items []tJoin) (tJoin, error) {
	var out tJoin
	var a [4][]any
	for _, it := range items {
		for i, v := range []any{it.A0, it.A1, it.A2, it.AS} {
			if v != nil {
				a[i] = append(a[i], v)
			}
		}
		out.S0 += it.S0
		out.S1 += it.S1
		out.S2 += it.S2
		out.SS += it.SS
	}
	for i, dst := range []*any{&out.A0, &out.A1, &out.A2, &out.AS} {
		if len(a[i]) == 0 {
			continue
		}
		v, err := concatAny(a[i])
		if err != nil {
			return out, err
		}
		*dst = v
	}
	return out, nil
}

// vd describes a value: its static kind and, below interface kinds and maps, what it holds.
type vd struct {
	K   kind   `json:"k"`
	Nil bool   `json:"nil,omitempty"` // interface kinds: the value is nil
	D   *vd    `json:"d,omitempty"`   // interface kinds: the dynamic value; kMap: the value under Key
	Key string `json:"key,omitempty"` // kMap
	// kMap: the map holds nothing but Key (a value wrapped by WithOutputKey); otherwise also "pad_"+Key
	NoPad bool `json:"no_pad,omitempty"`
	// Multi: the value may arrive in several chunks in the stream forms (strings and maps). eino cannot
	// concatenate chunks of an interface type, so such a value is only consumed by its exact type.
	Multi bool `json:"multi,omitempty"`
}

func (d vd) String() string {
	switch {
	case d.K.iface() && (d.Nil || d.D == nil):
		return d.K.String() + "(nil)"
	case d.K.iface():
		return d.K.String() + "(" + d.D.String() + ")"
	case d.K == kMap && d.D != nil:
		return "map{" + d.Key + ":" + d.D.String() + "}"
	}
	return d.K.String()
}

// dyn unwraps interface kinds: the description of the concrete value, nil for a nil value.
func (d vd) dyn() *vd {
	cur := &d
	for cur != nil && cur.K.iface() {
		if cur.Nil || cur.D == nil {
			return nil
		}
		cur = cur.D
	}
	return cur
}

func short(s string, n int) string {
	if len(s) > n {
		return s[:n]
	}
	return s
}

func mkRec(seed string) tRec {
	h := mon.HashStr(seed)
	r := tRec{F: seed, N: int(h % 1000), Sub: tSub{Z: "z" + short(seed, 6)}, L: []string{"l", short(seed, 4)}}
	if h&1 == 1 {
		r.P = &tSub{Z: "p" + short(seed, 3)}
	}
	switch (h >> 1) % 4 {
	case 1:
		r.A = "a" + short(seed, 3)
	case 2:
		r.A = tSub{Z: "a"}
	case 3:
		r.A = int(h % 17)
	}
	return r
}

func mkMsg(seed string) *schema.Message {
	h := mon.HashStr("msg" + seed)
	m := &schema.Message{Role: []schema.RoleType{schema.User, schema.Assistant, schema.System, schema.Tool}[h%4], Content: seed}
	bit := func(i uint) bool { return (h>>(8+i))&1 == 1 }
	if bit(0) {
		m.Name = "n" + short(seed, 3)
	}
	if bit(1) {
		m.MultiContent = append(m.MultiContent, schema.ChatMessagePart{Type: schema.ChatMessagePartTypeText, Text: "what is " + short(seed, 4)})
		if bit(2) {
			m.MultiContent = append(m.MultiContent, schema.ChatMessagePart{Type: schema.ChatMessagePartTypeImageURL,
				ImageURL: &schema.ChatMessageImageURL{URL: "http://x/" + short(seed, 3) + ".png", Detail: schema.ImageURLDetailAuto, MIMEType: "image/png"}})
		}
		if bit(3) {
			m.MultiContent = append(m.MultiContent, schema.ChatMessagePart{Type: schema.ChatMessagePartTypeAudioURL, AudioURL: &schema.ChatMessageAudioURL{URI: "a://" + short(seed, 3)}})
		}
		if bit(4) {
			m.MultiContent = append(m.MultiContent, schema.ChatMessagePart{Type: schema.ChatMessagePartTypeVideoURL, VideoURL: &schema.ChatMessageVideoURL{URL: "v", Extra: map[string]any{"fps": 24}}})
		}
		if bit(5) {
			m.MultiContent = append(m.MultiContent, schema.ChatMessagePart{Type: schema.ChatMessagePartTypeFileURL, FileURL: &schema.ChatMessageFileURL{URL: "f", Name: "doc.pdf"}})
		}
	}
	if bit(6) {
		idx := int(h % 3)
		m.ToolCalls = []schema.ToolCall{{Index: &idx, ID: "call" + short(seed, 3), Type: "function", Function: schema.FunctionCall{Name: "f", Arguments: `{"a":1}`}}}
		if bit(7) {
			m.ToolCalls = append(m.ToolCalls, schema.ToolCall{ID: "c2", Function: schema.FunctionCall{Name: "g"}, Extra: map[string]any{"k": "v"}})
		}
	}
	if bit(8) {
		m.ToolCallID = "tc" + short(seed, 2)
	}
	if bit(9) {
		m.ResponseMeta = &schema.ResponseMeta{FinishReason: "stop"}
		if bit(10) {
			m.ResponseMeta.Usage = &schema.TokenUsage{PromptTokens: int(h % 50), CompletionTokens: 3, TotalTokens: int(h%50) + 3}
		}
		if bit(11) {
			m.ResponseMeta.LogProbs = &schema.LogProbs{Content: []schema.LogProb{{Token: short(seed, 1), LogProb: -0.5, Bytes: []int64{97},
				TopLogProbs: []schema.TopLogProb{{Token: "a", LogProb: -0.5, Bytes: []int64{97, 98}}}}}}
		}
	}
	if bit(12) {
		m.Extra = map[string]any{"k": "v" + short(seed, 2), "n": int(h % 9)}
	}
	return m
}

// mk builds the value a description stands for; a pure function of (d, seed).
func mk(d vd, seed string) any {
	switch d.K {
	case kStr:
		return seed
	case kRec:
		return mkRec(seed)
	case kPRec:
		r := mkRec(seed)
		return &r
	case kAny, kIface:
		if d.Nil || d.D == nil {
			return nil
		}
		return mk(*d.D, seed)
	case kMap:
		m := map[string]any{}
		if !d.NoPad {
			m["pad_"+d.Key] = "p" + short(seed, 8)
		}
		if d.D != nil {
			m[d.Key] = mk(*d.D, seed+"."+d.Key)
		}
		return m
	case kMsg:
		return mkMsg(seed)
	case kMsgs:
		n := 1 + int(mon.HashStr(seed)%3)
		var out []*schema.Message
		for i := 0; i < n; i++ {
			out = append(out, mkMsg(seed+strconv.Itoa(i)))
		}
		return out
	case kJoin:
		return tJoin{SS: seed}
	}
	panic("verif: mk of " + d.K.String())
}

// render is the canonical text of a value (what executions and outputs are compared by).
func render(v any) string {
	switch x := v.(type) {
	case nil:
		return "nil"
	case string:
		return strconv.Quote(x)
	case int:
		return "int(" + strconv.Itoa(x) + ")"
	case tSub:
		return "sub{" + x.Z + "}"
	case *tSub:
		if x == nil {
			return "(*sub)nil"
		}
		return "&sub{" + x.Z + "}"
	case tRec:
		return fmt.Sprintf("rec{F:%q N:%d Sub:%s L:%q P:%s A:%s}", x.F, x.N, x.Sub.Z, x.L, render(x.P), render(x.A))
	case *tRec:
		if x == nil {
			return "(*rec)nil"
		}
		return "&" + render(*x)
	case tJoin:
		return fmt.Sprintf("join{A0:%s A1:%s A2:%s AS:%s S0:%q S1:%q S2:%q SS:%q}", render(x.A0), render(x.A1), render(x.A2), render(x.AS), x.S0, x.S1, x.S2, x.SS)
	case map[string]any:
		if x == nil {
			return "map(nil)"
		}
		var b strings.Builder
		b.WriteString("map{")
		for i, k := range mon.SortedKeys(x) {
			if i > 0 {
				b.WriteString(" ")
			}
			b.WriteString(k + ":" + render(x[k]))
		}
		b.WriteString("}")
		return b.String()
	case []string:
		return fmt.Sprintf("%q", x)
	case *schema.Message:
		if x == nil {
			return "(*msg)nil"
		}
		j, _ := json.Marshal(x)
		return "msg" + string(j)
	case []*schema.Message:
		parts := make([]string, len(x))
		for i, m := range x {
			parts[i] = render(m)
		}
		return "msgs[" + strings.Join(parts, ",") + "]"
	case schema.RoleType:
		return "role(" + string(x) + ")"
	}
	return fmt.Sprintf("%T(%#v)", v, v)
}

// splitChunks cuts a value into at most n chunks that concatenate back to it (strings and maps only).
func splitChunks(v any, n int) []any {
	if n <= 1 {
		return []any{v}
	}
	switch x := v.(type) {
	case string:
		if len(x) < 2 {
			return []any{v}
		}
		if n > len(x) {
			n = len(x)
		}
		var out []any
		step := (len(x) + n - 1) / n
		for i := 0; i < len(x); i += step {
			j := i + step
			if j > len(x) {
				j = len(x)
			}
			out = append(out, x[i:j])
		}
		return out
	case map[string]any:
		if len(x) < 2 {
			return []any{v}
		}
		var out []any
		for _, k := range mon.SortedKeys(x) {
			out = append(out, map[string]any{k: x[k]})
		}
		return out
	}
	return []any{v}
}

var errNoChunk = errors.New("verif: stream without a chunk")

// concatAny is the harness's own concatenation of chunks.
func concatAny(chunks []any) (any, error) {
	if len(chunks) == 0 {
		return nil, errNoChunk
	}
	if len(chunks) == 1 {
		return chunks[0], nil
	}
	allStr, allMap, allJoin := true, true, true
	for _, c := range chunks {
		if _, ok := c.(tJoin); !ok {
			allJoin = false
		}
		if _, ok := c.(string); !ok {
			allStr = false
		}
		if _, ok := c.(map[string]any); !ok {
			allMap = false
		}
	}
	switch {
	case allJoin:
		js := make([]tJoin, len(chunks))
		for i, c := range chunks {
			js[i] = c.(tJoin)
		}
		return concatJoin(js)
	case allStr:
		var b strings.Builder
		for _, c := range chunks {
			b.WriteString(c.(string))
		}
		return b.String(), nil
	case allMap:
		parts := map[string][]any{}
		for _, c := range chunks {
			for k, v := range c.(map[string]any) {
				parts[k] = append(parts[k], v)
			}
		}
		out := map[string]any{}
		for k, vs := range parts {
			var nn []any
			for _, v := range vs {
				if v != nil {
					nn = append(nn, v)
				}
			}
			if len(nn) == 0 {
				out[k] = nil
				continue
			}
			v, err := concatAny(nn)
			if err != nil {
				return nil, err
			}
			out[k] = v
		}
		return out, nil
	}
	// at most one non-zero chunk (struct targets of field mappings are registered with a concat function and
	// are concatenated by eino before the harness sees them)
	var rs []string
	for _, c := range chunks {
		rs = append(rs, render(c))
	}
	return nil, fmt.Errorf("verif: cannot concatenate %d chunks: %v", len(chunks), rs)
}

// ---------------------------------------------------------------- spec

type tEdge struct {
	From string   `json:"from"`
	Mode string   `json:"mode"`          // whole | field | ctrl
	Src  []string `json:"src,omitempty"` // field path in the predecessor's output (empty: whole output)
	Dst  []string `json:"dst,omitempty"` // field path in this node's input (empty: whole input)
	Rel  string   `json:"rel,omitempty"` // exact | upcast | rtcheck | fieldmap | ctrl (what the edge does to the type)
}

type tNode struct {
	Key        string  `json:"key"`
	Form       string  `json:"form"` // i s c t (lambda forms), g (nested graph)
	In         kind    `json:"in"`   // input type of the lambda (below the input key, if any)
	Out        vd      `json:"out"`  // output (below the output key, if any)
	InputKey   string  `json:"input_key,omitempty"`
	OutputKey  string  `json:"output_key,omitempty"`
	Rerun      string  `json:"rerun,omitempty"` // pre: pre-handler rebuilds the input from state; self: the body keeps its input in the state; const: the body ignores its input
	Pre        bool    `json:"pre,omitempty"`
	Post       bool    `json:"post,omitempty"`
	ReadsState bool    `json:"reads_state,omitempty"`
	Chunks     int     `json:"chunks,omitempty"`
	Sub        *tGraph `json:"sub,omitempty"`
	Inputs     []tEdge `json:"inputs"`
	Lane       int     `json:"lane"`
}

// multi: the lambda hands its output over in several chunks.
func (n *tNode) multi() bool {
	return n.Sub == nil && n.Chunks > 1 && (n.Form == "s" || n.Form == "t") && (n.Out.K == kStr || n.Out.K == kMap)
}

// eff is the output as the successors see it.
func (n *tNode) eff() vd {
	if n.OutputKey != "" {
		o := n.Out
		return vd{K: kMap, Key: n.OutputKey, D: &o, NoPad: true, Multi: o.Multi}
	}
	return n.Out
}

type tGraph struct {
	Name  string  `json:"name"` // key of the graph node ("" = top level)
	Path  string  `json:"path"` // node path from the top level, "/"-joined
	Mode  string  `json:"mode"` // pregel | dag | workflow
	In    vd      `json:"in"`
	Out   vd      `json:"out"`
	State bool    `json:"state,omitempty"`
	Nodes []tNode `json:"nodes"`
	End   []tEdge `json:"end"`
}

func (g *tGraph) walk(fn func(g *tGraph)) {
	fn(g)
	for i := range g.Nodes {
		if g.Nodes[i].Sub != nil {
			g.Nodes[i].Sub.walk(fn)
		}
	}
}

func (g *tGraph) digest() string {
	b, _ := json.Marshal(g)
	return mon.H8(string(b))
}

func (g *tGraph) bodies() int {
	n := 0
	g.walk(func(x *tGraph) {
		for i := range x.Nodes {
			if x.Nodes[i].Sub == nil {
				n++
			}
		}
	})
	return n
}

func (g *tGraph) depth() int {
	d := 0
	for i := range g.Nodes {
		if s := g.Nodes[i].Sub; s != nil {
			if x := 1 + s.depth(); x > d {
				d = x
			}
		}
	}
	return d
}

type tPoint struct {
	Graph string `json:"graph"`
	Node  string `json:"node"`
	After bool   `json:"after"`
}

type tPlan []tPoint

func (p tPlan) String() string {
	var s []string
	for _, x := range p {
		w := "before"
		if x.After {
			w = "after"
		}
		s = append(s, w+":"+x.Graph+"/"+x.Node)
	}
	return strings.Join(s, ",")
}

func allTypedPoints(g *tGraph) []tPoint {
	var out []tPoint
	g.walk(func(x *tGraph) {
		for i := range x.Nodes {
			out = append(out, tPoint{Graph: x.Name, Node: x.Nodes[i].Key}, tPoint{Graph: x.Name, Node: x.Nodes[i].Key, After: true})
		}
	})
	return out
}

// ---------------------------------------------------------------- run-time context of a history

type tExec struct {
	Key     string
	In      string
	Aborted bool // the attempt of a node that asked to be interrupted and re-run
	Call    int
}

type tMod struct {
	Call  int
	Path  string
	Owner string
	Type  string
}

type tStateSeen struct {
	Owner string
	Mods  []string
}

type hist struct {
	mu           sync.Mutex
	execs        []tExec
	rerunEnabled bool
	rerunSeen    map[string]bool
	mods         []tMod
	seen         []tStateSeen
	call         int
}

type histKey struct{}

func withHist(ctx context.Context, h *hist) context.Context {
	return context.WithValue(ctx, histKey{}, h)
}
func histFrom(ctx context.Context) *hist { h, _ := ctx.Value(histKey{}).(*hist); return h }

func (h *hist) log(e tExec) {
	h.mu.Lock()
	e.Call = h.call
	h.execs = append(h.execs, e)
	h.mu.Unlock()
}

// firstAttempt reports (once per history and node) that the node still has to ask for its interrupt.
func (h *hist) firstAttempt(key string) bool {
	h.mu.Lock()
	defer h.mu.Unlock()
	if !h.rerunEnabled || h.rerunSeen[key] {
		return false
	}
	h.rerunSeen[key] = true
	return true
}

// nodeBody is the type-erased body of every lambda of the workload.
func nodeBody(ctx context.Context, n *tNode, stateful bool, in any) (any, error) {
	h := histFrom(ctx)
	if h == nil {
		return nil, errors.New("verif: node body without history context")
	}
	if n.Rerun != "" {
		if h.firstAttempt(n.Key) {
			if n.Rerun == "self" {
				if err := compose.ProcessState[*tState](ctx, func(_ context.Context, st *tState) error {
					if st.Saved == nil {
						st.Saved = map[string]any{}
					}
					st.Saved["self:"+n.Key] = in
					return nil
				}); err != nil {
					return nil, err
				}
			}
			h.log(tExec{Key: n.Key, In: render(in), Aborted: true})
			return nil, compose.InterruptAndRerun
		}
		if n.Rerun == "self" {
			h.mu.Lock()
			enabled := h.rerunEnabled
			h.mu.Unlock()
			if enabled {
				if err := compose.ProcessState[*tState](ctx, func(_ context.Context, st *tState) error {
					in = st.Saved["self:"+n.Key]
					return nil
				}); err != nil {
					return nil, err
				}
			}
		}
	}
	s := render(in)
	if n.Rerun == "const" {
		s = "const"
	}
	if n.ReadsState && stateful {
		if err := compose.ProcessState[*tState](ctx, func(_ context.Context, st *tState) error {
			lg := append([]string(nil), st.Log...)
			sort.Strings(lg)
			s += fmt.Sprintf("|state{owner=%s counter=%d log=%v}", st.Owner, st.Counter, lg)
			h.mu.Lock()
			h.seen = append(h.seen, tStateSeen{Owner: st.Owner, Mods: append([]string(nil), st.Mods...)})
			h.mu.Unlock()
			return nil
		}); err != nil {
			return nil, err
		}
	}
	h.log(tExec{Key: n.Key, In: s})
	return mk(n.Out, n.Key+":"+mon.H8(s)), nil
}

// ---------------------------------------------------------------- generic dispatch: spec -> compose objects

type graphAPI interface {
	AddLambdaNode(key string, node *compose.Lambda, opts ...compose.GraphAddNodeOpt) error
	AddGraphNode(key string, node compose.AnyGraph, opts ...compose.GraphAddNodeOpt) error
	AddEdge(startNode, endNode string) error
}

type workflowAPI interface {
	AddLambdaNode(key string, lambda *compose.Lambda, opts ...compose.GraphAddNodeOpt) *compose.WorkflowNode
	AddGraphNode(key string, graph compose.AnyGraph, opts ...compose.GraphAddNodeOpt) *compose.WorkflowNode
	End() *compose.WorkflowNode
}

type tRunner interface {
	call(ctx context.Context, para string, in any, chunks int, opts ...compose.Option) (any, int, error)
}

type compileFn func(ctx context.Context, opts ...compose.GraphCompileOption) (tRunner, error)

type tyAPI interface {
	lambda(out kind, n *tNode, stateful bool) *compose.Lambda
	graph(out kind, opts ...compose.NewGraphOption) (graphAPI, compose.AnyGraph, compileFn)
	workflow(out kind, opts ...compose.NewGraphOption) (workflowAPI, compose.AnyGraph, compileFn)
	pre(n *tNode) compose.GraphAddNodeOpt
	post(n *tNode) compose.GraphAddNodeOpt
}

type tyOf[T any] struct{}

var tys = map[kind]tyAPI{
	kStr: tyOf[string]{}, kRec: tyOf[tRec]{}, kPRec: tyOf[*tRec]{}, kAny: tyOf[any]{}, kIface: tyOf[tIface]{},
	kMap: tyOf[map[string]any]{}, kMsg: tyOf[*schema.Message]{}, kMsgs: tyOf[[]*schema.Message]{}, kJoin: tyOf[tJoin]{},
}

func (tyOf[T]) lambda(out kind, n *tNode, stateful bool) *compose.Lambda {
	switch out {
	case kStr:
		return mkLambda[T, string](n, stateful)
	case kRec:
		return mkLambda[T, tRec](n, stateful)
	case kPRec:
		return mkLambda[T, *tRec](n, stateful)
	case kAny:
		return mkLambda[T, any](n, stateful)
	case kIface:
		return mkLambda[T, tIface](n, stateful)
	case kMap:
		return mkLambda[T, map[string]any](n, stateful)
	case kMsg:
		return mkLambda[T, *schema.Message](n, stateful)
	case kMsgs:
		return mkLambda[T, []*schema.Message](n, stateful)
	case kJoin:
		return mkLambda[T, tJoin](n, stateful)
	}
	panic("verif: lambda out kind")
}

func (tyOf[T]) graph(out kind, opts ...compose.NewGraphOption) (graphAPI, compose.AnyGraph, compileFn) {
	switch out {
	case kStr:
		return mkGraph[T, string](opts)
	case kRec:
		return mkGraph[T, tRec](opts)
	case kPRec:
		return mkGraph[T, *tRec](opts)
	case kAny:
		return mkGraph[T, any](opts)
	case kIface:
		return mkGraph[T, tIface](opts)
	case kMap:
		return mkGraph[T, map[string]any](opts)
	case kMsg:
		return mkGraph[T, *schema.Message](opts)
	case kMsgs:
		return mkGraph[T, []*schema.Message](opts)
	case kJoin:
		return mkGraph[T, tJoin](opts)
	}
	panic("verif: graph out kind")
}

func (tyOf[T]) workflow(out kind, opts ...compose.NewGraphOption) (workflowAPI, compose.AnyGraph, compileFn) {
	switch out {
	case kStr:
		return mkWorkflow[T, string](opts)
	case kRec:
		return mkWorkflow[T, tRec](opts)
	case kPRec:
		return mkWorkflow[T, *tRec](opts)
	case kAny:
		return mkWorkflow[T, any](opts)
	case kIface:
		return mkWorkflow[T, tIface](opts)
	case kMap:
		return mkWorkflow[T, map[string]any](opts)
	case kMsg:
		return mkWorkflow[T, *schema.Message](opts)
	case kMsgs:
		return mkWorkflow[T, []*schema.Message](opts)
	case kJoin:
		return mkWorkflow[T, tJoin](opts)
	}
	panic("verif: workflow out kind")
}

// pre: state pre-handler on values of type T. Counts, and for rerun nodes of style "pre" keeps the input in the
// state on the first attempt and rebuilds it from there on the re-run (which is not counted a second time).
func (tyOf[T]) pre(n *tNode) compose.GraphAddNodeOpt {
	key, style := n.Key, n.Rerun
	return compose.WithStatePreHandler(func(ctx context.Context, in T, st *tState) (T, error) {
		if style != "" {
			// the pre-handler of a node that asked to be re-run runs again on the re-run: it is counted once
			if v, ok := st.Saved["pre:"+key]; ok {
				if style == "pre" {
					r, _ := v.(T)
					return r, nil
				}
				return in, nil
			}
			if st.Saved == nil {
				st.Saved = map[string]any{}
			}
			if style == "pre" {
				st.Saved["pre:"+key] = in
			} else {
				st.Saved["pre:"+key] = true
			}
		}
		st.Counter++
		st.Log = append(st.Log, "pre:"+key)
		return in, nil
	})
}

func (tyOf[T]) post(n *tNode) compose.GraphAddNodeOpt {
	key := n.Key
	return compose.WithStatePostHandler(func(ctx context.Context, out T, st *tState) (T, error) {
		st.Counter++
		st.Log = append(st.Log, "post:"+key)
		return out, nil
	})
}

func castTo[T any](v any) T {
	t, ok := v.(T)
	if !ok && v != nil {
		panic(fmt.Sprintf("verif: harness value %s is not a %T", render(v), t))
	}
	return t
}

func readChunks[T any](sr *schema.StreamReader[T]) ([]any, error) {
	defer sr.Close()
	var out []any
	for {
		c, err := sr.Recv()
		if err == io.EOF {
			return out, nil
		}
		if err != nil {
			return out, err
		}
		out = append(out, any(c))
	}
}

func toStream[T any](v any, n int) *schema.StreamReader[T] {
	parts := splitChunks(v, n)
	out := make([]T, len(parts))
	for i, p := range parts {
		out[i] = castTo[T](p)
	}
	return schema.StreamReaderFromArray(out)
}

func mkLambda[I, O any](n *tNode, stateful bool) *compose.Lambda {
	tolerant := n.Rerun == "self" || n.Rerun == "const" // re-run without a pre-handler: the placeholder input may be an empty stream
	body := func(ctx context.Context, in any) (O, error) {
		var zero O
		v, err := nodeBody(ctx, n, stateful, in)
		if err != nil {
			return zero, err
		}
		return castTo[O](v), nil
	}
	collect := func(sr *schema.StreamReader[I]) (any, error) {
		chunks, err := readChunks(sr)
		if err != nil {
			return nil, err
		}
		if len(chunks) == 0 && tolerant {
			var zero I
			return any(zero), nil
		}
		return concatAny(chunks)
	}
	switch n.Form {
	case "i":
		return compose.InvokableLambda(func(ctx context.Context, in I) (O, error) { return body(ctx, any(in)) })
	case "s":
		return compose.StreamableLambda(func(ctx context.Context, in I) (*schema.StreamReader[O], error) {
			o, err := body(ctx, any(in))
			if err != nil {
				return nil, err
			}
			return toStream[O](any(o), n.Chunks), nil
		})
	case "c":
		return compose.CollectableLambda(func(ctx context.Context, sr *schema.StreamReader[I]) (O, error) {
			in, err := collect(sr)
			if err != nil {
				var zero O
				return zero, err
			}
			return body(ctx, in)
		})
	case "t":
		return compose.TransformableLambda(func(ctx context.Context, sr *schema.StreamReader[I]) (*schema.StreamReader[O], error) {
			in, err := collect(sr)
			if err != nil {
				return nil, err
			}
			o, err := body(ctx, in)
			if err != nil {
				return nil, err
			}
			return toStream[O](any(o), n.Chunks), nil
		})
	}
	panic("verif: lambda form " + n.Form)
}

type runnerOf[I, O any] struct{ r compose.Runnable[I, O] }

func (x runnerOf[I, O]) call(ctx context.Context, para string, in any, chunks int, opts ...compose.Option) (any, int, error) {
	switch para {
	case "I":
		o, err := x.r.Invoke(ctx, castTo[I](in), opts...)
		if err != nil {
			return nil, 0, err
		}
		return any(o), 1, nil
	case "S", "T":
		var sr *schema.StreamReader[O]
		var err error
		if para == "S" {
			sr, err = x.r.Stream(ctx, castTo[I](in), opts...)
		} else {
			sr, err = x.r.Transform(ctx, toStream[I](in, chunks), opts...)
		}
		if err != nil {
			return nil, 0, err
		}
		cs, err := readChunks(sr)
		if err != nil {
			return nil, len(cs), err
		}
		v, err := concatAny(cs)
		return v, len(cs), err
	case "C":
		o, err := x.r.Collect(ctx, toStream[I](in, chunks), opts...)
		if err != nil {
			return nil, 0, err
		}
		return any(o), 1, nil
	}
	return nil, 0, fmt.Errorf("verif: paradigm %q", para)
}

func mkGraph[I, O any](opts []compose.NewGraphOption) (graphAPI, compose.AnyGraph, compileFn) {
	g := compose.NewGraph[I, O](opts...)
	return g, g, func(ctx context.Context, co ...compose.GraphCompileOption) (tRunner, error) {
		r, err := g.Compile(ctx, co...)
		if err != nil {
			return nil, err
		}
		return runnerOf[I, O]{r}, nil
	}
}

func mkWorkflow[I, O any](opts []compose.NewGraphOption) (workflowAPI, compose.AnyGraph, compileFn) {
	w := compose.NewWorkflow[I, O](opts...)
	return w, w, func(ctx context.Context, co ...compose.GraphCompileOption) (tRunner, error) {
		r, err := w.Compile(ctx, co...)
		if err != nil {
			return nil, err
		}
		return runnerOf[I, O]{r}, nil
	}
}

// ---------------------------------------------------------------- builder

type buildEnv struct {
	plan tPlan // nil: no interrupt points
}

func (e *buildEnv) points(g *tGraph) (before, after []string) {
	for _, p := range e.plan {
		if p.Graph == g.Name {
			if p.After {
				after = append(after, p.Node)
			} else {
				before = append(before, p.Node)
			}
		}
	}
	return
}

func (e *buildEnv) compileOpts(g *tGraph) []compose.GraphCompileOption {
	var co []compose.GraphCompileOption
	if g.Mode == "dag" {
		co = append(co, compose.WithNodeTriggerMode(compose.AllPredecessor))
	}
	b, a := e.points(g)
	if len(b) > 0 {
		co = append(co, compose.WithInterruptBeforeNodes(b))
	}
	if len(a) > 0 {
		co = append(co, compose.WithInterruptAfterNodes(a))
	}
	return co
}

func mapping(ed tEdge) *compose.FieldMapping {
	switch {
	case len(ed.Src) > 0 && len(ed.Dst) > 0:
		return compose.MapFieldPaths(compose.FieldPath(ed.Src), compose.FieldPath(ed.Dst))
	case len(ed.Src) > 0:
		return compose.FromFieldPath(compose.FieldPath(ed.Src))
	default:
		return compose.ToFieldPath(compose.FieldPath(ed.Dst))
	}
}

func (e *buildEnv) nodeOpts(g *tGraph, n *tNode) []compose.GraphAddNodeOpt {
	var opts []compose.GraphAddNodeOpt
	inK, outK := n.In, n.Out.K
	if n.InputKey != "" {
		opts = append(opts, compose.WithInputKey(n.InputKey))
		inK = kMap
	}
	if n.OutputKey != "" {
		opts = append(opts, compose.WithOutputKey(n.OutputKey))
		outK = kMap
	}
	if g.State && (n.Pre || n.Rerun == "pre") {
		opts = append(opts, tys[inK].pre(n))
	}
	if g.State && n.Post {
		opts = append(opts, tys[outK].post(n))
	}
	if n.Sub != nil {
		opts = append(opts, compose.WithGraphCompileOptions(e.compileOpts(n.Sub)...))
	}
	return opts
}

func (e *buildEnv) build(g *tGraph) (compose.AnyGraph, compileFn, error) {
	var ngo []compose.NewGraphOption
	if g.State {
		owner := g.Path
		ngo = append(ngo, compose.WithGenLocalState(func(ctx context.Context) *tState { return &tState{Owner: owner} }))
	}
	addNode := func(n *tNode, lambda func(*compose.Lambda, []compose.GraphAddNodeOpt) error, graph func(compose.AnyGraph, []compose.GraphAddNodeOpt) error) error {
		opts := e.nodeOpts(g, n)
		if n.Sub != nil {
			ag, _, err := e.build(n.Sub)
			if err != nil {
				return err
			}
			return graph(ag, opts)
		}
		return lambda(tys[n.In].lambda(n.Out.K, n, g.State), opts)
	}
	if g.Mode == "workflow" {
		w, ag, cf := tys[g.In.K].workflow(g.Out.K, ngo...)
		wire := func(wn *compose.WorkflowNode, ins []tEdge) {
			// the mappings of one predecessor are declared together
			var order []string
			by := map[string][]tEdge{}
			for _, ed := range ins {
				if _, ok := by[ed.From]; !ok {
					order = append(order, ed.From)
				}
				by[ed.From] = append(by[ed.From], ed)
			}
			for _, from := range order {
				eds := by[from]
				switch eds[0].Mode {
				case "ctrl":
					wn.AddDependency(from)
				case "whole":
					wn.AddInput(from)
				default:
					var ms []*compose.FieldMapping
					for _, ed := range eds {
						ms = append(ms, mapping(ed))
					}
					wn.AddInput(from, ms...)
				}
			}
		}
		for i := range g.Nodes {
			n := &g.Nodes[i]
			var wn *compose.WorkflowNode
			err := addNode(n,
				func(l *compose.Lambda, o []compose.GraphAddNodeOpt) error {
					wn = w.AddLambdaNode(n.Key, l, o...)
					return nil
				},
				func(a compose.AnyGraph, o []compose.GraphAddNodeOpt) error {
					wn = w.AddGraphNode(n.Key, a, o...)
					return nil
				})
			if err != nil || wn == nil {
				return nil, nil, fmt.Errorf("add node %s: %v", n.Key, err)
			}
			wire(wn, n.Inputs)
		}
		wire(w.End(), g.End)
		return ag, cf, nil
	}
	ga, ag, cf := tys[g.In.K].graph(g.Out.K, ngo...)
	for i := range g.Nodes {
		n := &g.Nodes[i]
		if err := addNode(n,
			func(l *compose.Lambda, o []compose.GraphAddNodeOpt) error { return ga.AddLambdaNode(n.Key, l, o...) },
			func(a compose.AnyGraph, o []compose.GraphAddNodeOpt) error { return ga.AddGraphNode(n.Key, a, o...) }); err != nil {
			return nil, nil, fmt.Errorf("add node %s: %w", n.Key, err)
		}
	}
	for i := range g.Nodes {
		for _, ed := range g.Nodes[i].Inputs {
			if err := ga.AddEdge(ed.From, g.Nodes[i].Key); err != nil {
				return nil, nil, fmt.Errorf("add edge %s->%s: %w", ed.From, g.Nodes[i].Key, err)
			}
		}
	}
	for _, ed := range g.End {
		if err := ga.AddEdge(ed.From, compose.END); err != nil {
			return nil, nil, fmt.Errorf("add edge %s->END: %w", ed.From, err)
		}
	}
	return ag, cf, nil
}

// buildTyped compiles the spec; plan == nil and store == nil give the uninterrupted form.
func buildTyped(ctx context.Context, g *tGraph, plan tPlan, store compose.CheckPointStore) (r tRunner, err error) {
	e := &buildEnv{plan: plan}
	p := mon.Safe(func() {
		var cf compileFn
		_, cf, err = e.build(g)
		if err != nil {
			return
		}
		co := e.compileOpts(g)
		if store != nil {
			co = append(co, compose.WithCheckPointStore(store))
		}
		r, err = cf(ctx, co...)
	})
	if p != nil {
		return nil, fmt.Errorf("panic while building: %s\n%s", p.Value, p.Stack)
	}
	return r, err
}

// ---------------------------------------------------------------- running histories

type tCall struct {
	Para        string
	Out         any
	Err         error
	Panic       *mon.Panic
	Interrupted bool
	Info        *compose.InterruptInfo
	Execs       []tExec
	Sets, Gets  int
	Mods        []tMod
}

func (c *tCall) failed() bool { return c.Panic != nil || (c.Err != nil && !c.Interrupted) }

func (c *tCall) String() string {
	switch {
	case c.Panic != nil:
		return "panic(" + c.Panic.Value + ")"
	case c.Interrupted:
		return "INTERRUPT " + gspec.RenderInfo(c.Info)
	case c.Err != nil:
		return "error(" + c.Err.Error() + ")"
	}
	return render(c.Out)
}

type tHistory struct {
	Plan         tPlan
	Paras        []string
	Calls        []tCall
	Seen         []tStateSeen
	Completed    bool
	NoProgress   bool
	Stuck        string
	StuckDetail  string
	Inconclusive bool
	BuildErr     error
}

func (h *tHistory) render() string {
	var b strings.Builder
	fmt.Fprintf(&b, "plan: %s  paradigms: %v\n", h.Plan, h.Paras)
	for i, c := range h.Calls {
		fmt.Fprintf(&b, "call %d [%s]: %s (store sets=%d gets=%d)\n", i, c.Para, c.String(), c.Sets, c.Gets)
		for _, e := range c.Execs {
			ab := ""
			if e.Aborted {
				ab = "  [asked for interrupt-and-rerun]"
			}
			fmt.Fprintf(&b, "    %s(%s)%s\n", e.Key, e.In, ab)
		}
		for _, m := range c.Mods {
			fmt.Fprintf(&b, "    state modifier: path=%q state of %q (%s)\n", m.Path, m.Owner, m.Type)
		}
	}
	return b.String()
}

func (h *tHistory) execs() []tExec {
	var out []tExec
	for _, c := range h.Calls {
		out = append(out, c.Execs...)
	}
	return out
}

func (h *tHistory) final() *tCall {
	if len(h.Calls) == 0 {
		return &tCall{}
	}
	return &h.Calls[len(h.Calls)-1]
}

// paraOf: paradigm of call i. The first entry may be any of I S C T, the others are I or S and are cycled.
func paraOf(paras []string, i int) string {
	if i < len(paras) {
		return paras[i]
	}
	if len(paras) == 1 {
		return paras[0]
	}
	rest := paras[1:]
	return rest[(i-1)%len(rest)]
}

// formOf: the graph runs in value form for Invoke and in stream form for Stream, Collect and Transform.
func formOf(para string) string {
	if para == "I" {
		return "value"
	}
	return "stream"
}

type histOpts struct {
	Paras      []string
	WithID     bool
	Modifier   bool // pass a state modifier on every resume
	Reruns     bool
	MaxCalls   int
	InputSeed  string
	InChunks   int
	IgnoredIn  bool // resumes pass a different input (it must be ignored)
	NoWatchdog bool
}

// runTyped drives one compiled spec to completion. plan/store nil: a single uninterrupted call.
func runTyped(ctx context.Context, g *tGraph, plan tPlan, o histOpts) *tHistory {
	h := &tHistory{Plan: plan, Paras: o.Paras}
	var store *gspec.ByteStore
	var cps compose.CheckPointStore
	if o.WithID || plan != nil {
		store = gspec.NewByteStore()
		cps = store
	}
	r, err := buildTyped(ctx, g, plan, cps)
	if err != nil {
		h.BuildErr = err
		return h
	}
	hc := &hist{rerunEnabled: o.Reruns, rerunSeen: map[string]bool{}}
	ctx = withHist(ctx, hc)
	for i := 0; i < o.MaxCalls; i++ {
		para := paraOf(o.Paras, i)
		hc.mu.Lock()
		hc.call = i
		e0, m0 := len(hc.execs), len(hc.mods)
		hc.mu.Unlock()
		var opts []compose.Option
		if o.WithID {
			opts = append(opts, compose.WithCheckPointID("cp"))
		}
		seed := o.InputSeed
		if i > 0 {
			if o.IgnoredIn {
				seed = "IGNORED-ON-RESUME"
			}
			if o.Modifier {
				call := i
				opts = append(opts, compose.WithStateModifier(func(_ context.Context, path compose.NodePath, state any) error {
					m := tMod{Call: call, Path: strings.Join(path.GetPath(), "/"), Type: fmt.Sprintf("%T", state), Owner: "?"}
					if st, ok := state.(*tState); ok && st != nil {
						m.Owner = st.Owner
						st.Mods = append(st.Mods, m.Path)
					}
					hc.mu.Lock()
					hc.mods = append(hc.mods, m)
					hc.mu.Unlock()
					return nil
				}))
			}
		}
		in := mk(g.In, seed)
		var s0, g0 int
		if store != nil {
			s0, g0 = store.Counts()
		}
		rec := tCall{Para: para}
		done := make(chan struct{})
		go func() {
			defer close(done)
			rec.Panic = mon.Safe(func() {
				rec.Out, _, rec.Err = r.call(ctx, para, in, o.InChunks, opts...)
			})
		}()
		wres, dump := mon.WaitDone(done, 120*time.Second)
		if wres == mon.Stuck {
			h.Stuck, h.StuckDetail = gspec.StuckSignature(dump)
			return h
		}
		if wres != mon.Finished {
			h.Inconclusive = true
			return h
		}
		if store != nil {
			s1, g1 := store.Counts()
			rec.Sets, rec.Gets = s1-s0, g1-g0
		}
		hc.mu.Lock()
		rec.Execs = append([]tExec(nil), hc.execs[e0:]...)
		rec.Mods = append([]tMod(nil), hc.mods[m0:]...)
		hc.mu.Unlock()
		if rec.Err != nil {
			if info, ok := compose.ExtractInterruptInfo(rec.Err); ok {
				rec.Interrupted, rec.Info = true, info
			}
		}
		h.Calls = append(h.Calls, rec)
		if !rec.Interrupted {
			h.Completed = !rec.failed()
			break
		}
		if !o.WithID {
			break
		}
		if i == o.MaxCalls-1 {
			h.NoProgress = true
		}
	}
	hc.mu.Lock()
	h.Seen = append([]tStateSeen(nil), hc.seen...)
	hc.mu.Unlock()
	return h
}

// execMultiset renders the completed executions as a sorted multiset.
func execMultiset(es []tExec) []string {
	var out []string
	for _, e := range es {
		if !e.Aborted {
			out = append(out, e.Key+"("+e.In+")")
		}
	}
	sort.Strings(out)
	return out
}

func diffMultiset(want, got []string) (missing, extra []string) {
	c := map[string]int{}
	for _, w := range want {
		c[w]++
	}
	for _, g := range got {
		if c[g] > 0 {
			c[g]--
		} else {
			extra = append(extra, g)
		}
	}
	for _, k := range mon.SortedKeys(c) {
		for i := 0; i < c[k]; i++ {
			missing = append(missing, k)
		}
	}
	return
}

// ---------------------------------------------------------------- generator

// focus: which class of typed behaviour a spec is built around (it also names the violation signatures).
var focuses = []string{"fieldmap", "rtcheck", "inputkey", "nil-interface", "builtin-message", "deep-state", "mixed"}

type genP struct {
	focus      string
	kinds      []kind  // concrete kinds of plain outputs
	pIfaceOut  float64 // an output is declared any / tIface
	pNilOut    float64 // ... and holds nil
	pUpcast    float64 // T -> any / tIface edges
	pRtCheck   float64 // any -> T edges (checked at run time)
	pFieldMap  float64 // workflow: inputs through field mappings
	pInputKey  float64 // a map is consumed through WithInputKey
	pMapOut    float64 // outputs that are maps (to feed input keys)
	pOutputKey float64
	pSub       float64
	maxDepth   int
	pState     float64
	pRerun     float64
	pStream    float64 // lambda forms s c t
	lanesMin   int
	lanesMax   int
	modes      []string
	chain      int  // deep-state: number of single-child wrapper levels still to generate
	leaf       bool // deep-state: a stateful leaf graph
	counter    *int
}

func paramsFor(r *mon.Rand, focus string, thorough bool) genP {
	n := 0
	p := genP{focus: focus, kinds: []kind{kStr, kRec, kPRec}, pIfaceOut: 0.1, pUpcast: 0.1, pRtCheck: 0.1,
		pOutputKey: 0.1, pSub: 0.12, maxDepth: 1, pState: 0.4, pRerun: 0.15, pStream: 0.35, lanesMin: 1, lanesMax: 3,
		modes: []string{"pregel", "dag", "workflow"}, counter: &n}
	if thorough {
		p.maxDepth = 2
	}
	switch focus {
	case "fieldmap":
		p.modes = []string{"workflow"}
		p.pFieldMap = 0.85
		p.lanesMin = 2
		p.pIfaceOut, p.pRtCheck, p.pUpcast = 0.05, 0.05, 0.05
		p.kinds = []kind{kStr, kRec, kPRec, kRec}
		p.pMapOut = 0.15
	case "rtcheck":
		p.pIfaceOut, p.pRtCheck, p.pUpcast = 0.6, 0.8, 0.15
		p.lanesMin = 2
		p.pRerun = 0.3
	case "inputkey":
		p.pMapOut, p.pInputKey, p.pOutputKey = 0.5, 0.85, 0.3
		p.pSub, p.pRerun = 0.35, 0.35
		p.lanesMax = 2
		p.pState = 0.6
	case "nil-interface":
		p.pIfaceOut, p.pNilOut, p.pUpcast, p.pRtCheck = 0.7, 0.6, 0.3, 0.2
		p.pStream = 0.2
	case "builtin-message":
		p.kinds = []kind{kMsg, kMsgs, kMsg, kMsgs, kStr}
		p.pFieldMap = 0.4
		p.pIfaceOut = 0.15
		p.pMapOut = 0.15
		p.pState = 0.6
		p.pRerun = 0.25
	case "deep-state":
		p.chain = r.Range(3, 5)
		p.pSub, p.maxDepth = 0, 0
		p.pState = 0.3
		p.pRerun = 0
		p.lanesMax = 2
		p.kinds = []kind{kStr, kRec}
		p.pIfaceOut, p.pUpcast, p.pRtCheck = 0, 0, 0 // the forced nested graphs take concrete types
	case "mixed":
		p.kinds = []kind{kStr, kRec, kPRec, kMsg, kMsgs}
		p.pIfaceOut, p.pNilOut, p.pUpcast, p.pRtCheck = 0.3, 0, 0.2, 0.4
		p.pFieldMap, p.pInputKey, p.pMapOut, p.pOutputKey = 0.5, 0.5, 0.25, 0.2
		p.pSub, p.pRerun, p.pState = 0.2, 0.2, 0.5
	}
	return p
}

func (p *genP) nextKey(prefix string) string {
	*p.counter++
	return prefix + strconv.Itoa(*p.counter)
}

// genOut chooses what a lambda produces.
func genOut(r *mon.Rand, p *genP, allowMap bool) vd {
	concrete := func() vd { return vd{K: mon.PickOne(r, p.kinds)} }
	if allowMap && r.Prob(p.pMapOut) {
		inner := concrete()
		if r.Prob(p.pIfaceOut) {
			c := inner
			inner = vd{K: kAny, D: &c, Nil: r.Prob(p.pNilOut)}
		}
		return vd{K: kMap, Key: "k" + strconv.Itoa(r.Intn(3)), D: &inner}
	}
	if r.Prob(p.pIfaceOut) {
		d := concrete()
		if r.Prob(0.3) {
			// a user interface type
			if !d.K.rec() {
				d = vd{K: kRec}
				if r.Bool() {
					d.K = kPRec
				}
			}
			return vd{K: kIface, D: &d, Nil: r.Prob(p.pNilOut)}
		}
		if allowMap && r.Prob(0.15) {
			d = vd{K: kMap, Key: "k0", D: &vd{K: kStr}}
		}
		return vd{K: kAny, D: &d, Nil: r.Prob(p.pNilOut)}
	}
	return concrete()
}

type inChoice struct {
	In       kind
	InputKey string
	Seen     vd
	Rel      string
	Src      []string // workflow: take a field of the predecessor's output as the whole input
}

// fieldSources lists the fields of a value that can be mapped, with the description of what they hold.
func fieldSources(src vd) (paths [][]string, descs []vd) {
	switch src.K {
	case kRec, kPRec:
		return [][]string{{"F"}, {"Sub", "Z"}}, []vd{{K: kStr}, {K: kStr}}
	case kMsg:
		return [][]string{{"Content"}}, []vd{{K: kStr}}
	case kMap:
		var inner *vd
		if src.D != nil {
			inner = src.D.dyn()
		}
		paths, descs = [][]string{{src.Key}}, []vd{{K: kAny, Nil: inner == nil, D: inner}}
		if !src.NoPad {
			paths, descs = append(paths, []string{"pad_" + src.Key}), append(descs, vd{K: kAny, D: &vd{K: kStr}})
		}
		return paths, descs
	}
	return nil, nil
}

// inputChoices lists the ways a node can consume a value described by src.
func inputChoices(src vd, workflow bool) (out []inChoice) {
	out = append(out, inChoice{In: src.K, Seen: src, Rel: "exact"})
	if src.Multi {
		if src.K == kMap && src.D != nil && !src.D.K.iface() {
			out = append(out, inChoice{In: src.D.K, InputKey: src.Key, Seen: *src.D, Rel: "inputkey"})
		}
		return out
	}
	dyn := src.dyn()
	wrap := func(k kind) vd { return vd{K: k, Nil: dyn == nil, D: dyn} }
	if src.K != kAny {
		out = append(out, inChoice{In: kAny, Seen: wrap(kAny), Rel: "upcast"})
	}
	if src.K.rec() {
		out = append(out, inChoice{In: kIface, Seen: wrap(kIface), Rel: "upcast"})
	}
	if src.K.iface() && dyn != nil {
		out = append(out, inChoice{In: dyn.K, Seen: *dyn, Rel: "rtcheck"})
		if src.K == kAny && dyn.K.rec() {
			out = append(out, inChoice{In: kIface, Seen: wrap(kIface), Rel: "rtcheck"})
		}
	}
	// through an input key
	if m := dyn; m != nil && m.K == kMap && m.D != nil {
		rel := "inputkey"
		if src.K != kMap {
			rel = "rtcheck+inputkey"
		}
		inner := *m.D
		idyn := inner.dyn()
		if !inner.K.iface() {
			out = append(out, inChoice{In: inner.K, InputKey: m.Key, Seen: inner, Rel: rel})
		} else if idyn != nil {
			out = append(out, inChoice{In: idyn.K, InputKey: m.Key, Seen: *idyn, Rel: rel})
		}
		out = append(out, inChoice{In: kAny, InputKey: m.Key, Seen: vd{K: kAny, Nil: idyn == nil, D: idyn}, Rel: rel})
	}
	if workflow {
		paths, descs := fieldSources(src)
		for i := range paths {
			if dd := descs[i].dyn(); dd != nil && dd.K == kStr {
				out = append(out, inChoice{In: kStr, Seen: *dd, Rel: "fieldmap", Src: paths[i]})
			}
		}
	}
	return out
}

func pickInput(r *mon.Rand, p *genP, src vd, workflow bool) inChoice {
	cs := inputChoices(src, workflow)
	by := map[string][]inChoice{}
	for _, c := range cs {
		rel := c.Rel
		if strings.Contains(rel, "inputkey") {
			rel = "inputkey"
		}
		by[rel] = append(by[rel], c)
	}
	try := func(rel string, prob float64) (inChoice, bool) {
		if len(by[rel]) > 0 && r.Prob(prob) {
			return mon.PickOne(r, by[rel]), true
		}
		return inChoice{}, false
	}
	if c, ok := try("inputkey", p.pInputKey); ok {
		return c
	}
	if c, ok := try("rtcheck", p.pRtCheck); ok {
		return c
	}
	if c, ok := try("fieldmap", p.pFieldMap*0.4); ok {
		return c
	}
	if c, ok := try("upcast", p.pUpcast); ok {
		return c
	}
	return by["exact"][0]
}

type nodeReq struct {
	mustMapKey string // the output must be a map with this (unique) key: the value is merged with others
	noSub      bool
}

func genForm(r *mon.Rand, p *genP) (string, int) {
	if !r.Prob(p.pStream) {
		return "i", 1
	}
	return mon.PickOne(r, []string{"s", "c", "t"}), r.Range(1, 3)
}

// genNode generates one node fed by one predecessor.
func genNode(r *mon.Rand, p *genP, g *tGraph, depth int, from string, src vd, req nodeReq) (tNode, vd) {
	workflow := g.Mode == "workflow"
	c := pickInput(r, p, src, workflow)
	n := tNode{Key: p.nextKey(g.Name + "n"), In: c.In, InputKey: c.InputKey}
	ed := tEdge{From: from, Mode: "whole", Rel: c.Rel}
	if len(c.Src) > 0 {
		ed.Mode, ed.Src = "field", c.Src
	}
	n.Inputs = []tEdge{ed}
	n.Form, n.Chunks = genForm(r, p)
	if g.State {
		n.Pre, n.Post = r.Prob(0.35), r.Prob(0.3)
	}
	// the placeholder input of a node that is resumed (an interrupted nested graph, a node that asked to be
	// re-run) is the zero value of its input type: nil for an interface type. Nil interface values in a
	// checkpoint are the business of the nil-interface focus only (see HUNT_FINDINGS.json).
	nilPlaceholder := c.In.iface() && c.InputKey == "" && p.focus != "nil-interface"
	if !req.noSub && !nilPlaceholder && depth < p.maxDepth && r.Prob(p.pSub) {
		n.Form = "g"
		n.Sub = genGraph(r, p, n.Key, joinPath(g.Path, n.Key), c.Seen, depth+1)
		n.Out = n.Sub.Out
	} else {
		n.Out = genOut(r, p, req.mustMapKey == "")
		if n.Out.K != kStr && n.Out.K != kMap {
			n.Chunks = 1
		}
		if r.Prob(p.pRerun) && !nilPlaceholder {
			switch {
			case g.State && r.Prob(0.6):
				n.Rerun = "pre"
			case g.State && r.Bool():
				n.Rerun, n.Form = "self", mon.PickOne(r, []string{"c", "t"})
			default:
				n.Rerun, n.Form = "const", mon.PickOne(r, []string{"c", "t"})
			}
		}
		n.Out.Multi = n.multi()
	}
	switch {
	case req.mustMapKey != "":
		// merged with the values of other lanes: a map under a key of its own, declared in one of three ways
		e := n.eff()
		switch {
		case n.Sub != nil || r.Prob(0.6) || e.K == kMap:
			n.OutputKey = req.mustMapKey
		case r.Prob(p.pRtCheck):
			inner := n.Out
			m := vd{K: kMap, Key: req.mustMapKey, D: &inner}
			inner.Multi = false
			n.Out = vd{K: kAny, D: &m}
			n.Chunks = 1
		default:
			inner := n.Out
			inner.Multi = false
			n.Out = vd{K: kMap, Key: req.mustMapKey, D: &inner}
			n.Out.Multi = n.multi()
		}
	case r.Prob(p.pOutputKey):
		n.OutputKey = "o" + strconv.Itoa(r.Intn(3))
	}
	return n, c.Seen
}

func joinPath(a, b string) string {
	if a == "" {
		return b
	}
	return a + "/" + b
}

// genGraph generates lanes of nodes from START that meet in a join node (or at END).
func genGraph(r *mon.Rand, p *genP, name, path string, in vd, depth int) *tGraph {
	g := &tGraph{Name: name, Path: path, In: in, Mode: mon.PickOne(r, p.modes), State: r.Prob(p.pState)}
	deepWrapper := p.focus == "deep-state" && !p.leaf && p.chain > 0
	deepFork := p.focus == "deep-state" && !p.leaf && p.chain == 0
	if p.leaf {
		g.State = true
	}
	workflow := g.Mode == "workflow"
	nl := r.Range(p.lanesMin, p.lanesMax)
	if deepFork {
		nl = r.Range(2, 3)
	}
	if p.leaf {
		nl = 1
	}
	lens := make([]int, nl)
	for i := range lens {
		lens[i] = r.Range(1, 3)
	}
	if g.Mode == "pregel" {
		l := r.Range(1, 2)
		for i := range lens {
			lens[i] = l
		}
	}
	if p.leaf {
		lens[0] = r.Range(2, 3)
	}
	haveJ := nl >= 2 && r.Prob(0.8)
	// which lane node of a deep-state graph is the forced nested graph
	forcedLane, forcedPos := -1, -1
	if deepWrapper {
		forcedLane = r.Intn(nl)
		forcedPos = r.Intn(lens[forcedLane])
	}
	var ends []laneOut
	for li := 0; li < nl; li++ {
		from, src := compose.START, in
		laneKey := "L" + strconv.Itoa(li)
		for j := 0; j < lens[li]; j++ {
			req := nodeReq{}
			last := j == lens[li]-1
			if last && nl >= 2 && !workflow {
				req.mustMapKey = laneKey
			}
			forced := (deepWrapper && li == forcedLane && j == forcedPos) || (deepFork && ((j == 0 && r.Prob(0.7)) || (last && !laneHasSub(g, li))))
			if forced {
				req.noSub = true
			}
			n, seen := genNode(r, p, g, depth, from, src, req)
			if forced {
				// replace the lambda by a nested graph with the same input
				cp := *p
				if deepWrapper {
					cp.chain = p.chain - 1
				} else {
					cp.leaf = true
					cp.pRerun = 0.2
				}
				n.Form, n.Rerun, n.Chunks = "g", "", 1
				n.Sub = genGraph(r, &cp, n.Key, joinPath(g.Path, n.Key), seen, depth+1)
				n.Out = n.Sub.Out
				if req.mustMapKey != "" {
					n.OutputKey = req.mustMapKey
				}
			}
			n.Lane = li
			g.Nodes = append(g.Nodes, n)
			from, src = n.Key, n.eff()
		}
		ends = append(ends, laneOut{key: from, eff: src})
	}
	lastKey, lastEff := ends[0].key, ends[0].eff
	switch {
	case haveJ && !workflow:
		j := tNode{Key: g.Name + "J", In: kMap}
		j.Form, j.Chunks = genForm(r, p)
		for _, e := range ends {
			j.Inputs = append(j.Inputs, tEdge{From: e.key, Mode: "whole", Rel: relTo(e.eff, kMap)})
		}
		j.Out = genOut(r, p, true)
		if j.Out.K != kStr && j.Out.K != kMap {
			j.Chunks = 1
		}
		j.Out.Multi = j.multi()
		if g.State {
			j.ReadsState, j.Pre = true, r.Prob(0.3)
		}
		g.Nodes = append(g.Nodes, j)
		lastKey, lastEff = j.Key, j.eff()
	case haveJ && workflow:
		j := genWorkflowJoin(r, p, g, in, ends)
		g.Nodes = append(g.Nodes, j)
		lastKey, lastEff = j.Key, j.eff()
	}
	if (haveJ || nl == 1) && r.Prob(0.3) {
		t, _ := genNode(r, p, g, depth, lastKey, lastEff, nodeReq{noSub: true})
		t.Key = g.Name + "T"
		if g.State && !haveJ {
			t.ReadsState = true
		}
		g.Nodes = append(g.Nodes, t)
		lastKey, lastEff = t.Key, t.eff()
	}
	if nl == 1 && g.State {
		// the last body of a single lane reports the state
		for i := len(g.Nodes) - 1; i >= 0; i-- {
			if g.Nodes[i].Sub == nil {
				g.Nodes[i].ReadsState = true
				break
			}
		}
	}
	switch {
	case haveJ || nl == 1:
		g.End = []tEdge{{From: lastKey, Mode: "whole", Rel: "exact"}}
		g.Out = lastEff
	case workflow:
		// the lanes meet at END through field mappings
		for i, e := range ends {
			g.End = append(g.End, tEdge{From: e.key, Mode: "field", Dst: []string{"L" + strconv.Itoa(i)}, Rel: "fieldmap"})
		}
		e0 := ends[0].eff
		e0.Multi = false
		g.Out = vd{K: kMap, Key: "L0", D: &e0, NoPad: true, Multi: true} // one chunk per lane in the stream forms
	default:
		for _, e := range ends {
			g.End = append(g.End, tEdge{From: e.key, Mode: "whole", Rel: relTo(e.eff, kMap)})
		}
		inner := ends[0].eff
		if m := inner.dyn(); m != nil && m.K == kMap && m.D != nil {
			inner = *m.D
		}
		inner.Multi = false
		g.Out = vd{K: kMap, Key: "L0", D: &inner, NoPad: true, Multi: true} // one chunk per lane in the stream forms
	}
	return g
}

func relTo(src vd, in kind) string {
	switch {
	case src.K == in:
		return "exact"
	case src.K.iface():
		return "rtcheck"
	}
	return "upcast"
}

func laneHasSub(g *tGraph, lane int) bool {
	for i := range g.Nodes {
		if g.Nodes[i].Lane == lane && g.Nodes[i].Sub != nil {
			return true
		}
	}
	return false
}

type laneOut struct {
	key string
	eff vd
}

// genWorkflowJoin: the join node of a workflow. Its input is assembled by field mappings from the lanes (a map
// or a struct target), or is the whole output of one lane while the others are control-only dependencies.
func genWorkflowJoin(r *mon.Rand, p *genP, g *tGraph, in vd, ends []laneOut) tNode {
	j := tNode{Key: g.Name + "J"}
	j.Form, j.Chunks = genForm(r, p)
	if r.Prob(p.pFieldMap) {
		j.In = kMap
		structTarget := r.Prob(0.4)
		if structTarget {
			j.In = kJoin
		}
		nData := 0
		for i, e := range ends {
			if i > 0 && nData > 0 && r.Prob(0.15) {
				j.Inputs = append(j.Inputs, tEdge{From: e.key, Mode: "ctrl", Rel: "ctrl"})
				continue
			}
			nData++
			ed := tEdge{From: e.key, Mode: "field", Rel: "fieldmap"}
			paths, descs := fieldSources(e.eff)
			anyDst, strDst := "L"+strconv.Itoa(i), "L"+strconv.Itoa(i)
			if structTarget {
				anyDst, strDst = "A"+strconv.Itoa(i), "S"+strconv.Itoa(i)
			}
			if len(paths) > 0 && r.Prob(0.6) {
				k := r.Intn(len(paths))
				ed.Src = paths[k]
				if descs[k].K == kStr || (descs[k].dyn() != nil && descs[k].dyn().K == kStr && r.Bool()) {
					ed.Dst = []string{strDst}
				} else {
					ed.Dst = []string{anyDst}
				}
			} else {
				ed.Dst = []string{anyDst}
			}
			j.Inputs = append(j.Inputs, ed)
		}
		if r.Prob(0.3) {
			// a value straight from START waits in the channel from the beginning
			ed := tEdge{From: compose.START, Mode: "field", Rel: "fieldmap", Dst: []string{"LS"}}
			if structTarget {
				ed.Dst = []string{"AS"}
			}
			paths, descs := fieldSources(in)
			if len(paths) > 0 && r.Bool() && descs[0].K == kStr {
				ed.Src = paths[0]
				if structTarget {
					ed.Dst = []string{"SS"}
				}
			}
			j.Inputs = append(j.Inputs, ed)
		}
	} else {
		// one data lane, the others only order the execution
		data := r.Intn(len(ends))
		c := pickInput(r, p, ends[data].eff, false)
		j.In, j.InputKey = c.In, c.InputKey
		for i, e := range ends {
			if i == data {
				j.Inputs = append(j.Inputs, tEdge{From: e.key, Mode: "whole", Rel: c.Rel})
			} else {
				j.Inputs = append(j.Inputs, tEdge{From: e.key, Mode: "ctrl", Rel: "ctrl"})
			}
		}
	}
	j.Out = genOut(r, p, true)
	if j.Out.K != kStr && j.Out.K != kMap {
		j.Chunks = 1
	}
	j.Out.Multi = j.multi()
	if g.State {
		j.ReadsState, j.Pre = true, r.Prob(0.3)
	}
	return j
}

func genTyped(r *mon.Rand, focus string, thorough bool) *tGraph {
	p := paramsFor(r, focus, thorough)
	var in vd
	switch focus {
	case "builtin-message":
		in = vd{K: mon.PickOne(r, []kind{kMsgs, kMsg, kStr})}
	case "inputkey":
		inner := vd{K: mon.PickOne(r, []kind{kStr, kRec, kPRec})}
		in = vd{K: kMap, Key: "k" + strconv.Itoa(r.Intn(3)), D: &inner}
		if r.Prob(0.3) {
			in = vd{K: kStr}
		}
	case "deep-state":
		in = vd{K: kStr}
	default:
		in = vd{K: mon.PickOne(r, []kind{kStr, kRec, kStr, kPRec})}
		if focus == "mixed" && r.Prob(0.3) {
			inner := vd{K: kStr}
			in = vd{K: kMap, Key: "k0", D: &inner}
		}
	}
	in.Multi = in.K == kStr || in.K == kMap // Collect / Transform hand the input over in chunks
	return genGraph(r, &p, "", "", in, 0)
}

// ================================================================ C06: the judge of the typed sub-workload
//
// Everything above this line is the typed interrupt/resume engine of check C05 (checks/c05/typed_engine_test.go,
// copied verbatim: test packages cannot import each other). gspec's node values are all map[string]any, so
// whether an interrupt is *returned as an interrupt* when the pending values are structs behind field mappings,
// values behind run-time checked edges, nil interfaces or eino's own schema.Message values was never observed.
// Judged per call of every history (the uninterrupted run of the same spec succeeds in both forms):
//   (1) a call either finishes the run or returns an error from which ExtractInterruptInfo yields the info
//       (a resume that fails before any node ran is a restore failure: C05's business, only counted here;
//       every history stays in one form, value or stream);
//   (2) with a checkpoint id: exactly one Set iff the call returned an interrupt; without: no store access;
//   (3) the info is consistent with the configuration and the log: before/after lists name configured points of
//       that nesting level, the rerun list is the set of nodes that asked for it in this call, sub-graph entries
//       are graph nodes, a state is carried iff the graph declares one and it is that graph's state;
//   (4) a node configured interrupt-before runs only in a call that follows an interrupt reporting it.

const typedPrefix = ID + "/typed/"

func typedCasesPerShard(cfg mon.Config) int64 { return int64(cfg.Pick(14, 80)) }

func typedUninterrupted(ctx context.Context, g *tGraph, para, seed string, chunks int) (string, bool) {
	h := runTyped(ctx, g, nil, histOpts{Paras: []string{para}, MaxCalls: 1, InputSeed: seed, InChunks: chunks})
	if h.BuildErr != nil || !h.Completed {
		return "", false
	}
	return render(h.final().Out), true
}

func typedCase(ctx context.Context, rep *mon.Reporter, rng *mon.Rand, cfg mon.Config, j int64) {
	focus := focuses[int(j)%len(focuses)]
	g := genTyped(rng, focus, cfg.Thorough())
	seed := rng.Str(2, 6)
	chunks := rng.Range(1, 3)
	rep.Count("typed_specs", 1)
	bases := map[string]string{}
	base := func(para string) (string, bool) {
		if b, ok := bases[para]; ok {
			return b, b != "\x00"
		}
		b, ok := typedUninterrupted(ctx, g, para, seed, chunks)
		rep.AddEvaluations(1)
		if !ok {
			b = "\x00"
			rep.Count("typed_skipped_uninterrupted_run_fails_"+para, 1)
		}
		bases[para] = b
		return b, ok
	}
	bi, ok1 := base("I")
	bs, ok2 := base("S")
	if !ok1 || !ok2 || bi != bs {
		return // the uninterrupted run itself fails or depends on the form: not judged here
	}
	rep.Count("typed_specs_judged", 1)
	pts := allTypedPoints(g)
	var plans []tPlan
	hasRerun := false
	g.walk(func(x *tGraph) {
		for i := range x.Nodes {
			if x.Nodes[i].Rerun != "" {
				hasRerun = true
			}
		}
	})
	if hasRerun {
		plans = append(plans, tPlan{})
	}
	for _, p := range pts {
		plans = append(plans, tPlan{p})
	}
	for n := 0; n < cfg.Pick(12, 40) && len(pts) >= 2; n++ {
		a := rng.Intn(len(pts))
		b := rng.Intn(len(pts) - 1)
		if b >= a {
			b++
		}
		plans = append(plans, tPlan{pts[a], pts[b]})
	}
	is := []string{"I", "S"}
	for pi, plan := range plans {
		// every history stays in one form (value: Invoke; stream: Stream, entered through Collect / Transform
		// now and then): what a checkpoint written in one form is worth in the other is C05's subject
		seqs := [][]string{{"I", "I"}, {"S", "S"}}
		if pi%3 == 0 {
			seqs = append(seqs, []string{mon.PickOne(rng, []string{"C", "T"}), "S"})
		}
		for _, paras := range seqs {
			if b, ok := base(paras[0]); !ok || b != bi {
				continue
			}
			typedHistory(ctx, rep, g, focus, seed, chunks, plan, paras, true)
		}
		if pi%4 == 0 {
			typedHistory(ctx, rep, g, focus, seed, chunks, plan, []string{is[pi/4%2]}, false)
		}
	}
}

func typedContains(xs []string, x string) bool {
	for _, y := range xs {
		if y == x {
			return true
		}
	}
	return false
}

func typedHistory(ctx context.Context, rep *mon.Reporter, g *tGraph, focus, seed string, chunks int, plan tPlan, paras []string, withID bool) {
	maxCalls := 2*g.bodies() + 2*len(plan) + 6
	h := runTyped(ctx, g, plan, histOpts{Paras: paras, WithID: withID, Reruns: true, MaxCalls: maxCalls, InputSeed: seed, InChunks: chunks, IgnoredIn: true})
	rep.AddEvaluations(int64(len(h.Calls)))
	rep.Count("typed_histories", 1)
	sig := typedPrefix + focus + "/"
	wit := map[string]any{"spec": g, "input_seed": seed, "plan": plan.String(), "paradigms": paras, "with_checkpoint_id": withID}
	extra := func() string {
		return fmt.Sprintf("input=%s checkpoint-id=%v (the uninterrupted run of the same graph succeeds)\n%s", render(mk(g.In, seed)), withID, h.render())
	}
	if h.BuildErr != nil {
		rep.Violation(sig+"build-error/with-interrupts", h.BuildErr.Error(), wit)
		return
	}
	if h.Stuck != "" {
		rep.Violation(sig+"hang/"+h.Stuck, "a call of the history can never finish\n"+h.StuckDetail+"\n"+extra(), wit)
		return
	}
	if h.Inconclusive {
		rep.Inconclusive("watchdog fired while goroutines were active")
		return
	}
	// where every node lives, and the chain of graph-node keys that leads to every graph
	owner := map[string]*tGraph{}
	chain := map[string][]string{}
	var walk func(x *tGraph, prefix []string)
	walk = func(x *tGraph, prefix []string) {
		chain[x.Name] = prefix
		for i := range x.Nodes {
			owner[x.Nodes[i].Key] = x
			if s := x.Nodes[i].Sub; s != nil {
				walk(s, append(append([]string(nil), prefix...), x.Nodes[i].Key))
			}
		}
	}
	walk(g, nil)
	before := map[string]bool{} // graph name + "/" + node
	after := map[string]bool{}
	for _, p := range plan {
		if p.After {
			after[p.Graph+"/"+p.Node] = true
		} else {
			before[p.Graph+"/"+p.Node] = true
		}
	}
	infoAt := func(info *compose.InterruptInfo, path []string) *compose.InterruptInfo {
		for _, k := range path {
			if info == nil {
				return nil
			}
			info = info.SubGraphs[k]
		}
		return info
	}
	for i := range h.Calls {
		c := &h.Calls[i]
		rep.Count("typed_calls_checked", 1)
		// ---- (1)
		if c.failed() {
			if i > 0 && len(c.Execs) == 0 {
				rep.Count("typed_resume_failed_before_any_node_ran", 1) // restore failure: C05
				return
			}
			where := "first-call/" + formOf(c.Para)
			if i > 0 {
				where = "after-resume/" + formOf(c.Para)
			}
			rep.Violation(sig+"call-failed-instead-of-returning-an-interrupt/"+where,
				fmt.Sprintf("call %d (%s) neither finished the run nor returned an error from which the interrupt information can be extracted (store sets=%d): %s\n%s", i, c.Para, c.Sets, c.String(), extra()), wit)
			return
		}
		// ---- (2)
		switch {
		case withID && c.Interrupted && c.Sets != 1:
			rep.Violation(sig+"store/sets-on-interrupt", fmt.Sprintf("call %d returned an interrupt but wrote the checkpoint %d times\n%s", i, c.Sets, extra()), wit)
			return
		case withID && !c.Interrupted && c.Sets != 0:
			rep.Violation(sig+"store/set-without-interrupt", fmt.Sprintf("call %d did not return an interrupt but wrote a checkpoint\n%s", i, extra()), wit)
			return
		case !withID && (c.Sets != 0 || c.Gets != 0):
			rep.Violation(sig+"store/access-without-id", fmt.Sprintf("no checkpoint id, but the store was accessed (sets=%d gets=%d)\n%s", c.Sets, c.Gets, extra()), wit)
			return
		}
		rep.Count("typed_store_access_checks", 1)
		// ---- (4)
		for _, e := range c.Execs {
			og := owner[e.Key]
			if og == nil || !before[og.Name+"/"+e.Key] {
				continue
			}
			ok := false
			if i > 0 && h.Calls[i-1].Interrupted {
				if inf := infoAt(h.Calls[i-1].Info, chain[og.Name]); inf != nil && (typedContains(inf.BeforeNodes, e.Key) || typedContains(inf.RerunNodes, e.Key)) {
					ok = true
				}
			}
			if !ok {
				rep.Violation(sig+"before-node-ran-without-interrupt", fmt.Sprintf("node %s is configured interrupt-before but ran in call %d without a preceding interrupt that reported it\n%s", e.Key, i, extra()), wit)
				return
			}
			rep.Count("typed_before_points_honoured", 1)
		}
		// ---- (3)
		if !c.Interrupted {
			continue
		}
		var check func(x *tGraph, info *compose.InterruptInfo) string
		check = func(x *tGraph, info *compose.InterruptInfo) string {
			if info == nil {
				return "nil-info: no interrupt info for graph " + strconv.Quote(x.Name)
			}
			for _, n := range info.BeforeNodes {
				if !before[x.Name+"/"+n] {
					return fmt.Sprintf("before-list: graph %q reports %s which is not configured interrupt-before", x.Name, n)
				}
			}
			for _, n := range info.AfterNodes {
				if !after[x.Name+"/"+n] {
					return fmt.Sprintf("after-list: graph %q reports %s which is not configured interrupt-after", x.Name, n)
				}
			}
			var asked []string
			for _, e := range c.Execs {
				if e.Aborted && owner[e.Key] == x {
					asked = append(asked, e.Key)
				}
			}
			sort.Strings(asked)
			rr := append([]string(nil), info.RerunNodes...)
			sort.Strings(rr)
			if strings.Join(asked, ",") != strings.Join(rr, ",") {
				return fmt.Sprintf("rerun-list: graph %q reports %v, the nodes that asked to be interrupted in this call are %v", x.Name, rr, asked)
			}
			for _, k := range mon.SortedKeys(info.SubGraphs) {
				var sub *tGraph
				for ni := range x.Nodes {
					if x.Nodes[ni].Key == k {
						sub = x.Nodes[ni].Sub
					}
				}
				if sub == nil {
					return fmt.Sprintf("subgraph-list: graph %q reports sub-graph %s which is not a graph node", x.Name, k)
				}
				if m := check(sub, info.SubGraphs[k]); m != "" {
					return m
				}
			}
			if len(info.BeforeNodes)+len(info.AfterNodes)+len(info.RerunNodes)+len(info.SubGraphs) == 0 {
				return fmt.Sprintf("empty: graph %q returned an interrupt that names no node", x.Name)
			}
			st, isSt := info.State.(*tState)
			switch {
			case x.State && (!isSt || st == nil):
				return fmt.Sprintf("state: graph %q declares state but the info carries %T", x.Name, info.State)
			case x.State && st.Owner != x.Path:
				return fmt.Sprintf("state: graph %q (path %q) reports the state of the graph at %q", x.Name, x.Path, st.Owner)
			case !x.State && info.State != nil:
				return fmt.Sprintf("state: graph %q declares no state but the info carries %T", x.Name, info.State)
			}
			return ""
		}
		if m := check(g, c.Info); m != "" {
			rep.Violation(sig+"info/"+m[:strings.IndexByte(m, ':')], m+"\n"+extra(), wit)
			return
		}
		rep.Count("typed_interrupt_infos_checked", 1)
	}
	if len(h.Calls) > 1 || (!withID && len(h.Calls) == 1 && h.Calls[0].Interrupted) {
		rep.NonTrivial("typed|" + g.digest() + "|" + seed + "|" + plan.String() + fmt.Sprint(paras, withID))
		rep.Count("typed_histories_with_interrupts", 1)
	}
}
