package c10

import (
	"context"
	"errors"
	"fmt"
	"io"
	"sort"
	"strings"
	"time"

	"github.com/cloudwego/eino/callbacks"
	"github.com/cloudwego/eino/components/model"
	"github.com/cloudwego/eino/components/tool"
	"github.com/cloudwego/eino/compose"
	"github.com/cloudwego/eino/schema"

	"verifharness/internal/mon"
)

// ---------------------------------------------------------------------------------------------
// The tools workload: 1-2 lanes "chat model -> tools node" run side by side in one graph, the tools
// node (or the whole lane) optionally inside a nested graph (up to two levels). Every tool call of an
// assistant message is an execution unit of its own (run info name = the called tool name).
//
//   tools      invokable-only / streamable-only / both; without components.Checker, with a Checker that
//              says false (the framework injects the callbacks) or true (the tool fires them itself)
//   calls      1-6 per message, several to the same tool, to unknown names (answered by
//              ToolsNodeConfig.UnknownToolsHandler, or - without a handler - failing the node before any
//              call runs); a call succeeds, returns an error, panics (string / error / nil dereference)
//              or, streamable tools, puts an error item into its output stream
//   handlers   the process-global one, 0-3 undesignated in 1-2 options, 1-3 options designated to 1-2
//              nodes or node paths (tools nodes preferred)
//   paradigms  Invoke / Stream / Collect / Transform, each with a fresh handler layout
//
// Oracle: expected invocation table. Successful run, or a run whose only lane fails: every (handler,
// unit) pair has exactly the expected number of starts and of end-or-error callbacks. A failing run
// with two lanes (the other lane may have been abandoned at any point): every started unit ends
// exactly once and nothing fires more often than in the table. Always: a designated handler fires only
// for the units at or below its nodes; every event carries the run info of a unit of the table (name
// and component); the non-stream payloads of a tool call are that call's arguments / answer, each
// call's exactly once per handler.
// ---------------------------------------------------------------------------------------------

type toolSpec struct {
	Name    string `json:"name"`
	Form    string `json:"form"`    // invokable | streamable | both
	Checker string `json:"checker"` // none | false | true (true: the tool fires its own callbacks)
}

type callSpec struct {
	Name  string `json:"name"`
	Known bool   `json:"known"`
	Do    string `json:"do"` // ok | error | panic-string | panic-error | panic-nil-deref | midstream
	Args  string `json:"args"`
}

type laneSpec struct {
	Key            string     `json:"key"`
	ModelSelf      bool       `json:"model_fires_its_own_callbacks"`
	Tools          []toolSpec `json:"tools"`
	Calls          []callSpec `json:"calls"`
	UnknownHandler bool       `json:"unknown_tools_handler"`
	// Nest: 0 model and tools node in the top graph; 1 tools node in a nested graph; 2 model and tools
	// node in a nested graph; 3 tools node in a graph nested twice
	Nest int `json:"nest"`
	// ToolListPerCall: the node is built with a decoy tool and the real list arrives as a call option
	ToolListPerCall bool `json:"tool_list_per_call"`
}

type toolsSpec struct {
	Lanes  []laneSpec `json:"lanes"`
	Pregel bool       `json:"pregel"`
}

// tunit: one execution unit of the expected invocation table
type tunit struct {
	name  string
	comp  string // Graph | ChatModel | ToolsNode | Tool
	kind  string // signature class of the unit
	path  []string
	lane  int // -1: TOP
	want  int // executions when everything before it ran
	ins   map[string]bool
	outs  map[string]bool
	fated string // "", "error", "panic": how this very unit fails
}

func isPanicDo(do string) bool { return strings.HasPrefix(do, "panic") }

// ------------------------------------------------------------------ tools

type toolCore struct {
	name string
	self bool
}

func (c *toolCore) Info(context.Context) (*schema.ToolInfo, error) {
	return &schema.ToolInfo{Name: c.name, Desc: c.name}, nil
}

func doOf(args string) string {
	i := strings.Index(args, `"do":"`)
	if i < 0 {
		return "ok"
	}
	rest := args[i+6:]
	return rest[:strings.IndexByte(rest, '"')]
}

var errTool = errors.New("verif-tool-failure")

// answer: what a call does at call time
func answer(name, args string) (string, error) {
	switch doOf(args) {
	case "error":
		return "", fmt.Errorf("tool %s: %w", name, errTool)
	case "panic-string":
		panic("verif-tool-panic@" + name)
	case "panic-error":
		panic(fmt.Errorf("verif-tool-panic-error@%s: %w", name, errTool))
	case "panic-nil-deref":
		var p *toolCore
		_ = p.name
	}
	return name + "=>" + args, nil
}

// selfGuard: a component that fires its own callbacks ends its unit itself, also when it panics
func selfGuard(ctx context.Context) {
	if p := recover(); p != nil {
		callbacks.OnError(ctx, fmt.Errorf("panic: %v", p))
		panic(p)
	}
}

func (c *toolCore) invoke(ctx context.Context, args string) (string, error) {
	if !c.self {
		return answer(c.name, args)
	}
	ctx = callbacks.OnStart(ctx, args)
	defer selfGuard(ctx)
	out, err := answer(c.name, args)
	if err != nil {
		callbacks.OnError(ctx, err)
		return "", err
	}
	callbacks.OnEnd(ctx, out)
	return out, nil
}

func chunksOf(out, args string) *schema.StreamReader[string] {
	n := 1 + len(out)%3
	var cs []string
	for i := 0; i < n; i++ {
		cs = append(cs, out[i*len(out)/n:(i+1)*len(out)/n])
	}
	if doOf(args) != "midstream" {
		return schema.StreamReaderFromArray(cs)
	}
	sr, sw := schema.Pipe[string](len(cs) + 1)
	for i, c := range cs {
		if i == len(cs)/2 {
			sw.Send("", fmt.Errorf("mid-stream: %w", errTool))
		}
		sw.Send(c, nil)
	}
	sw.Close()
	return sr
}

func (c *toolCore) stream(ctx context.Context, args string) (*schema.StreamReader[string], error) {
	if !c.self {
		out, err := answer(c.name, args)
		if err != nil {
			return nil, err
		}
		return chunksOf(out, args), nil
	}
	ctx = callbacks.OnStart(ctx, args)
	defer selfGuard(ctx)
	out, err := answer(c.name, args)
	if err != nil {
		callbacks.OnError(ctx, err)
		return nil, err
	}
	_, sr := callbacks.OnEndWithStreamOutput(ctx, chunksOf(out, args))
	return sr, nil
}

type invTool struct{ *toolCore }

func (t invTool) InvokableRun(ctx context.Context, args string, _ ...tool.Option) (string, error) {
	return t.invoke(ctx, args)
}

type strTool struct{ *toolCore }

func (t strTool) StreamableRun(ctx context.Context, args string, _ ...tool.Option) (*schema.StreamReader[string], error) {
	return t.stream(ctx, args)
}

type bothTool struct{ *toolCore }

func (t bothTool) InvokableRun(ctx context.Context, args string, _ ...tool.Option) (string, error) {
	return t.invoke(ctx, args)
}

func (t bothTool) StreamableRun(ctx context.Context, args string, _ ...tool.Option) (*schema.StreamReader[string], error) {
	return t.stream(ctx, args)
}

// the same three with a components.Checker
type invToolChk struct{ invTool }

func (t invToolChk) IsCallbacksEnabled() bool { return t.self }

type strToolChk struct{ strTool }

func (t strToolChk) IsCallbacksEnabled() bool { return t.self }

type bothToolChk struct{ bothTool }

func (t bothToolChk) IsCallbacksEnabled() bool { return t.self }

func makeTool(s toolSpec) tool.BaseTool {
	c := &toolCore{name: s.Name, self: s.Checker == "true"}
	chk := s.Checker != "none"
	switch s.Form {
	case "invokable":
		if chk {
			return invToolChk{invTool{c}}
		}
		return invTool{c}
	case "streamable":
		if chk {
			return strToolChk{strTool{c}}
		}
		return strTool{c}
	}
	if chk {
		return bothToolChk{bothTool{c}}
	}
	return bothTool{c}
}

// ------------------------------------------------------------------ model

type laneModel struct {
	self bool
	tcs  []schema.ToolCall
}

func (m *laneModel) IsCallbacksEnabled() bool { return m.self }
func (m *laneModel) answer() *schema.Message {
	return schema.AssistantMessage("", append([]schema.ToolCall(nil), m.tcs...))
}

func (m *laneModel) Generate(ctx context.Context, in []*schema.Message, _ ...model.Option) (*schema.Message, error) {
	if m.self {
		ctx = callbacks.OnStart(ctx, in)
	}
	out := m.answer()
	if m.self {
		callbacks.OnEnd(ctx, out)
	}
	return out, nil
}

func (m *laneModel) Stream(ctx context.Context, in []*schema.Message, _ ...model.Option) (*schema.StreamReader[*schema.Message], error) {
	if m.self {
		ctx = callbacks.OnStart(ctx, in)
	}
	sr := schema.StreamReaderFromArray([]*schema.Message{m.answer()})
	if m.self {
		_, sr = callbacks.OnEndWithStreamOutput(ctx, sr)
	}
	return sr, nil
}

func (m *laneModel) BindTools(_ []*schema.ToolInfo) error { return nil }

// ------------------------------------------------------------------ generation

func genToolsSpec(rng *mon.Rand) *toolsSpec {
	sp := &toolsSpec{}
	nl := 1
	if rng.Prob(0.35) {
		nl = 2
	}
	// flavour of the case: clean (everything succeeds) or with 1-2 failing calls
	clean := rng.Prob(0.45)
	for li := 0; li < nl; li++ {
		l := laneSpec{Key: string(rune('a' + li)), ModelSelf: rng.Bool(), Nest: rng.Intn(4), UnknownHandler: rng.Prob(0.7), ToolListPerCall: rng.Prob(0.15)}
		if rng.Prob(0.3) {
			l.Nest = 0
		}
		for i, n := 0, 1+rng.Intn(4); i < n; i++ {
			l.Tools = append(l.Tools, toolSpec{
				Name:    fmt.Sprintf("%s_t%d", l.Key, i),
				Form:    mon.PickOne(rng, []string{"invokable", "streamable", "both"}),
				Checker: mon.PickOne(rng, []string{"none", "false", "true", "true"}),
			})
		}
		nghost := 0
		for i, n := 0, 1+rng.Intn(6); i < n; i++ {
			c := callSpec{Do: "ok"}
			if l.UnknownHandler && rng.Prob(0.3) {
				c.Name, c.Known = fmt.Sprintf("%s_ghost%d", l.Key, rng.Intn(2)), false
				nghost++
			} else {
				c.Name, c.Known = l.Tools[rng.Intn(len(l.Tools))].Name, true
			}
			l.Calls = append(l.Calls, c)
		}
		if !clean {
			for i, n := 0, 1+rng.Intn(2); i < n; i++ {
				// the first call runs on the tools node's own goroutine, the others on goroutines of their own
				k := rng.Intn(len(l.Calls))
				if rng.Prob(0.3) {
					k = 0
				}
				c := &l.Calls[k]
				c.Do = mon.PickOne(rng, []string{"error", "panic-string", "panic-error", "panic-nil-deref", "panic-string", "midstream"})
				if c.Do == "midstream" {
					ok := false
					for _, t := range l.Tools {
						if t.Name == c.Name && t.Form != "invokable" {
							ok = true
						}
					}
					if !ok {
						c.Do = "error"
					}
				}
			}
			if !l.UnknownHandler && rng.Prob(0.15) {
				// an unknown name and nobody to answer it: the node fails before any call runs
				l.Calls[rng.Intn(len(l.Calls))] = callSpec{Name: l.Key + "_ghost0", Do: "ok"}
			}
		}
		for i := range l.Calls {
			l.Calls[i].Args = fmt.Sprintf(`{"i":%d,"do":"%s"}`, i, l.Calls[i].Do)
		}
		sp.Lanes = append(sp.Lanes, l)
	}
	sp.Pregel = nl == 1 && rng.Bool()
	return sp
}

// unknownAnswer is the UnknownToolsHandler of every lane
func unknownAnswer(_ context.Context, name, input string) (string, error) {
	return answer("unknown:"+name, input)
}

// buildTools compiles the graph and returns the expected invocation table.
func buildTools(ctx context.Context, sp *toolsSpec) (compose.Runnable[[]*schema.Message, map[string]any], []tunit, map[int][]compose.Option, error) {
	g := compose.NewGraph[[]*schema.Message, map[string]any]()
	us := []tunit{{name: "TOP", comp: "Graph", kind: "graph", lane: -1, want: 1}}
	callOpts := map[int][]compose.Option{}
	for li, l := range sp.Lanes {
		var tools []tool.BaseTool
		for _, t := range l.Tools {
			tools = append(tools, makeTool(t))
		}
		conf := &compose.ToolsNodeConfig{Tools: tools}
		if l.ToolListPerCall {
			conf.Tools = []tool.BaseTool{makeTool(toolSpec{Name: l.Key + "_decoy", Form: "both", Checker: "none"})}
		}
		if l.UnknownHandler {
			conf.UnknownToolsHandler = unknownAnswer
		}
		tn, err := compose.NewToolNode(ctx, conf)
		if err != nil {
			return nil, nil, nil, err
		}
		m := &laneModel{self: l.ModelSelf}
		for i, c := range l.Calls {
			m.tcs = append(m.tcs, schema.ToolCall{ID: fmt.Sprintf("%s-call-%d", l.Key, i), Type: "function", Function: schema.FunctionCall{Name: c.Name, Arguments: c.Args}})
		}
		mk, tk, sk, sk2 := l.Key+"_model", l.Key+"_tools", l.Key+"_sub", l.Key+"_sub2"
		out := compose.WithOutputKey(l.Key)
		var mpath, tpath []string
		var errs []error
		add := func(e error) { errs = append(errs, e) }
		switch l.Nest {
		case 0:
			add(g.AddChatModelNode(mk, m, compose.WithNodeName(mk)))
			add(g.AddToolsNode(tk, tn, compose.WithNodeName(tk), out))
			add(g.AddEdge(compose.START, mk))
			add(g.AddEdge(mk, tk))
			add(g.AddEdge(tk, compose.END))
			mpath, tpath = []string{mk}, []string{tk}
		case 1, 3:
			sub := compose.NewGraph[*schema.Message, []*schema.Message]()
			if l.Nest == 1 {
				add(sub.AddToolsNode(tk, tn, compose.WithNodeName(tk)))
				add(sub.AddEdge(compose.START, tk))
				add(sub.AddEdge(tk, compose.END))
				tpath = []string{sk, tk}
			} else {
				sub2 := compose.NewGraph[*schema.Message, []*schema.Message]()
				add(sub2.AddToolsNode(tk, tn, compose.WithNodeName(tk)))
				add(sub2.AddEdge(compose.START, tk))
				add(sub2.AddEdge(tk, compose.END))
				add(sub.AddGraphNode(sk2, sub2, compose.WithNodeName(sk2)))
				add(sub.AddEdge(compose.START, sk2))
				add(sub.AddEdge(sk2, compose.END))
				tpath = []string{sk, sk2, tk}
				us = append(us, tunit{name: sk2, comp: "Graph", kind: "nested-graph", path: []string{sk, sk2}, lane: li, want: 1})
			}
			add(g.AddChatModelNode(mk, m, compose.WithNodeName(mk)))
			add(g.AddGraphNode(sk, sub, compose.WithNodeName(sk), out))
			add(g.AddEdge(compose.START, mk))
			add(g.AddEdge(mk, sk))
			add(g.AddEdge(sk, compose.END))
			mpath = []string{mk}
			us = append(us, tunit{name: sk, comp: "Graph", kind: "nested-graph", path: []string{sk}, lane: li, want: 1})
		case 2:
			sub := compose.NewGraph[[]*schema.Message, []*schema.Message]()
			add(sub.AddChatModelNode(mk, m, compose.WithNodeName(mk)))
			add(sub.AddToolsNode(tk, tn, compose.WithNodeName(tk)))
			add(sub.AddEdge(compose.START, mk))
			add(sub.AddEdge(mk, tk))
			add(sub.AddEdge(tk, compose.END))
			add(g.AddGraphNode(sk, sub, compose.WithNodeName(sk), out))
			add(g.AddEdge(compose.START, sk))
			add(g.AddEdge(sk, compose.END))
			mpath, tpath = []string{sk, mk}, []string{sk, tk}
			us = append(us, tunit{name: sk, comp: "Graph", kind: "nested-graph", path: []string{sk}, lane: li, want: 1})
		}
		for _, e := range errs {
			if e != nil {
				return nil, nil, nil, e
			}
		}
		if l.ToolListPerCall {
			callOpts[li] = []compose.Option{compose.WithToolsNodeOption(compose.WithToolList(tools...)).DesignateNodeWithPath(compose.NewNodePath(tpath...))}
		}
		mkind := "model/framework-injected"
		if l.ModelSelf {
			mkind = "model/fires-itself"
		}
		us = append(us, tunit{name: mk, comp: "ChatModel", kind: mkind, path: mpath, lane: li, want: 1})
		// does the node get to run its calls at all?
		runs := true
		nodeFate := ""
		for i, c := range l.Calls {
			if !c.Known && !l.UnknownHandler {
				runs = false
			}
			if i == 0 && isPanicDo(c.Do) {
				nodeFate = "panic" // the first call runs on the node's own goroutine: its panic unwinds the node
			}
		}
		if !runs {
			nodeFate = "error"
		}
		us = append(us, tunit{name: tk, comp: "ToolsNode", kind: "tools-node", path: tpath, lane: li, want: 1, fated: nodeFate})
		byName := map[string]*tunit{}
		var order []string
		for _, c := range l.Calls {
			u := byName[c.Name]
			if u == nil {
				kind := "tool-call/unknown-handled"
				if c.Known {
					for _, t := range l.Tools {
						if t.Name == c.Name {
							who := "framework-injected"
							if t.Checker == "true" {
								who = "tool-fires-itself"
							}
							kind = "tool-call/" + t.Form + "/" + who
						}
					}
				} else if !l.UnknownHandler {
					kind = "tool-call/unknown-unhandled"
				}
				u = &tunit{name: c.Name, comp: "Tool", kind: kind, path: append(append([]string(nil), tpath...), c.Name), lane: li, ins: map[string]bool{}, outs: map[string]bool{}}
				byName[c.Name] = u
				order = append(order, c.Name)
			}
			if runs {
				u.want++
			}
			u.ins[c.Args] = true
			if c.Known {
				u.outs[c.Name+"=>"+c.Args] = true
			} else {
				u.outs["unknown:"+c.Name+"=>"+c.Args] = true
			}
			switch {
			case isPanicDo(c.Do):
				u.fated = "panic"
			case c.Do == "error" && u.fated == "":
				u.fated = "error"
			}
		}
		for _, n := range order {
			us = append(us, *byName[n])
		}
	}
	var copts []compose.GraphCompileOption
	copts = append(copts, compose.WithGraphName("TOP"))
	if !sp.Pregel {
		copts = append(copts, compose.WithNodeTriggerMode(compose.AllPredecessor))
	}
	r, err := g.Compile(ctx, copts...)
	return r, us, callOpts, err
}

// laneFails: does the lane fail when the graph is called in this paradigm? (a call with an error item
// in its output stream only fails where the tool's streaming form is used)
func laneFails(l laneSpec, para string) bool {
	for _, c := range l.Calls {
		if !c.Known && !l.UnknownHandler {
			return true
		}
		switch c.Do {
		case "ok":
		case "midstream":
			for _, t := range l.Tools {
				if t.Name == c.Name && (t.Form == "streamable" || para != "I") {
					return true
				}
			}
		default:
			return true
		}
	}
	return false
}

// ------------------------------------------------------------------ the case

func toolsCase(ctx context.Context, rep *mon.Reporter, rng *mon.Rand) {
	sp := genToolsSpec(rng)
	r, us, callOpts, err := buildTools(ctx, sp)
	if err != nil {
		rep.Violation(ID+"/tools/build-error", err.Error(), sp)
		return
	}
	// nodes a handler can be designated to
	var nodes, toolsNodes [][]string
	for _, u := range us {
		if u.comp == "Tool" || u.name == "TOP" {
			continue
		}
		nodes = append(nodes, u.path)
		if u.comp == "ToolsNode" {
			toolsNodes = append(toolsNodes, u.path)
		}
	}
	for _, pi := range rng.Perm(4) {
		para := []string{"I", "S", "C", "T"}[pi]
		failing := false
		for _, l := range sp.Lanes {
			failing = failing || laneFails(l, para)
		}
		// ---- handler layout
		var hs []hspec
		nopts := 1 + rng.Intn(2)
		for i, n := 0, rng.Intn(4); i < n; i++ {
			hs = append(hs, hspec{ID: fmt.Sprintf("U%d", i), Mode: readMode(rng.Intn(3)), Opt: rng.Intn(nopts)})
		}
		for i, n := 0, 1+rng.Intn(3); i < n; i++ {
			p := nodes[rng.Intn(len(nodes))]
			if rng.Bool() {
				p = toolsNodes[rng.Intn(len(toolsNodes))]
			}
			h := hspec{ID: fmt.Sprintf("D%d@%s", i, strings.Join(p, "/")), Path: p, Mode: readMode(rng.Intn(3)), Opt: nopts + i}
			if rng.Prob(0.3) {
				q := nodes[rng.Intn(len(nodes))]
				if !related(p, q) {
					h.More = [][]string{q}
					h.ID += "+" + strings.Join(q, "/")
				}
			}
			hs = append(hs, h)
		}
		toolsRun(ctx, rep, rng, sp, r, us, callOpts, hs, para, failing)
	}
}

func toolsRun(ctx context.Context, rep *mon.Reporter, rng *mon.Rand, sp *toolsSpec, r compose.Runnable[[]*schema.Message, map[string]any], us []tunit, callOpts map[int][]compose.Option, hs []hspec, para string, failing bool) {
	rec := &recorder{content: true}
	byOpt := map[int][]callbacks.Handler{}
	optPaths := map[int][][]string{}
	var optIdx []int
	for _, h := range hs {
		if _, ok := byOpt[h.Opt]; !ok {
			optIdx = append(optIdx, h.Opt)
		}
		byOpt[h.Opt] = append(byOpt[h.Opt], newHandler(h.ID, rec, h.Mode))
		if h.Path != nil {
			optPaths[h.Opt] = append([][]string{h.Path}, h.More...)
		}
	}
	sort.Ints(optIdx)
	var opts []compose.Option
	for _, i := range optIdx {
		o := compose.WithCallbacks(byOpt[i]...)
		if ps := optPaths[i]; ps != nil {
			if len(ps) == 1 && len(ps[0]) == 1 && rng.Bool() {
				o = o.DesignateNode(ps[0][0])
			} else {
				var nps []*compose.NodePath
				for _, p := range ps {
					nps = append(nps, compose.NewNodePath(p...))
				}
				o = o.DesignateNodeWithPath(nps...)
			}
		}
		opts = append(opts, o)
	}
	for li := range sp.Lanes {
		opts = append(opts, callOpts[li]...)
	}
	cctx := context.WithValue(ctx, recKey{}, rec)
	in := []*schema.Message{schema.UserMessage("go")}
	var outErr error
	var p *mon.Panic
	// what the run delivered: lane key -> slot -> "<tool call id>|<content>", chunks joined by the harness
	result := map[string][]string{}
	takeChunk := func(c map[string]any) {
		for k, v := range c {
			ms, _ := v.([]*schema.Message)
			for len(result[k]) < len(ms) {
				result[k] = append(result[k], "")
			}
			for i, m := range ms {
				if m == nil {
					continue
				}
				if result[k][i] == "" {
					result[k][i] = m.ToolCallID + "|"
				}
				result[k][i] += m.Content
			}
		}
	}
	done := make(chan struct{})
	go func() {
		defer close(done)
		p = mon.Safe(func() {
			drain := func(sr *schema.StreamReader[map[string]any], err error) {
				if err != nil {
					outErr = err
					return
				}
				defer sr.Close()
				for {
					c, err := sr.Recv()
					if err == io.EOF {
						return
					} else if err != nil {
						outErr = err
						return
					}
					takeChunk(c)
				}
			}
			value := func(v map[string]any, err error) {
				if outErr = err; err == nil {
					takeChunk(v)
				}
			}
			one := func() *schema.StreamReader[[]*schema.Message] {
				return schema.StreamReaderFromArray([][]*schema.Message{in})
			}
			switch para {
			case "I":
				value(r.Invoke(cctx, in, opts...))
			case "S":
				drain(r.Stream(cctx, in, opts...))
			case "C":
				value(r.Collect(cctx, one(), opts...))
			default:
				drain(r.Transform(cctx, one(), opts...))
			}
		})
	}()
	rep.AddEvaluations(1)
	rep.Count("tools_runs", 1)
	rep.Count("tools_runs_"+para, 1)
	wit := map[string]any{"spec": sp, "handlers": hs, "paradigm": para}
	if w, d := mon.WaitDone(done, 120*time.Second); w == mon.Stuck {
		rep.Violation(ID+"/tools/hang", fmt.Sprintf("the run never returns; %d goroutines parked", len(d)), wit)
		return
	} else if w != mon.Finished {
		rep.Inconclusive("watchdog")
		return
	}
	if failing {
		// tool calls that were still running on goroutines of their own when the run returned (the first
		// call of a message unwinds the node without waiting for the others) finish now
		if _, ok := mon.Settle(3, 800); !ok {
			rep.Count("tools_runs_not_settled_not_judged", 1)
			return
		}
	}
	// handlers that read their stream copies to the end finish once the streams end
	doneReaders := make(chan struct{})
	go func() { rec.wg.Wait(); close(doneReaders) }()
	if w, d := mon.WaitDone(doneReaders, 120*time.Second); w == mon.Stuck {
		rep.Violation(ID+"/tools/handler-stream-copy-never-ends", fmt.Sprintf("a handler that reads its stream copy to the end never sees EOF; %d goroutines parked", len(d)), wit)
		return
	} else if w != mon.Finished {
		rep.Inconclusive("watchdog")
		return
	}
	if p != nil {
		rep.Violation(ID+"/tools/panic-reaches-caller", p.Value+"\n"+p.Stack, wit)
		return
	}
	if !failing && outErr != nil {
		rep.Violation(ID+"/tools/run-failed", fmt.Sprintf("every model, tool and handler of this case succeeds, the run failed: %v", outErr), wit)
		return
	}
	if !failing {
		// whatever the handlers do with their stream copies, the run delivers every call's answer
		for _, l := range sp.Lanes {
			var want []string
			for i, c := range l.Calls {
				a := c.Name + "=>" + c.Args
				if !c.Known {
					a = "unknown:" + a
				}
				want = append(want, fmt.Sprintf("%s-call-%d|%s", l.Key, i, a))
			}
			if fmt.Sprint(result[l.Key]) != fmt.Sprint(want) {
				rep.Violation(ID+"/tools/result-disturbed-by-handlers", fmt.Sprintf("lane %s, paradigm %s: the run delivered the tool messages %q, expected %q\nhandlers: %+v", l.Key, para, result[l.Key], want, hs), wit)
				return
			}
			rep.Count("tools_results_checked", 1)
		}
	}
	if failing && outErr == nil {
		rep.Count("tools_failing_runs_that_succeeded_not_judged", 1) // C13's business
		return
	}
	if failing {
		rep.Count("tools_failing_runs", 1)
	}
	rec.mu.Lock()
	evs := append([]event(nil), rec.events...)
	rec.mu.Unlock()
	rep.Count("callback_events", int64(len(evs)))
	var b strings.Builder
	for _, e := range evs {
		fmt.Fprintf(&b, "  %d %s %s name=%s comp=%s stream=%v %s\n", e.seq, e.handler, e.timing, e.name, e.comp, e.stream, e.payload)
	}
	head := fmt.Sprintf("paradigm %s, run error: %v\nlanes: %+v\nhandlers: %+v\n", para, outErr, sp.Lanes, hs)
	// one violation per signature and run
	seen := map[string]bool{}
	bad := false
	report := func(sig, text string) {
		bad = true
		if !seen[sig] {
			seen[sig] = true
			rep.Violation(sig, text+"\n"+head+b.String(), wit)
		}
	}
	byName := map[string]*tunit{}
	for i := range us {
		byName[us[i].name] = &us[i]
	}
	exact := !failing || len(sp.Lanes) == 1
	for _, h := range append([]hspec{{ID: "GLOBAL"}}, hs...) {
		hclass := "undesignated"
		if h.ID == "GLOBAL" {
			hclass = "global"
		} else if h.Path != nil {
			hclass = "designated"
		}
		applies := func(u *tunit) bool {
			if h.Path == nil {
				return true
			}
			for _, p := range append([][]string{h.Path}, h.More...) {
				if len(u.path) >= len(p) && related(u.path, p) {
					return true
				}
			}
			return false
		}
		starts, ends := map[string]int{}, map[string]int{}
		pay := map[string]int{} // unit|timing|payload -> occurrences
		for _, e := range evs {
			if e.handler != h.ID {
				continue
			}
			u := byName[e.name]
			if u == nil {
				report(ID+"/tools/unknown-unit", fmt.Sprintf("handler %s: a callback with run info name %q (component %s), which names no unit of this run", h.ID, e.name, e.comp))
				continue
			}
			if e.timing == "content" {
				// what this handler's copy of the unit's output stream carried
				if u.comp == "Tool" {
					k := e.name + "|content|" + e.payload
					pay[k]++
					if !u.outs[e.payload] {
						report(ID+"/tools/wrong-payload/stream-end/"+u.kind, fmt.Sprintf("handler %s read %q from its copy of the output stream of tool call unit %s; the answers of that tool's calls: %v", h.ID, e.payload, e.name, mon.SortedKeys(u.outs)))
					} else if pay[k] > 1 {
						report(ID+"/tools/payload-of-another-call/stream-end/"+u.kind, fmt.Sprintf("handler %s read the answer %q of tool %s from two stream copies: every call has its own answer", h.ID, e.payload, e.name))
					}
					rep.Count("tool_stream_payloads_checked", 1)
				}
				continue
			}
			if e.comp != u.comp {
				report(ID+"/tools/wrong-run-info/"+u.kind, fmt.Sprintf("handler %s: unit %s reported with component %q, expected %q", h.ID, e.name, e.comp, u.comp))
			}
			if e.timing == "start" {
				starts[e.name]++
			} else {
				ends[e.name]++
				if ends[e.name] > starts[e.name] {
					report(ID+"/tools/end-without-start/"+u.kind, fmt.Sprintf("handler %s: end of %s before its start", h.ID, e.name))
				}
			}
			if u.comp == "Tool" && !e.stream && e.timing != "error" {
				pool := u.ins
				if e.timing == "end" {
					pool = u.outs
				}
				k := e.name + "|" + e.timing + "|" + e.payload
				pay[k]++
				if !pool[e.payload] {
					report(ID+"/tools/wrong-payload/"+e.timing+"/"+u.kind, fmt.Sprintf("handler %s got the %s payload %q for tool call unit %s; the calls of that tool: %v", h.ID, e.timing, e.payload, e.name, mon.SortedKeys(pool)))
				} else if pay[k] > 1 {
					report(ID+"/tools/payload-of-another-call/"+e.timing+"/"+u.kind, fmt.Sprintf("handler %s got the %s payload %q of tool %s twice: every call has its own arguments and answer", h.ID, e.timing, e.payload, e.name))
				}
				rep.Count("tool_payloads_checked", 1)
			}
		}
		for i := range us {
			u := &us[i]
			s, e := starts[u.name], ends[u.name]
			fate := ""
			if u.fated != "" {
				fate = "/" + u.fated
			}
			if !applies(u) {
				if s > 0 || e > 0 {
					report(ID+"/tools/designated-handler-fired-for-another-unit/"+u.kind, fmt.Sprintf("handler %s (designated to %v %v) fired %d start / %d end-or-error callbacks for unit %s", h.ID, h.Path, h.More, s, e, u.name))
				}
				continue
			}
			switch {
			case e < s:
				report(ID+"/tools/start-without-end/"+u.kind+fate, fmt.Sprintf("%s handler %s, unit %s: %d start but %d end-or-error callbacks: the unit started and never ended for this handler", hclass, h.ID, u.name, s, e))
			case s > u.want:
				report(ID+"/tools/fired-too-often/"+u.kind, fmt.Sprintf("%s handler %s, unit %s: %d start / %d end-or-error callbacks, expected %d of each", hclass, h.ID, u.name, s, e, u.want))
			case exact && s < u.want:
				report(ID+"/tools/fired-too-rarely/"+u.kind, fmt.Sprintf("%s handler %s, unit %s: %d start / %d end-or-error callbacks, expected %d of each", hclass, h.ID, u.name, s, e, u.want))
			}
			rep.Count("handler_unit_pairs_checked", 1)
			rep.Count("tools_pairs_"+hclass, 1)
		}
	}
	if bad {
		return
	}
	for _, u := range us {
		if u.comp == "Tool" && u.want > 0 {
			rep.Count("tool_call_units_"+u.kind, 1)
			if u.want > 1 {
				rep.Count("tool_call_units_called_several_times", 1)
			}
			if u.fated == "panic" {
				rep.Count("tool_call_units_panicking", 1)
			}
		}
	}
	rep.NonTrivial(fmt.Sprintf("tools|%+v|%v|%s", *sp, hs, para))
}
