package c10

import (
	"context"
	"fmt"
	"strings"

	"github.com/cloudwego/eino/callbacks"
	"github.com/cloudwego/eino/components/model"
	"github.com/cloudwego/eino/components/tool"
	"github.com/cloudwego/eino/compose"
	"github.com/cloudwego/eino/schema"

	"verifharness/internal/mon"
)

// cbModel: a chat model that either lets the framework inject its callbacks (self=false) or fires them
// itself (self=true, IsCallbacksEnabled). Either way every handler must see exactly one start and one end.
type cbModel struct {
	self  bool
	calls []string // tool names to call
}

func (m *cbModel) IsCallbacksEnabled() bool { return m.self }

func (m *cbModel) answer() *schema.Message {
	var tcs []schema.ToolCall
	for i, n := range m.calls {
		tcs = append(tcs, schema.ToolCall{ID: fmt.Sprintf("call-%d", i), Type: "function", Function: schema.FunctionCall{Name: n, Arguments: fmt.Sprintf(`{"i":%d}`, i)}})
	}
	return schema.AssistantMessage("", tcs)
}

func (m *cbModel) Generate(ctx context.Context, in []*schema.Message, _ ...model.Option) (*schema.Message, error) {
	if m.self {
		ctx = callbacks.OnStart(ctx, in)
	}
	out := m.answer()
	if m.self {
		callbacks.OnEnd(ctx, out)
	}
	return out, nil
}

func (m *cbModel) Stream(ctx context.Context, in []*schema.Message, _ ...model.Option) (*schema.StreamReader[*schema.Message], error) {
	if m.self {
		ctx = callbacks.OnStart(ctx, in)
	}
	sr := schema.StreamReaderFromArray([]*schema.Message{m.answer()})
	if m.self {
		_, sr = callbacks.OnEndWithStreamOutput(ctx, sr)
	}
	return sr, nil
}

func (m *cbModel) BindTools(_ []*schema.ToolInfo) error { return nil }

type plainTool struct{ name string }

func (t *plainTool) Info(context.Context) (*schema.ToolInfo, error) {
	return &schema.ToolInfo{Name: t.name, Desc: t.name}, nil
}

func (t *plainTool) InvokableRun(_ context.Context, args string, _ ...tool.Option) (string, error) {
	return t.name + ":" + args, nil
}

// componentCase: a model node, a tools node and per-tool-call execution units.
func componentCase(ctx context.Context, rep *mon.Reporter, rng *mon.Rand) {
	ntools := 1 + rng.Intn(3)
	var tools []tool.BaseTool
	for i := 0; i < ntools; i++ {
		tools = append(tools, &plainTool{name: fmt.Sprintf("t%d", i)})
	}
	var calls []string
	for i, n := 0, 1+rng.Intn(5); i < n; i++ {
		calls = append(calls, fmt.Sprintf("t%d", rng.Intn(ntools)))
	}
	m := &cbModel{self: rng.Bool(), calls: calls}
	tn, err := compose.NewToolNode(ctx, &compose.ToolsNodeConfig{Tools: tools})
	if err != nil {
		rep.Violation(ID+"/component/build-error", err.Error(), nil)
		return
	}
	g := compose.NewGraph[[]*schema.Message, []*schema.Message]()
	_ = g.AddChatModelNode("model", m, compose.WithNodeName("model"))
	_ = g.AddToolsNode("tools", tn, compose.WithNodeName("tools"))
	_ = g.AddEdge(compose.START, "model")
	_ = g.AddEdge("model", "tools")
	_ = g.AddEdge("tools", compose.END)
	r, err := g.Compile(ctx, compose.WithGraphName("TOP"))
	if err != nil {
		rep.Violation(ID+"/component/build-error", err.Error(), nil)
		return
	}
	for _, stream := range []bool{false, true} {
		rec := &recorder{}
		hs := []hspec{{ID: "U0", Mode: readMode(rng.Intn(3))}, {ID: "U1", Mode: readMode(rng.Intn(3))}, {ID: "U2", Mode: readMode(rng.Intn(3))},
			{ID: "D@tools", Path: []string{"tools"}, Mode: readMode(rng.Intn(3))}, {ID: "D@model", Path: []string{"model"}, Mode: readMode(rng.Intn(3))}}
		opts := []compose.Option{
			compose.WithCallbacks(newHandler("U0", rec, hs[0].Mode), newHandler("U1", rec, hs[1].Mode), newHandler("U2", rec, hs[2].Mode)),
			compose.WithCallbacks(newHandler("D@tools", rec, hs[3].Mode)).DesignateNode("tools"),
			compose.WithCallbacks(newHandler("D@model", rec, hs[4].Mode)).DesignateNode("model"),
		}
		cctx := context.WithValue(ctx, recKey{}, rec)
		in := []*schema.Message{schema.UserMessage("go")}
		var outErr error
		p := mon.Safe(func() {
			if !stream {
				_, outErr = r.Invoke(cctx, in, opts...)
				return
			}
			sr, err := r.Stream(cctx, in, opts...)
			if err != nil {
				outErr = err
				return
			}
			for {
				if _, err := sr.Recv(); err != nil {
					break
				}
			}
			sr.Close()
		})
		rep.AddEvaluations(1)
		rep.Count("component_runs", 1)
		wit := map[string]any{"model_fires_its_own_callbacks": m.self, "calls": calls, "stream": stream}
		if p != nil || outErr != nil {
			rep.Violation(ID+"/component/run-failed", fmt.Sprint(p, outErr), wit)
			return
		}
		rec.wg.Wait()
		rec.mu.Lock()
		evs := append([]event(nil), rec.events...)
		rec.mu.Unlock()
		want := map[string]int{"TOP": 1, "model": 1, "tools": 1}
		for _, c := range calls {
			want[c]++
		}
		var b strings.Builder
		for _, e := range evs {
			fmt.Fprintf(&b, "  %d %s %s name=%s comp=%s stream=%v\n", e.seq, e.handler, e.timing, e.name, e.comp, e.stream)
		}
		for _, h := range append([]hspec{{ID: "GLOBAL"}}, hs...) {
			starts, ends := map[string]int{}, map[string]int{}
			for _, e := range evs {
				if e.handler != h.ID {
					continue
				}
				if e.timing == "start" {
					starts[e.name]++
				} else {
					ends[e.name]++
				}
			}
			for n, w := range want {
				applies := h.Path == nil || h.Path[0] == n || (h.Path[0] == "tools" && strings.HasPrefix(n, "t") && n != "tools")
				if !applies {
					w = 0
				}
				if starts[n] != w || ends[n] != w {
					cl := "fired-too-rarely"
					if starts[n] > w || ends[n] > w {
						cl = "fired-too-often"
					}
					who := "framework-injected"
					if m.self && n == "model" {
						who = "component-fires-itself"
					}
					unit := "node"
					if n != "TOP" && n != "model" && n != "tools" {
						unit = "tool-call"
					}
					rep.Violation(ID+"/component/"+cl+"/"+unit+"/"+who, fmt.Sprintf("handler %s, unit %s: %d start / %d end callbacks, expected %d of each\n%+v\n%s", h.ID, n, starts[n], ends[n], w, wit, b.String()), wit)
					return
				}
				rep.Count("handler_unit_pairs_checked", 1)
			}
		}
		rep.NonTrivial(fmt.Sprintf("component|%v|%v|%v", m.self, calls, stream))
	}
}
