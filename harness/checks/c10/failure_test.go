package c10

import (
	"context"
	"fmt"
	"strings"

	"github.com/cloudwego/eino/compose"

	"verifharness/internal/gspec"
	"verifharness/internal/mon"
)

// failureRun: a node body or a branch condition (preferably one on START) is made to fail. Every
// handler must still see exactly one start and exactly one end-or-error per execution unit that
// started — in particular the graph itself: one start, one error.
func failureRun(ctx context.Context, rep *mon.Reporter, rng *mon.Rand, spec *gspec.GraphSpec, r compose.Runnable[gspec.V, gspec.V], in gspec.V, ref *gspec.RefResult) {
	var victim, kind string
	var startBranches []string
	for _, b := range spec.Branches {
		if b.From == gspec.START {
			startBranches = append(startBranches, b.ID)
		}
	}
	switch {
	case len(startBranches) > 0 && rng.Prob(0.6):
		victim, kind = startBranches[rng.Intn(len(startBranches))], "start-branch-condition"
	case len(spec.Branches) > 0 && rng.Prob(0.3):
		victim, kind = spec.Branches[rng.Intn(len(spec.Branches))].ID, "branch-condition"
	case len(ref.Execs) > 0:
		victim, kind = ref.Execs[rng.Intn(len(ref.Execs))].Node, "node-body"
	default:
		return
	}
	fault := gspec.FailSentinel
	if kind == "node-body" && rng.Bool() {
		fault = gspec.PanicString
	}
	faults := map[string]gspec.Fault{victim: fault}
	fref := gspec.EvalGraph(spec, in, &gspec.RefEnv{Faults: faults})
	if fref.Err != "nodefail" {
		return // the failing branch is never evaluated on this input
	}
	rec := &recorder{}
	hs := []hspec{{ID: "U0", Mode: readAll}, {ID: "U1", Mode: closeAtOnce}}
	opts := []compose.Option{compose.WithCallbacks(newHandler("U0", rec, readAll)), compose.WithCallbacks(newHandler("U1", rec, closeAtOnce))}
	para := []string{"I", "S", "C", "T"}[rng.Intn(4)]
	ctl := gspec.NewCtl("r")
	ctl.Faults = faults
	cctx := context.WithValue(gspec.WithCtl(ctx, ctl), recKey{}, rec)
	out, wres, dump := gspec.CallGuarded(cctx, r, para, in, rng.Uint64(), -1, opts...)
	rep.AddEvaluations(1)
	rep.Count("failure_runs", 1)
	wit := map[string]any{"spec": spec, "input": in, "failing": victim, "kind": kind, "paradigm": para, "handlers": hs}
	if wres == mon.Stuck {
		where, detail := gspec.StuckSignature(dump)
		rep.Violation(ID+"/failure/hang/"+where, detail, wit)
		return
	}
	if wres != mon.Finished {
		rep.Inconclusive("watchdog")
		return
	}
	mon.Settle(3, 800) // nodes that were still running when the failing run returned finish now
	rec.wg.Wait()
	if !out.Failed() {
		rep.Count("failure_runs_that_succeeded_not_judged", 1) // whether the failure must surface is C13's business
		return
	}
	rec.mu.Lock()
	evs := append([]event(nil), rec.events...)
	rec.mu.Unlock()
	var b strings.Builder
	for _, e := range evs {
		fmt.Fprintf(&b, "  %d %s %s name=%s comp=%s stream=%v\n", e.seq, e.handler, e.timing, e.name, e.comp, e.stream)
	}
	for _, h := range []string{"GLOBAL", "U0", "U1"} {
		starts, ends, errs := map[string]int{}, map[string]int{}, map[string]int{}
		for _, e := range evs {
			if e.handler != h || e.comp == "Passthrough" {
				continue
			}
			switch e.timing {
			case "start":
				starts[e.name]++
			case "error":
				errs[e.name]++
			default:
				ends[e.name]++
			}
		}
		if starts["TOP"] != 1 || ends["TOP"]+errs["TOP"] != 1 {
			rep.Violation(ID+"/failure/graph-level/"+kind, fmt.Sprintf("handler %s: the failing graph run fired %d start, %d end, %d error callbacks for the graph itself (expected 1 start and 1 end-or-error)\nfailing %s %s, paradigm %s, run error: %v\n%s", h, starts["TOP"], ends["TOP"], errs["TOP"], kind, victim, para, out.Err, b.String()), wit)
			return
		}
		for n, s := range starts {
			if n == "TOP" {
				continue
			}
			// a unit that started ends exactly once (after the process settled); nested graph units
			// whose run was abandoned by the failing parent are exempt from the "ended" half
			if ends[n]+errs[n] > s {
				rep.Violation(ID+"/failure/more-ends-than-starts/"+kind, fmt.Sprintf("handler %s, unit %s: %d start but %d end and %d error callbacks\n%s", h, n, s, ends[n], errs[n], b.String()), wit)
				return
			}
		}
		rep.Count("failure_handler_checks", 1)
	}
	rep.NonTrivial(fmt.Sprintf("failure|%s|%s|%s|%s", spec.Digest(), victim, kind, para))
}
