package c10

import (
	"context"
	"fmt"
	"sort"
	"strings"

	"github.com/cloudwego/eino/compose"

	"verifharness/internal/gspec"
	"verifharness/internal/mon"
)

// bodyFaults: the ways a node body is made to fail. The panicking ones leave the body by unwinding
// through the framework's callback wrapper: the unit still has to end (OnError) for its handlers.
var bodyFaults = []gspec.Fault{gspec.FailSentinel, gspec.FailCustom, gspec.PanicString, gspec.PanicError, gspec.PanicNilDeref, gspec.PanicString, gspec.PanicError, gspec.PanicNilDeref}

func faultClass(f gspec.Fault) string {
	switch f {
	case gspec.PanicString, gspec.PanicError, gspec.PanicNilDeref:
		return "panic"
	}
	return "error"
}

func faultName(f gspec.Fault) string {
	switch f {
	case gspec.FailSentinel:
		return "error-sentinel"
	case gspec.FailCustom:
		return "error-custom"
	case gspec.PanicString:
		return "panic-string"
	case gspec.PanicError:
		return "panic-error"
	case gspec.PanicNilDeref:
		return "panic-nil-deref"
	}
	return fmt.Sprint(int(f))
}

// stateFault: a state handler (kind pre | post) of one node panics; carried by the run's context and
// found by the hook the specs are built with (gspec.BuildOpts.OnState)
type stateFault struct {
	node, kind string
	do         gspec.Fault
}

type stateFaultKey struct{}

func stateHook(ctx context.Context, kind, node string, _ *gspec.St) {
	f, _ := ctx.Value(stateFaultKey{}).(*stateFault)
	if f == nil || f.node != node || f.kind != kind {
		return
	}
	switch f.do {
	case gspec.PanicError:
		panic(fmt.Errorf("verif-state-handler-panic@%s:%s: %w", kind, node, gspec.ErrSentinel))
	case gspec.PanicNilDeref:
		var p *stateFault
		_ = p.node
	}
	panic("verif-state-handler-panic@" + kind + ":" + node)
}

// failureRun: a node body (returning an error or panicking, three panic flavours), a branch
// condition (preferably one on START) or a state handler (panicking on the run loop of its graph: the
// graph around it, at any depth, is the unit that fails) is made to fail, in one of the four paradigms, under the global
// handler, two undesignated handlers and handlers designated to the failing node, to a nested graph
// around it and to some other unit. Every handler must see exactly one start and exactly one
// end-or-error per execution unit that started — the failing unit and the graph itself included — and
// a designated handler only its own units.
func failureRun(ctx context.Context, rep *mon.Reporter, rng *mon.Rand, spec *gspec.GraphSpec, r compose.Runnable[gspec.V, gspec.V], in gspec.V, ref *gspec.RefResult) {
	var victim, kind string
	var startBranches []string
	for _, b := range spec.Branches {
		if b.From == gspec.START {
			startBranches = append(startBranches, b.ID)
		}
	}
	// state handlers that the reference run invokes: graph name -> "pre:node" / "post:node"
	var stateSites [][2]string
	for _, g := range mon.SortedKeys(ref.StateLog) {
		for _, h := range ref.StateLog[g] {
			stateSites = append(stateSites, [2]string{g, h})
		}
	}
	var sfault *stateFault
	owner := "" // unit name of the graph on whose run loop the failing branch condition / state handler runs
	switch {
	case len(stateSites) > 0 && rng.Prob(0.3):
		site := stateSites[rng.Intn(len(stateSites))]
		i := strings.IndexByte(site[1], ':')
		sfault = &stateFault{kind: site[1][:i], node: site[1][i+1:], do: []gspec.Fault{gspec.PanicString, gspec.PanicError, gspec.PanicNilDeref}[rng.Intn(3)]}
		victim, kind = sfault.node, "state-"+sfault.kind+"-handler"
		owner = "TOP"
		if site[0] != "" {
			owner = site[0][strings.LastIndexByte(site[0], '/')+1:]
		}
	case len(startBranches) > 0 && rng.Prob(0.4):
		victim, kind = startBranches[rng.Intn(len(startBranches))], "start-branch-condition"
	case len(spec.Branches) > 0 && rng.Prob(0.25):
		victim, kind = spec.Branches[rng.Intn(len(spec.Branches))].ID, "branch-condition"
	case len(ref.Execs) > 0:
		victim, kind = ref.Execs[rng.Intn(len(ref.Execs))].Node, "node-body"
	default:
		return
	}
	fault := gspec.FailSentinel
	if kind == "node-body" {
		fault = bodyFaults[rng.Intn(len(bodyFaults))]
	}
	faults := map[string]gspec.Fault{victim: fault}
	if sfault != nil {
		fault, faults = sfault.do, nil
	} else {
		fref := gspec.EvalGraph(spec, in, &gspec.RefEnv{Faults: faults})
		if fref.Err != "nodefail" {
			return // the failing branch is never evaluated on this input
		}
		if kind != "node-body" {
			owner = "TOP" // branches of the top-level spec
		}
	}
	var us []unit
	units(spec, nil, &us)
	var victimPath []string
	for _, u := range us {
		if (kind == "node-body" || sfault != nil) && u.name == victim {
			victimPath = u.path
		}
	}
	// ---- handlers
	rec := &recorder{}
	hs := []hspec{{ID: "U0", Mode: readAll, Opt: 0}, {ID: "U1", Mode: closeAtOnce, Opt: 1}}
	if victimPath != nil {
		hs = append(hs, hspec{ID: "D@victim", Path: victimPath, Mode: readMode(rng.Intn(3)), Opt: 2})
		if len(victimPath) > 1 && rng.Bool() {
			// ... and one designated to a nested graph around the failing node (it applies to everything inside)
			hs = append(hs, hspec{ID: "D@around", Path: victimPath[:1+rng.Intn(len(victimPath)-1)], Mode: readMode(rng.Intn(3)), Opt: 3})
		}
	}
	if len(us) > 0 && rng.Bool() {
		u := us[rng.Intn(len(us))]
		hs = append(hs, hspec{ID: "D@any", Path: u.path, Mode: readMode(rng.Intn(3)), Opt: 4})
	}
	var opts []compose.Option
	for _, h := range hs {
		o := compose.WithCallbacks(newHandler(h.ID, rec, h.Mode))
		if h.Path != nil {
			o = o.DesignateNodeWithPath(compose.NewNodePath(h.Path...))
		}
		opts = append(opts, o)
	}
	para := []string{"I", "S", "C", "T"}[rng.Intn(4)]
	ctl := gspec.NewCtl("r")
	ctl.Faults = faults
	cctx := context.WithValue(gspec.WithCtl(ctx, ctl), recKey{}, rec)
	if sfault != nil {
		cctx = context.WithValue(cctx, stateFaultKey{}, sfault)
	}
	out, wres, dump := gspec.CallGuarded(cctx, r, para, in, rng.Uint64(), -1, opts...)
	rep.AddEvaluations(1)
	rep.Count("failure_runs", 1)
	rep.Count("failure_runs_"+kind+"_"+faultClass(fault), 1)
	wit := map[string]any{"spec": spec, "input": in, "failing": victim, "kind": kind, "fault": faultName(fault), "paradigm": para, "handlers": hs}
	if wres == mon.Stuck {
		where, detail := gspec.StuckSignature(dump)
		rep.Violation(ID+"/failure/hang/"+where, detail, wit)
		return
	}
	if wres != mon.Finished {
		rep.Inconclusive("watchdog")
		return
	}
	if _, ok := mon.Settle(3, 800); !ok { // nodes that were still running when the failing run returned finish now
		rep.Count("failure_runs_not_settled_not_judged", 1)
		return
	}
	rec.wg.Wait()
	if !out.Failed() {
		rep.Count("failure_runs_that_succeeded_not_judged", 1) // whether the failure must surface is C13's business
		return
	}
	rec.mu.Lock()
	evs := append([]event(nil), rec.events...)
	rec.mu.Unlock()
	var b strings.Builder
	for _, e := range evs {
		fmt.Fprintf(&b, "  %d %s %s name=%s comp=%s stream=%v\n", e.seq, e.handler, e.timing, e.name, e.comp, e.stream)
	}
	head := fmt.Sprintf("failing %s %s (%s), paradigm %s, run error: %v\nhandlers: %+v\n", kind, victim, faultName(fault), para, out.Err, hs)
	sigTail := kind + "/" + faultClass(fault)
	// where a handler applies: names of the units below its designated path
	below := func(p []string) map[string]bool {
		m := map[string]bool{}
		for _, u := range us {
			if len(u.path) >= len(p) && related(u.path, p) {
				m[u.name] = true
			}
		}
		return m
	}
	for _, h := range append([]hspec{{ID: "GLOBAL"}}, hs...) {
		starts, ends, errs := map[string]int{}, map[string]int{}, map[string]int{}
		for _, e := range evs {
			if e.handler != h.ID || e.comp == "Passthrough" {
				continue
			}
			switch e.timing {
			case "start":
				starts[e.name]++
			case "error":
				errs[e.name]++
			default:
				ends[e.name]++
			}
		}
		names := map[string]bool{}
		for _, m := range []map[string]int{starts, ends, errs} {
			for n := range m {
				names[n] = true
			}
		}
		sorted := make([]string, 0, len(names))
		for n := range names {
			sorted = append(sorted, n)
		}
		sort.Strings(sorted)
		if h.Path == nil {
			if starts["TOP"] != 1 || ends["TOP"]+errs["TOP"] != 1 {
				rep.Violation(ID+"/failure/graph-level/"+kind, fmt.Sprintf("handler %s: the failing graph run fired %d start, %d end, %d error callbacks for the graph itself (expected 1 start and 1 end-or-error)\n%s%s", h.ID, starts["TOP"], ends["TOP"], errs["TOP"], head, b.String()), wit)
				return
			}
		} else {
			app := below(h.Path)
			for _, n := range sorted {
				if !app[n] {
					rep.Violation(ID+"/failure/designated-handler-fired-for-another-unit/"+sigTail, fmt.Sprintf("handler %s designated to %v fired for unit %s\n%s%s", h.ID, h.Path, n, head, b.String()), wit)
					return
				}
			}
		}
		for _, n := range sorted {
			s := starts[n]
			who := "other-unit"
			if n == victim && sfault != nil {
				who = "node-of-the-state-handler"
			} else if n == victim {
				who = "failing-unit"
			} else if n == owner && n != "TOP" {
				who = "failing-graph"
			} else if n == "TOP" {
				who = "graph"
			}
			// a unit that started ends exactly once (the process has settled: nothing is running any more)
			if ends[n]+errs[n] > s {
				rep.Violation(ID+"/failure/more-ends-than-starts/"+sigTail+"/"+who, fmt.Sprintf("handler %s, unit %s: %d start but %d end and %d error callbacks\n%s%s", h.ID, n, s, ends[n], errs[n], head, b.String()), wit)
				return
			}
			if ends[n]+errs[n] < s {
				rep.Violation(ID+"/failure/start-without-end/"+sigTail+"/"+who, fmt.Sprintf("handler %s, unit %s: %d start but only %d end and %d error callbacks: the unit started and never ended for this handler\n%s%s", h.ID, n, s, ends[n], errs[n], head, b.String()), wit)
				return
			}
			rep.Count("failure_handler_unit_pairs_checked", 1)
		}
		// the graph on whose run loop a branch condition failed or a state handler panicked has failed: it
		// produced nothing, that execution ends for the handlers with OnError (never with OnEnd alone)
		if owner != "" && (h.Path == nil || below(h.Path)[owner]) {
			if errs[owner] < 1 {
				who := "nested"
				if owner == "TOP" {
					who = "top-level"
				}
				rep.Violation(ID+"/failure/failed-graph-without-OnError/"+sigTail+"/"+who, fmt.Sprintf("handler %s: graph %s, whose run loop failed, got %d start, %d end and %d error callbacks: no OnError\n%s%s", h.ID, owner, starts[owner], ends[owner], errs[owner], head, b.String()), wit)
				return
			}
			rep.Count("failure_owner_graph_checks", 1)
		}
		// a panicking body fails at call time: the failing node ran exactly once (its first execution fails the
		// run) for every handler that applies to it. (A body that returns an error may deliver it as an item
		// of its output stream, which surfaces later: the node may have run several times by then.)
		if kind == "node-body" && victimPath != nil && (h.Path == nil || related(h.Path, victimPath) && len(h.Path) <= len(victimPath)) {
			if (faultClass(fault) == "panic" && starts[victim] != 1) || starts[victim] < 1 {
				cl := "failing-unit-count"
				if h.Path != nil {
					cl = "designated-handler-count"
				}
				rep.Violation(ID+"/failure/"+cl+"/"+sigTail, fmt.Sprintf("handler %s: %d start callbacks for the failing node %s (expected 1)\n%s%s", h.ID, starts[victim], victim, head, b.String()), wit)
				return
			}
			rep.Count("failure_victim_checks", 1)
		}
		rep.Count("failure_handler_checks", 1)
	}
	rep.NonTrivial(fmt.Sprintf("failure|%s|%s|%s|%s|%s", spec.Digest(), victim, kind, faultName(fault), para))
}
