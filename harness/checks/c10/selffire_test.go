package c10

import (
	"context"

	"verifharness/internal/mon"
)

func selfFireCase(ctx context.Context, rep *mon.Reporter, rng *mon.Rand, sample bool) {}
