package c10

import (
	"context"
	"errors"
	"fmt"
	"io"
	"sort"
	"strings"
	"time"

	"github.com/cloudwego/eino/callbacks"
	"github.com/cloudwego/eino/components/model"
	"github.com/cloudwego/eino/components/prompt"
	"github.com/cloudwego/eino/components/retriever"
	"github.com/cloudwego/eino/compose"
	"github.com/cloudwego/eino/schema"

	"verifharness/internal/gspec"
	"verifharness/internal/mon"
)

// ---------------------------------------------------------------------------------------------
// The self-firing workload: component nodes that fire their callbacks themselves
// (components.Checker, IsCallbacksEnabled() == true) next to nodes whose callbacks the framework injects.
//
//   lanes      1-3 side by side, each "ChatTemplate -> ChatModel -> Lambda" (one or two rounds) or
//              "Lambda -> Retriever -> Lambda", in the top graph or inside a graph nested 1-2 deep;
//              Graph (both trigger modes) / Chain / Workflow on every level; four paradigms
//   bundled    prompt.FromMessages(FString | GoTemplate, 1-4 MessagesTemplates): schema messages,
//              placeholders and own MessagesTemplate implementations; at most one of them fails: an own
//              template returns an error or panics (string / error / nil dereference), a message names a
//              variable that is not there, a required placeholder is absent
//   own        ChatTemplate / ChatModel / Retriever implementations and Lambdas, either with a Checker
//              saying true (they fire OnStart / OnEnd / OnError themselves and do it well: that is their
//              author's duty, the pairs are counted and the framework must not fire a second time) or
//              without (framework-injected; these may return an error or panic as well)
//
// Oracle (after the process has settled), per handler and unit: one lane, or no failure: the exact
// table - every unit before the failing one once with OnEnd, the failing unit and the graphs around it
// once with OnError and no OnEnd, everything behind it never. Several lanes and a failure: the failing
// lane as above; the other lanes may have been abandoned anywhere: at most one start, #end + #error =
// #start. A designated handler fires for its units only; every event carries the unit's component.
// ---------------------------------------------------------------------------------------------

type sfComp struct {
	Key  string `json:"key"`
	Role string `json:"role"` // template | model | lambda | retriever
	// Impl: bundled (template only: prompt.DefaultChatTemplate) | self (own, fires its callbacks itself) |
	// plain (own, the framework injects them)
	Impl      string   `json:"impl"`
	Format    string   `json:"format,omitempty"`    // bundled: fstring | gotemplate
	Templates []string `json:"templates,omitempty"` // bundled: the MessagesTemplates in order
	Do        string   `json:"do"`                  // ok | error | panic-string | panic-error | panic-nil-deref (what the unit does)
	stage     int      // position in the lane's pipeline (types)
}

type sfLane struct {
	Key   string   `json:"key"`
	Type  string   `json:"type"` // chat | retrieve
	Comps []sfComp `json:"components"`
	Nest  []string `json:"nested_in,omitempty"` // kinds of the graphs around the lane, outermost first (0-2)
}

type sfSpec struct {
	Kind  string   `json:"kind"` // graph-dag | graph-pregel | chain | workflow
	Lanes []sfLane `json:"lanes"`
}

var errSelfFire = errors.New("verif-component-failure")

func sfFail(do, who string) error {
	switch do {
	case "error":
		return fmt.Errorf("%s: %w", who, errSelfFire)
	case "panic-string":
		panic("verif-component-panic@" + who)
	case "panic-error":
		panic(fmt.Errorf("verif-component-panic@%s: %w", who, errSelfFire))
	case "panic-nil-deref":
		var p *sfComp
		_ = p.Key
	}
	return nil
}

// ---- own MessagesTemplate
type sfMsgTemplate struct{ do, who string }

func (t sfMsgTemplate) Format(_ context.Context, vs map[string]any, _ schema.FormatType) ([]*schema.Message, error) {
	if err := sfFail(t.do, t.who); err != nil {
		return nil, err
	}
	return []*schema.Message{schema.UserMessage(fmt.Sprintf("own template of %s sees %d variables", t.who, len(vs)))}, nil
}

// ---- own ChatTemplate
type sfTemplate struct {
	self    bool
	do, who string
}

func (t *sfTemplate) IsCallbacksEnabled() bool { return t.self }
func (t *sfTemplate) GetType() string          { return "VerifOwn" }

func (t *sfTemplate) Format(ctx context.Context, vs map[string]any, _ ...prompt.Option) ([]*schema.Message, error) {
	if t.self {
		ctx = callbacks.OnStart(ctx, vs)
	}
	if err := sfFail(t.do, t.who); err != nil {
		if t.self {
			callbacks.OnError(ctx, err)
		}
		return nil, err
	}
	out := []*schema.Message{schema.UserMessage(fmt.Sprint(vs["name"]))}
	if t.self {
		callbacks.OnEnd(ctx, out)
	}
	return out, nil
}

// plain variants must not have the Checker method at all in one flavour: a type without it
type sfTemplateNoChecker struct{ do, who string }

func (t *sfTemplateNoChecker) Format(ctx context.Context, vs map[string]any, _ ...prompt.Option) ([]*schema.Message, error) {
	if err := sfFail(t.do, t.who); err != nil {
		return nil, err
	}
	return []*schema.Message{schema.UserMessage(fmt.Sprint(vs["name"]))}, nil
}

// ---- own ChatModel
type sfModel struct {
	self    bool
	do, who string
}

func (m *sfModel) IsCallbacksEnabled() bool { return m.self }

func (m *sfModel) Generate(ctx context.Context, in []*schema.Message, _ ...model.Option) (*schema.Message, error) {
	if m.self {
		ctx = callbacks.OnStart(ctx, in)
	}
	if err := sfFail(m.do, m.who); err != nil {
		if m.self {
			callbacks.OnError(ctx, err)
		}
		return nil, err
	}
	out := schema.AssistantMessage(fmt.Sprintf("%s answers %d messages", m.who, len(in)), nil)
	if m.self {
		callbacks.OnEnd(ctx, out)
	}
	return out, nil
}

func (m *sfModel) Stream(ctx context.Context, in []*schema.Message, _ ...model.Option) (*schema.StreamReader[*schema.Message], error) {
	if m.self {
		ctx = callbacks.OnStart(ctx, in)
	}
	if err := sfFail(m.do, m.who); err != nil {
		if m.self {
			callbacks.OnError(ctx, err)
		}
		return nil, err
	}
	sr := schema.StreamReaderFromArray([]*schema.Message{
		schema.AssistantMessage(m.who+" answers ", nil), schema.AssistantMessage(fmt.Sprintf("%d messages", len(in)), nil)})
	if m.self {
		_, sr = callbacks.OnEndWithStreamOutput(ctx, sr)
	}
	return sr, nil
}

func (m *sfModel) BindTools([]*schema.ToolInfo) error { return nil }

// ---- own Retriever
type sfRetriever struct {
	self    bool
	do, who string
}

func (r *sfRetriever) IsCallbacksEnabled() bool { return r.self }

func (r *sfRetriever) Retrieve(ctx context.Context, q string, _ ...retriever.Option) ([]*schema.Document, error) {
	if r.self {
		ctx = callbacks.OnStart(ctx, q)
	}
	if err := sfFail(r.do, r.who); err != nil {
		if r.self {
			callbacks.OnError(ctx, err)
		}
		return nil, err
	}
	out := []*schema.Document{{ID: "d1", Content: q}, {ID: "d2", Content: r.who}}
	if r.self {
		callbacks.OnEnd(ctx, out)
	}
	return out, nil
}

// sfLambdaOf: a Lambda I -> O; self: created with WithLambdaCallbackEnable(true), fires its callbacks itself
func sfLambdaOf[I, O any](c *sfComp, f func(I) O) *compose.Lambda {
	self, do, who := c.Impl == "self", c.Do, c.Key
	return compose.InvokableLambda(func(ctx context.Context, in I) (O, error) {
		var zero O
		if self {
			ctx = callbacks.OnStart(ctx, in)
		}
		if err := sfFail(do, who); err != nil {
			if self {
				callbacks.OnError(ctx, err)
			}
			return zero, err
		}
		out := f(in)
		if self {
			callbacks.OnEnd(ctx, out)
		}
		return out, nil
	}, compose.WithLambdaCallbackEnable(self))
}

// ------------------------------------------------------------------ generation

var sfGoodTemplates = []string{"user-message", "system-message", "optional-placeholder", "own-ok"}
var sfBadTemplates = []string{"own-error", "own-error", "own-panic-string", "own-panic-error", "own-panic-nil-deref", "own-panic-string", "message-with-unknown-variable", "required-placeholder-absent"}

func sfTemplateDo(kind string) string {
	switch kind {
	case "own-panic-string", "own-panic-error", "own-panic-nil-deref":
		return strings.TrimPrefix(kind, "own-")
	case "own-error", "message-with-unknown-variable", "required-placeholder-absent":
		return "error"
	}
	return "ok"
}

func sfGen(rng *mon.Rand) *sfSpec {
	spec := &sfSpec{Kind: mon.PickOne(rng, []string{"graph-dag", "graph-pregel", "chain", "workflow"})}
	nl := 1 + rng.Intn(3)
	if spec.Kind == "graph-pregel" {
		nl = 1 // any-predecessor: END would fire with the first lane that arrives
	}
	nodes := 0
	comp := func(role string, stage int) sfComp {
		nodes++
		c := sfComp{Key: fmt.Sprintf("c%d", nodes), Role: role, Do: "ok", stage: stage}
		c.Impl = mon.PickOne(rng, []string{"self", "plain"})
		if role == "template" {
			c.Impl = mon.PickOne(rng, []string{"bundled", "bundled", "self", "plain", "plain-no-checker"})
		}
		if c.Impl == "bundled" {
			c.Format = mon.PickOne(rng, []string{"fstring", "gotemplate"})
			for i, n := 0, 1+rng.Intn(4); i < n; i++ {
				c.Templates = append(c.Templates, mon.PickOne(rng, sfGoodTemplates))
			}
		}
		return c
	}
	for l := 0; l < nl; l++ {
		lane := sfLane{Key: fmt.Sprintf("L%d", l), Type: "chat"}
		if rng.Prob(0.3) {
			lane.Type = "retrieve"
			lane.Comps = []sfComp{comp("lambda", 10), comp("retriever", 11), comp("lambda", 12)}
		} else {
			for r, rounds := 0, 1+rng.Intn(2); r < rounds; r++ {
				lane.Comps = append(lane.Comps, comp("template", 0), comp("model", 1), comp("lambda", 2))
			}
		}
		for d, depth := 0, rng.Intn(3); d < depth; d++ {
			lane.Nest = append(lane.Nest, mon.PickOne(rng, []string{"graph-dag", "graph-pregel", "chain", "workflow"}))
		}
		if spec.Kind == "chain" && nl > 1 && len(lane.Nest) == 0 {
			lane.Nest = []string{mon.PickOne(rng, []string{"graph-dag", "chain", "workflow"})} // a Parallel holds one node per lane
		}
		spec.Lanes = append(spec.Lanes, lane)
	}
	// at most one unit fails
	if rng.Prob(0.7) {
		lane := &spec.Lanes[rng.Intn(nl)]
		// bundled templates first in line
		var bundled []int
		for i, c := range lane.Comps {
			if c.Impl == "bundled" {
				bundled = append(bundled, i)
			}
		}
		i := rng.Intn(len(lane.Comps))
		if len(bundled) > 0 && rng.Prob(0.7) {
			i = bundled[rng.Intn(len(bundled))]
		}
		c := &lane.Comps[i]
		switch c.Impl {
		case "bundled":
			bad := mon.PickOne(rng, sfBadTemplates)
			c.Templates[rng.Intn(len(c.Templates))] = bad
			c.Do = sfTemplateDo(bad)
		case "self":
			c.Do = "error" // it behaves well: fires OnError itself
		default:
			c.Do = mon.PickOne(rng, []string{"error", "panic-string", "panic-error", "panic-nil-deref"})
		}
	}
	return spec
}

// ------------------------------------------------------------------ building

type sfNode struct {
	key  string
	tpl  prompt.ChatTemplate
	mdl  model.BaseChatModel
	lam  *compose.Lambda
	ret  retriever.Retriever
	sub  compose.AnyGraph
	opts []compose.GraphAddNodeOpt
}

func sfNodeOf(c *sfComp) sfNode {
	n := sfNode{key: c.Key, opts: []compose.GraphAddNodeOpt{compose.WithNodeName(c.Key)}}
	switch c.Role {
	case "template":
		switch c.Impl {
		case "bundled":
			ft := schema.FString
			name, role, absent := "hello {name}", "you are {role}", "about {absent_variable}"
			if c.Format == "gotemplate" {
				ft = schema.GoTemplate
				name, role, absent = "hello {{.name}}", "you are {{.role}}", "about {{.absent_variable}}"
			}
			var ts []schema.MessagesTemplate
			for i, k := range c.Templates {
				who := fmt.Sprintf("%s[%d]", c.Key, i)
				switch k {
				case "user-message":
					ts = append(ts, schema.UserMessage(name))
				case "system-message":
					ts = append(ts, schema.SystemMessage(role))
				case "optional-placeholder":
					ts = append(ts, schema.MessagesPlaceholder("history", true))
				case "message-with-unknown-variable":
					ts = append(ts, schema.UserMessage(absent))
				case "required-placeholder-absent":
					ts = append(ts, schema.MessagesPlaceholder("history", false))
				default:
					ts = append(ts, sfMsgTemplate{do: sfTemplateDo(k), who: who})
				}
			}
			n.tpl = prompt.FromMessages(ft, ts...)
		case "plain-no-checker":
			n.tpl = &sfTemplateNoChecker{do: c.Do, who: c.Key}
		default:
			n.tpl = &sfTemplate{self: c.Impl == "self", do: c.Do, who: c.Key}
		}
	case "model":
		n.mdl = &sfModel{self: c.Impl == "self", do: c.Do, who: c.Key}
	case "retriever":
		n.ret = &sfRetriever{self: c.Impl == "self", do: c.Do, who: c.Key}
	default:
		switch c.stage {
		case 2:
			n.lam = sfLambdaOf(c, func(m *schema.Message) map[string]any {
				return map[string]any{"name": m.Content, "role": "a helper"}
			})
		case 10:
			n.lam = sfLambdaOf(c, func(vs map[string]any) string { return fmt.Sprint(vs["name"]) })
		default:
			n.lam = sfLambdaOf(c, func(ds []*schema.Document) map[string]any {
				return map[string]any{"name": fmt.Sprintf("%d documents", len(ds)), "role": "a librarian"}
			})
		}
	}
	return n
}

type sfM = map[string]any

type sfCompiler func(ctx context.Context, opts ...compose.GraphCompileOption) (compose.Runnable[sfM, sfM], error)

func sfTrigger(kind string) []compose.GraphCompileOption {
	switch kind {
	case "graph-dag":
		return []compose.GraphCompileOption{compose.WithNodeTriggerMode(compose.AllPredecessor)}
	case "graph-pregel":
		return []compose.GraphCompileOption{compose.WithNodeTriggerMode(compose.AnyPredecessor)}
	}
	return nil
}

// sfContainer: lanes of nodes side by side in a graph of the given kind, every lane from START to END;
// wrap: the lane's output goes to END under the lane's key (the top level; a nested level holds one lane
// and hands its output on as it is)
func sfContainer(kind string, keys []string, lanes [][]sfNode, wrap bool) (compose.AnyGraph, sfCompiler, error) {
	switch kind {
	case "chain":
		c := compose.NewChain[sfM, sfM]()
		add := func(n sfNode, extra ...compose.GraphAddNodeOpt) {
			opts := append(append([]compose.GraphAddNodeOpt{compose.WithNodeKey(n.key)}, n.opts...), extra...)
			switch {
			case n.tpl != nil:
				c.AppendChatTemplate(n.tpl, opts...)
			case n.mdl != nil:
				c.AppendChatModel(n.mdl, opts...)
			case n.ret != nil:
				c.AppendRetriever(n.ret, opts...)
			case n.sub != nil:
				c.AppendGraph(n.sub, opts...)
			default:
				c.AppendLambda(n.lam, opts...)
			}
		}
		if len(lanes) == 1 {
			for i, n := range lanes[0] {
				if wrap && i == len(lanes[0])-1 {
					add(n, compose.WithOutputKey(keys[0]))
				} else {
					add(n)
				}
			}
			return c, c.Compile, nil
		}
		p := compose.NewParallel()
		for l, lane := range lanes {
			if len(lane) != 1 || lane[0].sub == nil {
				return nil, nil, errors.New("verif: a lane of a chain with several lanes is one nested graph")
			}
			p.AddGraph(keys[l], lane[0].sub, append([]compose.GraphAddNodeOpt{compose.WithNodeKey(lane[0].key)}, lane[0].opts...)...)
		}
		c.AppendParallel(p)
		return c, c.Compile, nil
	case "workflow":
		wf := compose.NewWorkflow[sfM, sfM]()
		for l, lane := range lanes {
			prev := compose.START
			for _, n := range lane {
				var wn *compose.WorkflowNode
				switch {
				case n.tpl != nil:
					wn = wf.AddChatTemplateNode(n.key, n.tpl, n.opts...)
				case n.mdl != nil:
					wn = wf.AddChatModelNode(n.key, n.mdl, n.opts...)
				case n.ret != nil:
					wn = wf.AddRetrieverNode(n.key, n.ret, n.opts...)
				case n.sub != nil:
					wn = wf.AddGraphNode(n.key, n.sub, n.opts...)
				default:
					wn = wf.AddLambdaNode(n.key, n.lam, n.opts...)
				}
				wn.AddInput(prev)
				prev = n.key
			}
			if wrap {
				wf.End().AddInput(prev, compose.ToField(keys[l]))
			} else {
				wf.End().AddInput(prev)
			}
		}
		return wf, wf.Compile, nil
	}
	g := compose.NewGraph[sfM, sfM]()
	for l, lane := range lanes {
		prev := compose.START
		for i, n := range lane {
			opts := n.opts
			if wrap && i == len(lane)-1 {
				opts = append(append([]compose.GraphAddNodeOpt(nil), opts...), compose.WithOutputKey(keys[l]))
			}
			var err error
			switch {
			case n.tpl != nil:
				err = g.AddChatTemplateNode(n.key, n.tpl, opts...)
			case n.mdl != nil:
				err = g.AddChatModelNode(n.key, n.mdl, opts...)
			case n.ret != nil:
				err = g.AddRetrieverNode(n.key, n.ret, opts...)
			case n.sub != nil:
				err = g.AddGraphNode(n.key, n.sub, opts...)
			default:
				err = g.AddLambdaNode(n.key, n.lam, opts...)
			}
			if err == nil {
				err = g.AddEdge(prev, n.key)
			}
			if err != nil {
				return nil, nil, err
			}
			prev = n.key
		}
		if err := g.AddEdge(prev, compose.END); err != nil {
			return nil, nil, err
		}
	}
	return g, g.Compile, nil
}

type sfUnit struct {
	name string
	comp string
	path []string
	lane int // -1: TOP
	pos  int // position in the lane: the graphs around it first (outermost = 0), then its components
	kind string
	do   string
}

func sfGraphComp(kind string) string {
	switch kind {
	case "chain":
		return "Chain"
	case "workflow":
		return "Workflow"
	}
	return "Graph"
}

func sfBuild(ctx context.Context, spec *sfSpec) (compose.Runnable[sfM, sfM], []sfUnit, error) {
	us := []sfUnit{{name: "TOP", comp: sfGraphComp(spec.Kind), lane: -1, kind: "graph"}}
	var keys []string
	var lanes [][]sfNode
	for l := range spec.Lanes {
		lane := &spec.Lanes[l]
		var prefix []string
		for d := range lane.Nest {
			k := fmt.Sprintf("%sg%d", lane.Key, d)
			prefix = append(prefix, k)
			us = append(us, sfUnit{name: k, comp: sfGraphComp(lane.Nest[d]), path: append([]string(nil), prefix...), lane: l, pos: d, kind: "nested-graph"})
		}
		var nodes []sfNode
		for i := range lane.Comps {
			c := &lane.Comps[i]
			nodes = append(nodes, sfNodeOf(c))
			comp := map[string]string{"template": "ChatTemplate", "model": "ChatModel", "retriever": "Retriever", "lambda": "Lambda"}[c.Role]
			kind := "framework-injected/" + comp
			switch c.Impl {
			case "bundled":
				kind = "bundled-ChatTemplate"
			case "self":
				kind = "component-fires-itself/" + comp
			}
			us = append(us, sfUnit{name: c.Key, comp: comp, path: append(append([]string(nil), prefix...), c.Key), lane: l, pos: len(lane.Nest) + i, kind: kind, do: c.Do})
		}
		for d := len(lane.Nest) - 1; d >= 0; d-- {
			inner, _, err := sfContainer(lane.Nest[d], []string{lane.Key}, [][]sfNode{nodes}, false)
			if err != nil {
				return nil, nil, err
			}
			k := fmt.Sprintf("%sg%d", lane.Key, d)
			n := sfNode{key: k, sub: inner, opts: []compose.GraphAddNodeOpt{compose.WithNodeName(k)}}
			if co := sfTrigger(lane.Nest[d]); co != nil {
				n.opts = append(n.opts, compose.WithGraphCompileOptions(co...))
			}
			nodes = []sfNode{n}
		}
		keys = append(keys, lane.Key)
		lanes = append(lanes, nodes)
	}
	_, compile, err := sfContainer(spec.Kind, keys, lanes, true)
	if err != nil {
		return nil, nil, err
	}
	r, err := compile(ctx, append(sfTrigger(spec.Kind), compose.WithGraphName("TOP"))...)
	return r, us, err
}

// ------------------------------------------------------------------ running

func sfCall(ctx context.Context, r compose.Runnable[sfM, sfM], para string, opts ...compose.Option) (o rlOutcome, res mon.WaitResult, dump []mon.G) {
	vars := func() sfM { return sfM{"name": "eino", "role": "a tester"} }
	in := func() *schema.StreamReader[sfM] {
		return schema.StreamReaderFromArray([]sfM{{"name": "eino"}, {"role": "a tester"}})
	}
	read := func(sr *schema.StreamReader[sfM], err error) error {
		if err != nil {
			return err
		}
		defer sr.Close()
		for {
			if _, err := sr.Recv(); err == io.EOF {
				return nil
			} else if err != nil {
				return err
			}
		}
	}
	done := make(chan struct{})
	go func() {
		defer close(done)
		o.Panic = mon.Safe(func() {
			switch para {
			case "I":
				_, o.Err = r.Invoke(ctx, vars(), opts...)
			case "S":
				o.Err = read(r.Stream(ctx, vars(), opts...))
			case "C":
				_, o.Err = r.Collect(ctx, in(), opts...)
			default:
				o.Err = read(r.Transform(ctx, in(), opts...))
			}
		})
	}()
	res, dump = mon.WaitDone(done, 120*time.Second)
	if res != mon.Finished {
		return rlOutcome{}, res, dump
	}
	return o, res, nil
}

func selfFireCase(ctx context.Context, rep *mon.Reporter, rng *mon.Rand, sample bool) {
	spec := sfGen(rng)
	r, us, err := sfBuild(ctx, spec)
	if err != nil {
		rep.Violation(ID+"/selffire/build-error", err.Error(), spec)
		return
	}
	rep.Count("selffire_specs", 1)
	rep.Count("selffire_specs_"+spec.Kind, 1)
	for _, para := range []string{"I", "S", "C", "T"} {
		sfRun(ctx, rep, rng.Sub(para), spec, r, us, para)
	}
	if sample {
		rep.Sample(map[string]any{"workload": "selffire", "spec": spec})
	}
}

func sfRun(ctx context.Context, rep *mon.Reporter, rng *mon.Rand, spec *sfSpec, r compose.Runnable[sfM, sfM], us []sfUnit, para string) {
	// the failing unit, if any
	var bad *sfUnit
	for i := range us {
		if us[i].do != "" && us[i].do != "ok" {
			bad = &us[i]
		}
	}
	fclass := "none"
	if bad != nil {
		fclass = "error"
		if strings.HasPrefix(bad.do, "panic") {
			fclass = "panic"
		}
	}
	// ---- handlers
	rec := &recorder{}
	hs := []hspec{{ID: "U0", Mode: readAll}, {ID: "U1", Mode: readMode(rng.Intn(3))}}
	if bad != nil && rng.Prob(0.6) {
		hs = append(hs, hspec{ID: "D@failing", Path: bad.path, Mode: readMode(rng.Intn(3))})
		if len(bad.path) > 1 && rng.Bool() {
			hs = append(hs, hspec{ID: "D@around", Path: bad.path[:1+rng.Intn(len(bad.path)-1)], Mode: readMode(rng.Intn(3))})
		}
	}
	for i, n := 0, rng.Intn(3); i < n; i++ {
		u := us[1+rng.Intn(len(us)-1)]
		hs = append(hs, hspec{ID: fmt.Sprintf("D%d@%s", i, strings.Join(u.path, "/")), Path: u.path, Mode: readMode(rng.Intn(3))})
	}
	var opts []compose.Option
	for _, h := range hs {
		o := compose.WithCallbacks(newHandler(h.ID, rec, h.Mode))
		if h.Path != nil {
			o = o.DesignateNodeWithPath(compose.NewNodePath(h.Path...))
		}
		opts = append(opts, o)
	}
	cctx := context.WithValue(ctx, recKey{}, rec)
	out, wres, dump := sfCall(cctx, r, para, opts...)
	rep.AddEvaluations(1)
	rep.Count("selffire_runs", 1)
	rep.Count("selffire_runs_"+para, 1)
	wit := map[string]any{"spec": spec, "paradigm": para, "handlers": hs}
	tail := fclass
	if bad != nil {
		tail = fclass + "/" + bad.kind
	}
	if wres == mon.Stuck {
		where, detail := gspec.StuckSignature(dump)
		rep.Violation(ID+"/selffire/hang/"+tail+"/"+where, detail, wit)
		return
	}
	if wres != mon.Finished {
		rep.Inconclusive("watchdog")
		return
	}
	if _, ok := mon.Settle(3, 800); !ok {
		rep.Count("selffire_runs_not_settled_not_judged", 1)
		return
	}
	rec.wg.Wait()
	failed := out.Err != nil || out.Panic != nil
	if bad == nil && failed {
		rep.Violation(ID+"/selffire/success/run-failed", fmt.Sprintf("a run in which no unit fails failed: err=%v panic=%v", out.Err, out.Panic), wit)
		return
	}
	if bad != nil && !failed {
		rep.Count("selffire_failing_runs_that_succeeded_not_judged", 1) // whether the failure must surface is C13's business
		return
	}
	rec.mu.Lock()
	evs := append([]event(nil), rec.events...)
	rec.mu.Unlock()
	rep.Count("callback_events", int64(len(evs)))
	var b strings.Builder
	for _, e := range evs {
		fmt.Fprintf(&b, "  %d %s %s name=%s comp=%s stream=%v\n", e.seq, e.handler, e.timing, e.name, e.comp, e.stream)
	}
	outcome := fmt.Sprintf("err=%.300v", out.Err)
	if out.Panic != nil {
		outcome = "the call panicked: " + out.Panic.Value
	}
	head := fmt.Sprintf("paradigm %s, failing unit: %+v\nrun: %s\nhandlers: %+v\n", para, bad, outcome, hs)
	byName := map[string]*sfUnit{}
	for i := range us {
		byName[us[i].name] = &us[i]
	}
	below := func(p []string) map[string]bool {
		m := map[string]bool{}
		for _, u := range us {
			if len(u.path) >= len(p) && len(p) > 0 && related(u.path, p) {
				m[u.name] = true
			}
		}
		return m
	}
	// what the table says about a unit: start, end, error; exact == false: an upper bound with pairing
	expect := func(u *sfUnit) (s, e, x int, exact bool) {
		if bad == nil {
			return 1, 1, 0, true
		}
		if u.lane == -1 {
			return 1, 0, 1, true
		}
		if u.lane != bad.lane {
			return 1, 1, 1, false
		}
		switch {
		case u.kind == "nested-graph" || u.name == bad.name:
			return 1, 0, 1, true
		case u.pos < bad.pos:
			return 1, 1, 0, true
		}
		return 0, 0, 0, true
	}
	for _, h := range append([]hspec{{ID: "GLOBAL"}}, hs...) {
		starts, ends, errs := map[string]int{}, map[string]int{}, map[string]int{}
		for _, e := range evs {
			if e.handler != h.ID {
				continue
			}
			u := byName[e.name]
			if u == nil {
				rep.Violation(ID+"/selffire/unknown-unit/"+tail, fmt.Sprintf("handler %s: callback with run info name %q, no unit of the spec\n%s%s", h.ID, e.name, head, b.String()), wit)
				return
			}
			if e.comp != u.comp {
				rep.Violation(ID+"/selffire/run-info-component/"+u.kind, fmt.Sprintf("handler %s: callback for unit %s with run info component %q, expected %q\n%s%s", h.ID, e.name, e.comp, u.comp, head, b.String()), wit)
				return
			}
			switch e.timing {
			case "start":
				starts[e.name]++
			case "error":
				errs[e.name]++
			case "end":
				ends[e.name]++
			}
		}
		applies := func(n string) bool { return true }
		if h.Path != nil {
			app := below(h.Path)
			applies = func(n string) bool { return app[n] }
		}
		names := make([]string, 0, len(byName))
		for n := range byName {
			names = append(names, n)
		}
		sort.Strings(names)
		for _, n := range names {
			u := byName[n]
			s, e, x := starts[n], ends[n], errs[n]
			if !applies(n) {
				if s+e+x > 0 {
					rep.Violation(ID+"/selffire/designated-handler-fired-for-another-unit/"+u.kind, fmt.Sprintf("handler %s designated to %v fired for unit %s\n%s%s", h.ID, h.Path, n, head, b.String()), wit)
					return
				}
				continue
			}
			role := "other-unit"
			switch {
			case bad != nil && n == bad.name:
				role = "failing-unit"
			case bad != nil && (u.lane == -1 || u.kind == "nested-graph" && u.lane == bad.lane):
				role = "graph-around-the-failing-unit"
			}
			ws, we, wx, exact := expect(u)
			cl := ""
			switch {
			case s > ws:
				cl = "started-too-often"
			case e+x > s:
				cl = "more-ends-than-starts"
			case e+x < s:
				cl = "start-without-end"
			case exact && s < ws:
				cl = "fired-too-rarely"
			case exact && (e != we || x != wx):
				cl = "wrong-kind-of-end"
			}
			if cl != "" {
				want := fmt.Sprintf("expected %d start / %d end / %d error", ws, we, wx)
				if !exact {
					want = "expected at most one start and as many end-or-error callbacks as starts (another lane failed)"
				}
				rep.Violation(ID+"/selffire/"+cl+"/"+fclass+"/"+role+"/"+u.kind, fmt.Sprintf("handler %s, unit %s (%s): %d start / %d end / %d error callbacks; %s\n%s%s", h.ID, n, u.kind, s, e, x, want, head, b.String()), wit)
				return
			}
			rep.Count("selffire_handler_unit_pairs_checked", 1)
			if s > 0 {
				rep.Count("selffire_pairs_"+u.kind, 1)
				if role == "failing-unit" {
					rep.Count("selffire_failing_unit_pairs_"+fclass+"_"+u.kind, 1)
				}
			}
		}
	}
	rep.Count("selffire_runs_judged", 1)
	rep.Count("selffire_runs_judged_"+fclass, 1)
	if bad != nil && out.Panic != nil {
		rep.Count("selffire_panic_reached_the_caller", 1)
	}
	rep.NonTrivial(fmt.Sprintf("selffire|%s|%s|%v", rlDigest(spec), para, hs))
}
