package c10

import (
	"context"
	"fmt"
	"os"
	"testing"

	"github.com/cloudwego/eino/callbacks"

	"verifharness/internal/mon"
)

func TestDev(t *testing.T) {
	if os.Getenv("C10_DEV") == "" {
		t.Skip()
	}
	cfg := mon.Load(ID)
	rep := mon.NewReporter(cfg, "exploration", "dev", nil, 1)
	defer func() {
		if err := rep.Flush(); err != nil {
			t.Fatalf("flush: %v", err)
		}
	}()
	callbacks.AppendGlobalHandlers(newHandler("GLOBAL", nil, readAll))
	ctx := context.Background()
	rep.Cases(300, func(idx int64, rng *mon.Rand) {
		switch os.Getenv("C10_DEV") {
		case "runloop":
			runLoopCase(ctx, rep, rng, 4, idx < 1)
		case "selffire":
			selfFireCase(ctx, rep, rng, idx < 1)
		}
	})
	fmt.Println("violations:", rep.Violations())
}
