package c10

// Interrupt / resume workload: checkpointed graphs in which units ask to be run again.
//
// A unit (Lambda node, tool call) whose body returns compose.InterruptAndRerun - as it is or wrapped with
// %w - ends THAT execution with an error: the graph parks it, the call returns an interrupt, and a later call
// with the same checkpoint id executes the unit again (a new execution, with its own start and end). The
// property's pairing clause is stated per execution: "every callback handler that applies to an execution
// unit ... is invoked exactly once at its start and exactly once at its end (end, stream end, or error)".
// So within every single Invoke / Stream call of an interrupted-and-resumed sequence each handler must have
// seen, per unit (run info name / type / component), as many ends as starts, never an end before its start,
// and a unit whose body returned an error got OnError (once per such execution) with that error.
//
// Generated family (pure function of the mon.Rand): a top graph string -> string, trigger mode any- or
// all-predecessor, made of 2-5 segments in sequence; a segment is a Lambda (invokable / streamable /
// transformable), a fan-out of 2-3 parallel Lambdas joined by a Lambda, a nested graph node (1-3 Lambdas,
// own trigger mode and own interrupt-before / -after nodes) or a tools segment (Lambda making the
// assistant message -> ToolsNode with 1-3 tools, invokable-only or both forms, 1-3 calls -> Lambda). A
// PRNG-chosen subset of Lambdas and tool calls return InterruptAndRerun (plain / wrapped once / wrapped
// twice) on their first 1-2 executions; PRNG-chosen interrupt-before and interrupt-after node sets. Every
// spec is run in Invoke form and in Stream form: call with WithCheckPointID until the call returns without
// an interrupt. Handlers: 1-3 undesignated recording handlers in 1-2 WithCallbacks options (stream copies
// read to the end or closed at once) and optionally one designated to a top-level node.

import (
	"context"
	"encoding/json"
	"errors"
	"fmt"
	"io"
	"sort"
	"strings"
	"sync"
	"time"

	"github.com/cloudwego/eino/callbacks"
	"github.com/cloudwego/eino/components/tool"
	"github.com/cloudwego/eino/compose"
	"github.com/cloudwego/eino/schema"

	"verifharness/internal/gspec"
	"verifharness/internal/mon"
)

// ------------------------------------------------------------------ spec

type rrTool struct {
	Name string `json:"name"`
	Both bool   `json:"both_forms"` // false: invokable only
}

type rrCall struct {
	ID    string `json:"id"`
	Tool  string `json:"tool"`
	Rerun string `json:"rerun,omitempty"`
	Times int    `json:"times,omitempty"`
}

type rrNode struct {
	Key   string   `json:"key"`
	Kind  string   `json:"kind"`            // lambda | fan | graph | tools
	Form  string   `json:"form,omitempty"`  // lambda / join of a fan: invokable | streamable | transformable
	Rerun string   `json:"rerun,omitempty"` // "" | plain | wrapped | wrapped-twice
	Times int      `json:"times,omitempty"` // how many of its first executions ask to be run again
	Fan   []rrNode `json:"fan,omitempty"`   // kind fan: the parallel lambdas; the node itself is the join
	Sub   *rrGraph `json:"sub,omitempty"`
	Tools []rrTool `json:"tools,omitempty"`
	Calls []rrCall `json:"calls,omitempty"`
	// tools: a state pre-handler gives the ToolsNode its message back when it is run again (a node that is run
	// again is handed the zero value of its input); without it the second execution of the ToolsNode fails
	Restore bool `json:"restores_input,omitempty"`
}

type rrGraph struct {
	Name    string   `json:"name"`
	Trigger string   `json:"trigger"` // any | all
	Nodes   []rrNode `json:"nodes"`
	Before  []string `json:"interrupt_before,omitempty"`
	After   []string `json:"interrupt_after,omitempty"`
}

var rrForms = []string{"invokable", "invokable", "streamable", "transformable"}
var rrReruns = []string{"plain", "plain", "wrapped", "wrapped-twice"}

type rrGen struct {
	rng    *mon.Rand
	n      int
	reruns int
}

func (g *rrGen) key(p string) string {
	g.n++
	return fmt.Sprintf("%s%d", p, g.n)
}

func (g *rrGen) rerun(p float64) (string, int) {
	if !g.rng.Prob(p) {
		return "", 0
	}
	g.reruns++
	return mon.PickOne(g.rng, rrReruns), 1 + g.rng.Intn(4)/3
}

func (g *rrGen) lambda(p float64) rrNode {
	n := rrNode{Key: g.key("L"), Kind: "lambda", Form: mon.PickOne(g.rng, rrForms)}
	n.Rerun, n.Times = g.rerun(p)
	return n
}

// keys a graph's interrupt-before / -after options can name
func rrKeys(g *rrGraph) []string {
	var ks []string
	for _, n := range g.Nodes {
		switch n.Kind {
		case "fan":
			for _, b := range n.Fan {
				ks = append(ks, b.Key)
			}
			ks = append(ks, n.Key)
		case "tools":
			ks = append(ks, n.Key+"_mk", n.Key, n.Key+"_fmt")
		default:
			ks = append(ks, n.Key)
		}
	}
	return ks
}

func (g *rrGen) marks(gr *rrGraph) {
	ks := rrKeys(gr)
	for _, k := range ks {
		if g.rng.Prob(0.08) {
			gr.Before = append(gr.Before, k)
		}
		if g.rng.Prob(0.08) {
			gr.After = append(gr.After, k)
		}
	}
}

func (g *rrGen) graph(name string, depth int) *rrGraph {
	gr := &rrGraph{Name: name, Trigger: mon.PickOne(g.rng, []string{"any", "all"})}
	nseg := 2 + g.rng.Intn(4)
	if depth > 0 {
		nseg = 1 + g.rng.Intn(3)
	}
	for i := 0; i < nseg; i++ {
		k := g.rng.Intn(10)
		switch {
		case depth == 0 && k == 0:
			n := rrNode{Key: g.key("G"), Kind: "graph"}
			n.Sub = g.graph("sub_"+n.Key, depth+1)
			gr.Nodes = append(gr.Nodes, n)
		case depth == 0 && k <= 2:
			n := rrNode{Key: g.key("T"), Kind: "tools", Restore: g.rng.Intn(4) > 0}
			nt := 1 + g.rng.Intn(3)
			for j := 0; j < nt; j++ {
				n.Tools = append(n.Tools, rrTool{Name: fmt.Sprintf("%s_tool%d", n.Key, j), Both: g.rng.Bool()})
			}
			nc := 1 + g.rng.Intn(3)
			for j := 0; j < nc; j++ {
				c := rrCall{ID: fmt.Sprintf("%s_c%d", n.Key, j), Tool: n.Tools[g.rng.Intn(nt)].Name}
				c.Rerun, c.Times = g.rerun(0.4)
				n.Calls = append(n.Calls, c)
			}
			gr.Nodes = append(gr.Nodes, n)
		case k <= 4:
			n := rrNode{Key: g.key("J"), Kind: "fan", Form: mon.PickOne(g.rng, rrForms)}
			n.Rerun, n.Times = g.rerun(0.2)
			for j, w := 0, 2+g.rng.Intn(2); j < w; j++ {
				n.Fan = append(n.Fan, g.lambda(0.35))
			}
			gr.Nodes = append(gr.Nodes, n)
		default:
			gr.Nodes = append(gr.Nodes, g.lambda(0.3))
		}
	}
	g.marks(gr)
	return gr
}

func rrGenSpec(rng *mon.Rand) *rrGraph {
	g := &rrGen{rng: rng}
	gr := g.graph("TOP", 0)
	if g.reruns == 0 {
		// at least one unit asks to be run again: the first plain lambda found (there is one unless the
		// graph is made of tools segments only, whose first call then asks)
		if !rrForce(gr, rng) {
			for i := range gr.Nodes {
				if gr.Nodes[i].Kind == "tools" {
					gr.Nodes[i].Calls[0].Rerun, gr.Nodes[i].Calls[0].Times = mon.PickOne(rng, rrReruns), 1
					break
				}
			}
		}
	}
	return gr
}

func rrForce(gr *rrGraph, rng *mon.Rand) bool {
	for i := range gr.Nodes {
		n := &gr.Nodes[i]
		switch n.Kind {
		case "lambda":
			n.Rerun, n.Times = mon.PickOne(rng, rrReruns), 1
			return true
		case "fan":
			n.Fan[0].Rerun, n.Fan[0].Times = mon.PickOne(rng, rrReruns), 1
			return true
		case "graph":
			if rrForce(n.Sub, rng) {
				return true
			}
		}
	}
	return false
}

// ------------------------------------------------------------------ bodies

type rrStateKey struct{}

// rrState: what the bodies of one interrupted-and-resumed sequence did.
type rrState struct {
	mu       sync.Mutex
	attempts map[string]int     // site -> executions so far, over all calls of the sequence
	execs    map[string]int     // this call: "Component/name" -> body executions
	returned map[string][]error // this call: "Component/name" -> errors the body executions returned
	asked    int                // this call: executions that asked to be run again
}

func (s *rrState) resetCall() {
	s.mu.Lock()
	s.execs, s.returned, s.asked = map[string]int{}, map[string][]error{}, 0
	s.mu.Unlock()
}

func rrRerunErr(site, mode string) error {
	switch mode {
	case "wrapped":
		return fmt.Errorf("%s waits for its input: %w", site, compose.InterruptAndRerun)
	case "wrapped-twice":
		return fmt.Errorf("%s: %w", site, fmt.Errorf("not yet: %w", compose.InterruptAndRerun))
	}
	return compose.InterruptAndRerun
}

// enter is called by every body once per execution; it returns the error the body has to return (nil: go on).
func rrEnter(ctx context.Context, unit, site, mode string, times int) error {
	s, _ := ctx.Value(rrStateKey{}).(*rrState)
	if s == nil {
		return nil
	}
	s.mu.Lock()
	defer s.mu.Unlock()
	s.attempts[site]++
	s.execs[unit]++
	if mode != "" && s.attempts[site] <= times {
		err := rrRerunErr(site, mode)
		s.returned[unit] = append(s.returned[unit], err)
		s.asked++
		return err
	}
	return nil
}

func rrReadAll[T any](sr *schema.StreamReader[T], add func(T)) {
	defer sr.Close()
	for {
		v, err := sr.Recv()
		if err != nil {
			return
		}
		add(v)
	}
}

func rrLambdaOf[I any](n *rrNode, render func(I) string, merge func([]I) I) *compose.Lambda {
	unit, key, mode, times := "Lambda/"+n.Key, n.Key, n.Rerun, n.Times
	tag := "." + key
	switch n.Form {
	case "streamable":
		return compose.StreamableLambda(func(ctx context.Context, in I) (*schema.StreamReader[string], error) {
			if err := rrEnter(ctx, unit, key, mode, times); err != nil {
				return nil, err
			}
			return schema.StreamReaderFromArray([]string{render(in), tag}), nil
		})
	case "transformable":
		return compose.TransformableLambda(func(ctx context.Context, in *schema.StreamReader[I]) (*schema.StreamReader[string], error) {
			var items []I
			rrReadAll(in, func(v I) { items = append(items, v) })
			if err := rrEnter(ctx, unit, key, mode, times); err != nil {
				return nil, err
			}
			return schema.StreamReaderFromArray([]string{render(merge(items)), tag}), nil
		})
	}
	return compose.InvokableLambda(func(ctx context.Context, in I) (string, error) {
		if err := rrEnter(ctx, unit, key, mode, times); err != nil {
			return "", err
		}
		return render(in) + tag, nil
	})
}

func rrStringLambda(n *rrNode) *compose.Lambda {
	return rrLambdaOf[string](n, func(s string) string { return s }, func(xs []string) string { return strings.Join(xs, "") })
}

func rrJoinLambda(n *rrNode) *compose.Lambda {
	return rrLambdaOf[map[string]any](n, func(m map[string]any) string {
		var b strings.Builder
		for _, k := range mon.SortedKeys(m) {
			fmt.Fprintf(&b, "[%s=%v]", k, m[k])
		}
		return b.String()
	}, func(ms []map[string]any) map[string]any {
		out := map[string]any{}
		for _, m := range ms {
			for k, v := range m {
				s, _ := out[k].(string)
				out[k] = s + fmt.Sprint(v)
			}
		}
		return out
	})
}

type rrToolArgs struct {
	Site  string `json:"site"`
	Rerun string `json:"rerun"`
	Times int    `json:"times"`
}

type rrToolCore struct{ name string }

func (c *rrToolCore) Info(context.Context) (*schema.ToolInfo, error) {
	return &schema.ToolInfo{Name: c.name, Desc: "verif tool of the interrupt / resume workload"}, nil
}

func (c *rrToolCore) enter(ctx context.Context, args string) (string, error) {
	var a rrToolArgs
	if err := json.Unmarshal([]byte(args), &a); err != nil {
		return "", err
	}
	if err := rrEnter(ctx, "Tool/"+c.name, a.Site, a.Rerun, a.Times); err != nil {
		return "", err
	}
	return c.name + "(" + a.Site + ")", nil
}

type rrInvTool struct{ *rrToolCore }

func (t rrInvTool) InvokableRun(ctx context.Context, args string, _ ...tool.Option) (string, error) {
	return t.enter(ctx, args)
}

type rrBothTool struct{ *rrToolCore }

func (t rrBothTool) InvokableRun(ctx context.Context, args string, _ ...tool.Option) (string, error) {
	return t.enter(ctx, args)
}

func (t rrBothTool) StreamableRun(ctx context.Context, args string, _ ...tool.Option) (*schema.StreamReader[string], error) {
	out, err := t.enter(ctx, args)
	if err != nil {
		return nil, err
	}
	return schema.StreamReaderFromArray([]string{out[:1], out[1:]}), nil
}

// ------------------------------------------------------------------ building

func rrCompileOpts(g *rrGraph) []compose.GraphCompileOption {
	opts := []compose.GraphCompileOption{compose.WithGraphName(g.Name)}
	if g.Trigger == "all" {
		opts = append(opts, compose.WithNodeTriggerMode(compose.AllPredecessor))
	} else {
		opts = append(opts, compose.WithNodeTriggerMode(compose.AnyPredecessor))
	}
	if len(g.Before) > 0 {
		opts = append(opts, compose.WithInterruptBeforeNodes(g.Before))
	}
	if len(g.After) > 0 {
		opts = append(opts, compose.WithInterruptAfterNodes(g.After))
	}
	return opts
}

// rrSt: state of a top graph with a restoring tools segment
type rrSt struct {
	Msgs map[string]*schema.Message
}

var _ = compose.RegisterSerializableType[rrSt]("verif_c10_rerun_pairing_state")

func rrBuild(ctx context.Context, spec *rrGraph) (*compose.Graph[string, string], error) {
	var gopts []compose.NewGraphOption
	for _, n := range spec.Nodes {
		if n.Restore {
			gopts = []compose.NewGraphOption{compose.WithGenLocalState(func(context.Context) *rrSt { return &rrSt{Msgs: map[string]*schema.Message{}} })}
		}
	}
	g := compose.NewGraph[string, string](gopts...)
	prev := []string{compose.START}
	link := func(to string) error {
		for _, p := range prev {
			if err := g.AddEdge(p, to); err != nil {
				return err
			}
		}
		return nil
	}
	for i := range spec.Nodes {
		n := &spec.Nodes[i]
		switch n.Kind {
		case "lambda":
			if err := g.AddLambdaNode(n.Key, rrStringLambda(n), compose.WithNodeName(n.Key)); err != nil {
				return nil, err
			}
			if err := link(n.Key); err != nil {
				return nil, err
			}
			prev = []string{n.Key}
		case "fan":
			var bs []string
			for j := range n.Fan {
				b := &n.Fan[j]
				if err := g.AddLambdaNode(b.Key, rrStringLambda(b), compose.WithNodeName(b.Key), compose.WithOutputKey(b.Key)); err != nil {
					return nil, err
				}
				if err := link(b.Key); err != nil {
					return nil, err
				}
				bs = append(bs, b.Key)
			}
			if err := g.AddLambdaNode(n.Key, rrJoinLambda(n), compose.WithNodeName(n.Key)); err != nil {
				return nil, err
			}
			prev = bs
			if err := link(n.Key); err != nil {
				return nil, err
			}
			prev = []string{n.Key}
		case "graph":
			sub, err := rrBuild(ctx, n.Sub)
			if err != nil {
				return nil, err
			}
			if err := g.AddGraphNode(n.Key, sub, compose.WithNodeName(n.Key), compose.WithGraphCompileOptions(rrCompileOpts(n.Sub)...)); err != nil {
				return nil, err
			}
			if err := link(n.Key); err != nil {
				return nil, err
			}
			prev = []string{n.Key}
		case "tools":
			var tools []tool.BaseTool
			for _, t := range n.Tools {
				core := &rrToolCore{name: t.Name}
				if t.Both {
					tools = append(tools, rrBothTool{core})
				} else {
					tools = append(tools, rrInvTool{core})
				}
			}
			tn, err := compose.NewToolNode(ctx, &compose.ToolsNodeConfig{Tools: tools})
			if err != nil {
				return nil, err
			}
			calls := append([]rrCall(nil), n.Calls...)
			mk := compose.InvokableLambda(func(ctx context.Context, in string) (*schema.Message, error) {
				var tcs []schema.ToolCall
				for _, c := range calls {
					args, _ := json.Marshal(rrToolArgs{Site: c.ID, Rerun: c.Rerun, Times: c.Times})
					tcs = append(tcs, schema.ToolCall{ID: c.ID, Type: "function", Function: schema.FunctionCall{Name: c.Tool, Arguments: string(args)}})
				}
				return schema.AssistantMessage(in, tcs), nil
			})
			fm := compose.InvokableLambda(func(ctx context.Context, in []*schema.Message) (string, error) {
				var b strings.Builder
				for _, m := range in {
					if m != nil {
						b.WriteString("<" + m.Content + ">")
					}
				}
				return b.String(), nil
			})
			if err := g.AddLambdaNode(n.Key+"_mk", mk, compose.WithNodeName(n.Key+"_mk")); err != nil {
				return nil, err
			}
			topts := []compose.GraphAddNodeOpt{compose.WithNodeName(n.Key)}
			if n.Restore {
				key := n.Key
				topts = append(topts, compose.WithStatePreHandler(func(ctx context.Context, in *schema.Message, st *rrSt) (*schema.Message, error) {
					if in == nil || len(in.ToolCalls) == 0 {
						return st.Msgs[key], nil
					}
					st.Msgs[key] = in
					return in, nil
				}))
			}
			if err := g.AddToolsNode(n.Key, tn, topts...); err != nil {
				return nil, err
			}
			if err := g.AddLambdaNode(n.Key+"_fmt", fm, compose.WithNodeName(n.Key+"_fmt")); err != nil {
				return nil, err
			}
			if err := link(n.Key + "_mk"); err != nil {
				return nil, err
			}
			if err := g.AddEdge(n.Key+"_mk", n.Key); err != nil {
				return nil, err
			}
			if err := g.AddEdge(n.Key, n.Key+"_fmt"); err != nil {
				return nil, err
			}
			prev = []string{n.Key + "_fmt"}
		}
	}
	if err := link(compose.END); err != nil {
		return nil, err
	}
	return g, nil
}

// units that can ask to be run again (for counting), and the number of body-carrying units
func rrCountUnits(g *rrGraph) (n int) {
	for _, x := range g.Nodes {
		switch x.Kind {
		case "fan":
			n += 1 + len(x.Fan)
		case "graph":
			n += 1 + rrCountUnits(x.Sub)
		case "tools":
			n += 3 + len(x.Calls)
		default:
			n++
		}
	}
	return n
}

func rrRerunPlanned(g *rrGraph) (n int) {
	for _, x := range g.Nodes {
		n += x.Times
		for _, b := range x.Fan {
			n += b.Times
		}
		for _, c := range x.Calls {
			n += c.Times
		}
		if x.Sub != nil {
			n += rrRerunPlanned(x.Sub)
		}
	}
	return n
}

// ------------------------------------------------------------------ recording

type rrStore struct {
	mu sync.Mutex
	m  map[string][]byte
}

func (s *rrStore) Get(_ context.Context, id string) ([]byte, bool, error) {
	s.mu.Lock()
	defer s.mu.Unlock()
	v, ok := s.m[id]
	return v, ok, nil
}

func (s *rrStore) Set(_ context.Context, id string, cp []byte) error {
	s.mu.Lock()
	defer s.mu.Unlock()
	s.m[id] = append([]byte(nil), cp...)
	return nil
}

type rrEvent struct {
	handler string
	timing  string // start | end | error
	stream  bool
	name    string
	typ     string
	comp    string
	err     error
}

func (e rrEvent) key() string { return e.comp + "/" + e.typ + "/" + e.name }

type rrRecorder struct {
	mu     sync.Mutex
	events []rrEvent
	wg     sync.WaitGroup
}

func (r *rrRecorder) add(h, timing string, stream bool, info *callbacks.RunInfo, err error) {
	e := rrEvent{handler: h, timing: timing, stream: stream, err: err}
	if info != nil {
		e.name, e.typ, e.comp = info.Name, info.Type, string(info.Component)
	} else {
		e.name, e.comp = "<nil run info>", "<nil run info>"
	}
	r.mu.Lock()
	r.events = append(r.events, e)
	r.mu.Unlock()
}

func rrHandler(id string, rec *rrRecorder, readToEnd bool) callbacks.Handler {
	drain := func(recv func() error, closeFn func()) {
		if !readToEnd {
			closeFn()
			return
		}
		rec.wg.Add(1)
		go func() {
			defer rec.wg.Done()
			defer closeFn()
			for recv() == nil {
			}
		}()
	}
	return callbacks.NewHandlerBuilder().
		OnStartFn(func(ctx context.Context, info *callbacks.RunInfo, _ callbacks.CallbackInput) context.Context {
			rec.add(id, "start", false, info, nil)
			return ctx
		}).
		OnEndFn(func(ctx context.Context, info *callbacks.RunInfo, _ callbacks.CallbackOutput) context.Context {
			rec.add(id, "end", false, info, nil)
			return ctx
		}).
		OnErrorFn(func(ctx context.Context, info *callbacks.RunInfo, err error) context.Context {
			rec.add(id, "error", false, info, err)
			return ctx
		}).
		OnStartWithStreamInputFn(func(ctx context.Context, info *callbacks.RunInfo, in *schema.StreamReader[callbacks.CallbackInput]) context.Context {
			rec.add(id, "start", true, info, nil)
			drain(func() error { _, err := in.Recv(); return err }, in.Close)
			return ctx
		}).
		OnEndWithStreamOutputFn(func(ctx context.Context, info *callbacks.RunInfo, out *schema.StreamReader[callbacks.CallbackOutput]) context.Context {
			rec.add(id, "end", true, info, nil)
			drain(func() error { _, err := out.Recv(); return err }, out.Close)
			return ctx
		}).Build()
}

type rrHSpec struct {
	ID        string `json:"id"`
	Opt       int    `json:"option"`
	ReadToEnd bool   `json:"reads_stream_copies"`
	Node      string `json:"designated_to,omitempty"`
}

// ------------------------------------------------------------------ the case

func rerunPairingCase(ctx context.Context, rep *mon.Reporter, rng *mon.Rand, sample bool) {
	spec := rrGenSpec(rng)
	wit := map[string]any{"spec": spec}
	// handler layout of this spec
	var hs []rrHSpec
	nopts := 1 + rng.Intn(2)
	for i, k := 0, 1+rng.Intn(3); i < k; i++ {
		hs = append(hs, rrHSpec{ID: fmt.Sprintf("U%d", i), Opt: rng.Intn(nopts), ReadToEnd: rng.Bool()})
	}
	if rng.Bool() {
		ks := rrKeys(spec)
		hs = append(hs, rrHSpec{ID: "D", Opt: nopts, ReadToEnd: rng.Bool(), Node: ks[rng.Intn(len(ks))]})
	}
	wit["handlers"] = hs
	digest, _ := json.Marshal(wit)
	for _, form := range []string{"invoke", "stream"} {
		// every form starts from a graph of its own with an empty store
		g, err := rrBuild(ctx, spec)
		if err != nil {
			rep.Violation(ID+"/rerun-pairing/build-error", err.Error(), wit)
			return
		}
		r, err := g.Compile(ctx, append(rrCompileOpts(spec), compose.WithCheckPointStore(&rrStore{m: map[string][]byte{}}))...)
		if err != nil {
			rep.Violation(ID+"/rerun-pairing/build-error", err.Error(), wit)
			return
		}
		var res rrResult
		done := make(chan struct{})
		go func() {
			defer close(done)
			res = rrSequence(ctx, rep, spec, r, hs, form)
		}()
		w, dump := mon.WaitDone(done, 120*time.Second)
		rep.AddEvaluations(1)
		if w == mon.Stuck {
			where, detail := gspec.StuckSignature(dump)
			rep.Violation(ID+"/hang/"+where, "interrupt / resume sequence ("+form+" form) never returns\n"+detail, wit)
			return
		}
		if w != mon.Finished {
			rep.Inconclusive("watchdog")
			return
		}
		rep.Count("rerun_sequences_"+form, 1)
		rep.Count("rerun_calls", int64(res.calls))
		rep.Count("rerun_calls_interrupted", int64(res.interrupted))
		rep.Count("rerun_calls_interrupted_by_rerun_request", int64(res.byRequest))
		rep.Count("rerun_executions_asking_rerun", int64(res.asked))
		rep.Count("rerun_callback_events", int64(res.events))
		rep.Count("rerun_handler_unit_pairs_checked", int64(res.pairs))
		rep.Count("rerun_error_callbacks_matched", int64(res.errorsMatched))
		switch {
		case res.violated:
		case res.finished:
			rep.Count("rerun_sequences_finished", 1)
			if res.byRequest > 0 {
				rep.NonTrivial("rerun|" + form + "|" + string(digest))
			}
		case res.otherErr != nil:
			rep.Count("rerun_sequences_ended_by_another_error", 1)
		default:
			rep.Count("rerun_sequences_not_finished_within_call_budget", 1)
		}
		if sample && form == "invoke" {
			rep.Sample(map[string]any{"workload": "rerun-pairing", "spec": spec, "handlers": hs, "calls": res.calls, "interrupted": res.interrupted})
		}
		if res.violated {
			return
		}
	}
}

type rrResult struct {
	calls, interrupted, byRequest, asked, events, pairs, errorsMatched int
	finished, violated                                                 bool
	otherErr                                                           error
}

func rrSequence(ctx context.Context, rep *mon.Reporter, spec *rrGraph, r compose.Runnable[string, string], hs []rrHSpec, form string) (res rrResult) {
	st := &rrState{attempts: map[string]int{}}
	cctx := context.WithValue(ctx, rrStateKey{}, st)
	// every call either finishes or stops at an interrupt; a resumed call gets past the point it stopped
	// at: planned rerun requests + one stop before and one after every node bound the number of calls
	budget := rrRerunPlanned(spec) + 2*rrCountUnits(spec) + 4
	var history []string
	for call := 0; call < budget; call++ {
		rec := &rrRecorder{}
		st.resetCall()
		byOpt := map[int][]callbacks.Handler{}
		node := map[int]string{}
		for _, h := range hs {
			byOpt[h.Opt] = append(byOpt[h.Opt], rrHandler(h.ID, rec, h.ReadToEnd))
			if h.Node != "" {
				node[h.Opt] = h.Node
			}
		}
		opts := []compose.Option{compose.WithCheckPointID("cp")}
		var idx []int
		for i := range byOpt {
			idx = append(idx, i)
		}
		sort.Ints(idx)
		for _, i := range idx {
			o := compose.WithCallbacks(byOpt[i]...)
			if node[i] != "" {
				o = o.DesignateNode(node[i])
			}
			opts = append(opts, o)
		}
		var out string
		var err error
		p := mon.Safe(func() {
			if form == "invoke" {
				out, err = r.Invoke(cctx, "in", opts...)
				return
			}
			var sr *schema.StreamReader[string]
			sr, err = r.Stream(cctx, "in", opts...)
			if err != nil {
				return
			}
			defer sr.Close()
			for {
				c, e := sr.Recv()
				if e == io.EOF {
					return
				}
				if e != nil {
					err = e
					return
				}
				out += c
			}
		})
		rec.wg.Wait()
		res.calls++
		rec.mu.Lock()
		evs := append([]rrEvent(nil), rec.events...)
		rec.mu.Unlock()
		res.events += len(evs)
		st.mu.Lock()
		execs, returned, asked := st.execs, st.returned, st.asked
		st.mu.Unlock()
		res.asked += asked
		info, interrupted := compose.ExtractInterruptInfo(err)
		outcome := "finished"
		switch {
		case p != nil:
			outcome = "panic"
		case interrupted:
			outcome = fmt.Sprintf("interrupt(before=%v after=%v rerun=%v subgraphs=%d)", info.BeforeNodes, info.AfterNodes, info.RerunNodes, len(info.SubGraphs))
		case err != nil:
			outcome = "error"
		}
		history = append(history, fmt.Sprintf("call %d: %s, %d body executions asked to be run again", call, outcome, asked))
		if bad := rrJudge(rep, spec, hs, form, call, history, evs, execs, returned, &res); bad {
			res.violated = true
			return res
		}
		switch {
		case p != nil:
			res.otherErr = fmt.Errorf("panic: %v", p.Value)
			return res
		case interrupted:
			res.interrupted++
			if asked > 0 {
				res.byRequest++
			}
		case err != nil:
			res.otherErr = err
			return res
		default:
			_ = out
			res.finished = true
			return res
		}
	}
	return res
}

// rrJudge: the pairing clause over the events of ONE call.
func rrJudge(rep *mon.Reporter, spec *rrGraph, hs []rrHSpec, form string, call int, history []string, evs []rrEvent,
	execs map[string]int, returned map[string][]error, res *rrResult) bool {
	render := func() string {
		var b strings.Builder
		fmt.Fprintf(&b, "form=%s\n%s\nevents of call %d:\n", form, strings.Join(history, "\n"), call)
		for i, e := range evs {
			fmt.Fprintf(&b, "  %d %s %s %s stream=%v", i, e.handler, e.timing, e.key(), e.stream)
			if e.err != nil {
				fmt.Fprintf(&b, " rerun-request=%v", errors.Is(e.err, compose.InterruptAndRerun))
			}
			b.WriteByte('\n')
		}
		fmt.Fprintf(&b, "body executions of the call: %v; of which returned an error: ", execs)
		for _, k := range mon.SortedKeys(returned) {
			fmt.Fprintf(&b, "%s x%d ", k, len(returned[k]))
		}
		return b.String()
	}
	wit := map[string]any{"spec": spec, "handlers": hs, "form": form, "call": call}
	for _, h := range hs {
		starts, ends := map[string]int{}, map[string]int{}
		comp := map[string]string{}
		var order []string
		for _, e := range evs {
			if e.handler != h.ID {
				continue
			}
			k := e.key()
			if _, ok := comp[k]; !ok {
				comp[k] = e.comp
				order = append(order, k)
			}
			if e.timing == "start" {
				starts[k]++
				continue
			}
			ends[k]++
			if ends[k] > starts[k] {
				rep.Violation(ID+"/rerun-pairing/more-ends-than-starts/"+e.comp,
					fmt.Sprintf("handler %s: unit %s has got %d end / stream-end / error callbacks after %d start callbacks within one call of an interrupt / resume sequence\n%s", h.ID, k, ends[k], starts[k], render()), wit)
				return true
			}
		}
		for _, k := range order {
			if starts[k] != ends[k] {
				rep.Violation(ID+"/rerun-pairing/start-without-end/"+comp[k],
					fmt.Sprintf("handler %s: unit %s: %d start callbacks but %d end / stream-end / error callbacks within one call of an interrupt / resume sequence (every execution that started in the call also ended in it)\n%s", h.ID, k, starts[k], ends[k], render()), wit)
				return true
			}
			res.pairs++
		}
		// a unit whose body returned an error (the rerun request included) is told so: OnError once per such
		// execution, with the error the body returned. Judged for the units whose body is ours.
		for _, u := range mon.SortedKeys(execs) {
			i := strings.IndexByte(u, '/')
			ucomp, uname := u[:i], u[i+1:]
			var got []error
			nstart := 0
			for _, e := range evs {
				if e.handler != h.ID || e.comp != ucomp || e.name != uname {
					continue
				}
				if e.timing == "error" {
					got = append(got, e.err)
				}
				if e.timing == "start" {
					nstart++
				}
			}
			if nstart == 0 {
				// the handler does not apply to this unit (designated elsewhere)
				continue
			}
			want := returned[u]
			if len(got) != len(want) {
				cl := "error-not-reported"
				if len(got) > len(want) {
					cl = "error-reported-too-often"
				}
				rep.Violation(ID+"/rerun-pairing/"+cl+"/"+ucomp,
					fmt.Sprintf("handler %s: %d executions of unit %s returned an error in this call, OnError was invoked %d times for it\n%s", h.ID, len(want), u, len(got), render()), wit)
				return true
			}
			for _, ge := range got {
				ok := false
				for _, we := range want {
					if ge != nil && errors.Is(ge, we) {
						ok = true
					}
				}
				if !ok {
					rep.Violation(ID+"/rerun-pairing/wrong-error/"+ucomp,
						fmt.Sprintf("handler %s: OnError of unit %s was given %v, which is none of the errors its body returned in this call (%v)\n%s", h.ID, u, ge, want, render()), wit)
					return true
				}
				res.errorsMatched++
			}
		}
	}
	return false
}
