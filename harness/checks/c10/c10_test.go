// Package c10: callback handlers fire exactly once per execution, paired, for the right node.
package c10

import (
	"context"
	"fmt"
	"io"
	"sort"
	"strings"
	"sync"
	"testing"
	"time"

	"github.com/cloudwego/eino/callbacks"
	"github.com/cloudwego/eino/compose"
	"github.com/cloudwego/eino/schema"

	"verifharness/internal/gspec"
	"verifharness/internal/mon"
)

const ID = "C10"

type event struct {
	seq     int
	handler string
	timing  string // start | end | error
	stream  bool
	name    string
	comp    string
	payload string
}

type recorder struct {
	mu     sync.Mutex
	events []event
	wg     sync.WaitGroup // stream-reading goroutines of handlers
	// content: a handler that reads its copy of a unit's output stream to the end also records what the
	// copy carried (event timing "content"; string chunks only)
	content bool
}

func (r *recorder) add(e event) {
	r.mu.Lock()
	e.seq = len(r.events)
	r.events = append(r.events, e)
	r.mu.Unlock()
}

type recKey struct{}

// readMode: how a handler treats the stream copy it is given
type readMode int

const (
	readAll readMode = iota
	closeAtOnce
	readOneThenClose
)

func payloadOf(v any) string {
	switch x := v.(type) {
	case map[string]any:
		return gspec.Canon(x)
	case string:
		return x
	default:
		return fmt.Sprintf("%T", v)
	}
}

// newHandler builds a recording handler. rec == nil: the recorder is found through the context (global handler).
func newHandler(id string, rec *recorder, mode readMode) callbacks.Handler {
	get := func(ctx context.Context) *recorder {
		if rec != nil {
			return rec
		}
		r, _ := ctx.Value(recKey{}).(*recorder)
		return r
	}
	hb := callbacks.NewHandlerBuilder()
	hb.OnStartFn(func(ctx context.Context, info *callbacks.RunInfo, in callbacks.CallbackInput) context.Context {
		if r := get(ctx); r != nil {
			r.add(event{handler: id, timing: "start", name: info.Name, comp: string(info.Component), payload: payloadOf(in)})
		}
		return ctx
	})
	hb.OnEndFn(func(ctx context.Context, info *callbacks.RunInfo, out callbacks.CallbackOutput) context.Context {
		if r := get(ctx); r != nil {
			r.add(event{handler: id, timing: "end", name: info.Name, comp: string(info.Component), payload: payloadOf(out)})
		}
		return ctx
	})
	hb.OnErrorFn(func(ctx context.Context, info *callbacks.RunInfo, err error) context.Context {
		if r := get(ctx); r != nil {
			r.add(event{handler: id, timing: "error", name: info.Name, comp: string(info.Component), payload: "error"})
		}
		return ctx
	})
	hb.OnStartWithStreamInputFn(func(ctx context.Context, info *callbacks.RunInfo, in *schema.StreamReader[callbacks.CallbackInput]) context.Context {
		r := get(ctx)
		if r == nil {
			in.Close()
			return ctx
		}
		r.add(event{handler: id, timing: "start", stream: true, name: info.Name, comp: string(info.Component)})
		consume(r, mode, func() (any, error) { return in.Recv() }, in.Close, nil)
		return ctx
	})
	hb.OnEndWithStreamOutputFn(func(ctx context.Context, info *callbacks.RunInfo, out *schema.StreamReader[callbacks.CallbackOutput]) context.Context {
		r := get(ctx)
		if r == nil {
			out.Close()
			return ctx
		}
		r.add(event{handler: id, timing: "end", stream: true, name: info.Name, comp: string(info.Component)})
		var onEOF func([]any)
		if r.content && mode == readAll {
			name, comp := info.Name, string(info.Component)
			onEOF = func(items []any) {
				var sb strings.Builder
				for _, it := range items {
					s, ok := it.(string)
					if !ok {
						return
					}
					sb.WriteString(s)
				}
				r.add(event{handler: id, timing: "content", stream: true, name: name, comp: comp, payload: sb.String()})
			}
		}
		consume(r, mode, func() (any, error) { return out.Recv() }, out.Close, onEOF)
		return ctx
	})
	return hb.Build()
}

func consume(r *recorder, mode readMode, recv func() (any, error), closeFn func(), onEOF func([]any)) {
	switch mode {
	case closeAtOnce:
		closeFn()
	default:
		r.wg.Add(1)
		go verifHandlerReader(r, mode, recv, closeFn, onEOF)
	}
}

func verifHandlerReader(r *recorder, mode readMode, recv func() (any, error), closeFn func(), onEOF func([]any)) {
	defer r.wg.Done()
	defer closeFn()
	var items []any
	for i := 0; mode == readAll || i < 1; i++ {
		v, err := recv()
		if err != nil {
			if err == io.EOF && onEOF != nil {
				onEOF(items)
			}
			return
		}
		if onEOF != nil {
			items = append(items, v)
		}
	}
}

func genOpts(r *mon.Rand, cfg mon.Config, mode gspec.Mode) gspec.GenOpts {
	o := gspec.GenOpts{
		Mode: mode, MinNodes: 3, MaxNodes: cfg.Pick(7, 9),
		Branches: 0.35, Multi: 0.5, StreamCond: 0.3, AllowEmpty: 0.1,
		Nest: 2, NestProb: 0.15, State: 0.2, StreamState: 0.3,
		Streamy: true, Keys: 0.0, Renames: 0.1, Passthrough: 0.12, Wide: 0.2,
		CtrlOnly: 0.2, DataOnly: 0.3, Fields: 0.4, TwoBranches: 0.15,
		SubModes: []gspec.Mode{gspec.DAG, gspec.Workflow},
	}
	if mode == gspec.Pregel {
		o.Cycles = 0.25
	}
	return o
}

func TestCheck(t *testing.T) {
	cfg := mon.Load(ID)
	rep := mon.NewReporter(cfg, "exploration",
		"generated specs with parallel nodes, nested graphs and mixed paradigms, run in all four paradigms under 4 (quick) / 8 (thorough) handler layouts: a process-global handler, 1-5 separate WithCallbacks options (handler slices with spare capacity), handlers designated to nodes and to node paths inside nested graphs, each handler reading its stream copies fully / closing at once / reading one chunk. Oracle: recording handlers against an expected invocation table built from the reference executions: for every (handler, unit) #start = #end+#error = number of executions of that unit the handler applies to, an end never precedes its start, run info names the unit, Invoke payloads equal what the unit consumed/produced; a designated handler never fires for another unit; the result equals the reference whatever the handlers do with their stream copies; race detector. Failing runs (3 per spec): a node body returns an error or panics (string / error / nil dereference), a branch condition fails or a state pre-/post-handler panics on the run loop of its graph (top-level or nested), under global, undesignated and designated handlers (the failing node, a nested graph around it, some other unit), any paradigm: after the process has settled every started unit - the failing one and the graph included - has ended exactly once (end or error), the graph whose run loop failed got OnError, designated handlers fired for their own units only. Run-loop workload (a sixth of the cases, 2-3 specs each, 1 clean + 3-4 failing runs per spec): Graph (both trigger modes) / Chain / Workflow specs nested up to 2 deep made of single nodes, side-by-side nodes and branches with planned answers; exactly one site on the planned path - a branch condition (value / stream, single / multi) or a state pre- / post-handler (value / stream) - returns an error or panics (string / error / nil dereference / struct value; stream forms before reading, after one chunk, after the whole input); the call runs under recover (the panic of a top-level run loop may reach the caller); oracle: every unit starts at most once and ends as often as it starts, the graph whose run loop failed and every graph around it started once and ended once with OnError and without OnEnd, every unit the plan puts before the site has one start and one end, the clean run matches the exact table (planned units once, others never), designated handlers (the failing graph, a graph around it, the node of the handler, any unit) fire for their units only. Self-firing workload (same cases, 2-3 specs x 4 paradigms): 1-3 lanes ChatTemplate -> ChatModel -> Lambda (1-2 rounds) or Lambda -> Retriever -> Lambda, in the top graph or nested up to 2 deep, Graph / Chain / Workflow; bundled prompt.FromMessages templates (FString / GoTemplate, 1-4 MessagesTemplates of which at most one returns an error, panics, names an unknown variable or is a required placeholder without value) next to own components with IsCallbacksEnabled()==true (well-behaved; counted, and the framework must not fire for them a second time) and own components without (framework-injected; may fail or panic); exact table per (handler, unit): units before the failing one once with OnEnd, the failing unit and the graphs around it once with OnError and no OnEnd, units behind it never; other lanes of a failing run: at most one start, as many ends as starts; run info component checked. Tools workload (a sixth of the cases, 2 graphs x 4 paradigms each): 1-2 lanes chat model -> tools node, the tools node or the lane inside a nested graph (<=2 levels), invokable-only / streamable-only / both-form tools with and without components.Checker (framework-injected vs. self-fired callbacks), tool lists given at construction or per call, 1-6 calls per message with repeated and unknown tool names (UnknownToolsHandler present or not), calls that fail, panic (first call = the node's own goroutine, others on their own) or put an error item into their stream; expected invocation table per (handler, unit) incl. every tool call as a unit of its own (run info name = called name, component Tool, payload = that call's arguments / answer, stream copies read to the end carry that call's answer), handlers designated to tools nodes / nested graphs / node paths; result unaffected by what handlers do with their copies. Non-trivial: a run with >=2 handlers of which >=1 designated and >=3 executed units; distinct = (spec, layout, paradigm).",
		[]string{"pass-through nodes fire no node-level callbacks by design (only pairing is required for them)", "units are identified by the node name (set to the node key)"},
		100)
	defer func() {
		if err := rep.Flush(); err != nil {
			t.Fatalf("flush: %v", err)
		}
	}()
	callbacks.AppendGlobalHandlers(newHandler("GLOBAL", nil, readAll))
	for _, k := range []string{"failure_runs_node-body_panic", "failure_runs_node-body_error", "failure_victim_checks", "failure_owner_graph_checks", "tools_failing_runs",
		"tool_call_units_panicking", "tool_call_units_tool-call/unknown-handled", "tool_call_units_called_several_times",
		"tool_call_units_tool-call/streamable/framework-injected", "tool_call_units_tool-call/invokable/tool-fires-itself",
		"tools_pairs_designated", "tool_payloads_checked", "tool_stream_payloads_checked", "tools_results_checked",
		"runloop_success_runs_judged", "runloop_fault_runs_branch-condition_panic", "runloop_fault_runs_branch-condition_error",
		"runloop_fault_runs_state-pre-handler_panic", "runloop_fault_runs_state-post-handler_panic", "runloop_fault_runs_state-pre-handler_error",
		"runloop_fault_runs_state-post-handler_error", "runloop_fault_runs_branch-condition_stream-form", "runloop_fault_runs_nested_panic",
		"runloop_fault_runs_top-level_panic", "runloop_fault_runs_depth_2", "runloop_fault_runs_in_chain", "runloop_fault_runs_in_workflow",
		"runloop_graph_units_judged_panic_faulting-graph/nested", "runloop_graph_units_judged_panic_faulting-graph/top-level",
		"selffire_failing_unit_pairs_panic_bundled-ChatTemplate", "selffire_failing_unit_pairs_error_bundled-ChatTemplate",
		"selffire_pairs_component-fires-itself/ChatTemplate", "selffire_pairs_component-fires-itself/Retriever", "selffire_runs_judged_none",
		"rerun_sequences_finished", "rerun_calls_interrupted_by_rerun_request", "rerun_error_callbacks_matched"} {
		rep.Require(k, 20)
	}
	ctx := context.Background()
	n := int64(cfg.Pick(480, 3000))
	rep.Cases(n, func(idx int64, rng *mon.Rand) {
		if idx%6 == 5 {
			// run-loop failures and self-firing components (runloop_test.go, selffire_test.go)
			for k := 0; k < cfg.Pick(2, 3); k++ {
				runLoopCase(ctx, rep, rng.Sub(fmt.Sprintf("runloop%d", k)), cfg.Pick(3, 4), idx < 6 && k == 0)
			}
			for k := 0; k < cfg.Pick(2, 3); k++ {
				selfFireCase(ctx, rep, rng.Sub(fmt.Sprintf("selffire%d", k)), idx < 6 && k == 0)
			}
			componentCase(ctx, rep, rng)
			sharedExecutorCase(ctx, rep, rng.Sub("shared"))
			for k := 0; k < cfg.Pick(2, 4); k++ {
				toolsCase(ctx, rep, rng.Sub(fmt.Sprintf("tools%d", k)))
			}
			// interrupt / resume sequences (rerun_pairing_test.go); last, so that the cases above keep their PRNG
			// streams. Checkpoints are serialized at every interrupt, which is slow under the race detector: the
			// quick tier runs one spec (two sequences) in every second of these cases.
			nrr := cfg.Pick(int(idx/6+1)%2, 3)
			for k := 0; k < nrr; k++ {
				rerunPairingCase(ctx, rep, rng.Sub(fmt.Sprintf("rerun%d", k)), idx < 6 && k == 0)
			}
			return
		}
		mode := gspec.Mode(idx % 3)
		spec := gspec.Gen(rng, genOpts(rng, cfg, mode))
		specCase(ctx, rep, rng, cfg, spec, idx < 2)
	})
}

type hspec struct {
	ID   string   `json:"id"`
	Path []string `json:"path,omitempty"` // designated node path (nil: applies everywhere)
	// More: further paths the same option is designated to (none is a prefix of another)
	More [][]string `json:"more_paths,omitempty"`
	Mode readMode   `json:"mode"`
	Opt  int        `json:"option"` // index of the WithCallbacks option carrying it
}

type unit struct {
	name string
	path []string
	sub  bool
}

func units(g *gspec.GraphSpec, prefix []string, out *[]unit) {
	for i := range g.Nodes {
		n := &g.Nodes[i]
		if n.Kind == gspec.Passthrough {
			continue
		}
		p := append(append([]string(nil), prefix...), n.Key)
		*out = append(*out, unit{name: n.Key, path: p, sub: n.Sub != nil})
		if n.Sub != nil {
			units(n.Sub, p, out)
		}
	}
}

func specCase(ctx context.Context, rep *mon.Reporter, rng *mon.Rand, cfg mon.Config, spec *gspec.GraphSpec, sample bool) {
	r, err := gspec.Build(ctx, spec, gspec.BuildOpts{Compile: []compose.GraphCompileOption{compose.WithGraphName("TOP")}, OnState: stateHook})
	if err != nil {
		rep.Violation(ID+"/build-error", err.Error(), spec)
		return
	}
	in := gspec.V{"in": rng.Str(1, 5)}
	ref := gspec.EvalGraph(spec, in, nil)
	if ref.Err != "" {
		return
	}
	var us []unit
	units(spec, nil, &us)
	layouts := cfg.Pick(4, 8)
	for l := 0; l < layouts; l++ {
		// ---- a handler layout
		var hs []hspec
		nopts := 1 + rng.Intn(5)
		nund := rng.Intn(4) // undesignated handlers, spread over the options
		if l == 0 {
			nund = 3 // three graph-level handlers in one option: a slice with spare capacity
			nopts = 1
		}
		for i := 0; i < nund; i++ {
			hs = append(hs, hspec{ID: fmt.Sprintf("U%d", i), Mode: readMode(rng.Intn(3)), Opt: rng.Intn(nopts)})
		}
		ndes := 1 + rng.Intn(3)
		for i := 0; i < ndes && len(us) > 0; i++ {
			u := us[rng.Intn(len(us))]
			h := hspec{ID: fmt.Sprintf("D%d@%s", i, strings.Join(u.path, "/")), Path: u.path, Mode: readMode(rng.Intn(3)), Opt: nopts + i}
			// the same option designated to further paths, of any depth, in PRNG order
			for j, k := 0, rng.Intn(3); j < k; j++ {
				v := us[rng.Intn(len(us))]
				ok := !related(v.path, h.Path)
				for _, m := range h.More {
					ok = ok && !related(v.path, m)
				}
				if ok {
					h.More = append(h.More, v.path)
					h.ID += "+" + strings.Join(v.path, "/")
				}
			}
			if len(h.More) > 0 && rng.Bool() {
				h.Path, h.More[0] = h.More[0], h.Path
			}
			hs = append(hs, h)
		}
		para := []string{"I", "S", "C", "T"}[rng.Intn(4)]
		oneRun(ctx, rep, spec, r, in, ref, hs, para, rng.Uint64(), sample && l == 0)
	}
	for f := 0; f < 3; f++ {
		failureRun(ctx, rep, rng, spec, r, in, ref)
	}
}

func oneRun(ctx context.Context, rep *mon.Reporter, spec *gspec.GraphSpec, r compose.Runnable[gspec.V, gspec.V], in gspec.V, ref *gspec.RefResult, hs []hspec, para string, seed uint64, sample bool) {
	rec := &recorder{}
	byOpt := map[int][]callbacks.Handler{}
	optPath := map[int][][]string{}
	var optIdx []int
	for _, h := range hs {
		if _, ok := byOpt[h.Opt]; !ok {
			optIdx = append(optIdx, h.Opt)
		}
		byOpt[h.Opt] = append(byOpt[h.Opt], newHandler(h.ID, rec, h.Mode))
		if h.Path != nil {
			optPath[h.Opt] = append([][]string{h.Path}, h.More...)
		}
	}
	sort.Ints(optIdx)
	var opts []compose.Option
	for _, i := range optIdx {
		o := compose.WithCallbacks(byOpt[i]...)
		if ps := optPath[i]; ps != nil {
			var nps []*compose.NodePath
			for _, p := range ps {
				nps = append(nps, compose.NewNodePath(p...))
			}
			o = o.DesignateNodeWithPath(nps...)
			if len(ps) > 1 {
				rep.Count("options_designated_to_several_paths", 1)
			}
		}
		opts = append(opts, o)
	}
	ctl := gspec.NewCtl("r")
	cctx := context.WithValue(gspec.WithCtl(ctx, ctl), recKey{}, rec)
	out, wres, dump := gspec.CallGuarded(cctx, r, para, in, seed, -1, opts...)
	rep.AddEvaluations(1)
	rep.Count("runs_"+para, 1)
	wit := map[string]any{"spec": spec, "input": in, "handlers": hs, "paradigm": para}
	if wres == mon.Stuck {
		where, detail := gspec.StuckSignature(dump)
		rep.Violation(ID+"/hang/"+where, detail, wit)
		return
	}
	if wres != mon.Finished {
		rep.Inconclusive("watchdog")
		return
	}
	// handlers' stream readers finish once the streams end
	doneReaders := make(chan struct{})
	go func() { rec.wg.Wait(); close(doneReaders) }()
	if w, d := mon.WaitDone(doneReaders, 120*time.Second); w == mon.Stuck {
		where, detail := gspec.StuckSignature(d)
		rep.Violation(ID+"/handler-stream-copy-never-ends/"+where, "a handler that reads its stream copy to the end never sees EOF\n"+detail, wit)
		return
	} else if w != mon.Finished {
		rep.Inconclusive("watchdog")
		return
	}
	extra := fmt.Sprintf("paradigm=%s input=%s handlers=%+v\nreference: %s", para, gspec.Canon(in), hs, ref.String())
	// ---- the data flow is not disturbed by what handlers do with their copies
	if m := gspec.CompareResult(ref, out); m != nil {
		rep.Violation(ID+"/result-disturbed-by-handlers/"+m.Class, m.Detail+"\n"+extra, wit)
		return
	}
	execs, _, _, _ := ctl.Log.Snapshot()
	// executions per unit name
	nexec := map[string]int{"TOP": 1}
	for _, e := range execs {
		nexec[e.Node]++
	}
	for k, ins := range ref.SubIn {
		nexec[k] = len(ins)
	}
	inputs := map[string][]string{}
	outputs := map[string][]string{}
	for _, e := range execs {
		inputs[e.Node] = append(inputs[e.Node], e.In)
		outputs[e.Node] = append(outputs[e.Node], e.Out)
	}
	rec.mu.Lock()
	evs := append([]event(nil), rec.events...)
	rec.mu.Unlock()
	rep.Count("callback_events", int64(len(evs)))
	render := func() string {
		var b strings.Builder
		for _, e := range evs {
			fmt.Fprintf(&b, "  %d %s %s name=%s comp=%s stream=%v %s\n", e.seq, e.handler, e.timing, e.name, e.comp, e.stream, e.payload)
		}
		return b.String()
	}
	all := append([]hspec{{ID: "GLOBAL"}}, hs...)
	for _, h := range all {
		starts, ends := map[string]int{}, map[string]int{}
		for _, e := range evs {
			if e.handler != h.ID {
				continue
			}
			if e.comp == "Passthrough" {
				continue
			}
			switch e.timing {
			case "start":
				starts[e.name]++
			default:
				ends[e.name]++
				if ends[e.name] > starts[e.name] {
					rep.Violation(ID+"/end-without-start", fmt.Sprintf("handler %s: end of %s before its start\n%s\n%s", h.ID, e.name, extra, render()), wit)
					return
				}
			}
			// payloads of Invoke-form callbacks of body nodes
			if !e.stream && e.payload != "error" && e.comp == "Lambda" {
				pool := inputs[e.name]
				if e.timing == "end" {
					pool = outputs[e.name]
				}
				ok := false
				for _, p := range pool {
					if p == e.payload {
						ok = true
					}
				}
				if !ok && len(pool) > 0 {
					rep.Violation(ID+"/wrong-payload/"+e.timing, fmt.Sprintf("handler %s got %s payload %s for %s, the node saw %v\n%s", h.ID, e.timing, e.payload, e.name, pool, extra), wit)
					return
				}
				rep.Count("payloads_checked", 1)
			}
		}
		// expected counts. A handler designated to a graph node applies to that graph: the node's own
		// unit and every unit inside it (it is placed in the context the nested run inherits).
		target := ""
		inside := map[string]bool{} // units the handler applies to besides `target`
		if h.Path != nil {
			target = h.Path[len(h.Path)-1]
			for _, p := range append([][]string{h.Path}, h.More...) {
				t := p[len(p)-1]
				inside[t] = true
				if n, _ := findNode(spec, t); n != nil && n.Sub != nil {
					var us []unit
					units(n.Sub, nil, &us)
					for _, u := range us {
						inside[u.name] = true
					}
				}
			}
		}
		names := map[string]bool{}
		for n := range starts {
			names[n] = true
		}
		for n := range ends {
			names[n] = true
		}
		for n := range nexec {
			names[n] = true
		}
		for n := range names {
			want := nexec[n]
			if target != "" && n != target && !inside[n] {
				want = 0
			}
			if isPassthrough(spec, n) {
				continue
			}
			if starts[n] != want || ends[n] != want {
				cl := "wrong-count"
				switch {
				case target != "" && n != target && !inside[n] && (starts[n] > 0 || ends[n] > 0):
					cl = "designated-handler-fired-for-another-unit"
				case target != "" && n == target:
					cl = "designated-handler-count"
				case starts[n] > want || ends[n] > want:
					cl = "fired-too-often"
				default:
					cl = "fired-too-rarely"
				}
				rep.Violation(ID+"/"+cl, fmt.Sprintf("handler %s, unit %s: %d start / %d end-or-error callbacks, expected %d of each (executions of the unit)\n%s\n%s", h.ID, n, starts[n], ends[n], want, extra, render()), wit)
				return
			}
			rep.Count("handler_unit_pairs_checked", 1)
		}
	}
	des := 0
	for _, h := range hs {
		if h.Path != nil {
			des++
		}
	}
	if len(hs) >= 2 && des >= 1 && len(execs) >= 3 {
		rep.NonTrivial(spec.Digest() + fmt.Sprint(hs) + para)
	}
	if sample {
		rep.Sample(map[string]any{"spec": spec, "handlers": hs, "paradigm": para, "events": len(evs)})
	}
}

// related: one path is a prefix of (or equal to) the other
func related(a, b []string) bool {
	n := len(a)
	if len(b) < n {
		n = len(b)
	}
	for i := 0; i < n; i++ {
		if a[i] != b[i] {
			return false
		}
	}
	return true
}

func isPassthrough(g *gspec.GraphSpec, name string) bool {
	for i := range g.Nodes {
		if g.Nodes[i].Key == name {
			return g.Nodes[i].Kind == gspec.Passthrough
		}
		if g.Nodes[i].Sub != nil && isPassthrough(g.Nodes[i].Sub, name) {
			return true
		}
	}
	return false
}

func findNode(g *gspec.GraphSpec, key string) (*gspec.NodeSpec, *gspec.GraphSpec) {
	for i := range g.Nodes {
		if g.Nodes[i].Key == key {
			return &g.Nodes[i], g
		}
		if g.Nodes[i].Sub != nil {
			if n, o := findNode(g.Nodes[i].Sub, key); n != nil {
				return n, o
			}
		}
	}
	return nil, nil
}
