package c10

import (
	"context"
	"fmt"
	"strings"

	"github.com/cloudwego/eino/compose"
	"github.com/cloudwego/eino/schema"

	"verifharness/internal/mon"
)

// sharedExecutorCase: one Lambda value (or one compiled-from graph value) is added to a graph under
// several node keys, each with its own node name. Every execution unit is still its own unit: every
// applicable handler fires once at start and once at end for each of them "with that unit's run info"
// (here: the node name the unit was given), and a handler designated to one key fires only there.
func sharedExecutorCase(ctx context.Context, rep *mon.Reporter, rng *mon.Rand) {
	k := 2 + rng.Intn(3)
	nlam := 1 + rng.Intn(2)
	lams := make([]*compose.Lambda, nlam)
	kinds := make([]string, nlam)
	for i := range lams {
		tag := fmt.Sprintf("<%d>", i)
		switch rng.Intn(3) {
		case 0:
			kinds[i] = "invokable"
			lams[i] = compose.InvokableLambda(func(ctx context.Context, in string) (string, error) { return in + tag, nil })
		case 1:
			kinds[i] = "streamable"
			lams[i] = compose.StreamableLambda(func(ctx context.Context, in string) (*schema.StreamReader[string], error) {
				return schema.StreamReaderFromArray([]string{in, tag}), nil
			})
		default:
			kinds[i] = "transformable"
			lams[i] = compose.TransformableLambda(func(ctx context.Context, in *schema.StreamReader[string]) (*schema.StreamReader[string], error) {
				return schema.StreamReaderWithConvert(in, func(s string) (string, error) { return s, nil }), nil
			})
		}
	}
	// layout 0: a sequence n0 -> n1 -> ...; layout 1: the same sequence inside a nested graph that is
	// itself followed by one more node sharing a lambda with the inside
	nested := rng.Intn(3) == 0
	use := make([]int, k)
	build := func(g *compose.Graph[string, string], from, to int, prefix string) error {
		prev := compose.START
		for i := from; i < to; i++ {
			key := fmt.Sprintf("%sn%d", prefix, i)
			if err := g.AddLambdaNode(key, lams[use[i]], compose.WithNodeName("N"+key)); err != nil {
				return err
			}
			if err := g.AddEdge(prev, key); err != nil {
				return err
			}
			prev = key
		}
		return g.AddEdge(prev, compose.END)
	}
	for i := range use {
		use[i] = rng.Intn(nlam)
	}
	use[k-1] = use[0] // at least one lambda is shared
	g := compose.NewGraph[string, string]()
	var keys [][]string // node paths in execution order
	var err error
	if !nested {
		err = build(g, 0, k, "")
		for i := 0; i < k; i++ {
			keys = append(keys, []string{fmt.Sprintf("n%d", i)})
		}
	} else {
		sub := compose.NewGraph[string, string]()
		err = build(sub, 0, k-1, "s")
		if err == nil {
			err = g.AddGraphNode("sub", sub, compose.WithNodeName("Nsub"))
		}
		if err == nil {
			err = g.AddLambdaNode("last", lams[use[k-1]], compose.WithNodeName("Nlast"))
		}
		if err == nil {
			err = g.AddEdge(compose.START, "sub")
		}
		if err == nil {
			err = g.AddEdge("sub", "last")
		}
		if err == nil {
			err = g.AddEdge("last", compose.END)
		}
		for i := 0; i < k-1; i++ {
			keys = append(keys, []string{"sub", fmt.Sprintf("sn%d", i)})
		}
		keys = append(keys, []string{"last"})
	}
	wit := map[string]any{"nodes": k, "lambda_kinds": kinds, "lambda_of_node": use, "nested": nested}
	if err != nil {
		rep.Violation(ID+"/shared-executor/build-error", err.Error(), wit)
		return
	}
	r, err := g.Compile(ctx, compose.WithGraphName("TOP"))
	if err != nil {
		rep.Violation(ID+"/shared-executor/build-error", err.Error(), wit)
		return
	}
	nameOf := func(p []string) string { return "N" + p[len(p)-1] }
	target := keys[rng.Intn(len(keys))]
	for _, stream := range []bool{false, true} {
		rec := &recorder{}
		opt := compose.WithCallbacks(newHandler("D", rec, readAll))
		if len(target) == 1 {
			opt = opt.DesignateNode(target[0])
		} else {
			opt = opt.DesignateNodeWithPath(compose.NewNodePath(target...))
		}
		opts := []compose.Option{compose.WithCallbacks(newHandler("U", rec, readMode(rng.Intn(3)))), opt}
		cctx := context.WithValue(ctx, recKey{}, rec)
		var outErr error
		var out string
		p := mon.Safe(func() {
			if !stream {
				out, outErr = r.Invoke(cctx, "i", opts...)
				return
			}
			sr, err := r.Stream(cctx, "i", opts...)
			if err != nil {
				outErr = err
				return
			}
			for {
				c, err := sr.Recv()
				if err != nil {
					break
				}
				out += c
			}
			sr.Close()
		})
		rep.AddEvaluations(1)
		rep.Count("shared_executor_runs", 1)
		wit["stream"] = stream
		wit["designated"] = target
		if p != nil || outErr != nil {
			rep.Violation(ID+"/shared-executor/run-failed", fmt.Sprint(p, outErr), wit)
			return
		}
		want := "i"
		for i := 0; i < k; i++ {
			if kinds[use[i]] != "transformable" {
				want += fmt.Sprintf("<%d>", use[i])
			}
		}
		if out != want {
			rep.Violation(ID+"/shared-executor/wrong-result", fmt.Sprintf("got %q want %q\n%+v", out, want, wit), wit)
			return
		}
		rec.wg.Wait()
		rec.mu.Lock()
		evs := append([]event(nil), rec.events...)
		rec.mu.Unlock()
		var b strings.Builder
		for _, e := range evs {
			fmt.Fprintf(&b, "  %d %s %s name=%s comp=%s stream=%v\n", e.seq, e.handler, e.timing, e.name, e.comp, e.stream)
		}
		count := func(h, timing, name string) int {
			n := 0
			for _, e := range evs {
				if e.handler == h && e.name == name && (e.timing == "start") == (timing == "start") {
					n++
				}
			}
			return n
		}
		wantNames := map[string]bool{"TOP": true}
		if nested {
			wantNames["Nsub"] = true
		}
		for _, p := range keys {
			wantNames[nameOf(p)] = true
		}
		for _, h := range []string{"GLOBAL", "U"} {
			for n := range wantNames {
				if s, e := count(h, "start", n), count(h, "end", n); s != 1 || e != 1 {
					rep.Violation(ID+"/shared-executor/run-info-of-another-node", fmt.Sprintf("handler %s saw %d start / %d end callbacks with run info name %s (expected one of each: every node has its own name, whatever executor value it shares)\n%+v\n%s", h, s, e, n, wit, b.String()), wit)
					return
				}
				rep.Count("handler_unit_pairs_checked", 1)
			}
		}
		for _, e := range evs {
			if !wantNames[e.name] {
				rep.Violation(ID+"/shared-executor/unknown-unit", fmt.Sprintf("callback for a unit named %q\n%+v\n%s", e.name, wit, b.String()), wit)
				return
			}
			if e.handler == "D" && e.name != nameOf(target) {
				rep.Violation(ID+"/shared-executor/designated-handler-fired-for-another-unit", fmt.Sprintf("handler designated to %v fired with run info name %s\n%+v\n%s", target, e.name, wit, b.String()), wit)
				return
			}
		}
		if s, e := count("D", "start", nameOf(target)), count("D", "end", nameOf(target)); s != 1 || e != 1 {
			rep.Violation(ID+"/shared-executor/designated-handler-count", fmt.Sprintf("handler designated to %v: %d start / %d end with its node's name\n%+v\n%s", target, s, e, wit, b.String()), wit)
			return
		}
		rep.NonTrivial(fmt.Sprintf("shared|%v|%v|%v|%v|%v", kinds, use, nested, target, stream))
	}
}
