package c10

import (
	"context"
	"encoding/json"
	"errors"
	"fmt"
	"io"
	"sort"
	"strings"
	"time"

	"github.com/cloudwego/eino/compose"
	"github.com/cloudwego/eino/schema"

	"verifharness/internal/gspec"
	"verifharness/internal/mon"
)

// ---------------------------------------------------------------------------------------------
// The run-loop workload: user code that runs on the run loop of a graph itself - branch conditions
// (value and stream conditions, single and multi) and state pre- / post-handlers (value and stream
// handlers) - returns an error or panics. The graph whose run loop it is is an execution unit with
// callbacks of its own: top-level or nested 1-2 deep, a Graph (all-predecessor or any-predecessor
// trigger), a Chain or a Workflow, run in any of the four paradigms.
//
//   spec       a sequence of segments per graph: one node | 2-3 nodes side by side | a branch with 2-3
//              targets of which a planned subset is chosen (the conditions do not look at the data: which
//              units run is known from the spec); a node is a Lambda (four forms) or a nested graph
//   fault      exactly one site on the planned path: a branch condition, a state pre-handler or a state
//              post-handler; it returns an error or panics (string / error / nil dereference / struct
//              value); stream forms fail before reading, after one chunk or after the whole input
//   handlers   the process-global one, two undesignated ones, handlers designated to the faulting graph, to a
//              graph around it, to the node whose state handler fails, to some other unit
//
// Oracle (after the process has settled): for every handler and every unit it applies to
//   * a unit starts at most once (no cycles here) and #end + #error = #start;
//   * the graph whose run loop failed started once and ended once with OnError - never with OnEnd: it did
//     not produce anything; the same for every graph around it (their node failed, their run returns the
//     error);
//   * every unit that the plan puts before the fault ran to its end: one start, one end, no error;
//   * a designated handler fires only for units at or below its path; every event names a unit of the spec.
// The panic of a top-level run loop may reach the caller of Invoke / Stream (containment is not C10's
// business): the call runs under recover and the callbacks are judged all the same. A run without any
// fault (one per spec) is judged against the exact table: planned units once, all others never.
// ---------------------------------------------------------------------------------------------

type rlM = map[string]any

type rlState struct{ Hits int }

type rlNode struct {
	Key  string   `json:"key"`
	Form string   `json:"form,omitempty"` // invokable | streamable | collectable | transformable (Lambda)
	Sub  *rlGraph `json:"sub,omitempty"`
	Pre  string   `json:"pre,omitempty"`  // "" | value | stream
	Post string   `json:"post,omitempty"` // "" | value | stream
}

type rlSeg struct {
	Kind   string   `json:"kind"` // node | parallel | branch
	Nodes  []rlNode `json:"nodes"`
	ID     string   `json:"branch_id,omitempty"`
	Stream bool     `json:"stream_condition,omitempty"`
	Multi  bool     `json:"multi,omitempty"`
	Chosen []int    `json:"chosen,omitempty"` // indices of the targets the condition answers
}

type rlGraph struct {
	Kind  string  `json:"kind"` // graph-dag | graph-pregel | chain | workflow
	State bool    `json:"state,omitempty"`
	Segs  []rlSeg `json:"segments"`
}

type rlFault struct {
	Site string `json:"site"` // branch:<id> | pre:<node> | post:<node>
	Do   string `json:"do"`   // error | panic-string | panic-error | panic-nil-deref | panic-struct
	When int    `json:"when"` // stream forms: 0 before reading, 1 after one chunk, 2 after the whole input
}

type rlFaultKey struct{}

var errRunLoop = errors.New("verif-run-loop-failure")

type rlPanicValue struct{ Site string }

// rlFire makes the site fail if it is the run's fault site (stage < 0: value form, fails whatever When says).
func rlFire(ctx context.Context, site string, stage int) error {
	f, _ := ctx.Value(rlFaultKey{}).(*rlFault)
	if f == nil || f.Site != site || (stage >= 0 && f.When != stage) {
		return nil
	}
	switch f.Do {
	case "panic-string":
		panic("verif-run-loop-panic@" + site)
	case "panic-error":
		panic(fmt.Errorf("verif-run-loop-panic@%s: %w", site, errRunLoop))
	case "panic-nil-deref":
		var p *rlState
		p.Hits++
	case "panic-struct":
		panic(rlPanicValue{Site: site})
	}
	return fmt.Errorf("%s: %w", site, errRunLoop)
}

func rlIsFaultSite(ctx context.Context, site string) bool {
	f, _ := ctx.Value(rlFaultKey{}).(*rlFault)
	return f != nil && f.Site == site
}

// rlStreamSite: the stream form of a site. As the fault site it fails before reading, after one chunk or
// after the whole input (an error is returned with the stream closed; a panic leaves it open). Otherwise
// the stream is left untouched (read == false) or read to the end and closed.
func rlStreamSite(ctx context.Context, site string, sr *schema.StreamReader[rlM], read bool) error {
	if !rlIsFaultSite(ctx, site) {
		if read {
			rlDrain(sr)
		}
		return nil
	}
	fail := func(stage int) error {
		err := rlFire(ctx, site, stage)
		if err != nil {
			sr.Close()
		}
		return err
	}
	if err := fail(0); err != nil {
		return err
	}
	_, _ = sr.Recv()
	if err := fail(1); err != nil {
		return err
	}
	for {
		if _, err := sr.Recv(); err != nil {
			break
		}
	}
	if err := fail(2); err != nil {
		return err
	}
	sr.Close()
	return errors.New("verif: fault site did not fail")
}

func rlDrain(sr *schema.StreamReader[rlM]) {
	defer sr.Close()
	for {
		if _, err := sr.Recv(); err != nil {
			return
		}
	}
}

// ------------------------------------------------------------------ generation

type rlGen struct {
	rng   *mon.Rand
	nodes int
	brs   int
}

func (g *rlGen) node(depth int) rlNode {
	g.nodes++
	n := rlNode{Key: fmt.Sprintf("n%d", g.nodes)}
	if depth < 2 && g.rng.Prob(0.3) {
		n.Sub = g.graph(depth + 1)
	} else {
		n.Form = mon.PickOne(g.rng, []string{"invokable", "streamable", "collectable", "transformable"})
	}
	if g.rng.Prob(0.35) {
		n.Pre = mon.PickOne(g.rng, []string{"value", "stream"})
	}
	if g.rng.Prob(0.35) {
		n.Post = mon.PickOne(g.rng, []string{"value", "stream"})
	}
	return n
}

func (g *rlGen) graph(depth int) *rlGraph {
	out := &rlGraph{Kind: mon.PickOne(g.rng, []string{"graph-dag", "graph-pregel", "chain", "workflow"})}
	nseg := 1 + g.rng.Intn(4)
	if depth == 0 {
		nseg = 2 + g.rng.Intn(3)
	}
	prevMulti := false
	for i := 0; i < nseg; i++ {
		kind := "node"
		if !prevMulti {
			switch r := g.rng.Intn(10); {
			case r < 4 && !(i == 0 && out.Kind == "workflow"): // a Workflow cannot begin with a branch ("start node not set")
				kind = "branch"
			case r < 6:
				kind = "parallel"
			}
		}
		s := rlSeg{Kind: kind}
		k := 1
		if kind != "node" {
			k = 2 + g.rng.Intn(2)
		}
		for j := 0; j < k; j++ {
			s.Nodes = append(s.Nodes, g.node(depth))
		}
		if kind == "branch" {
			g.brs++
			s.ID = fmt.Sprintf("b%d", g.brs)
			s.Stream = g.rng.Prob(0.5)
			s.Multi = g.rng.Prob(0.4)
			if s.Multi {
				for j := 0; j < k; j++ {
					if g.rng.Bool() {
						s.Chosen = append(s.Chosen, j)
					}
				}
			}
			if len(s.Chosen) == 0 {
				s.Chosen = []int{g.rng.Intn(k)}
			}
		}
		out.Segs = append(out.Segs, s)
		prevMulti = kind != "node"
	}
	for _, s := range out.Segs {
		for _, n := range s.Nodes {
			if n.Pre != "" || n.Post != "" {
				out.State = true
			}
		}
	}
	return out
}

// ------------------------------------------------------------------ building

func rlLambda(key, form string) *compose.Lambda {
	val := func() rlM { return rlM{key: "1"} }
	str := func() *schema.StreamReader[rlM] {
		return schema.StreamReaderFromArray([]rlM{{key: "1"}, {key + "~": "2"}})
	}
	switch form {
	case "streamable":
		return compose.StreamableLambda(func(ctx context.Context, in rlM) (*schema.StreamReader[rlM], error) { return str(), nil })
	case "collectable":
		return compose.CollectableLambda(func(ctx context.Context, in *schema.StreamReader[rlM]) (rlM, error) {
			rlDrain(in)
			return val(), nil
		})
	case "transformable":
		return compose.TransformableLambda(func(ctx context.Context, in *schema.StreamReader[rlM]) (*schema.StreamReader[rlM], error) {
			rlDrain(in)
			return str(), nil
		})
	}
	return compose.InvokableLambda(func(ctx context.Context, in rlM) (rlM, error) { return val(), nil })
}

func rlNewOpts(g *rlGraph) []compose.NewGraphOption {
	if !g.State {
		return nil
	}
	return []compose.NewGraphOption{compose.WithGenLocalState(func(ctx context.Context) *rlState { return &rlState{} })}
}

func rlCompileOpts(g *rlGraph) []compose.GraphCompileOption {
	switch g.Kind {
	case "graph-dag":
		return []compose.GraphCompileOption{compose.WithNodeTriggerMode(compose.AllPredecessor)}
	case "graph-pregel":
		return []compose.GraphCompileOption{compose.WithNodeTriggerMode(compose.AnyPredecessor)}
	}
	return nil
}

func rlNodeOpts(n *rlNode, chain bool) []compose.GraphAddNodeOpt {
	opts := []compose.GraphAddNodeOpt{compose.WithNodeName(n.Key)}
	if chain {
		opts = append(opts, compose.WithNodeKey(n.Key))
	}
	pre, post := "pre:"+n.Key, "post:"+n.Key
	switch n.Pre {
	case "value":
		opts = append(opts, compose.WithStatePreHandler(func(ctx context.Context, in rlM, st *rlState) (rlM, error) {
			st.Hits++
			if err := rlFire(ctx, pre, -1); err != nil {
				return nil, err
			}
			return in, nil
		}))
	case "stream":
		opts = append(opts, compose.WithStreamStatePreHandler(func(ctx context.Context, in *schema.StreamReader[rlM], st *rlState) (*schema.StreamReader[rlM], error) {
			st.Hits++
			if err := rlStreamSite(ctx, pre, in, false); err != nil {
				return nil, err
			}
			return in, nil
		}))
	}
	switch n.Post {
	case "value":
		opts = append(opts, compose.WithStatePostHandler(func(ctx context.Context, out rlM, st *rlState) (rlM, error) {
			st.Hits++
			if err := rlFire(ctx, post, -1); err != nil {
				return nil, err
			}
			return out, nil
		}))
	case "stream":
		opts = append(opts, compose.WithStreamStatePostHandler(func(ctx context.Context, out *schema.StreamReader[rlM], st *rlState) (*schema.StreamReader[rlM], error) {
			st.Hits++
			if err := rlStreamSite(ctx, post, out, false); err != nil {
				return nil, err
			}
			return out, nil
		}))
	}
	if n.Sub != nil {
		if co := rlCompileOpts(n.Sub); len(co) > 0 {
			opts = append(opts, compose.WithGraphCompileOptions(co...))
		}
	}
	return opts
}

// the four condition forms of a branch segment
func rlConds(s *rlSeg) (single func(context.Context, rlM) (string, error), multi func(context.Context, rlM) (map[string]bool, error),
	ssingle func(context.Context, *schema.StreamReader[rlM]) (string, error), smulti func(context.Context, *schema.StreamReader[rlM]) (map[string]bool, error)) {
	site := "branch:" + s.ID
	first := s.Nodes[s.Chosen[0]].Key
	answer := func() map[string]bool {
		m := map[string]bool{}
		if mon.HashStr(s.ID+"|spell")%2 == 0 { // spelled out: the targets not chosen are in the answer with false
			for _, n := range s.Nodes {
				m[n.Key] = false
			}
		}
		for _, i := range s.Chosen {
			m[s.Nodes[i].Key] = true
		}
		return m
	}
	read := mon.HashStr(s.ID+"|read")%2 == 0
	single = func(ctx context.Context, in rlM) (string, error) {
		if err := rlFire(ctx, site, -1); err != nil {
			return "", err
		}
		return first, nil
	}
	multi = func(ctx context.Context, in rlM) (map[string]bool, error) {
		if err := rlFire(ctx, site, -1); err != nil {
			return nil, err
		}
		return answer(), nil
	}
	ssingle = func(ctx context.Context, in *schema.StreamReader[rlM]) (string, error) {
		if err := rlStreamSite(ctx, site, in, read); err != nil {
			return "", err
		}
		return first, nil
	}
	smulti = func(ctx context.Context, in *schema.StreamReader[rlM]) (map[string]bool, error) {
		if err := rlStreamSite(ctx, site, in, read); err != nil {
			return nil, err
		}
		return answer(), nil
	}
	return
}

func rlGraphBranch(s *rlSeg) *compose.GraphBranch {
	ends := map[string]bool{}
	for _, n := range s.Nodes {
		ends[n.Key] = true
	}
	single, multi, ssingle, smulti := rlConds(s)
	switch {
	case s.Stream && s.Multi:
		return compose.NewStreamGraphMultiBranch(smulti, ends)
	case s.Stream:
		return compose.NewStreamGraphBranch(ssingle, ends)
	case s.Multi:
		return compose.NewGraphMultiBranch(multi, ends)
	}
	return compose.NewGraphBranch(single, ends)
}

func rlKeys(s *rlSeg) []string {
	var ks []string
	for _, n := range s.Nodes {
		ks = append(ks, n.Key)
	}
	return ks
}

type rlCompiler func(ctx context.Context, opts ...compose.GraphCompileOption) (compose.Runnable[rlM, rlM], error)

func rlBuild(g *rlGraph) (compose.AnyGraph, rlCompiler, error) {
	switch g.Kind {
	case "chain":
		return rlBuildChain(g)
	case "workflow":
		return rlBuildWorkflow(g)
	}
	return rlBuildGraph(g)
}

func rlBuildGraph(spec *rlGraph) (compose.AnyGraph, rlCompiler, error) {
	g := compose.NewGraph[rlM, rlM](rlNewOpts(spec)...)
	prev := []string{compose.START}
	for i := range spec.Segs {
		s := &spec.Segs[i]
		for j := range s.Nodes {
			n := &s.Nodes[j]
			var err error
			if n.Sub != nil {
				var inner compose.AnyGraph
				if inner, _, err = rlBuild(n.Sub); err == nil {
					err = g.AddGraphNode(n.Key, inner, rlNodeOpts(n, false)...)
				}
			} else {
				err = g.AddLambdaNode(n.Key, rlLambda(n.Key, n.Form), rlNodeOpts(n, false)...)
			}
			if err != nil {
				return nil, nil, fmt.Errorf("add node %s: %w", n.Key, err)
			}
		}
		if s.Kind == "branch" {
			if err := g.AddBranch(prev[0], rlGraphBranch(s)); err != nil {
				return nil, nil, fmt.Errorf("add branch %s: %w", s.ID, err)
			}
		} else {
			for _, n := range s.Nodes {
				for _, p := range prev {
					if err := g.AddEdge(p, n.Key); err != nil {
						return nil, nil, err
					}
				}
			}
		}
		prev = rlKeys(s)
	}
	for _, p := range prev {
		if err := g.AddEdge(p, compose.END); err != nil {
			return nil, nil, err
		}
	}
	return g, g.Compile, nil
}

func rlBuildWorkflow(spec *rlGraph) (compose.AnyGraph, rlCompiler, error) {
	wf := compose.NewWorkflow[rlM, rlM](rlNewOpts(spec)...)
	prev := []string{compose.START}
	feed := func(to *compose.WorkflowNode) {
		if len(prev) == 1 {
			to.AddInput(prev[0])
			return
		}
		for _, p := range prev {
			to.AddInput(p, compose.ToField(p))
		}
	}
	for i := range spec.Segs {
		s := &spec.Segs[i]
		var wns []*compose.WorkflowNode
		for j := range s.Nodes {
			n := &s.Nodes[j]
			if n.Sub != nil {
				inner, _, err := rlBuild(n.Sub)
				if err != nil {
					return nil, nil, err
				}
				wns = append(wns, wf.AddGraphNode(n.Key, inner, rlNodeOpts(n, false)...))
			} else {
				wns = append(wns, wf.AddLambdaNode(n.Key, rlLambda(n.Key, n.Form), rlNodeOpts(n, false)...))
			}
		}
		if s.Kind == "branch" {
			wf.AddBranch(prev[0], rlGraphBranch(s))
			for _, wn := range wns {
				wn.AddInputWithOptions(prev[0], nil, compose.WithNoDirectDependency())
			}
		} else {
			for _, wn := range wns {
				feed(wn)
			}
		}
		prev = rlKeys(s)
	}
	feed(wf.End())
	return wf, wf.Compile, nil
}

func rlBuildChain(spec *rlGraph) (compose.AnyGraph, rlCompiler, error) {
	c := compose.NewChain[rlM, rlM](rlNewOpts(spec)...)
	for i := range spec.Segs {
		s := &spec.Segs[i]
		inner := make([]compose.AnyGraph, len(s.Nodes))
		for j := range s.Nodes {
			if s.Nodes[j].Sub != nil {
				var err error
				if inner[j], _, err = rlBuild(s.Nodes[j].Sub); err != nil {
					return nil, nil, err
				}
			}
		}
		switch s.Kind {
		case "node":
			n := &s.Nodes[0]
			if n.Sub != nil {
				c.AppendGraph(inner[0], rlNodeOpts(n, true)...)
			} else {
				c.AppendLambda(rlLambda(n.Key, n.Form), rlNodeOpts(n, true)...)
			}
		case "parallel":
			p := compose.NewParallel()
			for j := range s.Nodes {
				n := &s.Nodes[j]
				if n.Sub != nil {
					p.AddGraph(n.Key, inner[j], rlNodeOpts(n, true)...)
				} else {
					p.AddLambda(n.Key, rlLambda(n.Key, n.Form), rlNodeOpts(n, true)...)
				}
			}
			c.AppendParallel(p)
		case "branch":
			single, multi, ssingle, smulti := rlConds(s)
			var cb *compose.ChainBranch
			switch {
			case s.Stream && s.Multi:
				cb = compose.NewStreamChainMultiBranch(smulti)
			case s.Stream:
				cb = compose.NewStreamChainBranch(ssingle)
			case s.Multi:
				cb = compose.NewChainMultiBranch(multi)
			default:
				cb = compose.NewChainBranch(single)
			}
			for j := range s.Nodes {
				n := &s.Nodes[j]
				if n.Sub != nil {
					cb.AddGraph(n.Key, inner[j], rlNodeOpts(n, true)...)
				} else {
					cb.AddLambda(n.Key, rlLambda(n.Key, n.Form), rlNodeOpts(n, true)...)
				}
			}
			c.AppendBranch(cb)
		}
	}
	return c, c.Compile, nil
}

// ------------------------------------------------------------------ the plan: which units run, where the sites are

type rlUnit struct {
	name    string
	path    []string
	planned bool
}

func rlPlannedIdx(s *rlSeg) map[int]bool {
	m := map[int]bool{}
	if s.Kind != "branch" {
		for i := range s.Nodes {
			m[i] = true
		}
		return m
	}
	for _, i := range s.Chosen {
		m[i] = true
	}
	return m
}

func rlUnits(g *rlGraph, prefix []string, planned bool, out *[]rlUnit) {
	for i := range g.Segs {
		s := &g.Segs[i]
		pl := rlPlannedIdx(s)
		for j := range s.Nodes {
			n := &s.Nodes[j]
			p := append(append([]string(nil), prefix...), n.Key)
			*out = append(*out, rlUnit{name: n.Key, path: p, planned: planned && pl[j]})
			if n.Sub != nil {
				rlUnits(n.Sub, p, planned && pl[j], out)
			}
		}
	}
}

type rlSite struct {
	Site   string   `json:"site"`
	Kind   string   `json:"kind"`           // branch-condition | state-pre-handler | state-post-handler
	Form   string   `json:"form"`           // value | stream
	GPath  []string `json:"graph_path"`     // node path of the graph on whose run loop the site runs (empty: TOP)
	GKind  string   `json:"graph_kind"`     // graph-dag | graph-pregel | chain | workflow
	Victim string   `json:"node,omitempty"` // node of a state handler
	seg    int
}

// rlSites: every site on the planned path, in plan order
func rlSites(g *rlGraph, gpath []string, out *[]rlSite) {
	for i := range g.Segs {
		s := &g.Segs[i]
		pl := rlPlannedIdx(s)
		if s.Kind == "branch" {
			form := "value"
			if s.Stream {
				form = "stream"
			}
			*out = append(*out, rlSite{Site: "branch:" + s.ID, Kind: "branch-condition", Form: form, GPath: gpath, GKind: g.Kind, seg: i})
		}
		for j := range s.Nodes {
			n := &s.Nodes[j]
			if !pl[j] {
				continue
			}
			if n.Pre != "" {
				*out = append(*out, rlSite{Site: "pre:" + n.Key, Kind: "state-pre-handler", Form: n.Pre, GPath: gpath, GKind: g.Kind, Victim: n.Key, seg: i})
			}
			if n.Sub != nil {
				rlSites(n.Sub, append(append([]string(nil), gpath...), n.Key), out)
			}
			if n.Post != "" {
				*out = append(*out, rlSite{Site: "post:" + n.Key, Kind: "state-post-handler", Form: n.Post, GPath: gpath, GKind: g.Kind, Victim: n.Key, seg: i})
			}
		}
	}
}

// rlDoneBefore: the units that the plan completes before the site is reached (sequential order of the
// segments; the units of the site's own segment are not counted except the node of a post-handler)
func rlDoneBefore(g *rlGraph, rest []string, site *rlSite, done map[string]bool) {
	addNode := func(n *rlNode) {
		done[n.Key] = true
		if n.Sub != nil {
			var us []rlUnit
			rlUnits(n.Sub, nil, true, &us)
			for _, u := range us {
				if u.planned {
					done[u.name] = true
				}
			}
		}
	}
	stop := site.seg
	var next *rlNode
	if len(rest) > 0 {
		stop = -1
		for i := range g.Segs {
			for j := range g.Segs[i].Nodes {
				if g.Segs[i].Nodes[j].Key == rest[0] {
					stop, next = i, &g.Segs[i].Nodes[j]
				}
			}
		}
	}
	for i := 0; i < stop; i++ {
		s := &g.Segs[i]
		pl := rlPlannedIdx(s)
		for j := range s.Nodes {
			if pl[j] {
				addNode(&s.Nodes[j])
			}
		}
	}
	if next != nil {
		rlDoneBefore(next.Sub, rest[1:], site, done)
		return
	}
	if site.Kind == "state-post-handler" {
		for j := range g.Segs[stop].Nodes {
			if g.Segs[stop].Nodes[j].Key == site.Victim {
				addNode(&g.Segs[stop].Nodes[j])
			}
		}
	}
}

// ------------------------------------------------------------------ running

type rlOutcome struct {
	Err   error
	Panic *mon.Panic
}

func rlCall(ctx context.Context, r compose.Runnable[rlM, rlM], para string, opts ...compose.Option) (o rlOutcome, res mon.WaitResult, dump []mon.G) {
	in := func() *schema.StreamReader[rlM] {
		return schema.StreamReaderFromArray([]rlM{{"in": "x"}, {"in~": "y"}})
	}
	read := func(sr *schema.StreamReader[rlM], err error) error {
		if err != nil {
			return err
		}
		defer sr.Close()
		for {
			if _, err := sr.Recv(); err == io.EOF {
				return nil
			} else if err != nil {
				return err
			}
		}
	}
	done := make(chan struct{})
	go func() {
		defer close(done)
		o.Panic = mon.Safe(func() {
			switch para {
			case "I":
				_, o.Err = r.Invoke(ctx, rlM{"in": "x"}, opts...)
			case "S":
				o.Err = read(r.Stream(ctx, rlM{"in": "x"}, opts...))
			case "C":
				_, o.Err = r.Collect(ctx, in(), opts...)
			default:
				o.Err = read(r.Transform(ctx, in(), opts...))
			}
		})
	}()
	res, dump = mon.WaitDone(done, 120*time.Second)
	if res != mon.Finished {
		return rlOutcome{}, res, dump
	}
	return o, res, nil
}

func runLoopCase(ctx context.Context, rep *mon.Reporter, rng *mon.Rand, nfault int, sample bool) {
	gen := &rlGen{rng: rng}
	spec := gen.graph(0)
	_, compile, err := rlBuild(spec)
	var r compose.Runnable[rlM, rlM]
	if err == nil {
		r, err = compile(ctx, append(rlCompileOpts(spec), compose.WithGraphName("TOP"))...)
	}
	if err != nil {
		rep.Violation(ID+"/runloop/build-error", err.Error(), spec)
		return
	}
	var us []rlUnit
	rlUnits(spec, nil, true, &us)
	var sites []rlSite
	rlSites(spec, nil, &sites)
	rep.Count("runloop_specs", 1)
	rep.Count("runloop_specs_"+spec.Kind, 1)
	rlRun(ctx, rep, rng.Sub("ok"), spec, r, us, nil)
	if len(sites) == 0 {
		return
	}
	// nested sites first in line: two of the fault runs prefer a graph below the top
	var nested []rlSite
	for _, s := range sites {
		if len(s.GPath) > 0 {
			nested = append(nested, s)
		}
	}
	for k := 0; k < nfault; k++ {
		sr := rng.Sub(fmt.Sprintf("fault%d", k))
		pool := sites
		if k%2 == 0 && len(nested) > 0 {
			pool = nested
		}
		site := pool[sr.Intn(len(pool))]
		rlRun(ctx, rep, sr, spec, r, us, &site)
	}
	if sample {
		rep.Sample(map[string]any{"workload": "runloop", "spec": spec, "sites": sites})
	}
}

var rlDos = []string{"error", "error", "panic-string", "panic-error", "panic-nil-deref", "panic-struct", "panic-string"}

func rlRun(ctx context.Context, rep *mon.Reporter, rng *mon.Rand, spec *rlGraph, r compose.Runnable[rlM, rlM], us []rlUnit, site *rlSite) {
	var fault *rlFault
	fclass := "none"
	if site != nil {
		fault = &rlFault{Site: site.Site, Do: rlDos[rng.Intn(len(rlDos))], When: rng.Intn(3)}
		fclass = "error"
		if strings.HasPrefix(fault.Do, "panic") {
			fclass = "panic"
		}
	}
	// ---- handlers
	rec := &recorder{}
	hs := []hspec{{ID: "U0", Mode: readAll, Opt: 0}, {ID: "U1", Mode: readMode(rng.Intn(3)), Opt: 1}}
	if site != nil && len(site.GPath) > 0 {
		hs = append(hs, hspec{ID: "D@graph", Path: site.GPath, Mode: readMode(rng.Intn(3))})
		if len(site.GPath) > 1 && rng.Bool() {
			hs = append(hs, hspec{ID: "D@around", Path: site.GPath[:1], Mode: readMode(rng.Intn(3))})
		}
	}
	if site != nil && site.Victim != "" && rng.Bool() {
		hs = append(hs, hspec{ID: "D@node", Path: append(append([]string(nil), site.GPath...), site.Victim), Mode: readMode(rng.Intn(3))})
	}
	if rng.Bool() {
		u := us[rng.Intn(len(us))]
		hs = append(hs, hspec{ID: "D@any", Path: u.path, Mode: readMode(rng.Intn(3))})
	}
	var opts []compose.Option
	for _, h := range hs {
		o := compose.WithCallbacks(newHandler(h.ID, rec, h.Mode))
		if h.Path != nil {
			o = o.DesignateNodeWithPath(compose.NewNodePath(h.Path...))
		}
		opts = append(opts, o)
	}
	para := []string{"I", "S", "C", "T"}[rng.Intn(4)]
	cctx := context.WithValue(ctx, recKey{}, rec)
	if fault != nil {
		cctx = context.WithValue(cctx, rlFaultKey{}, fault)
	}
	out, wres, dump := rlCall(cctx, r, para, opts...)
	rep.AddEvaluations(1)
	rep.Count("runloop_runs", 1)
	rep.Count("runloop_runs_"+para, 1)
	wit := map[string]any{"spec": spec, "fault": fault, "site": site, "paradigm": para, "handlers": hs}
	tail := fclass
	level := ""
	if site != nil {
		tail = fclass + "/" + site.Kind
		level = "top-level"
		if len(site.GPath) > 0 {
			level = "nested"
		}
	}
	if wres == mon.Stuck {
		where, detail := gspec.StuckSignature(dump)
		rep.Violation(ID+"/runloop/hang/"+tail+"/"+where, detail, wit)
		return
	}
	if wres != mon.Finished {
		rep.Inconclusive("watchdog")
		return
	}
	if _, ok := mon.Settle(3, 800); !ok {
		rep.Count("runloop_runs_not_settled_not_judged", 1)
		return
	}
	rec.wg.Wait()
	failed := out.Err != nil || out.Panic != nil
	if site == nil && failed {
		rep.Violation(ID+"/runloop/success/run-failed", fmt.Sprintf("a run without any fault failed: err=%v panic=%v", out.Err, out.Panic), wit)
		return
	}
	if site != nil && !failed {
		rep.Count("runloop_fault_runs_that_succeeded_not_judged", 1) // whether the failure must surface is C13's business
		return
	}
	rec.mu.Lock()
	evs := append([]event(nil), rec.events...)
	rec.mu.Unlock()
	rep.Count("callback_events", int64(len(evs)))
	var b strings.Builder
	for _, e := range evs {
		fmt.Fprintf(&b, "  %d %s %s name=%s comp=%s stream=%v %s\n", e.seq, e.handler, e.timing, e.name, e.comp, e.stream, e.payload)
	}
	outcome := fmt.Sprintf("err=%v", out.Err)
	if out.Panic != nil {
		outcome = "the call panicked: " + out.Panic.Value
	}
	head := fmt.Sprintf("paradigm %s, fault %+v at %+v\nrun: %.300s\nhandlers: %+v\n", para, fault, site, outcome, hs)
	// ---- the table
	known := map[string]bool{"TOP": true}
	planned := map[string]bool{"TOP": true}
	for _, u := range us {
		known[u.name] = true
		if u.planned {
			planned[u.name] = true
		}
	}
	below := func(p []string) map[string]bool {
		m := map[string]bool{}
		for _, u := range us {
			if len(u.path) >= len(p) && related(u.path, p) {
				m[u.name] = true
			}
		}
		return m
	}
	done := map[string]bool{}
	graphs := map[string]string{} // the faulting graph and the graphs around it -> who
	if site != nil {
		rlDoneBefore(spec, site.GPath, site, done)
		graphs["TOP"] = "enclosing-graph"
		for _, k := range site.GPath {
			graphs[k] = "enclosing-graph"
		}
		gname := "TOP"
		if len(site.GPath) > 0 {
			gname = site.GPath[len(site.GPath)-1]
		}
		graphs[gname] = "faulting-graph/" + level
	}
	for _, h := range append([]hspec{{ID: "GLOBAL"}}, hs...) {
		starts, ends, errs := map[string]int{}, map[string]int{}, map[string]int{}
		for _, e := range evs {
			if e.handler != h.ID {
				continue
			}
			switch e.timing {
			case "start":
				starts[e.name]++
			case "error":
				errs[e.name]++
			case "end":
				ends[e.name]++
			}
		}
		names := map[string]bool{}
		for _, m := range []map[string]int{starts, ends, errs} {
			for n := range m {
				names[n] = true
			}
		}
		sorted := make([]string, 0, len(names))
		for n := range names {
			sorted = append(sorted, n)
		}
		sort.Strings(sorted)
		applies := func(n string) bool { return true }
		if h.Path != nil {
			app := below(h.Path)
			applies = func(n string) bool { return app[n] }
		}
		whoOf := func(n string) string {
			if w, ok := graphs[n]; ok {
				return w
			}
			if site != nil && n == site.Victim {
				return "node-of-the-state-handler"
			}
			return "other-unit"
		}
		for _, n := range sorted {
			if !known[n] {
				rep.Violation(ID+"/runloop/unknown-unit/"+tail, fmt.Sprintf("handler %s: callback with run info name %q, no unit of the spec\n%s%s", h.ID, n, head, b.String()), wit)
				return
			}
			if !applies(n) {
				rep.Violation(ID+"/runloop/designated-handler-fired-for-another-unit/"+tail, fmt.Sprintf("handler %s designated to %v fired for unit %s\n%s%s", h.ID, h.Path, n, head, b.String()), wit)
				return
			}
			who := whoOf(n)
			if starts[n] > 1 {
				rep.Violation(ID+"/runloop/started-more-than-once/"+tail+"/"+who, fmt.Sprintf("handler %s, unit %s: %d start callbacks (every unit of this spec runs at most once)\n%s%s", h.ID, n, starts[n], head, b.String()), wit)
				return
			}
			if ends[n]+errs[n] > starts[n] {
				rep.Violation(ID+"/runloop/more-ends-than-starts/"+tail+"/"+who, fmt.Sprintf("handler %s, unit %s: %d start but %d end and %d error callbacks\n%s%s", h.ID, n, starts[n], ends[n], errs[n], head, b.String()), wit)
				return
			}
			if ends[n]+errs[n] < starts[n] {
				rep.Violation(ID+"/runloop/start-without-end/"+tail+"/"+who, fmt.Sprintf("handler %s, unit %s: %d start but only %d end and %d error callbacks: the unit started and never ended for this handler\n%s%s", h.ID, n, starts[n], ends[n], errs[n], head, b.String()), wit)
				return
			}
			rep.Count("runloop_handler_unit_pairs_checked", 1)
		}
		if site == nil {
			// the exact table
			for _, n := range mon.SortedKeys(known) {
				want := 0
				if planned[n] && applies(n) {
					want = 1
				}
				if starts[n] != want || ends[n] != want || errs[n] != 0 {
					cl := "fired-too-rarely"
					if starts[n] > want || ends[n]+errs[n] > want {
						cl = "fired-too-often"
					}
					rep.Violation(ID+"/runloop/success/"+cl, fmt.Sprintf("handler %s, unit %s: %d start / %d end / %d error callbacks, expected %d start and %d end\n%s%s", h.ID, n, starts[n], ends[n], errs[n], want, want, head, b.String()), wit)
					return
				}
				rep.Count("runloop_handler_unit_pairs_checked", 1)
			}
			continue
		}
		// the graph whose run loop failed, and the graphs around it: started once, ended once, with OnError
		for _, n := range mon.SortedKeys(graphs) {
			if !applies(n) {
				continue
			}
			who := graphs[n]
			switch {
			case starts[n] != 1:
				rep.Violation(ID+"/runloop/graph-unit-count/"+tail+"/"+who, fmt.Sprintf("handler %s: %d start callbacks for graph %s (expected 1)\n%s%s", h.ID, starts[n], n, head, b.String()), wit)
				return
			case ends[n] != 0 || errs[n] != 1:
				rep.Violation(ID+"/runloop/failed-graph-ended-with-OnEnd/"+tail+"/"+who, fmt.Sprintf("handler %s: graph %s failed (it produced nothing) and ended for the handler with %d end and %d error callbacks; expected OnError once and no OnEnd\n%s%s", h.ID, n, ends[n], errs[n], head, b.String()), wit)
				return
			}
			rep.Count("runloop_graph_units_judged", 1)
			rep.Count("runloop_graph_units_judged_"+fclass+"_"+who, 1)
		}
		// what the plan completes before the fault
		for _, n := range mon.SortedKeys(done) {
			if !applies(n) {
				continue
			}
			if starts[n] != 1 || ends[n] != 1 || errs[n] != 0 {
				rep.Violation(ID+"/runloop/completed-unit-count/"+tail, fmt.Sprintf("handler %s: unit %s completes before the fault site is reached and got %d start / %d end / %d error callbacks (expected 1 / 1 / 0)\n%s%s", h.ID, n, starts[n], ends[n], errs[n], head, b.String()), wit)
				return
			}
			rep.Count("runloop_completed_units_checked", 1)
		}
	}
	if site == nil {
		rep.Count("runloop_success_runs_judged", 1)
		rep.NonTrivial(fmt.Sprintf("runloop|ok|%s|%s", rlDigest(spec), para))
		return
	}
	rep.Count("runloop_fault_runs_judged", 1)
	rep.Count("runloop_fault_runs_"+site.Kind+"_"+fclass, 1)
	rep.Count("runloop_fault_runs_"+site.Kind+"_"+site.Form+"-form", 1)
	rep.Count("runloop_fault_runs_"+level+"_"+fclass, 1)
	rep.Count("runloop_fault_runs_in_"+site.GKind, 1)
	rep.Count(fmt.Sprintf("runloop_fault_runs_depth_%d", len(site.GPath)), 1)
	if out.Panic != nil {
		rep.Count("runloop_fault_runs_panic_reached_the_caller", 1)
	}
	rep.NonTrivial(fmt.Sprintf("runloop|%s|%s|%s|%d|%s", rlDigest(spec), fault.Site, fault.Do, fault.When, para))
}

func rlDigest(v any) string {
	b, _ := json.Marshal(v)
	return mon.H8(string(b))
}
