package c17

// Tools under control of the harness. Every tool is a PURE function of
// (tool spec, call key, option tag): the reference model evaluates the same
// functions without eino. The only impurity is the per-run plan (gate, forced
// failure, forced panic) which the body finds in the context.

import (
	"context"
	"errors"
	"fmt"
	"strconv"
	"strings"

	"github.com/cloudwego/eino/components/tool"
	"github.com/cloudwego/eino/components/tool/utils"
	"github.com/cloudwego/eino/compose"
	"github.com/cloudwego/eino/schema"

	"verifharness/internal/mon"
)

// In / Out are the typed request / response of the tools built through
// components/tool/utils.
type In struct {
	A string `json:"a"`
	N int    `json:"n"`
}

type Out struct {
	R string `json:"r"`
	K int    `json:"k"`
}

type toolSpec struct {
	Name   string `json:"name"`
	Kind   string `json:"kind"`  // inv | str | both
	Build  string `json:"build"` // hand | new | infer | inferopt | custom
	Salt   string `json:"salt"`
	Chunks int    `json:"chunks"` // number of stream chunks (1 for kind inv)
	Cap    int    `json:"cap"`    // -1: array reader (synchronous), >=0: Pipe capacity with a producer goroutine
	// Quiet: the tool's total output is empty (see empty_output_test.go).
	// "blank": the invokable form returns "", the streaming form sends Chunks chunks that are all "";
	// "nochunk": the invokable form returns "", the streaming form closes its stream without sending anything.
	Quiet    string `json:"quiet,omitempty"`
	QuietSel int    `json:"quiet_sel,omitempty"` // 0: on every call, 1: only on calls whose key hashes even
}

// quietFor: the kind of empty output this tool has for the call with this key ("" = ordinary output).
func (s *toolSpec) quietFor(key string) string {
	if s.Quiet == "" || (s.QuietSel == 1 && mon.HashStr("quiet#"+key)%2 != 0) {
		return ""
	}
	return s.Quiet
}

// blankOut marks the typed output that the custom marshaller renders as "".
var blankOut = Out{K: -1}

func (s *toolSpec) typed() bool   { return s.Build != "hand" }
func (s *toolSpec) usesOpt() bool { return s.Build == "hand" || s.Build == "inferopt" }

// class is used in signatures.
func (s *toolSpec) class() string { return s.Kind + "-" + s.Build }

// typedKey / rawKey: how a body identifies the call it serves.
func typedKey(name, a string, n int) string { return name + "|" + a + "|" + strconv.Itoa(n) }
func rawKey(name, raw string) string        { return name + "|" + raw }

// outputs is THE tool function: the typed chunks the tool produces for a call.
func (s *toolSpec) outputs(key, tag string, n int) []Out {
	if !s.usesOpt() {
		tag = ""
	}
	out := make([]Out, s.Chunks)
	for j := range out {
		out[j] = Out{R: mon.H8(s.Salt + "#" + key + "#" + tag + "#" + strconv.Itoa(j)), K: n + j}
	}
	return out
}

// handRender: string form of a chunk of a hand-written tool (some chunks are empty).
func handRender(o Out) string {
	if mon.HashStr(o.R)%6 == 0 {
		return ""
	}
	return o.R + ":" + strconv.Itoa(o.K)
}

// customRender is the WithMarshalOutput form.
func customRender(o Out) string {
	if o == blankOut {
		return ""
	}
	return o.R + "/" + strconv.Itoa(o.K)
}

// parseCustom is the WithUnmarshalArguments form "a:n".
func parseCustom(s string) (In, error) {
	i := strings.LastIndexByte(s, ':')
	if i < 0 {
		return In{}, errors.New("custom args: missing ':'")
	}
	n, err := strconv.Atoi(s[i+1:])
	if err != nil {
		return In{}, err
	}
	return In{A: s[:i], N: n}, nil
}

func unknownAnswer(name, raw string) string {
	if strings.HasPrefix(name, quietGhost) {
		return "" // the handler's answer for this call is the empty string
	}
	return "unk:" + mon.H8("unknown#"+name+"#"+raw)
}

// toolFailure is "that tool's error".
type toolFailure struct {
	Tool string
	Key  string
}

func (e *toolFailure) Error() string { return "tool " + e.Tool + " failed on " + e.Key }

// tagOpt is the implementation specific tool option.
type tagOpt struct{ tag string }

func withTag(s string) tool.Option {
	return tool.WrapImplSpecificOptFn(func(o *tagOpt) { o.tag = s })
}

func tagOf(opts []tool.Option) string {
	return tool.GetImplSpecificOptions(&tagOpt{}, opts...).tag
}

// core is the behaviour shared by all construction styles.
type core struct {
	sp    toolSpec
	decoy bool
}

// begin claims the slot served by this execution, parks on its gate and
// returns the planned action.
func (c *core) begin(ctx context.Context, key string, viaStream bool) (*runState, int, action) {
	r, _ := ctx.Value(ctxKey{}).(*runState)
	if r == nil {
		lostCtx.Add(1)
		return nil, -1, actOK
	}
	slot := r.claim(key, viaStream, c.decoy, compose.GetToolCallID(ctx))
	if slot < 0 {
		return r, -1, actOK
	}
	<-r.gate[slot]
	return r, slot, r.plan[slot]
}

func (c *core) typedInvoke(ctx context.Context, in In, opts ...tool.Option) (Out, error) {
	key := typedKey(c.sp.Name, in.A, in.N)
	r, slot, act := c.begin(ctx, key, false)
	if slot >= 0 {
		defer r.end(slot)
	}
	switch act {
	case actFail, actFailMid:
		return Out{}, &toolFailure{Tool: c.sp.Name, Key: key}
	case actPanic:
		panic("forced tool panic: " + key)
	}
	if c.sp.quietFor(key) != "" {
		return blankOut, nil // only generated with the custom marshaller, which renders it as ""
	}
	// an invokable tool answers with the concatenation of its chunks; typed
	// invokable tools have exactly one
	return c.sp.outputs(key, tagOf(opts), in.N)[0], nil
}

func (c *core) typedStream(ctx context.Context, in In, opts ...tool.Option) (*schema.StreamReader[Out], error) {
	key := typedKey(c.sp.Name, in.A, in.N)
	r, slot, act := c.begin(ctx, key, true)
	if slot >= 0 {
		defer r.end(slot)
	}
	ferr := &toolFailure{Tool: c.sp.Name, Key: key}
	switch act {
	case actFail:
		return nil, ferr
	case actPanic:
		panic("forced tool panic: " + key)
	}
	outs := c.sp.outputs(key, tagOf(opts), in.N)
	switch c.sp.quietFor(key) {
	case "blank":
		for j := range outs {
			outs[j] = blankOut
		}
	case "nochunk":
		outs = nil
	}
	return emit(r, slot, act, outs, c.sp.Cap, ferr), nil
}

// handTool: written against the component interfaces directly.
type handTool struct{ core }

func (h *handTool) Info(ctx context.Context) (*schema.ToolInfo, error) {
	return &schema.ToolInfo{Name: h.sp.Name, Desc: "hand written " + h.sp.Kind}, nil
}

func (h *handTool) chunks(key, tag string) []string {
	os := h.sp.outputs(key, tag, len(key))
	ss := make([]string, len(os))
	for i, o := range os {
		ss[i] = handRender(o)
	}
	switch h.sp.quietFor(key) {
	case "blank":
		for i := range ss {
			ss[i] = ""
		}
	case "nochunk":
		ss = nil
	}
	return ss
}

func (h *handTool) invokableRun(ctx context.Context, args string, opts ...tool.Option) (string, error) {
	key := rawKey(h.sp.Name, args)
	r, slot, act := h.begin(ctx, key, false)
	if slot >= 0 {
		defer r.end(slot)
	}
	switch act {
	case actFail, actFailMid:
		return "", &toolFailure{Tool: h.sp.Name, Key: key}
	case actPanic:
		panic("forced tool panic: " + key)
	}
	return strings.Join(h.chunks(key, tagOf(opts)), ""), nil
}

func (h *handTool) streamableRun(ctx context.Context, args string, opts ...tool.Option) (*schema.StreamReader[string], error) {
	key := rawKey(h.sp.Name, args)
	r, slot, act := h.begin(ctx, key, true)
	if slot >= 0 {
		defer r.end(slot)
	}
	ferr := &toolFailure{Tool: h.sp.Name, Key: key}
	switch act {
	case actFail:
		return nil, ferr
	case actPanic:
		panic("forced tool panic: " + key)
	}
	return emit(r, slot, act, h.chunks(key, tagOf(opts)), h.sp.Cap, ferr), nil
}

type handInv struct{ handTool }

func (h *handInv) InvokableRun(ctx context.Context, a string, o ...tool.Option) (string, error) {
	return h.invokableRun(ctx, a, o...)
}

type handStr struct{ handTool }

func (h *handStr) StreamableRun(ctx context.Context, a string, o ...tool.Option) (*schema.StreamReader[string], error) {
	return h.streamableRun(ctx, a, o...)
}

type handBoth struct{ handTool }

func (h *handBoth) InvokableRun(ctx context.Context, a string, o ...tool.Option) (string, error) {
	return h.invokableRun(ctx, a, o...)
}
func (h *handBoth) StreamableRun(ctx context.Context, a string, o ...tool.Option) (*schema.StreamReader[string], error) {
	return h.streamableRun(ctx, a, o...)
}

// buildTool constructs the eino tool for a spec.
func buildTool(sp toolSpec, decoy bool) (tool.BaseTool, error) {
	c := core{sp: sp, decoy: decoy}
	info := &schema.ToolInfo{Name: sp.Name, Desc: "generated " + sp.class()}
	noOptI := func(ctx context.Context, in In) (Out, error) { return c.typedInvoke(ctx, in) }
	noOptS := func(ctx context.Context, in In) (*schema.StreamReader[Out], error) { return c.typedStream(ctx, in) }
	switch sp.Build {
	case "hand":
		switch sp.Kind {
		case "inv":
			return &handInv{handTool{c}}, nil
		case "str":
			return &handStr{handTool{c}}, nil
		case "both":
			return &handBoth{handTool{c}}, nil
		}
	case "new":
		if sp.Kind == "inv" {
			return utils.NewTool(info, noOptI), nil
		}
		return utils.NewStreamTool(info, noOptS), nil
	case "infer":
		if sp.Kind == "inv" {
			return utils.InferTool(sp.Name, info.Desc, noOptI)
		}
		return utils.InferStreamTool(sp.Name, info.Desc, noOptS)
	case "inferopt":
		if sp.Kind == "inv" {
			return utils.InferOptionableTool(sp.Name, info.Desc, c.typedInvoke)
		}
		return utils.InferOptionableStreamTool(sp.Name, info.Desc, c.typedStream)
	case "custom":
		um := utils.WithUnmarshalArguments(func(ctx context.Context, s string) (interface{}, error) { return parseCustom(s) })
		m := utils.WithMarshalOutput(func(ctx context.Context, o interface{}) (string, error) {
			v, ok := o.(Out)
			if !ok {
				return "", fmt.Errorf("custom marshal: unexpected %T", o)
			}
			return customRender(v), nil
		})
		if sp.Kind == "inv" {
			return utils.NewTool(info, noOptI, um, m), nil
		}
		return utils.NewStreamTool(info, noOptS, um, m), nil
	}
	return nil, fmt.Errorf("bad tool spec %+v", sp)
}

// unknownHandler is the UnknownToolsHandler: gated like a tool.
func unknownHandler(ctx context.Context, name, input string) (string, error) {
	key := rawKey(name, input)
	c := core{sp: toolSpec{Name: name}}
	r, slot, act := c.begin(ctx, key, false)
	if slot >= 0 {
		defer r.end(slot)
	}
	switch act {
	case actFail, actFailMid:
		return "", &toolFailure{Tool: name, Key: key}
	case actPanic:
		panic("forced handler panic: " + key)
	}
	return unknownAnswer(name, input), nil
}
