package c17

// Sub-workload "tools whose total output is empty".
//
// The statement makes no exception for the empty string: for N calls there are N
// tool messages, the i-th with the i-th call's id and the tool's output -- "" when
// that is what the tool produced -- and the streamed form concatenates to the same
// list. A tool can produce "" in three ways:
//
//   - its invokable form returns "" (hand-written tool; utils.NewTool with a
//     WithMarshalOutput that renders ""; an UnknownToolsHandler answering "");
//   - its streaming form sends chunks that are all "" ("blank");
//   - its streaming form closes the stream without sending anything ("nochunk").
//
// A quiet case is an ordinary case (genCase: 1-5 tools, 1-14 calls, unknown names,
// tool list / tool option / chain / callbacks switches) in which some or all tools
// are quiet, for every call or only for the calls whose key hashes even. It runs
// through the same five modes, completion orders, failing subsets and panics as
// every other case; the reference content of a quiet call is "".

import (
	"fmt"

	"verifharness/internal/mon"
)

const quietGhost = "ghostq_"

type quietGen struct {
	r   *mon.Rand
	all bool // every tool (and the unknown-tool handler) is quiet on every call
	n   int
}

func (q *quietGen) quietUnknown() bool { return q.all || q.r.Prob(0.4) }

// tool decides whether (and how) a freshly drawn tool is quiet. Tools built with
// the utils package render JSON, which is never empty, unless they have a custom
// marshaller; their streams can still be without any chunk.
func (q *quietGen) tool(sp *toolSpec) {
	if !q.all && !q.r.Prob(0.6) {
		return
	}
	plainJSON := sp.Build != "hand" && sp.Build != "custom"
	switch sp.Kind {
	case "inv":
		if plainJSON {
			if !q.all && q.r.Bool() {
				return
			}
			sp.Build = mon.PickOne(q.r, []string{"hand", "custom"})
		}
		sp.Quiet = "blank"
	default:
		if plainJSON {
			sp.Quiet = "nochunk"
		} else {
			sp.Quiet = mon.PickOne(q.r, []string{"blank", "nochunk", "nochunk"})
		}
	}
	if !q.all {
		sp.QuietSel = q.r.Intn(2)
	}
	q.n++
}

// genQuietCase draws cases until one has a call whose output is empty.
func genQuietCase(r *mon.Rand) *caseSpec {
	for attempt := 0; ; attempt++ {
		q := &quietGen{r: r.Sub(fmt.Sprint("quiet", attempt))}
		q.all = q.r.Prob(0.3)
		c := genCaseQ(r.Sub(fmt.Sprint("base", attempt)), q)
		if c.BadArgs && attempt < 50 {
			continue
		}
		for i := range c.Calls {
			if c.quietCall(i) != "" {
				return c
			}
		}
		if attempt >= 50 {
			return c
		}
	}
}

// quietCall: "" (ordinary output), "blank", "nochunk", or "handler" (unknown name answered with "").
func (c *caseSpec) quietCall(i int) string {
	cs := &c.Calls[i]
	if cs.BadArgs {
		return ""
	}
	if cs.Tool < 0 {
		if c.QuietUnknown {
			return "handler"
		}
		return ""
	}
	return c.Tools[cs.Tool].quietFor(cs.Key)
}

// noChunkStream: call i is served, in this mode, by a streaming form that sends nothing.
func (c *caseSpec) noChunkStream(i, mode int) bool {
	if c.quietCall(i) != "nochunk" {
		return false
	}
	switch c.Tools[c.Calls[i].Tool].Kind {
	case "str":
		return true // Invoke runs it through the invoke-by-stream adapter
	case "both":
		return streamMode(mode)
	}
	return false
}

// emptyStreamCalls lists the calls whose tool, in this mode, returns a stream that
// ends without a single chunk.
func (c *caseSpec) emptyStreamCalls(mode int) []int {
	var out []int
	for i := range c.Calls {
		if c.noChunkStream(i, mode) {
			out = append(out, i)
		}
	}
	return out
}

func containsInt(xs []int, x int) bool {
	for _, y := range xs {
		if x == y {
			return true
		}
	}
	return false
}

// noteQuiet counts what a quiet case exercised (evidence).
func (k *checker) noteQuiet(c *caseSpec) {
	kinds := map[string]int{}
	for i := range c.Calls {
		if q := c.quietCall(i); q != "" {
			kinds[q]++
			if t := c.Calls[i].Tool; t >= 0 {
				k.rep.Count("quiet_calls_"+q+"_"+c.Tools[t].class(), 1)
			}
		}
	}
	for _, q := range mon.SortedKeys(kinds) {
		k.rep.Count("quiet_calls_"+q, int64(kinds[q]))
	}
	if len(kinds) > 0 {
		k.rep.Count("quiet_cases", 1)
		total := 0
		for _, n := range kinds {
			total += n
		}
		if total == len(c.Calls) {
			k.rep.Count("quiet_cases_every_call_empty", 1)
		} else {
			k.rep.Count("quiet_cases_mixed_with_ordinary_calls", 1)
		}
	}
}
