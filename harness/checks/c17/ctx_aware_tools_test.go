package c17

// Sub-workload "context-aware tools".
//
// The tools of the other workloads ignore their context. Real tools (anything that
// does I/O) honour it: they give up with ctx.Err() as soon as ctx.Done() fires. The
// statement says "a tool that fails makes the whole call fail with that tool's
// error", irrespective of the completion order. The caller of this workload NEVER
// cancels its context, so
//
//   - a context that is done inside a tool body was cancelled by the framework, and
//   - an error of the whole call that is context.Canceled / DeadlineExceeded is not
//     the error of any tool that failed on its own.
//
// Tools: every body finds the run state in its context, parks on its own gate and
// is released by a controller goroutine in a forced completion permutation; the
// controller opens the next gate only after it has OBSERVED the previously released
// body return (event log, never a timer). Three ways of looking at the context:
//
//   select : select { case <-gate: ...; case <-ctx.Done(): return "", ctx.Err() }
//   check  : waits for its gate, then returns ctx.Err() if the context is done
//            (a tool that looks at the context between two steps of its work)
//   ignore : never looks at the context (the harness still records whether the
//            context was done when the body returned)
//
// A PRNG-chosen subset of the calls fails, each with its own sentinel error
// (errors.New per call). In part of the runs a failing call with index >= 1 is put
// first in the completion order, i.e. it returns while all lower-indexed calls are
// still parked on their gates.
//
// This eino version has no ToolsNodeConfig.ExecuteSequentially: the tools node is
// always parallel, so only the parallel configuration exists to be driven.

import (
	"context"
	"encoding/json"
	"errors"
	"fmt"
	"runtime"
	"strings"
	"sync"

	"github.com/cloudwego/eino/components/tool"
	"github.com/cloudwego/eino/compose"
	"github.com/cloudwego/eino/schema"

	"verifharness/internal/mon"
)

// caEvery: the sub-workload runs beside every caEvery-th case of a shard.
const caEvery = 2

type caKey struct{}

type caTool struct {
	Name   string `json:"name"`
	Kind   string `json:"kind"` // inv | str | both
	Ctx    string `json:"ctx"`  // select | check | ignore
	Salt   string `json:"salt"`
	Chunks int    `json:"chunks"`
}

type caCall struct {
	Tool int    `json:"tool"` // -1: unknown name, answered by the (context-aware) unknown-tool handler
	Name string `json:"name"`
	ID   string `json:"id"`
	Args string `json:"args"`
}

type caCase struct {
	Tools      []caTool `json:"tools"`
	Calls      []caCall `json:"calls"`
	Chain      bool     `json:"chain"`
	HasUnknown bool     `json:"has_unknown"`
}

func (c *caCase) digest() string {
	b, _ := json.Marshal(c)
	return "ctx-aware:" + string(b)
}

const caGhost = "ghostctx_"

func genCACase(r *mon.Rand) *caCase {
	c := &caCase{Chain: r.Prob(0.4), HasUnknown: r.Prob(0.2)}
	nt := r.Range(1, 4)
	for i := 0; i < nt; i++ {
		kind := mon.PickOne(r, []string{"inv", "inv", "str", "both"})
		sp := caTool{
			Name:   fmt.Sprintf("ca%d_%s", i, r.Str(1, 3)),
			Kind:   kind,
			Ctx:    mon.PickOne(r, []string{"select", "select", "select", "check", "check", "ignore"}),
			Salt:   r.Str(3, 6),
			Chunks: 1,
		}
		if kind != "inv" {
			sp.Chunks = r.Range(1, 3)
		}
		c.Tools = append(c.Tools, sp)
	}
	var n int
	switch x := r.Intn(100); {
	case x < 4:
		n = 1
	case x < 30:
		n = 2
	case x < 58:
		n = 3
	case x < 80:
		n = 4
	default:
		n = r.Range(5, 7)
	}
	placed := false
	for i := 0; i < n; i++ {
		cs := caCall{
			ID:   fmt.Sprintf("ca_%d_%s", i, r.Str(2, 4)),
			Args: fmt.Sprintf(`{"slot":%d,"p":"%s"}`, i, r.Str(0, 4)), // distinct per call: a body knows which call it serves
		}
		if c.HasUnknown && (r.Prob(0.25) || (i == n-1 && !placed)) {
			placed = true
			cs.Tool = -1
			cs.Name = caGhost + r.Str(1, 3)
		} else {
			cs.Tool = r.Intn(nt)
			cs.Name = c.Tools[cs.Tool].Name
		}
		c.Calls = append(c.Calls, cs)
	}
	return c
}

// caChunks is THE tool function (pure): the chunks tool sp produces on args; the
// invokable form answers with their concatenation. No chunk is empty.
func caChunks(sp *caTool, args string) []string {
	out := make([]string, sp.Chunks)
	for j := range out {
		out[j] = mon.H8(fmt.Sprint(sp.Salt, "#", args, "#", j))
	}
	return out
}

func caUnknownAnswer(name, args string) string { return "unkctx:" + mon.H8(name+"#"+args) }

func (c *caCase) wantContent(i int) string {
	cs := &c.Calls[i]
	if cs.Tool < 0 {
		return caUnknownAnswer(cs.Name, cs.Args)
	}
	return strings.Join(caChunks(&c.Tools[cs.Tool], cs.Args), "")
}

// ---- run state, event log, controller ----

const (
	caRetOK        = "ok"
	caRetOwnError  = "own-error"
	caRetCancelled = "ctx-error" // the body gave up with ctx.Err()
)

type caRun struct {
	n        int
	fail     []bool
	sentinel []error
	perm     []int
	gate     []chan struct{}
	returned []chan struct{}
	abort    chan struct{}
	ctrlDone chan struct{}
	abortOne sync.Once

	mu       sync.Mutex
	slotOf   map[string]int // name|args -> slot
	entered  []int
	gateOpen []bool
	sawDone  []bool // the body found its context done (while waiting or when it returned)
	retOrder []int
	events   []string
	extra    int  // executions that match no call, or a second execution of a call
	window   bool // a failing call returned while a lower-indexed call had not returned yet
	awaiting int
}

func newCARun(c *caCase, failMask int, perm []int) *caRun {
	n := len(c.Calls)
	r := &caRun{n: n, fail: make([]bool, n), sentinel: make([]error, n), perm: perm,
		gate: make([]chan struct{}, n), returned: make([]chan struct{}, n),
		abort: make(chan struct{}), ctrlDone: make(chan struct{}),
		slotOf: map[string]int{}, entered: make([]int, n), gateOpen: make([]bool, n), sawDone: make([]bool, n), awaiting: -1}
	for i, cs := range c.Calls {
		r.gate[i] = make(chan struct{})
		r.returned[i] = make(chan struct{})
		r.slotOf[cs.Name+"|"+cs.Args] = i
		if failMask&(1<<i) != 0 {
			r.fail[i] = true
			r.sentinel[i] = errors.New("ctx-aware workload: own error of the tool serving call #" + fmt.Sprint(i) + " (" + cs.ID + ")")
		}
	}
	return r
}

func (r *caRun) failing() []int {
	var out []int
	for i, f := range r.fail {
		if f {
			out = append(out, i)
		}
	}
	return out
}

func (r *caRun) enter(name, args string) int {
	r.mu.Lock()
	defer r.mu.Unlock()
	s, ok := r.slotOf[name+"|"+args]
	if !ok || r.entered[s] > 0 {
		r.extra++
		r.events = append(r.events, "extra-execution "+name)
		return -1
	}
	r.entered[s]++
	r.events = append(r.events, fmt.Sprintf("enter %d", s))
	return s
}

func (r *caRun) leave(s int, how string, sawDone bool) {
	r.mu.Lock()
	if sawDone {
		r.sawDone[s] = true
	}
	if r.fail[s] && how == caRetOwnError {
		done := map[int]bool{}
		for _, x := range r.retOrder {
			done[x] = true
		}
		for j := 0; j < s; j++ {
			if !done[j] {
				r.window = true
			}
		}
	}
	r.retOrder = append(r.retOrder, s)
	ev := fmt.Sprintf("return %d %s", s, how)
	if sawDone {
		ev += " ctx-done"
	}
	r.events = append(r.events, ev)
	r.mu.Unlock()
	close(r.returned[s])
}

func (r *caRun) open(s int) {
	r.mu.Lock()
	was := r.gateOpen[s]
	r.gateOpen[s] = true
	r.mu.Unlock()
	if !was {
		close(r.gate[s])
	}
}

func (r *caRun) abortNow() { r.abortOne.Do(func() { close(r.abort) }) }

// controller opens the gates in the forced order; the next gate is opened only
// after the body released before it has been observed to return. It always ends by
// opening every gate, so no body stays parked on something the harness owns.
func (r *caRun) controller() {
	defer close(r.ctrlDone)
	defer func() {
		for s := 0; s < r.n; s++ {
			r.open(s)
		}
	}()
	for _, s := range r.perm {
		select {
		case <-r.abort:
			return
		default:
		}
		r.open(s)
		r.mu.Lock()
		r.awaiting = s
		r.mu.Unlock()
		select {
		case <-r.returned[s]:
		case <-r.abort:
			return
		}
		// let the task do its bookkeeping after the body returned before the next body is released
		runtime.Gosched()
		runtime.Gosched()
	}
}

func (r *caRun) waitingFor() string {
	r.mu.Lock()
	defer r.mu.Unlock()
	if r.awaiting < 0 {
		return "no gate is awaited by the controller"
	}
	if r.entered[r.awaiting] == 0 {
		return fmt.Sprintf("the gate of call %d is open but its tool body was never entered", r.awaiting)
	}
	return fmt.Sprintf("the tool body of call %d was released but has not returned", r.awaiting)
}

// ---- the tools ----

// caServe is the body shared by every tool form and the unknown-tool handler:
// claim the call, wait (gate / context), fail with the call's sentinel if planned.
// A nil error means: answer.
func caServe(ctx context.Context, name, args, ctxKind string) error {
	r, _ := ctx.Value(caKey{}).(*caRun)
	if r == nil {
		lostCtx.Add(1)
		return nil
	}
	s := r.enter(name, args)
	if s < 0 {
		return nil
	}
	if ctxKind == "select" {
		select {
		case <-r.gate[s]:
		case <-ctx.Done():
			r.leave(s, caRetCancelled, true)
			return ctx.Err()
		}
	} else {
		<-r.gate[s]
	}
	done := ctx.Err() != nil
	if done && ctxKind == "check" {
		r.leave(s, caRetCancelled, true)
		return ctx.Err()
	}
	if r.fail[s] {
		r.leave(s, caRetOwnError, done)
		return r.sentinel[s]
	}
	r.leave(s, caRetOK, done)
	return nil
}

type caBase struct{ sp caTool }

func (b *caBase) Info(ctx context.Context) (*schema.ToolInfo, error) {
	return &schema.ToolInfo{Name: b.sp.Name, Desc: "context-aware " + b.sp.Kind + "/" + b.sp.Ctx}, nil
}

func (b *caBase) invoke(ctx context.Context, args string) (string, error) {
	if err := caServe(ctx, b.sp.Name, args, b.sp.Ctx); err != nil {
		return "", err
	}
	return strings.Join(caChunks(&b.sp, args), ""), nil
}

func (b *caBase) stream(ctx context.Context, args string) (*schema.StreamReader[string], error) {
	if err := caServe(ctx, b.sp.Name, args, b.sp.Ctx); err != nil {
		return nil, err
	}
	return schema.StreamReaderFromArray(caChunks(&b.sp, args)), nil
}

type caInv struct{ caBase }

func (t *caInv) InvokableRun(ctx context.Context, a string, _ ...tool.Option) (string, error) {
	return t.invoke(ctx, a)
}

type caStr struct{ caBase }

func (t *caStr) StreamableRun(ctx context.Context, a string, _ ...tool.Option) (*schema.StreamReader[string], error) {
	return t.stream(ctx, a)
}

type caBoth struct{ caBase }

func (t *caBoth) InvokableRun(ctx context.Context, a string, _ ...tool.Option) (string, error) {
	return t.invoke(ctx, a)
}
func (t *caBoth) StreamableRun(ctx context.Context, a string, _ ...tool.Option) (*schema.StreamReader[string], error) {
	return t.stream(ctx, a)
}

func caUnknownHandler(ctx context.Context, name, input string) (string, error) {
	if err := caServe(ctx, name, input, "select"); err != nil {
		return "", err
	}
	return caUnknownAnswer(name, input), nil
}

type caEnv struct {
	c       *caCase
	tn      *compose.ToolsNode
	gPlain  compose.Runnable[*schema.Message, msgList]
	gConcat compose.Runnable[*schema.Message, msgList]
}

func buildCAEnv(c *caCase) (*caEnv, error) {
	ctx := context.Background()
	e := &caEnv{c: c}
	var tools []tool.BaseTool
	for _, sp := range c.Tools {
		b := caBase{sp: sp}
		switch sp.Kind {
		case "inv":
			tools = append(tools, &caInv{b})
		case "str":
			tools = append(tools, &caStr{b})
		default:
			tools = append(tools, &caBoth{b})
		}
	}
	conf := &compose.ToolsNodeConfig{Tools: tools}
	if c.HasUnknown {
		conf.UnknownToolsHandler = caUnknownHandler
	}
	var err error
	if e.tn, err = compose.NewToolNode(ctx, conf); err != nil {
		return nil, err
	}
	if e.gPlain, err = compilePlain(ctx, e.tn, c.Chain); err != nil {
		return nil, err
	}
	if e.gConcat, err = compileConcat(ctx, e.tn); err != nil {
		return nil, err
	}
	return e, nil
}

func (e *caEnv) message() *schema.Message {
	tcs := make([]schema.ToolCall, len(e.c.Calls))
	for i, cs := range e.c.Calls {
		tcs[i] = schema.ToolCall{ID: cs.ID, Type: "function", Function: schema.FunctionCall{Name: cs.Name, Arguments: cs.Args}}
	}
	return schema.AssistantMessage("", tcs)
}

// ---- running and judging one (mode, failing subset, completion order) ----

type caWitness struct {
	Case          *caCase  `json:"case"`
	Mode          string   `json:"mode"`
	Failing       []int    `json:"failing_calls"`
	ForcedOrder   []int    `json:"forced_completion_order"`
	CallerContext string   `json:"caller_context"`
	Events        []string `json:"events"`
}

func (k *checker) caRunOnce(e *caEnv, mode, failMask int, perm []int, cancellable bool) {
	c, rep := e.c, k.rep
	m := modeNames[mode]
	n := len(c.Calls)
	rs := newCARun(c, failMask, perm)
	o := &outcome{}
	// the caller's context is never cancelled while the call runs: either it cannot be
	// cancelled at all, or its cancel function is called after everything has ended
	parent, ctxName := context.Background(), "background"
	var cancel context.CancelFunc
	if cancellable {
		parent, cancel = context.WithCancel(parent)
		ctxName = "WithCancel, cancelled only after the run ended"
	}
	ctx := context.WithValue(parent, caKey{}, rs)
	msg := e.message()
	done := make(chan struct{})
	go rs.controller()
	go func() {
		defer close(done)
		o.Panic = mon.Safe(func() {
			switch mode {
			case mDirectInvoke:
				o.Msgs, o.Err = e.tn.Invoke(ctx, msg)
			case mGraphInvoke:
				o.Msgs, o.Err = e.gPlain.Invoke(ctx, msg)
			default:
				var sr *schema.StreamReader[msgList]
				switch mode {
				case mDirectStream:
					sr, o.Err = e.tn.Stream(ctx, msg)
				case mGraphStream:
					sr, o.Err = e.gPlain.Stream(ctx, msg)
				default:
					sr, o.Err = e.gConcat.Stream(ctx, msg)
				}
				if o.Err == nil {
					if sr == nil {
						o.Shape = append(o.Shape, "nil-stream")
						return
					}
					consume(sr, n, o)
				}
			}
		})
	}()
	rep.AddEvaluations(1)

	witness := func() caWitness {
		rs.mu.Lock()
		defer rs.mu.Unlock()
		return caWitness{Case: c, Mode: m, Failing: rs.failing(), ForcedOrder: perm, CallerContext: ctxName, Events: append([]string(nil), rs.events...)}
	}
	finish := func() {
		// the call is over: every body has returned, the controller runs through
		if r, _ := await(rs.ctrlDone); r != mon.Finished {
			rep.Count("ctx_controller_had_to_be_aborted", 1)
			rs.abortNow()
			if r2, _ := await(rs.ctrlDone); r2 != mon.Finished {
				rep.Inconclusive("ctx-aware tools: gate controller did not end")
				k.dead = true
			}
		}
		if cancel != nil {
			cancel()
		}
	}

	res, _ := await(done)
	switch res {
	case mon.Inconclusive:
		rep.Inconclusive("ctx-aware tools: watchdog fired in " + m + "; shard stopped")
		rs.abortNow()
		k.dead = true
		return
	case mon.Stuck:
		// nothing can move: the forced order cannot be honoured (or the run is stuck on its
		// own). Give the order up: every gate is opened; the outcome is judged as usual.
		why := rs.waitingFor()
		rs.abortNow()
		r2, dump2 := await(done)
		if r2 != mon.Finished {
			if r2 == mon.Stuck {
				rep.Violation("C17/ctx/hang/"+m, "context-aware tools: process quiescent while the tools node call is unfinished, with every gate open ("+why+")\n"+dumpText(dump2), witness())
			} else {
				rep.Inconclusive("ctx-aware tools: watchdog fired in " + m)
			}
			k.dead = true
			return
		}
		rep.Count("ctx_schedules_abandoned_after_quiescence", 1)
	}
	finish()
	if k.dead {
		return
	}

	// ---- oracle ----
	seen := map[string]bool{}
	bad := func(sig, detail string) {
		if !seen[sig] {
			seen[sig] = true
			rep.Violation(sig, detail, witness())
		}
	}
	rs.mu.Lock()
	sawDone := append([]bool(nil), rs.sawDone...)
	retOrder := append([]int(nil), rs.retOrder...)
	window, extra := rs.window, rs.extra
	rs.mu.Unlock()
	failing := rs.failing()

	rep.Count("ctx_runs", 1)
	rep.Count("ctx_runs_"+m, 1)
	rep.Count("ctx_tool_bodies_returned", int64(len(retOrder)))
	rep.Count("ctx_executions_matching_no_call", int64(extra))
	rep.Distinct("ctx_forced_orders", fmt.Sprint(n, perm))
	if fmt.Sprint(retOrder) == fmt.Sprint(perm) {
		rep.Count("ctx_runs_bodies_returned_in_the_forced_order", 1)
	} else {
		rep.Count("ctx_runs_bodies_returned_in_another_order", 1)
	}
	if window {
		rep.Count("ctx_runs_failing_call_returned_while_a_lower_call_was_still_gated", 1)
	}

	// (3) the caller never cancels: no tool may find its context done
	for s, d := range sawDone {
		if d {
			kind := "unknown-tool-handler"
			if t := c.Calls[s].Tool; t >= 0 {
				kind = c.Tools[t].Ctx
			}
			bad("C17/ctx/tool-saw-cancellation-not-requested-by-caller/"+m, fmt.Sprintf(
				"the caller's context (%s) was not cancelled, yet the tool body serving call %d (%s) found its context done; failing calls %v, forced completion order %v",
				ctxName, s, kind, failing, perm))
			break
		}
	}

	if o.Panic != nil {
		bad("C17/ctx/panic-escaped/"+m+"/"+panicSite(o.Panic), "no tool panicked, yet the call panicked: "+o.Panic.Value+"\n"+o.Panic.Stack)
		return
	}
	err := o.anyErr()
	if len(failing) > 0 {
		// (1) fails iff the failing subset is non-empty, (2) with the error of a tool that failed
		rep.Count("ctx_runs_tool_error_checked", 1)
		rep.Distinct("ctx_failing_subsets", fmt.Sprint(n, failMask))
		if err == nil {
			bad("C17/ctx/failure-swallowed/"+m, fmt.Sprintf("tools for calls %v failed, the call succeeded with %d messages", failing, len(o.Msgs)))
			return
		}
		for _, i := range failing {
			if errors.Is(err, rs.sentinel[i]) {
				rep.Count("ctx_runs_call_failed_with_a_failing_tools_own_error", 1)
				return
			}
		}
		if errors.Is(err, context.Canceled) || errors.Is(err, context.DeadlineExceeded) {
			bad("C17/ctx/tool-error-replaced-by-cancellation/"+m, fmt.Sprintf(
				"calls %v failed, each with its own error; the caller's context was never cancelled, yet the call failed with a context cancellation error instead of the error of a tool that failed (errors.Is matches none of them): %s",
				failing, firstLine(err.Error())))
			return
		}
		bad("C17/ctx/not-the-failing-tools-error/"+m, fmt.Sprintf(
			"calls %v failed, each with its own sentinel error; the call failed with an error that is none of them (errors.Is): %T %s", failing, err, firstLine(err.Error())))
		return
	}

	// (4) nobody fails: N answers in call order
	if err != nil {
		if errors.Is(err, context.Canceled) || errors.Is(err, context.DeadlineExceeded) {
			bad("C17/ctx/cancellation-without-failure/"+m, "no tool failed and the caller's context was never cancelled, yet the call failed with a context cancellation error: "+firstLine(err.Error()))
			return
		}
		bad("C17/ctx/unexpected-error/"+m, "every tool succeeded, yet the call failed: "+firstLine(err.Error()))
		return
	}
	for _, s := range o.Shape {
		bad("C17/ctx/stream-shape/"+m+"/"+s, "streamed lists are not position-wise concatenable: "+s)
	}
	if len(o.Msgs) != n {
		bad("C17/ctx/wrong-count/"+m, fmt.Sprintf("%d tool calls, %d tool messages", n, len(o.Msgs)))
		return
	}
	ok := len(o.Shape) == 0
	for i, cs := range c.Calls {
		g := o.Msgs[i]
		switch {
		case g == nil:
			bad("C17/ctx/missing-answer/"+m, fmt.Sprintf("no message for call %d", i))
		case g.Role != schema.Tool:
			bad("C17/ctx/wrong-role/"+m, fmt.Sprintf("message %d has role %q", i, g.Role))
		case g.ToolCallID != cs.ID:
			bad("C17/ctx/wrong-id/"+m, fmt.Sprintf("message %d carries id %q, call %d has id %q", i, g.ToolCallID, i, cs.ID))
		case g.Content != c.wantContent(i):
			bad("C17/ctx/wrong-output/"+m, fmt.Sprintf("message %d: got %q, tool %s on these arguments gives %q", i, g.Content, cs.Name, c.wantContent(i)))
		default:
			continue
		}
		ok = false
	}
	if ok {
		rep.Count("ctx_runs_all_tools_ok_answers_in_call_order", 1)
		rep.Count("ctx_answers_compared", int64(n))
	}
}

// failFirstPerm: a completion order in which failing call k (k >= 1 when there is
// one) returns first, i.e. while every lower-indexed call is still gated.
func failFirstPerm(r *mon.Rand, n int, failing []int) []int {
	perm := r.Perm(n)
	var cand []int
	for _, f := range failing {
		if f > 0 {
			cand = append(cand, f)
		}
	}
	if len(cand) == 0 {
		return perm
	}
	k := mon.PickOne(r, cand)
	out := []int{k}
	for _, s := range perm {
		if s != k {
			out = append(out, s)
		}
	}
	return out
}

// runCtxAware generates one case of the sub-workload from rng and runs it: every
// non-empty failing subset (N <= 3; 6 random subsets above), each through one invoke
// form and one stream form (direct / graph in rotation), under a random completion
// order or one that lets a failing call return first; plus runs without failures.
func (k *checker) runCtxAware(rng *mon.Rand, sample bool) {
	if k.dead {
		return
	}
	rep := k.rep
	c := genCACase(rng.Sub("case"))
	e, err := buildCAEnv(c)
	if err != nil {
		rep.Violation("C17/construction-failed/ctx-aware", "a generated context-aware tool set / tools node / graph was rejected: "+err.Error(), c)
		return
	}
	rep.Count("ctx_cases", 1)
	rep.Distinct("ctx_aware_cases", c.digest())
	if sample {
		rep.Sample(c)
	}
	n := len(c.Calls)
	r := rng.Sub("runs")
	invModes := []int{mDirectInvoke, mGraphInvoke}
	strModes := []int{mDirectStream, mGraphStream, mGraphStreamConcat}
	var subsets []int
	if n <= 3 {
		for s := 1; s < 1<<n; s++ {
			subsets = append(subsets, s)
		}
	} else {
		for i := 0; i < 6; i++ {
			subsets = append(subsets, 1+r.Intn(1<<n-1))
		}
	}
	im, sm := r.Intn(2), r.Intn(3)
	for si, sub := range subsets {
		var failing []int
		for i := 0; i < n; i++ {
			if sub&(1<<i) != 0 {
				failing = append(failing, i)
			}
		}
		for _, mode := range []int{invModes[(im+si)%2], strModes[(sm+si)%3]} {
			if k.dead {
				return
			}
			var perm []int
			if r.Prob(0.5) {
				perm = failFirstPerm(r, n, failing)
			} else {
				perm = r.Perm(n)
			}
			k.caRunOnce(e, mode, sub, perm, r.Bool())
		}
	}
	// nobody fails: answers in call order whatever the completion order
	for i, mode := range []int{invModes[im], strModes[sm], invModes[1-im], strModes[(sm+1)%3]} {
		if k.dead || (i >= 2 && n < 2) {
			return
		}
		k.caRunOnce(e, mode, 0, r.Perm(n), r.Bool())
	}
}
