package c17

// Generation of cases (tool sets + call lists) and the reference model.

import (
	"encoding/json"
	"fmt"
	"strconv"
	"strings"

	"verifharness/internal/mon"
)

type callSpec struct {
	Name    string `json:"name"`
	ID      string `json:"id"`
	Args    string `json:"args"`
	Key     string `json:"key"`  // what the serving body computes from what it receives
	Tool    int    `json:"tool"` // index into Tools, -1: unknown name
	BadArgs bool   `json:"bad_args,omitempty"`
}

type caseSpec struct {
	Tools       []toolSpec `json:"tools"`
	Calls       []callSpec `json:"calls"`
	HasUnknown  bool       `json:"has_unknown"`
	UseToolList bool       `json:"use_tool_list"` // node configured with decoys, real tools passed with WithToolList
	OptTag      string     `json:"opt_tag"`       // "" = no WithToolOption
	UseChain    bool       `json:"use_chain"`
	Callbacks   bool       `json:"callbacks"` // a callback handler is installed (graph option / InitCallbacks): tool output streams get copied
	BadArgs     bool       `json:"bad_args"`
	// empty-output sub-workload (empty_output_test.go): unknown names are answered with "" by the handler
	QuietUnknown bool `json:"quiet_unknown,omitempty"`
}

func (c *caseSpec) digest() string {
	b, _ := json.Marshal(c)
	return string(b)
}

var builds = map[string][]string{
	"inv":  {"hand", "hand", "new", "infer", "inferopt", "custom"},
	"str":  {"hand", "hand", "new", "infer", "inferopt", "custom"},
	"both": {"hand"},
}

func genN(r *mon.Rand) int {
	switch x := r.Intn(100); {
	case x < 7:
		return 1
	case x < 24:
		return 2
	case x < 50:
		return 3
	case x < 78:
		return 4
	case x < 96:
		return r.Range(5, 8)
	default:
		return r.Range(9, 14)
	}
}

func genCase(r *mon.Rand) *caseSpec { return genCaseQ(r, nil) }

// genCaseQ: q != nil turns some (or all) of the tools into tools whose total
// output is empty (empty_output_test.go); the draws from r are the same either way.
func genCaseQ(r *mon.Rand, q *quietGen) *caseSpec {
	c := &caseSpec{}
	nt := r.Range(1, 5)
	for i := 0; i < nt; i++ {
		kind := mon.PickOne(r, []string{"inv", "inv", "str", "str", "both"})
		sp := toolSpec{
			Name:   fmt.Sprintf("t%d_%s", i, r.Str(1, 4)),
			Kind:   kind,
			Build:  mon.PickOne(r, builds[kind]),
			Salt:   r.Str(3, 6),
			Chunks: 1,
			Cap:    -1,
		}
		if kind != "inv" {
			sp.Chunks = r.Range(1, 4)
			sp.Cap = r.Range(-1, 3)
		}
		if q != nil {
			q.tool(&sp)
		}
		c.Tools = append(c.Tools, sp)
	}
	ghost := "ghost_"
	if q != nil && q.quietUnknown() {
		c.QuietUnknown = true
		ghost = quietGhost
	}
	n := genN(r)
	c.HasUnknown = r.Prob(0.3)
	c.UseToolList = r.Prob(0.25)
	c.UseChain = r.Prob(0.3)
	c.Callbacks = r.Prob(0.3)
	if r.Prob(0.5) {
		c.OptTag = r.Str(1, 3)
	}
	// a pool of ids with duplicates and empties
	idPool := []string{"", "c0", "c1", "c1"}
	unknownPlaced := false
	for i := 0; i < n; i++ {
		var cs callSpec
		if c.HasUnknown && (r.Prob(0.3) || (i == n-1 && !unknownPlaced)) {
			unknownPlaced = true
			cs.Tool = -1
			cs.Name = ghost + r.Str(1, 3)
			cs.Args = genHandArgs(r, i)
			cs.Key = rawKey(cs.Name, cs.Args)
		} else {
			cs.Tool = r.Intn(nt)
			sp := &c.Tools[cs.Tool]
			cs.Name = sp.Name
			if i > 0 && r.Prob(0.12) && c.Calls[i-1].Tool == cs.Tool {
				// the very same call twice
				cs.Args, cs.Key = c.Calls[i-1].Args, c.Calls[i-1].Key
			} else if sp.typed() {
				a, k := r.Str(0, 5), r.Range(0, 50)*10+i
				switch {
				case sp.Build == "custom":
					cs.Args = a + ":" + strconv.Itoa(k)
				case r.Bool():
					cs.Args = fmt.Sprintf(`{"a":"%s","n":%d}`, a, k)
				default:
					cs.Args = fmt.Sprintf(`{ "n": %d, "a": "%s" }`, k, a)
				}
				cs.Key = typedKey(sp.Name, a, k)
			} else {
				cs.Args = genHandArgs(r, i)
				cs.Key = rawKey(sp.Name, cs.Args)
			}
		}
		switch x := r.Intn(10); {
		case x < 3:
			cs.ID = mon.PickOne(r, idPool)
		default:
			cs.ID = fmt.Sprintf("call_%d_%s", i, r.Str(2, 4))
		}
		c.Calls = append(c.Calls, cs)
	}
	// rarely: one call to a typed tool carries arguments that do not parse
	if r.Prob(0.06) {
		var cand []int
		for i, cs := range c.Calls {
			if cs.Tool >= 0 && c.Tools[cs.Tool].typed() {
				cand = append(cand, i)
			}
		}
		if len(cand) > 0 {
			i := mon.PickOne(r, cand)
			c.Calls[i].BadArgs = true
			c.Calls[i].Args = mon.PickOne(r, []string{`{"a":`, `not json`, `{"n":"x"}`, ``})
			if c.Tools[c.Calls[i].Tool].Build == "custom" {
				c.Calls[i].Args = mon.PickOne(r, []string{"nocolon", "a:b", ""})
			}
			c.BadArgs = true
		}
	}
	return c
}

func genHandArgs(r *mon.Rand, i int) string {
	switch r.Intn(5) {
	case 0:
		return ""
	case 1:
		return r.Str(1, 6)
	default:
		return fmt.Sprintf(`{"a":"%s","n":%d}`, r.Str(0, 4), r.Range(0, 99)*10+i)
	}
}

// ---- reference model: map the tool functions over the call list ----

type want struct {
	ID      string
	Content string
	Class   string
}

func reference(c *caseSpec) []want {
	ws := make([]want, len(c.Calls))
	for i, cs := range c.Calls {
		w := want{ID: cs.ID}
		if cs.Tool < 0 {
			w.Content = unknownAnswer(cs.Name, cs.Args)
			w.Class = "unknown-handler"
		} else {
			sp := &c.Tools[cs.Tool]
			w.Class = sp.class()
			w.Content = refContent(sp, &cs, c.OptTag)
		}
		ws[i] = w
	}
	return ws
}

func refContent(sp *toolSpec, cs *callSpec, tag string) string {
	var sb strings.Builder
	if sp.quietFor(cs.Key) != "" {
		// the tool's output for this call is empty: an output like any other
		return ""
	}
	if !sp.typed() {
		for _, o := range sp.outputs(cs.Key, tag, len(cs.Key)) {
			sb.WriteString(handRender(o))
		}
		return sb.String()
	}
	// typed tools: the harness knows (a, n) because it wrote the arguments
	parts := strings.Split(cs.Key, "|")
	n, _ := strconv.Atoi(parts[len(parts)-1])
	for _, o := range sp.outputs(cs.Key, tag, n) {
		if sp.Build == "custom" {
			sb.WriteString(customRender(o))
		} else {
			// what a JSON encoder produces for Out (alphanumeric strings only)
			sb.WriteString(`{"r":"` + o.R + `","k":` + strconv.Itoa(o.K) + `}`)
		}
	}
	return sb.String()
}

// ---- permutations, subsets, schedules ----

func allPerms(n int) [][]int {
	var out [][]int
	p := make([]int, n)
	for i := range p {
		p[i] = i
	}
	var rec func(k int)
	rec = func(k int) {
		if k == n {
			out = append(out, append([]int(nil), p...))
			return
		}
		for i := k; i < n; i++ {
			p[k], p[i] = p[i], p[k]
			rec(k + 1)
			p[k], p[i] = p[i], p[k]
		}
	}
	rec(0)
	return out
}

// schedule builds the event list for a completion permutation.
// streamMode: every body must have returned before any chunk can be consumed
// (the tools node merges the readers only after all tasks are done), so all
// releases come first. Otherwise (invoke) a streaming tool is drained inside its
// task: serial = task after task (completion order == perm), or interleaved.
func schedule(c *caseSpec, perm []int, streamMode, serial bool, r *mon.Rand) []event {
	chunks := func(s int) int {
		if t := c.Calls[s].Tool; t >= 0 {
			if c.Tools[t].quietFor(c.Calls[s].Key) == "nochunk" {
				return 0
			}
			return c.Tools[t].Chunks
		}
		return 0
	}
	var evs []event
	if perm == nil {
		return nil
	}
	if streamMode {
		for _, s := range perm {
			evs = append(evs, event{s, evRelease})
		}
		left := make([]int, len(perm))
		total := 0
		for s := range left {
			left[s] = chunks(s)
			total += left[s]
		}
		for total > 0 {
			s := r.Intn(len(left))
			for left[s] == 0 {
				s = (s + 1) % len(left)
			}
			evs = append(evs, event{s, evChunk})
			left[s]--
			total--
		}
		return evs
	}
	if serial {
		for _, s := range perm {
			evs = append(evs, event{s, evRelease})
			for j := 0; j < chunks(s); j++ {
				evs = append(evs, event{s, evChunk})
			}
		}
		return evs
	}
	// interleaved: releases in perm order, the chunk events of a slot anywhere after its release
	next := 0
	open := []int{}
	left := map[int]int{}
	for next < len(perm) || len(open) > 0 {
		if next < len(perm) && (len(open) == 0 || r.Bool()) {
			s := perm[next]
			next++
			evs = append(evs, event{s, evRelease})
			if chunks(s) > 0 {
				open = append(open, s)
				left[s] = chunks(s)
			}
			continue
		}
		i := r.Intn(len(open))
		s := open[i]
		evs = append(evs, event{s, evChunk})
		left[s]--
		if left[s] == 0 {
			open = append(open[:i], open[i+1:]...)
		}
	}
	return evs
}
