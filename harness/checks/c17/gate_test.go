package c17

// Gate controller: every tool body parks on its own gate; a controller
// goroutine opens the gates (and hands out the tokens for streamed chunks) in
// an order decided up front. The controller never runs on the goroutine that
// calls the tools node, so the task that eino runs inline on the caller
// goroutine (tasks[0]) is gated exactly like the others.

import (
	"fmt"
	"runtime"
	"sync"
	"sync/atomic"

	"github.com/cloudwego/eino/schema"
)

type ctxKey struct{}

type action int

const (
	actOK      action = iota
	actFail           // the tool returns its error
	actFailMid        // a streaming tool fails after part of its chunks (falls back to actFail on the invokable path)
	actPanic          // the tool body panics on the task goroutine
)

func (a action) String() string {
	return [...]string{"ok", "fail", "failmid", "panic"}[a]
}

var lostCtx atomic.Int64 // bodies that ran without the run state in their context

type evKind int

const (
	evRelease evKind = iota
	evChunk
)

type event struct {
	Slot int
	Kind evKind
}

type producer struct {
	tok  chan struct{}
	ack  chan struct{}
	done chan struct{}
}

type runState struct {
	n        int
	plan     []action
	schedule []event
	bigCap   bool // pipes never block (used when readers may be abandoned: failures, panics)

	gate     []chan struct{}
	returned []chan struct{}
	abort    chan struct{} // closed by the runner: stop scheduling, open everything
	free     chan struct{} // closed by the controller when it ends: producers run freely
	ctrlDone chan struct{}
	abortOne sync.Once

	mu          sync.Mutex
	unclaimed   map[string][]int
	gateOpen    []bool
	execs       []int
	prods       []*producer
	extra       []string // executions that matched no call of the list
	viaStream   int
	viaInvoke   int
	decoyCalls  int
	ctxIDWrong  int
	relOrder    []int // slots in the order their body returned
	awaiting    int   // slot whose return the controller is waiting for (-1: none)
	wantCallIDs []string
}

func newRun(keys []string, ids []string, noBody []bool, plan []action, schedule []event, bigCap bool) *runState {
	n := len(keys)
	r := &runState{n: n, plan: plan, schedule: schedule, bigCap: bigCap,
		gate: make([]chan struct{}, n), returned: make([]chan struct{}, n),
		abort: make(chan struct{}), free: make(chan struct{}), ctrlDone: make(chan struct{}),
		unclaimed: map[string][]int{}, gateOpen: make([]bool, n), execs: make([]int, n),
		prods: make([]*producer, n), wantCallIDs: ids, awaiting: -1}
	for i := 0; i < n; i++ {
		r.gate[i] = make(chan struct{})
		r.returned[i] = make(chan struct{})
		if noBody[i] {
			close(r.returned[i]) // nothing will ever serve this call (its arguments do not parse)
			continue
		}
		r.unclaimed[keys[i]] = append(r.unclaimed[keys[i]], i)
	}
	return r
}

// claim returns the slot served by an execution with this key (calls with an
// identical key are interchangeable), or -1.
func (r *runState) claim(key string, viaStream, decoy bool, ctxCallID string) int {
	r.mu.Lock()
	defer r.mu.Unlock()
	if viaStream {
		r.viaStream++
	} else {
		r.viaInvoke++
	}
	if decoy {
		r.decoyCalls++
	}
	l := r.unclaimed[key]
	if len(l) == 0 {
		// a body was invoked with (name, arguments) that match no call of the list
		// (or a call was executed twice): the schedule cannot be honoured any
		// more; give it up and let the answer oracle judge the result
		r.extra = append(r.extra, key)
		r.abortNow()
		return -1
	}
	slot := l[0]
	// prefer the slot whose call id matches the id eino put into the context
	for _, s := range l {
		if r.wantCallIDs[s] == ctxCallID {
			slot = s
			break
		}
	}
	rest := l[:0:0]
	for _, s := range l {
		if s != slot {
			rest = append(rest, s)
		}
	}
	r.unclaimed[key] = rest
	r.execs[slot]++
	if r.wantCallIDs[slot] != ctxCallID {
		r.ctxIDWrong++
	}
	return slot
}

func (r *runState) end(slot int) {
	r.mu.Lock()
	r.relOrder = append(r.relOrder, slot)
	r.mu.Unlock()
	close(r.returned[slot])
}

func (r *runState) openGate(s int) {
	r.mu.Lock()
	open := r.gateOpen[s]
	r.gateOpen[s] = true
	r.mu.Unlock()
	if !open {
		close(r.gate[s])
	}
}

// waitingFor describes, for a hang report, what the schedule is blocked on.
func (r *runState) waitingFor() string {
	r.mu.Lock()
	defer r.mu.Unlock()
	s := r.awaiting
	if s < 0 {
		return "no gate is awaited by the controller"
	}
	if r.execs[s] == 0 {
		return fmt.Sprintf("the gate of call %d is open but its tool body was never entered although the other calls' bodies are parked (calls not executed concurrently, or the task of call %d died before reaching its tool)", s, s)
	}
	return fmt.Sprintf("the tool body of call %d was released but has not returned", s)
}

// enteredLater: the body the controller was waiting for has been entered by now.
func (r *runState) enteredLater() bool {
	r.mu.Lock()
	defer r.mu.Unlock()
	return r.awaiting >= 0 && r.execs[r.awaiting] > 0
}

func (r *runState) abortNow() { r.abortOne.Do(func() { close(r.abort) }) }

func (r *runState) aborted() bool {
	select {
	case <-r.abort:
		return true
	default:
		return false
	}
}

// controller walks the schedule. It always ends by opening every gate and
// freeing every producer, so nothing the harness owns stays parked.
func (r *runState) controller() {
	defer close(r.ctrlDone)
	defer func() {
		for s := 0; s < r.n; s++ {
			r.openGate(s)
		}
		close(r.free)
	}()
	chunkNo := make([]int, r.n)
	for _, ev := range r.schedule {
		if r.aborted() {
			return
		}
		s := ev.Slot
		switch ev.Kind {
		case evRelease:
			r.openGate(s)
			r.mu.Lock()
			r.awaiting = s
			r.mu.Unlock()
			select {
			case <-r.returned[s]:
			case <-r.abort:
				return
			}
			// let the task do its bookkeeping after the body returned before the next body is released
			runtime.Gosched()
			runtime.Gosched()
		case evChunk:
			chunkNo[s]++
			r.mu.Lock()
			p := r.prods[s]
			r.mu.Unlock()
			if p == nil {
				continue // served by the invokable path / array reader: nothing to pace
			}
			select {
			case p.tok <- struct{}{}:
				select {
				case <-p.ack:
				case <-p.done:
				case <-r.abort:
					return
				}
			case <-p.done:
			case <-r.abort:
				return
			}
		}
	}
}

// emit turns the chunks of a streaming tool into a reader. With a Pipe the
// chunks are sent by a producer goroutine paced by the controller.
func emit[D any](r *runState, slot int, act action, items []D, capSpec int, ferr error) *schema.StreamReader[D] {
	if r == nil || slot < 0 {
		return schema.StreamReaderFromArray(items)
	}
	if capSpec < 0 && act == actOK {
		return schema.StreamReaderFromArray(items)
	}
	c := capSpec
	if c < 0 {
		c = 0
	}
	if r.bigCap {
		c = len(items) + 2
	}
	sr, sw := schema.Pipe[D](c)
	p := &producer{tok: make(chan struct{}), ack: make(chan struct{}), done: make(chan struct{})}
	r.mu.Lock()
	r.prods[slot] = p
	r.mu.Unlock()
	failAt := -1
	if act == actFailMid {
		if len(items) == 0 {
			// a stream that would carry nothing: the failure is all it carries
			var z D
			items = []D{z}
		}
		failAt = len(items) / 2
	}
	go func() {
		defer close(p.done)
		defer sw.Close()
		for j := range items {
			select {
			case <-p.tok:
			case <-r.free:
			}
			var closed bool
			if j == failAt {
				var z D
				sw.Send(z, ferr)
				closed = true
			} else {
				closed = sw.Send(items[j], nil)
			}
			select {
			case p.ack <- struct{}{}:
			case <-r.free:
			}
			if closed {
				return
			}
		}
	}()
	return sr
}
