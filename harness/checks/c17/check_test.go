package c17

import (
	"context"
	"errors"
	"fmt"
	"io"
	"runtime"
	"strings"
	"sync/atomic"
	"testing"
	"time"

	"github.com/cloudwego/eino/callbacks"
	"github.com/cloudwego/eino/components/tool"
	"github.com/cloudwego/eino/compose"
	"github.com/cloudwego/eino/schema"

	"verifharness/internal/mon"
)

const (
	mDirectInvoke = iota
	mDirectStream
	mGraphInvoke
	mGraphStream
	mGraphStreamConcat // tools node streamed inside a graph, eino concatenates before an invokable successor
	nModes
)

var modeNames = [...]string{"direct-invoke", "direct-stream", "graph-invoke", "graph-stream", "graph-stream-concat"}

func streamMode(m int) bool {
	return m == mDirectStream || m == mGraphStream || m == mGraphStreamConcat
}
func graphMode(m int) bool { return m >= mGraphInvoke }

type msgList = []*schema.Message

type env struct {
	c       *caseSpec
	wants   []want
	real    []tool.BaseTool
	tn      *compose.ToolsNode // with unknown-tool handler
	tnNoH   *compose.ToolsNode // without
	gPlain  compose.Runnable[*schema.Message, msgList]
	gConcat compose.Runnable[*schema.Message, msgList]
	gNoH    compose.Runnable[*schema.Message, msgList]
	gNoHCat compose.Runnable[*schema.Message, msgList]
	cb      *cbCounter
}

// cbCounter is a callback handler that only counts and drains: its presence
// makes eino copy the tools' output streams.
type cbCounter struct {
	start, end, errs, streamOut atomic.Int64
}

func (c *cbCounter) handler() callbacks.Handler {
	return callbacks.NewHandlerBuilder().
		OnStartFn(func(ctx context.Context, info *callbacks.RunInfo, in callbacks.CallbackInput) context.Context {
			c.start.Add(1)
			return ctx
		}).
		OnEndFn(func(ctx context.Context, info *callbacks.RunInfo, out callbacks.CallbackOutput) context.Context {
			c.end.Add(1)
			return ctx
		}).
		OnErrorFn(func(ctx context.Context, info *callbacks.RunInfo, err error) context.Context {
			c.errs.Add(1)
			return ctx
		}).
		OnStartWithStreamInputFn(func(ctx context.Context, info *callbacks.RunInfo, in *schema.StreamReader[callbacks.CallbackInput]) context.Context {
			in.Close()
			return ctx
		}).
		OnEndWithStreamOutputFn(func(ctx context.Context, info *callbacks.RunInfo, out *schema.StreamReader[callbacks.CallbackOutput]) context.Context {
			c.streamOut.Add(1)
			go func() {
				defer out.Close()
				for {
					if _, err := out.Recv(); err != nil {
						return
					}
				}
			}()
			return ctx
		}).Build()
}

func buildEnv(c *caseSpec) (*env, error) {
	ctx := context.Background()
	e := &env{c: c, wants: reference(c), cb: &cbCounter{}}
	var decoys []tool.BaseTool
	for _, sp := range c.Tools {
		t, err := buildTool(sp, false)
		if err != nil {
			return nil, fmt.Errorf("build %s: %w", sp.Name, err)
		}
		e.real = append(e.real, t)
		d := sp
		d.Salt = "decoy" + sp.Salt
		dt, err := buildTool(d, true)
		if err != nil {
			return nil, err
		}
		decoys = append(decoys, dt)
	}
	conf := e.real
	if c.UseToolList {
		// configured with same-named tools computing something else (and one fewer)
		conf = decoys
		if len(conf) > 1 {
			conf = conf[:len(conf)-1]
		}
	}
	var err error
	if e.tn, err = compose.NewToolNode(ctx, &compose.ToolsNodeConfig{Tools: conf, UnknownToolsHandler: unknownHandler}); err != nil {
		return nil, err
	}
	if e.tnNoH, err = compose.NewToolNode(ctx, &compose.ToolsNodeConfig{Tools: conf}); err != nil {
		return nil, err
	}
	if e.gPlain, err = compilePlain(ctx, e.tn, c.UseChain); err != nil {
		return nil, err
	}
	if e.gConcat, err = compileConcat(ctx, e.tn); err != nil {
		return nil, err
	}
	if c.HasUnknown {
		if e.gNoH, err = compilePlain(ctx, e.tnNoH, c.UseChain); err != nil {
			return nil, err
		}
		if e.gNoHCat, err = compileConcat(ctx, e.tnNoH); err != nil {
			return nil, err
		}
	}
	return e, nil
}

func compilePlain(ctx context.Context, tn *compose.ToolsNode, chain bool) (compose.Runnable[*schema.Message, msgList], error) {
	if chain {
		return compose.NewChain[*schema.Message, msgList]().AppendToolsNode(tn).Compile(ctx)
	}
	g := compose.NewGraph[*schema.Message, msgList]()
	if err := g.AddToolsNode("tools", tn); err != nil {
		return nil, err
	}
	if err := g.AddEdge(compose.START, "tools"); err != nil {
		return nil, err
	}
	if err := g.AddEdge("tools", compose.END); err != nil {
		return nil, err
	}
	return g.Compile(ctx)
}

// compileConcat: the tools node runs next to a sibling node (so the graph's task
// manager runs it on its own goroutine) and feeds an invokable-only successor:
// when the graph is streamed, eino itself concatenates the tools node's sparse
// lists (schema.concatMessageArray) before calling the successor.
func compileConcat(ctx context.Context, tn *compose.ToolsNode) (compose.Runnable[*schema.Message, msgList], error) {
	g := compose.NewGraph[*schema.Message, msgList]()
	if err := g.AddToolsNode("tools", tn, compose.WithOutputKey("t")); err != nil {
		return nil, err
	}
	side := compose.InvokableLambda(func(ctx context.Context, in *schema.Message) (string, error) { return "side", nil })
	if err := g.AddLambdaNode("side", side, compose.WithOutputKey("s")); err != nil {
		return nil, err
	}
	post := compose.InvokableLambda(func(ctx context.Context, in map[string]any) (msgList, error) {
		l, ok := in["t"].(msgList)
		if !ok {
			return nil, fmt.Errorf("successor received %T under key t", in["t"])
		}
		if s, _ := in["s"].(string); s != "side" {
			return nil, fmt.Errorf("successor received %v under key s", in["s"])
		}
		return l, nil
	})
	if err := g.AddLambdaNode("post", post); err != nil {
		return nil, err
	}
	for _, e := range [][2]string{{compose.START, "tools"}, {compose.START, "side"}, {"tools", "post"}, {"side", "post"}, {"post", compose.END}} {
		if err := g.AddEdge(e[0], e[1]); err != nil {
			return nil, err
		}
	}
	return g.Compile(ctx)
}

func (e *env) message() *schema.Message {
	tcs := make([]schema.ToolCall, len(e.c.Calls))
	for i, cs := range e.c.Calls {
		tcs[i] = schema.ToolCall{ID: cs.ID, Type: "function", Function: schema.FunctionCall{Name: cs.Name, Arguments: cs.Args}}
	}
	return schema.AssistantMessage("", tcs)
}

type outcome struct {
	Panic     *mon.Panic
	Err       error   // returned by Invoke/Stream
	StreamErr error   // received while reading the stream
	Msgs      msgList // result (streams: own position-wise concatenation)
	Shape     []string
	Chunks    int
	Abandoned string // non-empty: the process went quiescent under the schedule; the run only finished ungated
}

func (o *outcome) anyErr() error {
	if o.Err != nil {
		return o.Err
	}
	return o.StreamErr
}

// ownConcat: position-wise concatenation of sparse message lists, written
// independently of schema.concatMessageArray.
func ownConcat(chunks []msgList, n int) (msgList, []string) {
	var issues []string
	add := func(s string) {
		for _, x := range issues {
			if x == s {
				return
			}
		}
		issues = append(issues, s)
	}
	res := make(msgList, n)
	for _, ch := range chunks {
		if len(ch) != n {
			add("chunk-length")
		}
		for i, m := range ch {
			if m == nil || i >= n {
				continue
			}
			if res[i] == nil {
				cp := *m
				res[i] = &cp
				continue
			}
			if m.Role != "" {
				if res[i].Role == "" {
					res[i].Role = m.Role
				} else if res[i].Role != m.Role {
					add("role-conflict")
				}
			}
			if m.ToolCallID != "" {
				if res[i].ToolCallID == "" {
					res[i].ToolCallID = m.ToolCallID
				} else if res[i].ToolCallID != m.ToolCallID {
					add("id-conflict")
				}
			}
			res[i].Content += m.Content
		}
	}
	return res, issues
}

func consume(sr *schema.StreamReader[msgList], n int, o *outcome) {
	defer sr.Close()
	var chunks []msgList
	for {
		ch, err := sr.Recv()
		if err == io.EOF {
			break
		}
		if err != nil {
			o.StreamErr = err
			return
		}
		chunks = append(chunks, ch)
	}
	o.Chunks = len(chunks)
	if len(chunks) == 0 {
		o.Shape = append(o.Shape, "empty-stream")
		return
	}
	o.Msgs, o.Shape = ownConcat(chunks, n)
}

type checker struct {
	t    *testing.T
	rep  *mon.Reporter
	dead bool
}

const watchdog = 10 * time.Minute

// await waits for ch. Fast path: a few scheduler yields, then a plain blocking
// receive bounded by a helper goroutine that only sleeps; after that the
// quiescence monitor (mon.WaitDone, whose goroutine dumps stop the world) decides
// between finished / stuck / inconclusive.
func await(ch <-chan struct{}) (mon.WaitResult, []mon.G) {
	for i := 0; i < 20; i++ {
		select {
		case <-ch:
			return mon.Finished, nil
		default:
			runtime.Gosched()
		}
	}
	// Block on the channel itself; a helper that only sleeps (a sleeping
	// goroutine counts as active for the monitor, so it can never contribute to
	// a "stuck" verdict) bounds the blind wait, after which the quiescence
	// monitor takes over. No timer channel, no deadline decides anything.
	slow := make(chan struct{})
	go func() {
		time.Sleep(4 * time.Millisecond)
		close(slow)
	}()
	select {
	case <-ch:
		return mon.Finished, nil
	case <-slow:
	}
	slowWaits.Add(1)
	return mon.WaitDone(ch, watchdog)
}

var slowWaits atomic.Int64

// run executes one (mode, plan, schedule) against the real code.
func (k *checker) run(e *env, mode int, noHandler bool, rs *runState) *outcome {
	c := e.c
	o := &outcome{}
	ctx := context.WithValue(context.Background(), ctxKey{}, rs)
	if c.Callbacks && !graphMode(mode) {
		ctx = callbacks.InitCallbacks(ctx, &callbacks.RunInfo{Name: "direct", Component: compose.ComponentOfToolsNode}, e.cb.handler())
	}
	var tnOpts []compose.ToolsNodeOption
	if c.UseToolList {
		tnOpts = append(tnOpts, compose.WithToolList(e.real...))
	}
	if c.OptTag != "" {
		tnOpts = append(tnOpts, compose.WithToolOption(withTag(c.OptTag)))
	}
	var gOpts []compose.Option
	if len(tnOpts) > 0 {
		gOpts = append(gOpts, compose.WithToolsNodeOption(tnOpts...))
	}
	if c.Callbacks {
		gOpts = append(gOpts, compose.WithCallbacks(e.cb.handler()))
	}
	tn, gPlain, gConcat := e.tn, e.gPlain, e.gConcat
	if noHandler {
		tn, gPlain, gConcat = e.tnNoH, e.gNoH, e.gNoHCat
	}
	msg := e.message()
	n := len(c.Calls)
	done := make(chan struct{})
	go rs.controller()
	go func() {
		defer close(done)
		o.Panic = mon.Safe(func() {
			switch mode {
			case mDirectInvoke:
				o.Msgs, o.Err = tn.Invoke(ctx, msg, tnOpts...)
			case mGraphInvoke:
				o.Msgs, o.Err = gPlain.Invoke(ctx, msg, gOpts...)
			case mDirectStream, mGraphStream, mGraphStreamConcat:
				var sr *schema.StreamReader[msgList]
				switch mode {
				case mDirectStream:
					sr, o.Err = tn.Stream(ctx, msg, tnOpts...)
				case mGraphStream:
					sr, o.Err = gPlain.Stream(ctx, msg, gOpts...)
				default:
					sr, o.Err = gConcat.Stream(ctx, msg, gOpts...)
				}
				if o.Err == nil {
					if sr == nil {
						o.Shape = append(o.Shape, "nil-stream")
						return
					}
					consume(sr, n, o)
				}
			}
		})
	}()
	res, dump := await(done)
	if res == mon.Inconclusive {
		k.rep.Inconclusive("watchdog fired in " + modeNames[mode] + "; shard stopped")
		rs.abortNow()
		k.dead = true
		return nil
	}
	if res == mon.Stuck {
		// Nothing can move any more. Either the schedule cannot be honoured
		// (a call whose gate is open never entered its tool body while the
		// others are parked) or the run is stuck on its own. Give up the
		// schedule; if the run then finishes it is judged normally, and a run that
		// is correct only without the schedule did not execute its calls concurrently.
		why := rs.waitingFor() + "\n" + dumpText(dump)
		rs.abortNow()
		r2, dump2 := await(done)
		if r2 != mon.Finished {
			if r2 == mon.Stuck {
				k.rep.Violation("C17/hang/"+modeNames[mode],
					"process quiescent while the tools node call is unfinished, with every gate open and every producer freed\n"+dumpText(dump2), witness(e, mode, rs))
			} else {
				k.rep.Inconclusive("watchdog fired in " + modeNames[mode])
			}
			k.dead = true
			return nil
		}
		k.rep.Count("schedules_abandoned_after_quiescence", 1)
		k.settle(rs, true)
		if rs.enteredLater() {
			// the awaited body did run once nothing was gated any more: it had been
			// waiting for other calls to finish
			o.Abandoned = why
		} else {
			// the awaited call never reaches its tool body at all (its task fails
			// earlier): not a matter of concurrency; the outcome is judged as usual
			k.rep.Count("scheduled_body_never_entered", 1)
		}
		return o
	}
	if o.anyErr() != nil || o.Panic != nil {
		rs.abortNow()
	}
	k.settle(rs, o.Panic != nil)
	return o
}

// settle waits until everything the run started has ended.
func (k *checker) settle(rs *runState, orphans bool) {
	if r, _ := await(rs.ctrlDone); r != mon.Finished {
		// the call is over but a scheduled body never came: stop scheduling
		k.rep.Count("controller_had_to_be_aborted", 1)
		rs.abortNow()
		if r2, _ := await(rs.ctrlDone); r2 != mon.Finished {
			k.rep.Inconclusive("gate controller did not end")
			k.dead = true
			return
		}
	}
	if orphans {
		// a panic unwound the caller while other tasks were still running: wait until they are gone
		if _, ok := mon.Settle(2, 400); !ok {
			k.rep.Count("settle_budget_exhausted", 1)
		}
	}
	rs.mu.Lock()
	ps := append([]*producer(nil), rs.prods...)
	rs.mu.Unlock()
	for _, p := range ps {
		if p == nil {
			continue
		}
		if r, _ := await(p.done); r != mon.Finished {
			k.rep.Count("producer_left_blocked_on_abandoned_reader", 1)
		}
	}
}

func dumpText(gs []mon.G) string {
	var sb strings.Builder
	for _, g := range gs {
		if g.Has("github.com/cloudwego/eino/") {
			sb.WriteString(g.Signature())
			sb.WriteByte('\n')
		}
	}
	return sb.String()
}

type runWitness struct {
	Case     *caseSpec `json:"case"`
	Mode     string    `json:"mode"`
	Plan     []string  `json:"plan"`
	Schedule string    `json:"schedule"`
}

func witness(e *env, mode int, rs *runState) runWitness {
	w := runWitness{Case: e.c, Mode: modeNames[mode]}
	for _, a := range rs.plan {
		w.Plan = append(w.Plan, a.String())
	}
	var sb strings.Builder
	for _, ev := range rs.schedule {
		if ev.Kind == evRelease {
			fmt.Fprintf(&sb, "R%d ", ev.Slot)
		} else {
			fmt.Fprintf(&sb, "c%d ", ev.Slot)
		}
	}
	w.Schedule = sb.String()
	return w
}

// ---- oracles ----

type verdicts struct {
	k    *checker
	e    *env
	mode int
	rs   *runState
	seen map[string]bool
}

func (v *verdicts) bad(sig, detail string) {
	if v.seen[sig] {
		return
	}
	v.seen[sig] = true
	v.k.rep.Violation(sig, detail, witness(v.e, v.mode, v.rs))
}

func (k *checker) verdicts(e *env, mode int, rs *runState) *verdicts {
	return &verdicts{k: k, e: e, mode: mode, rs: rs, seen: map[string]bool{}}
}

func panicSite(p *mon.Panic) string {
	if f := p.FirstFrame("github.com/cloudwego/eino/"); f != "" {
		f = strings.TrimPrefix(f, "github.com/cloudwego/eino/")
		if i := strings.IndexByte(f, '['); i > 0 {
			f = f[:i]
		}
		return f
	}
	return "no-eino-frame"
}

// concurrent: a run that reached the expected result only after the harness
// gave up its completion schedule did not execute the calls concurrently.
func (v *verdicts) concurrent(o *outcome, ok bool) bool {
	if o.Abandoned == "" || !ok {
		return ok
	}
	v.bad("C17/calls-not-concurrent/"+modeNames[v.mode],
		"under the forced completion order the process went quiescent with the call unfinished: "+o.Abandoned+
			"\nwith all gates open the run finished with the expected result: the tool calls are not executed concurrently, so a completion order other than call order is impossible")
	return false
}

// expectAnswers: the all-tools-succeed plan.
func (v *verdicts) expectAnswers(o *outcome) bool {
	return v.concurrent(o, v.expectAnswers0(o))
}

func (v *verdicts) expectAnswers0(o *outcome) bool {
	m := modeNames[v.mode]
	if o.Panic != nil {
		v.bad("C17/panic-escaped/"+m+"/"+panicSite(o.Panic), "no tool panicked, yet the call panicked: "+o.Panic.Value+"\n"+o.Panic.Stack)
		return false
	}
	ws := v.e.wants
	// calls whose tool, in this mode, hands back a stream that ends without a chunk:
	// their output is "", an output like any other (empty_output_test.go)
	esc := v.e.c.emptyStreamCalls(v.mode)
	if err := o.anyErr(); err != nil {
		if len(esc) > 0 && (!streamMode(v.mode) || (v.mode == mGraphStreamConcat && len(esc) == len(ws))) {
			v.bad("C17/empty-tool-stream/call-fails/"+m, fmt.Sprintf(
				"every tool succeeded; the streaming tool of call(s) %v closed its stream without a chunk (its output is \"\"), and the call failed instead of answering with %d tool messages: %s",
				esc, len(ws), firstLine(err.Error())))
			return false
		}
		v.bad("C17/unexpected-error/"+m, "every tool succeeded, yet the call failed: "+err.Error())
		return false
	}
	for _, s := range o.Shape {
		if s == "empty-stream" && len(esc) == len(ws) {
			v.bad("C17/empty-tool-stream/empty-stream/"+m, fmt.Sprintf(
				"%d tool call(s), each answered by a streaming tool that closed its stream without a chunk (output \"\"): the streamed form carries no list at all, it concatenates to nothing instead of %d tool messages with content \"\"",
				len(ws), len(ws)))
			return false
		}
		v.bad("C17/stream-shape/"+m+"/"+s, "streamed lists are not position-wise concatenable: "+s)
	}
	if len(o.Msgs) != len(ws) {
		v.bad("C17/wrong-count/"+m, fmt.Sprintf("%d tool calls, %d tool messages", len(ws), len(o.Msgs)))
		return false
	}
	ok := len(o.Shape) == 0
	for i, w := range ws {
		g := o.Msgs[i]
		switch {
		case g == nil && containsInt(esc, i):
			v.bad("C17/empty-tool-stream/missing-answer/"+m, fmt.Sprintf(
				"the streaming tool of call %d (%s) closed its stream without a chunk: the concatenated list has nil at position %d instead of a tool message with id %q and content \"\"", i, w.Class, i, w.ID))
		case g == nil:
			v.bad("C17/missing-answer/"+m, fmt.Sprintf("no message for call %d (%s)", i, w.Class))
		case g.Role != schema.Tool:
			v.bad("C17/wrong-role/"+m, fmt.Sprintf("message %d has role %q", i, g.Role))
		case g.ToolCallID != w.ID:
			v.bad("C17/wrong-id/"+m, fmt.Sprintf("message %d carries id %q, call %d has id %q", i, g.ToolCallID, i, w.ID))
		case g.Content != w.Content:
			v.bad("C17/wrong-output/"+m+"/"+w.Class, fmt.Sprintf("message %d: got %q, tool %s on these arguments gives %q", i, g.Content, v.e.c.Calls[i].Name, w.Content))
		default:
			continue
		}
		ok = false
	}
	return ok
}

// errorSite names, for the signature only, the layer between the tools node
// and the failing body whose error the call reports: in a direct call the tools
// node reports the first call (in call order) whose task failed; a tool that
// only has the other execution form is run through an eino adapter
// (invoke-by-stream / stream-by-invoke).
func (v *verdicts) errorSite(failing []int) string {
	if graphMode(v.mode) {
		return "graph-run"
	}
	c := v.e.c
	kindOf := func(i int) string {
		if t := c.Calls[i].Tool; t >= 0 {
			return c.Tools[t].Kind
		}
		return "inv" // the unknown-tool handler is an invokable
	}
	if v.mode == mDirectInvoke {
		if kindOf(failing[0]) == "str" {
			return "direct-invoke/streamable-only-tool"
		}
		return "direct-invoke/native"
	}
	for _, i := range failing {
		if kindOf(i) == "inv" {
			return "direct-stream/invokable-only-tool"
		}
		if v.rs.plan[i] == actFail {
			return "direct-stream/native"
		}
	}
	return "direct-stream/midstream"
}

// expectToolError: some tools fail.
func (v *verdicts) expectToolError(o *outcome, failing []int) bool {
	return v.concurrent(o, v.expectToolError0(o, failing))
}

func (v *verdicts) expectToolError0(o *outcome, failing []int) bool {
	m := modeNames[v.mode]
	if o.Panic != nil {
		v.bad("C17/panic-escaped/"+m+"/"+panicSite(o.Panic), "a tool returned an error, the call panicked: "+o.Panic.Value+"\n"+o.Panic.Stack)
		return false
	}
	err := o.anyErr()
	if err == nil {
		v.bad("C17/failure-swallowed/"+m, fmt.Sprintf("tools for calls %v failed, the call succeeded with %d messages", failing, len(o.Msgs)))
		return false
	}
	var tf *toolFailure
	if !errors.As(err, &tf) {
		if !streamMode(v.mode) {
			// the tools node reports the first call, in call order, whose task has an
			// error: a succeeding streaming tool without chunks in front of the failing tool
			for _, i := range v.e.c.emptyStreamCalls(v.mode) {
				if v.rs.plan[i] == actOK && i < failing[0] {
					v.bad("C17/empty-tool-stream/masks-tool-error/"+m, fmt.Sprintf(
						"calls %v failed with *toolFailure; the call failed with an error that is not that tool's error (errors.As): call %d, whose streaming tool succeeded with a stream without chunks, comes first in the list: %T %v",
						failing, i, err, firstLine(err.Error())))
					return false
				}
			}
		}
		v.bad("C17/tool-error-not-unwrappable/"+v.errorSite(failing),
			fmt.Sprintf("calls %v failed with *toolFailure; the call failed with an error from which errors.As cannot recover it: %T %v", failing, err, firstLine(err.Error())))
		return false
	}
	for _, i := range failing {
		if v.e.c.Calls[i].Key == tf.Key {
			if !errors.Is(err, tf) {
				v.bad("C17/tool-error-not-unwrappable/"+v.errorSite(failing)+"/is", "errors.As succeeds but errors.Is does not")
				return false
			}
			return true
		}
	}
	v.bad("C17/wrong-tool-error/"+m, fmt.Sprintf("calls %v failed, the call reports the error of %q", failing, tf.Key))
	return false
}

func firstLine(s string) string {
	if i := strings.IndexByte(s, '\n'); i >= 0 {
		s = s[:i]
	}
	if len(s) > 300 {
		s = s[:300]
	}
	return s
}

// expectPanicContained: one tool body panics.
func (v *verdicts) expectPanicContained(o *outcome, slot int) bool {
	return v.concurrent(o, v.expectPanicContained0(o, slot))
}

func (v *verdicts) expectPanicContained0(o *outcome, slot int) bool {
	m := modeNames[v.mode]
	if o.Panic != nil {
		if graphMode(v.mode) {
			v.bad("C17/panic-escaped/"+m+"/"+panicSite(o.Panic), fmt.Sprintf("tool of call %d panicked inside a graph run and the panic reached the caller: %s", slot, o.Panic.Value))
			return false
		}
		// direct call: the task that the tools node runs inline on the caller's
		// goroutine panics on that goroutine, like any Go call. The process
		// survives (the caller can recover); the property speaks of the enclosing run.
		v.k.rep.Count("direct_call_inline_task_panic_reached_caller", 1)
		return true
	}
	if o.anyErr() == nil {
		v.bad("C17/panic-swallowed/"+m, fmt.Sprintf("tool of call %d panicked, the call succeeded", slot))
		return false
	}
	v.k.rep.Count("panic_turned_into_error", 1)
	return true
}

func (v *verdicts) expectRejected(o *outcome, what string) bool {
	return v.concurrent(o, v.expectRejected0(o, what))
}

func (v *verdicts) expectRejected0(o *outcome, what string) bool {
	m := modeNames[v.mode]
	if o.Panic != nil {
		v.bad("C17/panic-escaped/"+m+"/"+panicSite(o.Panic), what+": the call panicked: "+o.Panic.Value+"\n"+o.Panic.Stack)
		return false
	}
	if o.anyErr() == nil {
		v.bad("C17/"+what+"-accepted/"+m, fmt.Sprintf("%s: the call succeeded with %d messages", what, len(o.Msgs)))
		return false
	}
	return true
}

// ---- the check ----

func TestCheck(t *testing.T) {
	cfg := mon.Load("C17")
	rep := mon.NewReporter(cfg, "exploration",
		"case = PRNG tool set (1-5 tools: invokable-only/streamable-only/both; hand-written or built with utils.NewTool/InferTool/InferOptionableTool/NewStreamTool/InferStreamTool/InferOptionableStreamTool, custom (un)marshal) + list of 1-8 calls (repeated tools, identical calls, unknown names, duplicate/empty ids); "+
			"each case is run through ToolsNode.Invoke/Stream directly and inside graphs/chains under gate-forced completion orders (all N! for N<=4), every non-empty subset of failing calls (N<=4), panics at call 0 and >=1, with/without unknown-tool handler; "+
			"22% of these cases have tools whose total output is empty (invokable form returning \"\", streams of \"\" chunks, streams without any chunk, handler answering \"\"), alone and mixed with ordinary calls; "+
			"14% of the cases are sequences of 2-6 messages to one tools node whose utils-built tools (struct / pointer / map argument types with optional fields, nested structs, maps, slices) are called repeatedly with different subsets of fields, every message in every mode, expected content from the arguments decoded into a fresh value; "+
			"beside every 2nd case, from a copy of its generator (the draws of the other cases are unchanged): a case of context-aware tools (ctx_aware_tools_test.go: 1-7 calls to 1-4 tools that select on gate/ctx.Done, check ctx.Err() after their gate, or ignore the context; own sentinel error per failing call; caller never cancels), every failing subset (N<=3) in an invoke and a stream form, direct and in graph/chain, failing call returning first in half of the runs; "+
			"non-trivial = N>=2 calls, at least one run completed in an order different from call order, and the answers of all five modes were compared with the reference (sequences: a call omits what an earlier call of the same tool set, all runs compared)",
		[]string{
			"tool bodies are pure functions of (tool, arguments, tool option); the reference maps them over the call list without eino",
			"completion order = order in which the gated tool bodies return (the controller waits for a body to return before opening the next gate); the bookkeeping eino does after a body returned is not ordered by the harness",
			"JSON produced by the utils tools is compared with a hand-rendered string (alphanumeric payloads only)",
			"typed-arguments sequences: encoding/json decoding into a fresh value is the reference for what sonic decodes (generated documents: exact key names, strings, small integers, booleans, nested objects/arrays)",
			"an empty tool output is an output like any other: N messages, the i-th with the i-th id and content \"\"",
			"a panic of the task the tools node runs inline on the caller's goroutine reaching the caller of a DIRECT ToolsNode.Invoke/Stream is counted, not flagged: the statement speaks of the enclosing run, which is checked with graphs/chains",
			"hangs are decided by the goroutine-state quiescence monitor, never by a deadline",
		}, 50)
	defer func() {
		if err := rep.Flush(); err != nil {
			t.Fatalf("flush: %v", err)
		}
	}()
	rep.Require("runs_all_tools_ok_matching_reference", 100)
	rep.Require("runs_completion_order_differs_from_call_order", 50)
	rep.Require("runs_bodies_returned_in_the_forced_order", 100)
	rep.Require("runs_tool_error_checked", 20)
	rep.Require("runs_panic_checked", 10)
	rep.Require("runs_unknown_answered_by_handler", 5)
	rep.Require("runs_unknown_without_handler_rejected", 5)
	rep.Require("typed_args_runs_matching_reference", 50)
	rep.Require("typed_args_calls_omitting_what_an_earlier_call_of_the_tool_set", 50)
	rep.Require("quiet_cases", 10)
	rep.Require("ctx_runs_call_failed_with_a_failing_tools_own_error", 50)
	rep.Require("ctx_runs_failing_call_returned_while_a_lower_call_was_still_gated", 20)
	rep.Require("ctx_runs_all_tools_ok_answers_in_call_order", 20)
	k := &checker{t: t, rep: rep}
	n := int64(cfg.Pick(150, 2000))
	rep.Cases(n, func(idx int64, rng *mon.Rand) {
		if k.dead {
			return
		}
		// context-aware tools (ctx_aware_tools_test.go) run beside every caEvery-th case, from a
		// COPY of the case's generator: the draws of the sub-workloads below stay what they were
		if idx%caEvery == 0 {
			fork := *rng
			k.runCtxAware(fork.Sub("ctx-aware-tools"), idx == 0)
			if k.dead {
				return
			}
		}
		// shares: 14 % typed-arguments sequences (typedargs_test.go), 22 % cases with
		// tools whose total output is empty (empty_output_test.go), the rest ordinary
		share := rng.Sub("share").Intn(100)
		if share < 14 {
			tc := genTACase(rng.Sub("typed-args"))
			te, err := buildTAEnv(tc)
			if err != nil {
				rep.Violation("C17/construction-failed/typed-args", "a generated utils tool / tools node / graph was rejected: "+err.Error(), tc)
				return
			}
			k.runTACase(te)
			if idx < 40 && tc.Omitting > 0 {
				rep.Sample(tc)
			}
			return
		}
		var c *caseSpec
		if share < 36 {
			c = genQuietCase(rng.Sub("quiet-case"))
			k.noteQuiet(c)
		} else {
			c = genCase(rng.Sub("case"))
		}
		e, err := buildEnv(c)
		if err != nil {
			rep.Violation("C17/construction-failed", "a generated tool set / graph was rejected: "+err.Error(), c)
			return
		}
		k.runCase(e, rng.Sub("runs"), cfg.Thorough())
		rep.Count("callback_events_tool_and_node_level", e.cb.start.Load()+e.cb.end.Load()+e.cb.errs.Load()+e.cb.streamOut.Load())
		rep.Count("callback_stream_copies_drained", e.cb.streamOut.Load())
		if idx < 2 {
			rep.Sample(c)
		}
	})
	rep.Count("waits_handed_to_quiescence_monitor", slowWaits.Load())
	if l := lostCtx.Load(); l > 0 {
		rep.Count("tool_bodies_without_run_context", l)
	}
}

func (k *checker) newRun(e *env, plan []action, perm []int, mode int, serial bool, rng *mon.Rand) *runState {
	c := e.c
	n := len(c.Calls)
	keys, ids, noBody := make([]string, n), make([]string, n), make([]bool, n)
	big := false
	for i, cs := range c.Calls {
		keys[i], ids[i], noBody[i] = cs.Key, cs.ID, cs.BadArgs
		if plan[i] != actOK || cs.BadArgs {
			big = true
		}
	}
	return newRun(keys, ids, noBody, plan, schedule(c, perm, streamMode(mode), serial, rng), big)
}

// normalizePlan gives calls that cannot be told apart (same tool, same
// arguments, same call id) the same planned action: which of them a body serves
// is not observable, so a plan that treats them differently would not be well
// defined per call. The action of the first such call that is not "ok" wins.
// Reports whether it changed the plan.
func normalizePlan(c *caseSpec, plan []action) bool {
	same := func(i, j int) bool {
		return c.Calls[i].Key == c.Calls[j].Key && c.Calls[i].ID == c.Calls[j].ID && c.Calls[i].Name == c.Calls[j].Name
	}
	changed := false
	for i := range c.Calls {
		if plan[i] == actOK {
			continue
		}
		for j := range c.Calls {
			if j != i && same(i, j) && plan[j] != plan[i] {
				plan[j] = plan[i]
				changed = true
			}
		}
	}
	return changed
}

func isIdentity(p []int) bool {
	for i, x := range p {
		if i != x {
			return false
		}
	}
	return true
}

func (k *checker) note(rs *runState, perm []int) {
	rs.mu.Lock()
	defer rs.mu.Unlock()
	k.rep.Count("tool_bodies_via_InvokableRun", int64(rs.viaInvoke))
	k.rep.Count("tool_bodies_via_StreamableRun", int64(rs.viaStream))
	k.rep.Count("decoy_tool_executions", int64(rs.decoyCalls))
	k.rep.Count("ctx_tool_call_id_differs_from_call", int64(rs.ctxIDWrong))
	k.rep.Count("executions_matching_no_call", int64(len(rs.extra)))
	k.rep.Distinct("observed_return_orders", fmt.Sprint(rs.n, rs.relOrder))
	if fmt.Sprint(rs.relOrder) == fmt.Sprint(perm) {
		k.rep.Count("runs_bodies_returned_in_the_forced_order", 1)
	} else {
		k.rep.Count("runs_bodies_returned_in_another_order", 1)
	}
}

func (k *checker) runCase(e *env, rng *mon.Rand, thorough bool) {
	c := e.c
	n := len(c.Calls)
	rep := k.rep
	okPlan := make([]action, n)

	if c.BadArgs {
		for mode := 0; mode < nModes && !k.dead; mode++ {
			rs := k.newRun(e, okPlan, rng.Perm(n), mode, true, rng)
			if o := k.run(e, mode, false, rs); o != nil {
				if k.verdicts(e, mode, rs).expectRejected(o, "unparsable-arguments") {
					rep.Count("runs_unparsable_arguments_rejected", 1)
				}
			}
			rep.AddEvaluations(1)
		}
		return
	}

	// 1. all tools succeed: every completion order (N<=4) or random ones
	var perms [][]int
	if n <= 4 {
		perms = allPerms(n)
	} else {
		kperm := 8
		if thorough {
			kperm = 12
		}
		for i := 0; i < kperm; i++ {
			perms = append(perms, rng.Perm(n))
		}
	}
	modesOK := map[int]bool{}
	reordered := false
	gm := rng.Intn(3)
	for pi, perm := range perms {
		modes := []int{mDirectInvoke, mDirectStream, mGraphInvoke + (gm+pi)%3}
		if len(perms) < 3 {
			modes = []int{0, 1, 2, 3, 4}
		}
		for mi, mode := range modes {
			if k.dead {
				return
			}
			serial := mi == 0 || rng.Prob(0.6)
			rs := k.newRun(e, okPlan, perm, mode, serial, rng)
			o := k.run(e, mode, false, rs)
			rep.AddEvaluations(1)
			if o == nil {
				continue
			}
			k.note(rs, perm)
			if k.verdicts(e, mode, rs).expectAnswers(o) {
				modesOK[mode] = true
				rep.Count("runs_all_tools_ok_matching_reference", 1)
				rep.Count("answers_compared", int64(n))
				if !isIdentity(perm) {
					reordered = true
					rep.Count("runs_completion_order_differs_from_call_order", 1)
				}
				if streamMode(mode) {
					rep.Count("stream_chunks_concatenated", int64(o.Chunks))
				}
				if c.HasUnknown {
					rep.Count("runs_unknown_answered_by_handler", 1)
				}
				if c.UseToolList {
					rep.Count("runs_with_call_time_tool_list", 1)
				}
			}
			rep.Distinct("completion_orders", fmt.Sprint(n, perm))
			rep.Count("runs_"+modeNames[mode], 1)
		}
	}
	// make sure every mode saw this case at least once
	for mode := 0; mode < nModes; mode++ {
		if modesOK[mode] || k.dead {
			continue
		}
		perm := rng.Perm(n)
		rs := k.newRun(e, okPlan, perm, mode, rng.Bool(), rng)
		o := k.run(e, mode, false, rs)
		rep.AddEvaluations(1)
		if o != nil && k.verdicts(e, mode, rs).expectAnswers(o) {
			modesOK[mode] = true
			rep.Count("runs_all_tools_ok_matching_reference", 1)
			rep.Count("runs_"+modeNames[mode], 1)
		}
	}
	if n >= 2 && reordered && len(modesOK) == nModes {
		rep.NonTrivial(c.digest())
	}

	// 2. failing tools: every non-empty subset of calls (N<=4), random subsets above
	var subsets []int
	if n <= 4 {
		for s := 1; s < 1<<n; s++ {
			subsets = append(subsets, s)
		}
	} else {
		for i := 0; i < 8; i++ {
			subsets = append(subsets, 1+rng.Intn(1<<n-1))
		}
	}
	fm := rng.Intn(nModes)
	for si, sub := range subsets {
		if k.dead {
			return
		}
		mode := (fm + si) % nModes
		plan := make([]action, n)
		var failing []int
		for i := 0; i < n; i++ {
			if sub&(1<<i) != 0 {
				failing = append(failing, i)
				plan[i] = actFail
				if rng.Prob(0.4) && c.quietCall(i) != "nochunk" {
					plan[i] = actFailMid
				}
			}
		}
		if normalizePlan(c, plan) {
			failing = failing[:0]
			for i, a := range plan {
				if a != actOK {
					failing = append(failing, i)
				}
			}
		}
		rs := k.newRun(e, plan, rng.Perm(n), mode, rng.Bool(), rng)
		o := k.run(e, mode, false, rs)
		rep.AddEvaluations(1)
		if o == nil {
			continue
		}
		if k.verdicts(e, mode, rs).expectToolError(o, failing) {
			rep.Count("runs_tool_error_unwraps_to_the_tools_error", 1)
		}
		rep.Count("runs_tool_error_checked", 1)
		rep.Distinct("failing_subsets", fmt.Sprint(n, sub))
	}

	// 3. panicking tool at call 0 and at a call >= 1
	slots := []int{0}
	if n >= 2 {
		slots = append(slots, rng.Range(1, n-1))
	}
	for _, slot := range slots {
		for mode := 0; mode < nModes; mode++ {
			if k.dead {
				return
			}
			plan := make([]action, n)
			plan[slot] = actPanic
			normalizePlan(c, plan)
			rs := k.newRun(e, plan, rng.Perm(n), mode, rng.Bool(), rng)
			o := k.run(e, mode, false, rs)
			rep.AddEvaluations(1)
			if o == nil {
				continue
			}
			k.verdicts(e, mode, rs).expectPanicContained(o, slot)
			rep.Count("runs_panic_checked", 1)
			if slot == 0 {
				rep.Count("runs_panic_at_call_0", 1)
			} else {
				rep.Count("runs_panic_at_call_ge_1", 1)
			}
		}
	}

	// 4. unknown tool name without a handler
	if c.HasUnknown {
		for mode := 0; mode < nModes && !k.dead; mode++ {
			// no body is expected to run: nothing is gated (empty schedule = controller opens everything at once)
			rs := k.newRun(e, okPlan, nil, mode, true, rng)
			o := k.run(e, mode, true, rs)
			rep.AddEvaluations(1)
			if o == nil {
				continue
			}
			if k.verdicts(e, mode, rs).expectRejected(o, "unknown-tool") {
				rep.Count("runs_unknown_without_handler_rejected", 1)
			}
		}
	}
}
