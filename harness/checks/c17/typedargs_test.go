package c17

// Sub-workload "that call's arguments": tools built with utils.NewTool /
// InferTool / InferOptionableTool (and their streaming counterparts) whose
// argument type has parts a call may leave out -- optional struct fields
// (omitempty), nested structs, pointers, maps, slices; struct, pointer-to-struct
// and map argument types. One tools node answers a SEQUENCE of assistant messages,
// each with several calls, the same tool many times, every call setting another
// subset of the fields / map keys. The i-th message must carry the output of the
// tool on the i-th call's arguments and on nothing else: whatever an earlier call
// (of this message or of an earlier message) set and this call omits must not be
// seen by the tool.
//
// Reference: each call's arguments are decoded with encoding/json into a FRESH
// value of the tool's argument type, the tool's (pure) function is applied to it,
// and the JSON of the typed output is rendered by hand. eino decodes with sonic
// into whatever value the adapter provides.

import (
	"context"
	"encoding/json"
	"fmt"
	"strconv"
	"strings"

	"github.com/cloudwego/eino/callbacks"
	"github.com/cloudwego/eino/components/tool"
	"github.com/cloudwego/eino/components/tool/utils"
	"github.com/cloudwego/eino/compose"
	"github.com/cloudwego/eino/schema"

	"verifharness/internal/mon"
)

type subArgs struct {
	X string         `json:"x,omitempty"`
	Y int            `json:"y,omitempty"`
	M map[string]int `json:"m,omitempty"`
}

type optArgs struct {
	Q     string            `json:"q"`
	Tags  []string          `json:"tags,omitempty"`
	Limit int               `json:"limit,omitempty"`
	Opts  map[string]string `json:"opts,omitempty"`
	Flag  *bool             `json:"flag,omitempty"`
	Sub   subArgs           `json:"sub"`
	PSub  *subArgs          `json:"psub,omitempty"`
	List  []subArgs         `json:"list,omitempty"`
	Extra map[string]any    `json:"extra,omitempty"`
}

// echo is the typed output: what the tool saw.
type echo struct {
	Tool string `json:"tool"`
	Seen string `json:"seen"`
	Sum  string `json:"sum"`
}

type taTool struct {
	Name    string `json:"name"`
	Build   string `json:"build"`    // new | infer | inferopt | newstream | inferstream | inferoptstream
	ArgKind string `json:"arg_kind"` // struct | ptr | map | mapstr | mapsub
	Salt    string `json:"salt"`
	Chunks  int    `json:"chunks"` // streaming builds: number of chunks
}

func (t *taTool) streaming() bool { return strings.HasSuffix(t.Build, "stream") }
func (t *taTool) usesOpt() bool   { return strings.HasPrefix(t.Build, "inferopt") }
func (t *taTool) class() string {
	if t.streaming() {
		return "typed-args-str-" + t.ArgKind
	}
	return "typed-args-inv-" + t.ArgKind
}

type taCall struct {
	Tool int    `json:"tool"`
	ID   string `json:"id"`
	Args string `json:"args"`
}

type taCase struct {
	Tools       []taTool   `json:"tools"`
	Msgs        [][]taCall `json:"msgs"`
	UseToolList bool       `json:"use_tool_list"`
	UseChain    bool       `json:"use_chain"`
	OptTag      string     `json:"opt_tag"`
	Callbacks   bool       `json:"callbacks"`
	Omitting    int        `json:"omitting"` // calls that omit a top-level field / key an earlier call of the same tool set
}

func (c *taCase) digest() string {
	b, _ := json.Marshal(c)
	return string(b)
}

// canon renders a decoded argument value: encoding/json (map keys sorted, struct
// fields in declaration order), double quotes replaced so that the text needs no
// escaping inside a JSON string. Payloads are alphanumeric.
func canon(v any) string {
	b, err := json.Marshal(v)
	if err != nil {
		return "unrenderable:" + err.Error()
	}
	return strings.ReplaceAll(string(b), `"`, `'`)
}

// taOutputs is THE tool function: a pure function of (tool, decoded arguments, option tag).
func (t *taTool) taOutputs(v any, tag string) []echo {
	if !t.usesOpt() {
		tag = ""
	}
	seen := canon(v)
	sum := mon.H8(t.Salt + "#" + seen + "#" + tag)
	if !t.streaming() {
		return []echo{{Tool: t.Name, Seen: seen, Sum: sum}}
	}
	k := t.Chunks
	out := make([]echo, k)
	for j := 0; j < k; j++ {
		lo, hi := len(seen)*j/k, len(seen)*(j+1)/k
		out[j] = echo{Tool: t.Name, Seen: seen[lo:hi], Sum: sum + strconv.Itoa(j)}
	}
	return out
}

func renderEcho(e echo) string {
	return `{"tool":"` + e.Tool + `","seen":"` + e.Seen + `","sum":"` + e.Sum + `"}`
}

func buildTA[T any](t *taTool) (tool.BaseTool, error) {
	info := &schema.ToolInfo{Name: t.Name, Desc: "typed arguments " + t.ArgKind}
	inv := func(ctx context.Context, in T, opts ...tool.Option) (echo, error) {
		return t.taOutputs(in, tagOf(opts))[0], nil
	}
	str := func(ctx context.Context, in T, opts ...tool.Option) (*schema.StreamReader[echo], error) {
		return schema.StreamReaderFromArray(t.taOutputs(in, tagOf(opts))), nil
	}
	switch t.Build {
	case "new":
		return utils.NewTool(info, func(ctx context.Context, in T) (echo, error) { return inv(ctx, in) }), nil
	case "infer":
		return utils.InferTool(t.Name, info.Desc, func(ctx context.Context, in T) (echo, error) { return inv(ctx, in) })
	case "inferopt":
		return utils.InferOptionableTool(t.Name, info.Desc, inv)
	case "newstream":
		return utils.NewStreamTool(info, func(ctx context.Context, in T) (*schema.StreamReader[echo], error) { return str(ctx, in) }), nil
	case "inferstream":
		return utils.InferStreamTool(t.Name, info.Desc, func(ctx context.Context, in T) (*schema.StreamReader[echo], error) { return str(ctx, in) })
	case "inferoptstream":
		return utils.InferOptionableStreamTool(t.Name, info.Desc, str)
	}
	return nil, fmt.Errorf("bad build %q", t.Build)
}

func (t *taTool) build() (tool.BaseTool, error) {
	switch t.ArgKind {
	case "struct":
		return buildTA[optArgs](t)
	case "ptr":
		return buildTA[*optArgs](t)
	case "map":
		return buildTA[map[string]any](t)
	case "mapstr":
		return buildTA[map[string]string](t)
	case "mapsub":
		return buildTA[map[string]subArgs](t)
	}
	return nil, fmt.Errorf("bad arg kind %q", t.ArgKind)
}

// fresh decodes the arguments into a new value of the tool's argument type.
func (t *taTool) fresh(args string) (any, error) {
	switch t.ArgKind {
	case "struct":
		var v optArgs
		err := json.Unmarshal([]byte(args), &v)
		return v, err
	case "ptr":
		v := &optArgs{}
		err := json.Unmarshal([]byte(args), &v)
		return v, err
	case "map":
		v := map[string]any{}
		err := json.Unmarshal([]byte(args), &v)
		return v, err
	case "mapstr":
		v := map[string]string{}
		err := json.Unmarshal([]byte(args), &v)
		return v, err
	case "mapsub":
		v := map[string]subArgs{}
		err := json.Unmarshal([]byte(args), &v)
		return v, err
	}
	return nil, fmt.Errorf("bad arg kind %q", t.ArgKind)
}

// ---- generation ----

type kv struct{ k, v string }

// object writes a JSON object from the pairs in a random key order, with or without blanks.
func object(r *mon.Rand, ps []kv) string {
	perm := r.Perm(len(ps))
	sep, col := ",", ":"
	if r.Prob(0.3) {
		sep, col = " , ", ": "
	}
	var sb strings.Builder
	sb.WriteByte('{')
	for i, p := range perm {
		if i > 0 {
			sb.WriteString(sep)
		}
		sb.WriteString(`"` + ps[p].k + `"` + col + ps[p].v)
	}
	sb.WriteByte('}')
	return sb.String()
}

func qstr(r *mon.Rand) string { return `"` + r.Str(0, 5) + `"` }

func strArray(r *mon.Rand, lo, hi int) string {
	n := r.Range(lo, hi)
	xs := make([]string, n)
	for i := range xs {
		xs[i] = qstr(r)
	}
	return "[" + strings.Join(xs, ",") + "]"
}

var keyPool = []string{"ka", "kb", "kc", "kd", "ke"}

// subset of the key pool, each key with probability p
func someKeys(r *mon.Rand, p float64) []string {
	var ks []string
	for _, k := range keyPool {
		if r.Prob(p) {
			ks = append(ks, k)
		}
	}
	return ks
}

func genSub(r *mon.Rand) string {
	var ps []kv
	if r.Prob(0.5) {
		ps = append(ps, kv{"x", qstr(r)})
	}
	if r.Prob(0.5) {
		ps = append(ps, kv{"y", strconv.Itoa(r.Range(1, 99))})
	}
	if r.Prob(0.4) {
		var ms []kv
		for _, k := range someKeys(r, 0.4) {
			ms = append(ms, kv{k, strconv.Itoa(r.Range(1, 99))})
		}
		ps = append(ps, kv{"m", object(r, ms)})
	}
	return object(r, ps)
}

func genAnyValue(r *mon.Rand, depth int) string {
	switch x := r.Intn(7); {
	case x == 0:
		return strconv.Itoa(r.Range(0, 999))
	case x == 1:
		return mon.PickOne(r, []string{"true", "false"})
	case x == 2 && depth < 2:
		var ps []kv
		for _, k := range someKeys(r, 0.4) {
			ps = append(ps, kv{k, genAnyValue(r, depth+1)})
		}
		return object(r, ps)
	case x == 3:
		return strArray(r, 0, 3)
	default:
		return qstr(r)
	}
}

// genArgs draws the arguments of one call; returns the JSON text and the
// top-level fields / keys it sets.
func genArgs(r *mon.Rand, kind string) (string, []string) {
	var ps []kv
	switch kind {
	case "struct", "ptr":
		p := mon.PickOne(r, []float64{0.15, 0.35, 0.35, 0.6, 0.9})
		if r.Prob(0.8) {
			ps = append(ps, kv{"q", qstr(r)})
		}
		if r.Prob(p) {
			ps = append(ps, kv{"tags", strArray(r, 0, 3)})
		}
		if r.Prob(p) {
			ps = append(ps, kv{"limit", strconv.Itoa(r.Range(1, 99))})
		}
		if r.Prob(p) {
			var ms []kv
			for _, k := range someKeys(r, 0.4) {
				ms = append(ms, kv{k, qstr(r)})
			}
			ps = append(ps, kv{"opts", object(r, ms)})
		}
		if r.Prob(p) {
			ps = append(ps, kv{"flag", mon.PickOne(r, []string{"true", "false"})})
		}
		if r.Prob(p) {
			ps = append(ps, kv{"sub", genSub(r)})
		}
		if r.Prob(p) {
			ps = append(ps, kv{"psub", genSub(r)})
		}
		if r.Prob(p) {
			n := r.Range(0, 3)
			xs := make([]string, n)
			for i := range xs {
				xs[i] = genSub(r)
			}
			ps = append(ps, kv{"list", "[" + strings.Join(xs, ",") + "]"})
		}
		if r.Prob(p) {
			var ms []kv
			for _, k := range someKeys(r, 0.4) {
				ms = append(ms, kv{k, genAnyValue(r, 0)})
			}
			ps = append(ps, kv{"extra", object(r, ms)})
		}
	case "map":
		for _, k := range someKeys(r, mon.PickOne(r, []float64{0.2, 0.4, 0.7})) {
			ps = append(ps, kv{k, genAnyValue(r, 0)})
		}
	case "mapstr":
		for _, k := range someKeys(r, mon.PickOne(r, []float64{0.2, 0.4, 0.7})) {
			ps = append(ps, kv{k, qstr(r)})
		}
	case "mapsub":
		for _, k := range someKeys(r, mon.PickOne(r, []float64{0.2, 0.4, 0.7})) {
			ps = append(ps, kv{k, genSub(r)})
		}
	}
	keys := make([]string, len(ps))
	for i, p := range ps {
		keys[i] = p.k
	}
	return object(r, ps), keys
}

func genTACase(r *mon.Rand) *taCase {
	c := &taCase{}
	nt := r.Range(1, 4)
	for i := 0; i < nt; i++ {
		t := taTool{
			Name:    fmt.Sprintf("ta%d_%s", i, r.Str(1, 4)),
			Build:   mon.PickOne(r, []string{"new", "new", "infer", "infer", "inferopt", "newstream", "inferstream", "inferoptstream"}),
			ArgKind: mon.PickOne(r, []string{"struct", "struct", "ptr", "ptr", "map", "mapstr", "mapsub"}),
			Salt:    r.Str(3, 6),
			Chunks:  1,
		}
		if t.streaming() {
			t.Chunks = r.Range(1, 3)
		}
		c.Tools = append(c.Tools, t)
	}
	c.UseToolList = r.Prob(0.2)
	c.UseChain = r.Prob(0.3)
	c.Callbacks = r.Prob(0.25)
	if r.Prob(0.4) {
		c.OptTag = r.Str(1, 3)
	}
	seenKeys := make([]map[string]bool, nt)
	for i := range seenKeys {
		seenKeys[i] = map[string]bool{}
	}
	nm := r.Range(2, 6)
	for m := 0; m < nm; m++ {
		n := mon.PickOne(r, []int{1, 1, 2, 3, 4, 6})
		var msg []taCall
		// most messages concentrate on one tool, so that it is called repeatedly
		fav := r.Intn(nt)
		for i := 0; i < n; i++ {
			ti := fav
			if r.Prob(0.35) {
				ti = r.Intn(nt)
			}
			args, keys := genArgs(r, c.Tools[ti].ArgKind)
			set := map[string]bool{}
			for _, k := range keys {
				set[k] = true
			}
			for _, k := range mon.SortedKeys(seenKeys[ti]) {
				if !set[k] {
					c.Omitting++
					break
				}
			}
			for _, k := range keys {
				seenKeys[ti][k] = true
			}
			msg = append(msg, taCall{Tool: ti, ID: fmt.Sprintf("m%dc%d_%s", m, i, r.Str(1, 3)), Args: args})
		}
		c.Msgs = append(c.Msgs, msg)
	}
	return c
}

// ---- running and judging ----

type taEnv struct {
	c       *taCase
	tools   []tool.BaseTool
	tn      *compose.ToolsNode
	gPlain  compose.Runnable[*schema.Message, msgList]
	gConcat compose.Runnable[*schema.Message, msgList]
	cb      *cbCounter
	wants   [][]want // per message, per call
}

func buildTAEnv(c *taCase) (*taEnv, error) {
	ctx := context.Background()
	e := &taEnv{c: c, cb: &cbCounter{}}
	for i := range c.Tools {
		t, err := c.Tools[i].build()
		if err != nil {
			return nil, fmt.Errorf("build %s (%s/%s): %w", c.Tools[i].Name, c.Tools[i].Build, c.Tools[i].ArgKind, err)
		}
		e.tools = append(e.tools, t)
	}
	conf := e.tools
	if c.UseToolList {
		conf = conf[:1] // the node is configured with the first tool only; the call brings the list
	}
	var err error
	if e.tn, err = compose.NewToolNode(ctx, &compose.ToolsNodeConfig{Tools: conf}); err != nil {
		return nil, err
	}
	if e.gPlain, err = compilePlain(ctx, e.tn, c.UseChain); err != nil {
		return nil, err
	}
	if e.gConcat, err = compileConcat(ctx, e.tn); err != nil {
		return nil, err
	}
	for _, msg := range c.Msgs {
		ws := make([]want, len(msg))
		for i, cl := range msg {
			t := &c.Tools[cl.Tool]
			v, err := t.fresh(cl.Args)
			if err != nil {
				return nil, fmt.Errorf("harness: generated arguments %s do not decode: %w", cl.Args, err)
			}
			var sb strings.Builder
			for _, o := range t.taOutputs(v, c.OptTag) {
				sb.WriteString(renderEcho(o))
			}
			ws[i] = want{ID: cl.ID, Content: sb.String(), Class: t.class()}
		}
		e.wants = append(e.wants, ws)
	}
	return e, nil
}

type taWitness struct {
	Case    *taCase `json:"case"`
	Mode    string  `json:"mode"`
	Round   int     `json:"round"`
	Message int     `json:"message"`
}

// runTA runs message j of the sequence in one mode against the real code.
func (k *checker) runTA(e *taEnv, j, mode int) *outcome {
	c := e.c
	o := &outcome{}
	ctx := context.Background()
	if c.Callbacks && !graphMode(mode) {
		ctx = callbacks.InitCallbacks(ctx, &callbacks.RunInfo{Name: "direct", Component: compose.ComponentOfToolsNode}, e.cb.handler())
	}
	var tnOpts []compose.ToolsNodeOption
	if c.UseToolList {
		tnOpts = append(tnOpts, compose.WithToolList(e.tools...))
	}
	if c.OptTag != "" {
		tnOpts = append(tnOpts, compose.WithToolOption(withTag(c.OptTag)))
	}
	var gOpts []compose.Option
	if len(tnOpts) > 0 {
		gOpts = append(gOpts, compose.WithToolsNodeOption(tnOpts...))
	}
	if c.Callbacks {
		gOpts = append(gOpts, compose.WithCallbacks(e.cb.handler()))
	}
	tcs := make([]schema.ToolCall, len(c.Msgs[j]))
	for i, cl := range c.Msgs[j] {
		tcs[i] = schema.ToolCall{ID: cl.ID, Type: "function", Function: schema.FunctionCall{Name: c.Tools[cl.Tool].Name, Arguments: cl.Args}}
	}
	msg := schema.AssistantMessage("", tcs)
	n := len(tcs)
	done := make(chan struct{})
	go func() {
		defer close(done)
		o.Panic = mon.Safe(func() {
			switch mode {
			case mDirectInvoke:
				o.Msgs, o.Err = e.tn.Invoke(ctx, msg, tnOpts...)
			case mGraphInvoke:
				o.Msgs, o.Err = e.gPlain.Invoke(ctx, msg, gOpts...)
			default:
				var sr *schema.StreamReader[msgList]
				switch mode {
				case mDirectStream:
					sr, o.Err = e.tn.Stream(ctx, msg, tnOpts...)
				case mGraphStream:
					sr, o.Err = e.gPlain.Stream(ctx, msg, gOpts...)
				default:
					sr, o.Err = e.gConcat.Stream(ctx, msg, gOpts...)
				}
				if o.Err == nil {
					if sr == nil {
						o.Shape = append(o.Shape, "nil-stream")
						return
					}
					consume(sr, n, o)
				}
			}
		})
	}()
	if res, dump := await(done); res != mon.Finished {
		if res == mon.Stuck {
			k.rep.Violation("C17/hang/"+modeNames[mode]+"/typed-args",
				"process quiescent while the tools node call is unfinished (ungated tools that return at once)\n"+dumpText(dump),
				taWitness{Case: c, Mode: modeNames[mode], Message: j})
		} else {
			k.rep.Inconclusive("watchdog fired in " + modeNames[mode] + " (typed-args)")
		}
		k.dead = true
		return nil
	}
	return o
}

// judgeTA compares the outcome for message j with the reference; reports at most
// one violation per signature and case (seen).
func (k *checker) judgeTA(e *taEnv, j, mode, round int, o *outcome, seen map[string]bool) bool {
	m := modeNames[mode]
	w := taWitness{Case: e.c, Mode: m, Round: round, Message: j}
	bad := func(sig, detail string) {
		if !seen[sig] {
			seen[sig] = true
			k.rep.Violation(sig, detail, w)
		}
	}
	if o.Panic != nil {
		bad("C17/panic-escaped/"+m+"/"+panicSite(o.Panic), "no tool panicked, yet the call panicked: "+o.Panic.Value+"\n"+o.Panic.Stack)
		return false
	}
	if err := o.anyErr(); err != nil {
		bad("C17/unexpected-error/"+m+"/typed-args", "every tool succeeded, yet the call failed: "+err.Error())
		return false
	}
	for _, s := range o.Shape {
		bad("C17/stream-shape/"+m+"/"+s, "streamed lists are not position-wise concatenable: "+s)
	}
	ws := e.wants[j]
	if len(o.Msgs) != len(ws) {
		bad("C17/wrong-count/"+m, fmt.Sprintf("%d tool calls, %d tool messages", len(ws), len(o.Msgs)))
		return false
	}
	ok := len(o.Shape) == 0
	for i, wt := range ws {
		g := o.Msgs[i]
		switch {
		case g == nil:
			bad("C17/missing-answer/"+m, fmt.Sprintf("no message for call %d (%s)", i, wt.Class))
		case g.Role != schema.Tool:
			bad("C17/wrong-role/"+m, fmt.Sprintf("message %d has role %q", i, g.Role))
		case g.ToolCallID != wt.ID:
			bad("C17/wrong-id/"+m, fmt.Sprintf("message %d carries id %q, call %d has id %q", i, g.ToolCallID, i, wt.ID))
		case g.Content != wt.Content:
			cl := e.c.Msgs[j][i]
			bad("C17/wrong-output/"+m+"/"+wt.Class, fmt.Sprintf(
				"message %d of the sequence, call %d = %s(%s):\n got  %s\n want %s\n(want = the tool's function on these arguments decoded into a fresh value; earlier calls of the same tool on this node had other arguments)",
				j, i, e.c.Tools[cl.Tool].Name, cl.Args, g.Content, wt.Content))
		default:
			continue
		}
		ok = false
	}
	return ok
}

// runTACase: the whole sequence five times; in round k message j runs in mode
// (k+j) mod 5, so every message is answered in every mode and successive messages
// reach the same tool instances through different paths.
func (k *checker) runTACase(e *taEnv) {
	rep := k.rep
	seen := map[string]bool{}
	allOK := true
	for round := 0; round < nModes; round++ {
		for j := range e.c.Msgs {
			if k.dead {
				return
			}
			mode := (round + j) % nModes
			o := k.runTA(e, j, mode)
			rep.AddEvaluations(1)
			if o == nil {
				return
			}
			if k.judgeTA(e, j, mode, round, o, seen) {
				rep.Count("typed_args_runs_matching_reference", 1)
				rep.Count("typed_args_answers_compared", int64(len(e.c.Msgs[j])))
				rep.Count("typed_args_runs_"+modeNames[mode], 1)
			} else {
				allOK = false
			}
		}
	}
	rep.Count("typed_args_cases", 1)
	rep.Count("typed_args_calls_omitting_what_an_earlier_call_of_the_tool_set", int64(e.c.Omitting)*nModes)
	for _, t := range e.c.Tools {
		rep.Count("typed_args_tools_"+t.Build+"_"+t.ArgKind, 1)
	}
	if allOK && e.c.Omitting > 0 {
		rep.NonTrivial(e.c.digest())
	}
}
