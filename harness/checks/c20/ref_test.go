package c20

import (
	"fmt"
	"sort"
	"strings"
)

// ---------------------------------------------------------------------------
// Reference well-formedness checker. Written from the property statement and
// DESIGN.md §4 C20 ("Reference rules"): it never looks at eino objects, only at
// the Op values. predict(op) returns
//   na   – the call has no observable result (builder-style API), or
//   rule – "" if the call must be accepted, otherwise the name of the rule that
//          makes it ill-formed (the call must then return an error).
// ---------------------------------------------------------------------------

type rnode struct {
	pass    bool
	in, out int // the node's own types (a passthrough: tNone until inferred, then in == out)
	// WithInputKey / WithOutputKey: towards its neighbours that side of the node is a map[string]any,
	// whatever the node's own type is
	inKey, outKey bool
}

// a data connection that cannot be judged yet: both ends untyped passthrough nodes, or a connection
// with a field mapping that has an untyped end (a mapping transports a part of the value: it tells
// nothing about the type of a passthrough node at either end)
type rpending struct {
	from, to     string
	fromF, field string
}

type rchild struct {
	key string
	sub *Sub
	ref reference
}

type rbranch struct {
	from string
	ends []string
}

type refGraph struct {
	fe       string // graph | chain | workflow
	hasState bool
	inT      int
	outT     int

	nodes    map[string]*rnode
	ctrl     map[[2]string]bool
	data     map[[2]string]bool
	pending  []rpending
	branches []rbranch
	children []*rchild // graphs added as nodes, in the order of their keys at Compile
	startSet bool
	endSet   bool

	buildErr bool // an Add* call failed: everything fails from now on
	compiled bool
}

func newRefGraph(fe string, hasState bool) *refGraph {
	return &refGraph{fe: fe, hasState: hasState, inT: tStr, outT: tStr,
		nodes: map[string]*rnode{}, ctrl: map[[2]string]bool{}, data: map[[2]string]bool{}}
}

// assignable is false when the two types must-not be connected: identical types and a type that
// implements the downstream interface must fit; an interface upstream whose dynamic value may be of
// the downstream type may fit (checked at run time) - both are accepted when the connection is made.
func assignable(out, in int) bool {
	if out == in {
		return true
	}
	implements := func(t, iface int) bool {
		switch iface {
		case tAny:
			return true
		case tFoo, tBar:
			return t == tT
		}
		return false
	}
	if isIfaceT(in) && implements(out, in) {
		return true // must
	}
	if isIfaceT(out) && implements(in, out) {
		return true // may
	}
	return false
}

func (g *refGraph) outType(n string) int {
	switch n {
	case "start":
		return g.inT
	case "end":
		return g.outT
	}
	if g.nodes[n].outKey {
		return tMap
	}
	return g.nodes[n].out
}

func (g *refGraph) inType(n string) int {
	switch n {
	case "start":
		return g.inT
	case "end":
		return g.outT
	}
	if g.nodes[n].inKey {
		return tMap
	}
	return g.nodes[n].in
}

func (g *refGraph) known(n string) bool {
	_, ok := g.nodes[n]
	return ok
}

// gate implements "first error sticks" and "compiled graphs are immutable".
func (g *refGraph) gate() string {
	if g.buildErr {
		return "sticky"
	}
	if g.compiled {
		return "compiled"
	}
	return ""
}

func (g *refGraph) fail(rule string) string {
	g.buildErr = true
	return rule
}

func (g *refGraph) addNode(key string, pass bool, in, out int, h hSpec) string {
	if r := g.gate(); r != "" {
		return r
	}
	if key == "start" || key == "end" {
		return g.fail("reserved-key")
	}
	if g.known(key) {
		return g.fail("duplicate-key")
	}
	if h.needState && !g.hasState {
		return g.fail("state-handler-without-state")
	}
	if h.nodeKey != "" && g.fe != "chain" {
		return g.fail("node-key-option-outside-chain")
	}
	if h.needState {
		if h.wrongState {
			return g.fail("handler-state-type")
		}
		if h.wrongValue {
			if pass {
				return g.fail("passthrough-handler-not-any")
			}
			return g.fail("handler-value-type")
		}
	}
	g.nodes[key] = &rnode{pass: pass, in: in, out: out, inKey: h.inKey, outKey: h.outKey}
	return ""
}

// addChild: a graph added as a node. Adding it never looks into it; it is compiled, with the options
// given to the node, by every Compile of this graph.
func (g *refGraph) addChild(key string, sub *Sub, h hSpec) string {
	if rule := g.addNode(key, false, tStr, tStr, h); rule != "" {
		return rule
	}
	c := &rchild{key: key, sub: sub, ref: newReference(sub.FE, false)}
	for _, op := range sub.Ops {
		c.ref.predict(op)
	}
	if sub.Pre {
		// compiled standalone first: Compile does not change what was built, whatever its outcome
		c.ref.predict(Op{K: "K"})
	}
	g.children = append(g.children, c)
	sort.Slice(g.children, func(i, j int) bool { return g.children[i].key < g.children[j].key })
	return ""
}

// fieldType: the type found at field f of type t ("" = t itself); ok=false: t has no such field.
func fieldType(t int, f string) (int, bool) {
	if f == "" {
		return t, true
	}
	switch t {
	case tIn:
		if f == "X" || f == "Y" {
			return tStr, true
		}
	case tMap:
		return tAny, true
	}
	return tNone, false
}

// mappingFits: may a value taken at fromF of type o be assigned to field of type i.
func mappingFits(o, i int, fromF, field string) bool {
	src, ok := fieldType(o, fromF)
	if !ok {
		return false
	}
	dst, ok := fieldType(i, field)
	if !ok && field != "" && i == tAny {
		// a field of an input declared as `any`: the input is put together as a map at request time
		dst, ok = tAny, true
	}
	if !ok {
		return false
	}
	// an `any` taken out of a map may hold the right type (checked at request time)
	return assignable(src, dst)
}

// resolve validates / infers the types along one data connection.
func (g *refGraph) resolve(from, to, fromF, field string) string {
	g.pending = append(g.pending, rpending{from, to, fromF, field})
	return g.propagate()
}

// propagate judges the parked connections as far as the types are known, and pushes freshly inferred
// passthrough types along them, whatever the order in which the connections were made.
func (g *refGraph) propagate() string {
	for changed := true; changed; {
		changed = false
		rest := g.pending[:0:0]
		for _, e := range g.pending {
			o, i := g.outType(e.from), g.inType(e.to)
			mapped := e.fromF != "" || e.field != ""
			switch {
			case o == tNone && i == tNone, mapped && (o == tNone || i == tNone):
				rest = append(rest, e)
			case i == tNone:
				n := g.nodes[e.to]
				n.in, n.out = o, o
				changed = true
			case o == tNone:
				n := g.nodes[e.from]
				n.in, n.out = i, i
				changed = true
			case mapped:
				if !mappingFits(o, i, e.fromF, e.field) {
					return "type-mismatch"
				}
			default:
				if !assignable(o, i) {
					return "type-mismatch"
				}
			}
		}
		g.pending = rest
	}
	return ""
}

func (g *refGraph) addEdge(from, to string, noControl, noData bool, fromF, field string) string {
	if r := g.gate(); r != "" {
		return r
	}
	if from == "end" {
		return g.fail("edge-from-end")
	}
	if to == "start" {
		return g.fail("edge-to-start")
	}
	if from != "start" && !g.known(from) {
		return g.fail("unknown-node")
	}
	if to != "end" && !g.known(to) {
		return g.fail("unknown-node")
	}
	e := [2]string{from, to}
	if !noControl {
		if g.ctrl[e] {
			return g.fail("duplicate-edge")
		}
		g.ctrl[e] = true
		if from == "start" {
			g.startSet = true
		}
		if to == "end" {
			g.endSet = true
		}
	}
	if !noData {
		if g.data[e] {
			return g.fail("duplicate-edge")
		}
		if r := g.resolve(from, to, fromF, field); r != "" {
			return g.fail(r)
		}
		g.data[e] = true
	}
	return ""
}

func (g *refGraph) addBranch(from string, cond int, ends []string, skipData bool) string {
	if r := g.gate(); r != "" {
		return r
	}
	if from == "end" {
		return g.fail("branch-from-end")
	}
	if from != "start" && !g.known(from) {
		return g.fail("unknown-node")
	}
	// the targets of a branch are a set
	distinct := map[string]bool{}
	for _, e := range ends {
		distinct[e] = true
	}
	if len(distinct) == 0 {
		return g.fail("zero-target-branch")
	}
	if len(distinct) == 1 {
		return g.fail("single-target-branch")
	}
	if from != "start" && g.nodes[from].pass {
		n := g.nodes[from]
		if n.out == tNone {
			// the condition's input type is the first thing that tells the type of the passthrough
			n.in, n.out = cond, cond
			if r := g.propagate(); r != "" {
				return g.fail(r)
			}
		} else if !assignable(n.out, cond) && !n.outKey {
			// the passthrough already carries another type (inferred from its neighbours)
			return g.fail("branch-condition-type-vs-inferred-passthrough")
		}
	}
	if !assignable(g.outType(from), cond) {
		return g.fail("branch-condition-type-mismatch")
	}
	if !skipData {
		for _, e := range sortedCopy(ends) {
			if e != "end" && !g.known(e) {
				return g.fail("unknown-node")
			}
		}
		for _, e := range sortedCopy(ends) {
			if r := g.resolve(from, e, "", ""); r != "" {
				return g.fail(r)
			}
			if from == "start" {
				g.startSet = true
			}
			if e == "end" {
				g.endSet = true
			}
		}
	}
	g.branches = append(g.branches, rbranch{from: from, ends: append([]string(nil), ends...)})
	return ""
}

const keyedOnBothSides = "uninferred-passthrough/keyed-on-both-sides"

type kOpt struct {
	mode   string // "", all, any
	max    bool
	before []string // WithInterruptBeforeNodes: the last such option wins
	after  []string
}

// parseK: "+"-separated option names; name and store have no influence on well-formedness.
// ib=<key>[,<key>] / ia=<key>[,<key>]: interrupt before / after these nodes.
func parseK(opt string) kOpt {
	var k kOpt
	for _, o := range strings.Split(opt, "+") {
		switch {
		case o == "all", o == "any":
			k.mode = o // the last trigger-mode option wins
		case o == "max":
			k.max = true
		case strings.HasPrefix(o, "ib="):
			k.before = strings.Split(o[3:], ",")
		case strings.HasPrefix(o, "ia="):
			k.after = strings.Split(o[3:], ",")
		}
	}
	return k
}

// cycleKind: "" if the graph is acyclic, otherwise which kinds of connections are needed to close a
// loop. Every kind of connection makes its target wait for its source in all-predecessor mode:
//
//	edge        a connection that carries control (Graph.AddEdge, Workflow AddInput)
//	dependency  Workflow AddDependency (control only) - for the cycle check the same as an edge
//	branch      a branch target
//	data-only   Workflow AddInputWithOptions(WithNoDirectDependency()): the target waits for the value
func (g *refGraph) cycleKind() string {
	type conn struct{ from, to string }
	var edges, branches, dataOnly []conn
	for e := range g.ctrl {
		if e[0] != "start" && e[1] != "end" {
			edges = append(edges, conn{e[0], e[1]})
		}
	}
	for _, b := range g.branches {
		if b.from == "start" {
			continue
		}
		for _, e := range b.ends {
			if e != "end" && g.known(e) {
				branches = append(branches, conn{b.from, e})
			}
		}
	}
	for e := range g.data {
		if e[0] != "start" && e[1] != "end" && !g.ctrl[e] {
			dataOnly = append(dataOnly, conn{e[0], e[1]})
		}
	}
	cyclic := func(sets ...[]conn) bool {
		succ := map[string][]string{}
		for _, set := range sets {
			for _, c := range set {
				succ[c.from] = append(succ[c.from], c.to)
			}
		}
		color := map[string]int{}
		var visit func(n string) bool
		visit = func(n string) bool {
			color[n] = 1
			for _, s := range succ[n] {
				if color[s] == 1 {
					return true
				}
				if color[s] == 0 && visit(s) {
					return true
				}
			}
			color[n] = 2
			return false
		}
		for k := range g.nodes {
			if color[k] == 0 && visit(k) {
				return true
			}
		}
		return false
	}
	switch {
	case cyclic(edges):
		return "cycle-in-all-predecessor-mode"
	case cyclic(edges, branches):
		return "cycle-in-all-predecessor-mode/closed-by-branch"
	case cyclic(edges, dataOnly):
		return "cycle-in-all-predecessor-mode/closed-by-data-only-input"
	case cyclic(edges, branches, dataOnly):
		return "cycle-in-all-predecessor-mode/closed-by-branch-and-data-only-input"
	}
	return ""
}

// compile: errors of Compile describe an incomplete graph or a bad option set;
// they do not poison the builder (only Add* errors stick).
func (g *refGraph) compile(opt string) string {
	if g.buildErr {
		return "sticky"
	}
	k := parseK(opt)
	if (g.fe == "chain" || g.fe == "workflow") && k.mode != "" {
		return "trigger-mode-on-chain-or-workflow"
	}
	if !g.startSet {
		return "no-entry-edge"
	}
	if !g.endSet {
		return "no-exit-edge"
	}
	if len(g.pending) > 0 {
		return "uninferred-passthrough"
	}
	// a passthrough node's own type is only ever told by a neighbour; a side with an input / output key
	// is a map towards the neighbours and hides the node from them: with both keys nothing can tell it
	both := false
	for _, n := range g.nodes {
		if n.pass && n.out == tNone {
			if !(n.inKey && n.outKey) {
				return "uninferred-passthrough"
			}
			both = true
		}
	}
	if both {
		return keyedOnBothSides
	}
	// graphs added as nodes are compiled with the options given to their node; all of them are looked at
	// (which of several ill-formed ones is met first depends on the implementation's order: the first in
	// key order is named, except that keyedOnBothSides is always named if it is among them)
	childRule := ""
	for _, c := range g.children {
		if _, rule := c.ref.predict(Op{K: "K", Opt: c.sub.Opt}); rule != "" {
			if childRule == "" || (strings.HasSuffix(rule, keyedOnBothSides) && !strings.HasSuffix(childRule, keyedOnBothSides)) {
				childRule = "nested-" + c.sub.FE + "/" + rule
			}
		}
	}
	if childRule != "" {
		return childRule
	}
	dag := k.mode == "all" || g.fe == "workflow"
	if dag {
		if kind := g.cycleKind(); kind != "" {
			return kind
		}
	}
	// interrupt points are given by node key: a key that names no node of THIS graph (a typo, START,
	// END, a node of a nested graph) is an unknown node key
	for _, keys := range [][]string{k.before, k.after} {
		for _, key := range keys {
			if !g.known(key) {
				return "unknown-interrupt-node"
			}
		}
	}
	if dag && k.max {
		return "max-steps-in-all-predecessor-mode"
	}
	g.compiled = true
	return ""
}

// ---------------------------------------------------------------------------

type reference interface {
	predict(op Op) (na bool, rule string)
	// everCompiled: a Compile has succeeded earlier in the sequence
	everCompiled() bool
}

func newReference(fe string, state bool) reference {
	switch fe {
	case "chain":
		return &refChain{g: newRefGraph("chain", state)}
	case "workflow":
		return &refWF{g: newRefGraph("workflow", state), handles: map[string]*refWFNode{}}
	}
	return &refG{g: newRefGraph("graph", state)}
}

// ---- Graph front end: every call reports its own error.
type refG struct{ g *refGraph }

func (r *refG) everCompiled() bool { return r.g.compiled }

func (r *refG) predict(op Op) (bool, string) {
	switch op.K {
	case "L":
		in, out := lambdaTypes(op.Typ)
		return false, r.g.addNode(op.Key, false, in, out, parseH(op.H))
	case "P":
		return false, r.g.addNode(op.Key, true, tNone, tNone, parseH(op.H))
	case "GN":
		return false, r.g.addChild(op.Key, op.Sub, parseH(op.H))
	case "E":
		return false, r.g.addEdge(op.From, op.To, false, false, "", "")
	case "B":
		return false, r.g.addBranch(op.From, condType(op.Cond), op.Ends, false)
	case "K":
		return false, r.g.compile(op.Opt)
	}
	panic("refG: unknown op " + op.K)
}

// ---- Chain front end: Append* never report; the first problem is deferred to Compile.
type refChain struct {
	g      *refGraph
	err    bool
	cause  string // why the chain is broken (first problem)
	pre    []string
	idx    int
	hasEnd bool
}

func (r *refChain) broken(cause string) (bool, string) {
	if !r.err {
		r.err, r.cause = true, cause
	}
	return true, ""
}

func (r *refChain) everCompiled() bool { return r.g.compiled }

func (r *refChain) nextKey() string {
	k := fmt.Sprintf("node_%d", r.idx)
	r.idx++
	return k
}

func (r *refChain) startOfGroup() (string, bool) {
	switch len(r.pre) {
	case 0:
		return "start", true
	case 1:
		return r.pre[0], true
	}
	return "", false
}

func (r *refChain) predict(op Op) (bool, string) {
	switch op.K {
	case "CL", "CP", "CG":
		if r.err {
			return true, ""
		}
		if r.g.compiled {
			return r.broken("appended-after-compile")
		}
		h := parseH(op.H)
		key := r.nextKey()
		if h.nodeKey != "" {
			key = h.nodeKey
		}
		in, out := lambdaTypes(op.Typ)
		pass := op.K == "CP"
		if pass {
			in, out = tNone, tNone
		}
		if op.K == "CG" {
			if rule := r.g.addChild(key, op.Sub, h); rule != "" {
				return r.broken(rule)
			}
		} else if rule := r.g.addNode(key, pass, in, out, h); rule != "" {
			return r.broken(rule)
		}
		if len(r.pre) == 0 {
			r.pre = []string{"start"}
		}
		for _, p := range r.pre {
			if rule := r.g.addEdge(p, key, false, false, "", ""); rule != "" {
				return r.broken(rule)
			}
		}
		r.pre = []string{key}
		return true, ""
	case "CPar":
		if op.N < 0 {
			return r.broken("nil-parallel")
		}
		if op.N <= 1 {
			return r.broken("parallel-with-less-than-two-members")
		}
		start, ok := r.startOfGroup()
		if !ok {
			return r.broken("group-after-several-open-ends")
		}
		prefix := r.nextKey()
		var keys []string
		for i := 0; i < op.N; i++ {
			key := fmt.Sprintf("%s_parallel_%d", prefix, i)
			// a member with an output key produces map[string]any
			if rule := r.g.addNode(key, false, tStr, tMap, hSpec{}); rule != "" {
				return r.broken(rule)
			}
			if rule := r.g.addEdge(start, key, false, false, "", ""); rule != "" {
				return r.broken(rule)
			}
			keys = append(keys, key)
		}
		r.pre = keys
		return true, ""
	case "CBr":
		if op.N < 0 {
			return r.broken("nil-branch")
		}
		if op.N <= 1 {
			return r.broken("branch-with-less-than-two-members")
		}
		start, ok := r.startOfGroup()
		if !ok {
			return r.broken("group-after-several-open-ends")
		}
		prefix := r.nextKey()
		var keys []string
		for i := 0; i < op.N; i++ {
			key := fmt.Sprintf("%s_branch_b%d", prefix, i)
			if rule := r.g.addNode(key, false, tStr, tStr, hSpec{}); rule != "" {
				return r.broken(rule)
			}
			keys = append(keys, key)
		}
		if rule := r.g.addBranch(start, condType(op.Cond), keys, false); rule != "" {
			return r.broken(rule)
		}
		r.pre = keys
		return true, ""
	case "K":
		if !r.g.compiled { // a compiled chain stays what it was; later Append* were refused
			if r.err && r.hasEnd {
				// an earlier Compile connected END and then failed for another reason; the
				// problem recorded since then must still be reported
				return false, "chain-deferred-error-after-earlier-failed-compile"
			}
			if r.err {
				return false, "chain-deferred-error/" + r.cause
			}
			if !r.hasEnd {
				if len(r.pre) == 0 {
					return false, "chain-without-nodes"
				}
				for _, p := range r.pre {
					if rule := r.g.addEdge(p, "end", false, false, "", ""); rule != "" {
						return false, rule
					}
				}
				r.hasEnd = true
			}
		}
		return false, r.g.compile(op.Opt)
	}
	panic("refChain: unknown op " + op.K)
}

// ---- Workflow front end: Add*/AddInput never report; everything is deferred to Compile.
type refWFNode struct {
	key    string
	inputs []WIn
	svs    []string        // static values declared on the handle and not yet handed to the graph
	lateSV bool            // a static value declared after a successful Compile: refused like a late input
	svDone map[string]bool // fields whose source is a static value that has been handed to the graph
	// which parts of the node's input have been given a source
	whole  bool
	fields map[string]bool
	any    bool
}

type refWFBranch struct {
	from string
	ends []string
	cond int
}

type refWF struct {
	g        *refGraph
	handles  map[string]*refWFNode
	order    []string // node keys in the order of their first declaration (End() included)
	branches []refWFBranch
	// late: a branch or a node was declared after a successful Compile. Like an input or a static value
	// declared then (which are refused when Compile replays them), it must be reported by every later Compile.
	late string
}

func (r *refWF) declared(key string) {
	if _, ok := r.handles[key]; !ok {
		r.order = append(r.order, key)
	}
}

func (r *refWF) everCompiled() bool { return r.g.compiled }

func (r *refWF) predict(op Op) (bool, string) {
	switch op.K {
	case "WN":
		var h *refWFNode
		switch {
		case op.Key == "end" && op.Typ == "":
			h = r.handles["end"]
			if h == nil {
				r.declared("end")
				h = &refWFNode{key: "end", fields: map[string]bool{}}
				r.handles["end"] = h
			}
		case op.Typ == "":
			h = r.handles[op.Key]
			if h == nil {
				return true, "" // no handle to call AddInput on: the call is not made
			}
		default:
			in, out := lambdaTypes(op.Typ)
			if op.Typ == "P" {
				in, out = tNone, tNone
			}
			if op.Typ == "G" {
				_ = r.g.addChild(op.Key, op.Sub, parseH(op.H))
			} else {
				_ = r.g.addNode(op.Key, op.Typ == "P", in, out, parseH(op.H))
			}
			r.declared(op.Key)
			h = &refWFNode{key: op.Key, fields: map[string]bool{}}
			r.handles[op.Key] = h
			if r.g.compiled && r.late == "" {
				r.late = "Add-Node"
			}
		}
		h.inputs = append(h.inputs, op.In...)
		if op.SV != "" {
			if r.g.compiled {
				h.lateSV = true
			} else {
				h.svs = append(h.svs, op.SV)
			}
		}
		return true, ""
	case "WB":
		if r.g.compiled {
			if r.late == "" {
				r.late = "AddBranch"
			}
			return true, ""
		}
		r.branches = append(r.branches, refWFBranch{from: op.From, ends: append([]string(nil), op.Ends...), cond: condType(op.Cond)})
		return true, ""
	case "K":
		// a branch towards a node that was never declared makes every Compile fail; it is
		// named first because which other declaration problem is met first depends on the
		// order in which the implementation visits the nodes
		for _, b := range r.branches {
			for _, e := range sortedCopy(b.ends) {
				if e != "end" && r.handles[e] == nil {
					return false, "branch-unknown-end-node"
				}
			}
		}
		if r.g.buildErr {
			return false, "sticky"
		}
		if r.late != "" {
			return false, "compiled/late-" + r.late
		}
		// a declared branch is handed to the graph once
		for _, b := range r.branches {
			_ = r.g.addBranch(b.from, b.cond, b.ends, true)
		}
		r.branches = nil
		// The declared inputs are replayed node by node in the order in which the nodes were declared
		// (a pass-through node takes its type from the first typed neighbour it is connected to, so the
		// order matters once interface types are involved).
		// A declaration that fails stays queued on its handle together with what the handle has
		// recorded so far, so it fails again at the next Compile (until the handle is replaced by
		// declaring the node again).
		for _, k := range r.order {
			h := r.handles[k]
			if h.lateSV {
				return false, "compiled"
			}
			for _, in := range h.inputs {
				if in.Mode != "dep" {
					if h.whole {
						return false, "input-declaration-conflict"
					}
					if in.Field == "" {
						// the whole input (also FromField): conflicts with anything declared before
						if h.any {
							return false, "input-declaration-conflict"
						}
						h.whole = true
					} else {
						if h.fields[in.Field] {
							return false, "input-declaration-conflict"
						}
						h.fields[in.Field] = true
					}
					h.any = true
				}
				if rule := r.g.addEdge(in.From, k, in.Mode == "nd", in.Mode == "dep", in.FromF, in.Field); rule != "" {
					return false, rule
				}
			}
			h.inputs = nil
		}
		// static values: checked against the node's input type, and they take part in the "one source per
		// part of the input" rule like mapped inputs; handed to the graph once
		for _, k := range r.order {
			h := r.handles[k]
			if len(h.svs) == 0 {
				continue
			}
			t := tStr // END
			if k != "end" {
				if !r.g.known(k) {
					continue
				}
				t = r.g.inType(k)
			}
			for _, f := range h.svs {
				switch {
				case t == tNone, t == tMap, t == tAny:
				case t == tIn && (f == "X" || f == "Y"):
				default:
					return false, "static-value-invalid"
				}
			}
			// (a static value that is set again replaces the earlier one, whether or not a Compile that
			// failed lies in between: Compile does not change what was built)
			for _, f := range h.svs {
				if h.whole || (h.fields[f] && !h.svDone[f]) {
					return false, "input-declaration-conflict"
				}
			}
			for _, f := range h.svs {
				if h.svDone == nil {
					h.svDone = map[string]bool{}
				}
				h.fields[f], h.svDone[f] = true, true
				h.any = true
			}
			h.svs = nil
		}
		return false, r.g.compile(op.Opt)
	}
	panic("refWF: unknown op " + op.K)
}
