package c20

import (
	"errors"
	"fmt"
	"strings"

	"github.com/cloudwego/eino/compose"
	"verifharness/internal/mon"
)

// ---------------------------------------------------------------------------
// Coverage round 4: builder calls after an earlier Compile (findings chain-append-after-failed-compile,
// chain-append-after-compile; the Workflow twins workflow-addbranch-after-compile, adding a node to a
// compiled Workflow, a static value set again after a failed Compile).
//
// The class: a caller compiles a builder, the Compile fails or succeeds, the caller goes on calling
// Append* / Add* / Set* and compiles again. Whatever is called then must either take effect in the next
// Compile or be reported by it - nothing is silently swallowed, and nothing is reported that the same
// builder calls without the earlier Compile would accept.
//
// Why the older workloads were blind for the Chain half: the reference *mirrors* eino's chain (END is
// connected by the first Compile, a compiled chain "stays what it was"), so a stage appended after a
// failed Compile hung beside END in the reference as well, and an Append* on a compiled chain was
// expected to leave Compile successful. The oracle of this workload uses no reference at all:
//
//   history run   seg0 K0 seg1 K1 ... segn Kn   on one builder (every call under mon.Safe)
//   flat run i    seg0 seg1 ... segi Ki         on fresh objects (the same builder calls, one Compile)
//
//   * no call panics;
//   * while no Compile has succeeded yet: Ki rejects what flat run i rejects; Ki accepts what flat run i
//     accepts (a Chain may refuse instead, but only if something was appended after a failed Compile: the
//     first Compile of a chain connects END, the repair of chain-append-after-failed-compile closes the
//     chain then) and the two runnables behave alike (3 inputs, Invoke and Stream, executed node bodies and
//     branch conditions; persistence rule of immut.confirm);
//   * once a Compile has succeeded: a Graph call returns ErrGraphCompiled; after a Chain / Workflow call
//     that declares something every later Compile returns an error (these calls have no error result, the
//     next Compile is the only place where the refusal can show); the first runnable behaves as before after
//     every call; a later successful Compile with run-time-equivalent options gives a runnable that behaves
//     like the first one.
//
// Not compared with the flat run: a Workflow history in which a Compile failed while a queued declaration
// named a node that was not declared yet (the replay refuses that declaration and the refusal sticks like
// every Add* error, whereas the flat construction compiles; counted).
// ---------------------------------------------------------------------------

type laterCase struct {
	FE    string   `json:"front_end"`
	State bool     `json:"with_state"`
	Ops   []Op     `json:"-"`
	Text  string   `json:"calls"`
	Tags  []string `json:"features"`
}

func (lc *laterCase) tag(t string) {
	for _, x := range lc.Tags {
		if x == t {
			return
		}
	}
	lc.Tags = append(lc.Tags, t)
}

func (lc *laterCase) digest() string {
	st := "-"
	if lc.State {
		st = "S"
	}
	return "later/" + lc.FE + "/" + st + "/" + lc.Text
}

type laterWitness struct {
	Case     *laterCase `json:"case"`
	Position int        `json:"position"`
	Call     string     `json:"call"`
	Vector   string     `json:"outcome_vector"`
	Flat     string     `json:"same_builder_calls_without_the_earlier_compile_calls,omitempty"`
	Note     string     `json:"note,omitempty"`
}

// laterName: the API method(s) behind a call, for signatures. A node added under one of the reserved keys
// (START, END) is a class of its own: the Workflow treats the END handle specially (End() creates it lazily).
func laterName(op Op) string {
	if laterReservedAdd(op) {
		// one class whatever the Add*Node method (they share the code path; the methods are counted)
		return "AddNode-under-reserved-key-" + op.Key
	}
	return laterMethod(op)
}

func laterReservedAdd(op Op) bool {
	if op.Key != "end" && op.Key != "start" {
		return false
	}
	switch op.K {
	case "WN":
		return op.Typ != ""
	case "L", "P", "GN", "GC":
		return true
	}
	return false
}

func laterMethod(op Op) string {
	switch op.K {
	case "CC":
		return "Append" + componentMethod(op.Typ)
	case "GC":
		return "Add" + strings.TrimSuffix(componentMethod(op.Typ), "Node") + "Node"
	case "WN":
		switch {
		case strings.HasPrefix(op.Typ, "C:"):
			return "Add" + strings.TrimSuffix(componentMethod(op.Typ[2:]), "Node") + "Node"
		case op.Typ == "P":
			return "AddPassthroughNode"
		case op.Typ == "G":
			return "AddGraphNode"
		case op.Typ != "":
			return "AddLambdaNode"
		}
		who := "WorkflowNode"
		if op.Key == "end" {
			who = "End"
		}
		if len(op.In) > 0 {
			switch op.In[0].Mode {
			case "dep":
				return who + ".AddDependency"
			case "nd":
				return who + ".AddInputWithOptions"
			}
			return who + ".AddInput"
		}
		if op.SV != "" {
			return who + ".SetStaticValue"
		}
		return who
	case "CPar":
		if op.N < 0 {
			return "AppendParallel-nil"
		}
	case "CBr":
		if op.N < 0 {
			return "AppendBranch-nil"
		}
	}
	return callName(op)
}

// laterDeclares: does the call declare anything (a Workflow handle that is merely fetched does not)?
func laterDeclares(op Op, declared map[string]bool) bool {
	if op.K == "K" {
		return false
	}
	if op.K == "WN" && op.Typ == "" {
		if op.Key != "end" && !declared[op.Key] {
			return false // the executor has no handle to call anything on
		}
		return len(op.In) > 0 || op.SV != ""
	}
	return true
}

// ---- generation --------------------------------------------------------------------

var laterSubs = []*Sub{subGraphLine, subChainLine, subWfLine, subOpt(subGraphLine, "name"), subOpt(subWfLine, "name"), subGraphBranch, subWfBranch, subPre(subChainLine)}

func tagged(op Op, tag string) Op { op.Key = tag; return op }

// laterChain: the stages of a well-formed chain string → string.
func laterChain(r *mon.Rand, lc *laterCase) []Op {
	var ops []Op
	tags := []string{"a", "b", "c", "d", "e", "f", "g", "h"}
	nt := 0
	lam := func(typ string) Op {
		t := tags[nt%len(tags)]
		nt++
		return tagged(CL(typ), t)
	}
	usedKey := false
	n := r.Range(1, 5)
	for len(ops) < n || len(ops) == 0 {
		switch k := r.Intn(24); {
		case k >= 20:
			ops = append(ops, componentGroup(r, func() string { t := tags[nt%len(tags)]; nt++; return t })...)
			lc.tag("component-stages")
		case k < 7:
			ops = append(ops, lam("s"))
		case k < 9:
			ops = append(ops, CP())
		case k < 11:
			ops = append(ops, CG(laterSubs[r.Intn(len(laterSubs))]))
			lc.tag("nested")
		case k < 14:
			ops = append(ops, CPar(r.Range(2, 3)), lam("m"))
			lc.tag("parallel")
		case k < 16:
			ops = append(ops, CBr(r.Range(2, 3)))
			if r.Prob(0.7) {
				ops = append(ops, lam("s"))
			}
			lc.tag("chain-branch")
		case k < 17:
			ops = append(ops, lam("si"))
			if r.Bool() {
				ops = append(ops, lam("i"))
			}
			ops = append(ops, lam("is"))
		case k < 18:
			if !usedKey {
				usedKey = true
				ops = append(ops, CLh("key"))
			}
		case k < 19:
			ops = append(ops, CPh("ok"), lam("m"))
			lc.tag("keyed")
		default:
			if lc.State {
				ops = append(ops, mon.PickOne(r, []Op{CLh("pre"), CLh("post"), CPh("pre")}))
			} else {
				ops = append(ops, lam("s"))
			}
		}
	}
	return ops
}

// laterExtensions: calls a caller may make on a construction that is already complete.
func laterExtensions(r *mon.Rand, fe string, keys []string, w []Op) []Op {
	key := func() string {
		if len(keys) == 0 {
			return "a"
		}
		return keys[r.Intn(len(keys))]
	}
	sub := laterSubs[r.Intn(len(laterSubs))]
	var pool []Op
	switch fe {
	case "chain":
		pool = []Op{tagged(CL("s"), "z"), tagged(CL("s"), "y"), CP(), CPar(2), CBr(2), CG(sub), tagged(CL("si"), "z"), CPar(-1), CBr(-1), CLh("key"), CPh("ok")}
	case "workflow":
		k1, k2 := key(), key()
		pool = []Op{
			WL("n", in(k1)), WL("n"), WP("q"), WP("q", in(k1)), WG("n", sub), WG("n", sub, in(k1)), WL(k1), WL(k1, in("start")),
			WA("end", in("n")), WA("end", dep(k1)), WA(k1, dep("start")), WA(k1, in(k2)), WA(k1, inND(k2)), WA(k1, inF(k2, "Y")),
			sv(WA(k1), "Y"), sv(WA(k1), "X"), sv(WS("n", inF(k1, "X")), "Y"),
			WB(k1, k2, "end"), WB(k1, "n", "end"), WB("start", k1, "end"), WA("end"), WA(k1),
		}
		// a static value the construction already has is set again (same node, same field)
		for _, o := range w {
			if o.K == "WN" && o.SV != "" {
				again := sv(WA(o.Key), o.SV)
				pool = append(pool, again, again, again, again)
			}
		}
	default:
		k1, k2 := key(), key()
		pool = []Op{
			L("n"), P("q"), GN("n", sub), L(k1), E(k1, "n"), E("n", "end"), E("start", "n"), E(k1, k2), E(k1, "end"),
			B(k1, "n", "end"), B(k1, k2, "end"), B("start", k1, "end"), Lh("n", "ok"),
		}
	}
	// every other Append* / Add*Node method (component stages)
	kind := componentKinds[r.Intn(len(componentKinds))]
	// Add*Node under a reserved key (finding workflow-add-end-key-after-compile): refused before the first
	// Compile, so it must be refused (Graph: ErrGraphCompiled) / reported by the next Compile afterwards too
	rk := mon.PickOne(r, []string{"end", "end", "start"})
	var reserved []Op
	switch fe {
	case "workflow":
		reserved = []Op{WL(rk), WL(rk, in(key())), WP(rk), WP(rk, in(key())), WG(rk, sub), WC(kind, rk), WC("retriever", rk, in(key())),
			WS(rk, inF(key(), "X")), WLh(rk, "ok"), WL(rk, dep(key()))}
	case "graph":
		reserved = []Op{L(rk), P(rk), GN(rk, sub), GC(kind, rk), Lh(rk, "ok"), L(rk)}
	}
	switch fe {
	case "chain":
		pool = append(pool, CC("retriever", "r"), CC(kind, "k"), CC(kind, "k"))
	case "workflow":
		pool = append(pool, WC("retriever", "n", in(key())), WC(kind, "n"), WC(kind, "n"), WC(kind, key()))
	default:
		pool = append(pool, GC("retriever", "n"), GC(kind, "n"), GC(kind, key()))
	}
	n := r.Range(1, 3)
	out := make([]Op, 0, n)
	at := -1
	if len(reserved) > 0 && r.Prob(0.3) {
		at = r.Intn(n)
	}
	for i := 0; i < n; i++ {
		if i == at {
			out = append(out, reserved[r.Intn(len(reserved))])
			continue
		}
		if r.Prob(0.2) {
			alpha := fullAlphabet(fe)
			if op := alpha[r.Intn(len(alpha))]; op.K != "K" {
				out = append(out, op)
				continue
			}
		}
		out = append(out, pool[r.Intn(len(pool))])
	}
	return out
}

func laterOption(r *mon.Rand, fe, own string, bad bool) string {
	if bad {
		switch fe {
		case "chain":
			return mon.PickOne(r, []string{"all", "any", "ib=zz", "name+any", "ia=start", "all"})
		case "workflow":
			return mon.PickOne(r, []string{"all", "any", "max", "ib=zz", "name+max", "max"})
		}
		return mon.PickOne(r, []string{"all+max", "ib=zz", "max+all", "ia=zz+store"})
	}
	if r.Prob(0.5) {
		return own
	}
	switch fe {
	case "chain":
		return mon.PickOne(r, []string{"", "name", "max", "store", own})
	case "workflow":
		return mon.PickOne(r, []string{"", "name", "store", own})
	}
	return mon.PickOne(r, []string{own, own + "+name", own + "+store"})
}

func laterSeq(r *mon.Rand) *laterCase {
	lc := &laterCase{}
	switch k := r.Intn(20); {
	case k < 9:
		lc.FE = "chain"
	case k < 16:
		lc.FE = "workflow"
	default:
		lc.FE = "graph"
	}
	// W: the builder calls of a well-formed construction, own: a compile option set that suits it
	var w []Op
	own := ""
	if lc.FE == "chain" && r.Prob(0.75) {
		lc.State = r.Prob(0.2)
		w = laterChain(r, lc)
	} else if lc.FE == "workflow" && r.Prob(0.25) {
		// Workflows with static values (none of the field-mapping base programs but one has any)
		w = append(w, mon.PickOne(r, [][]Op{
			{WL("a", in("start")), sv(WS("c", inF("a", "X")), "Y"), WA("end", in("c"))},
			{sv(WS("c", inF("start", "Y")), "X"), WL("b", in("c")), WA("end", in("b"))},
			{WL("a", in("start")), WL("b", in("a")), sv(WS("c", inF("a", "X")), "Y"), WA("end", in("c"), dep("b"))},
			{WL("a", in("start")), WS("c", inF("a", "X")), sv(WA("c"), "Y"), WL("b", inND("c")), WB("c", "b", "end"), WA("end", in("b"))},
		})...)
		own = mon.PickOne(r, []string{"", "name", "store"})
		lc.tag("static-value")
	} else {
		var cand []int
		for i := range bases {
			if bases[i].fe == lc.FE {
				cand = append(cand, i)
			}
		}
		b := bases[cand[r.Intn(len(cand))]]
		lc.State = b.state
		for _, op := range b.ops {
			if op.K == "K" {
				own = op.Opt
				continue
			}
			w = append(w, op)
		}
		lc.tag("base:" + b.name)
	}
	if lc.FE == "chain" {
		own = strings.TrimPrefix(strings.TrimPrefix(own, "all"), "any")
	}
	keys := nodeKeys(w)
	// one deliberately ill-formed call somewhere
	if r.Prob(0.12) {
		alpha := fullAlphabet(lc.FE)
		if op := alpha[r.Intn(len(alpha))]; op.K != "K" {
			pos := r.Intn(len(w) + 1)
			w = append(w[:pos:pos], append([]Op{op}, w[pos:]...)...)
			lc.tag("foreign-call")
		}
	}
	// a node added under a reserved key somewhere in the construction (refused with and without earlier Compiles)
	if lc.FE != "chain" && r.Prob(0.06) {
		rk := mon.PickOne(r, []string{"end", "start"})
		op := mon.PickOne(r, []Op{L(rk), P(rk)})
		if lc.FE == "workflow" {
			op = mon.PickOne(r, []Op{WL(rk), WP(rk), WL(rk, in("start"))})
		}
		pos := r.Intn(len(w) + 1)
		w = append(w[:pos:pos], append([]Op{op}, w[pos:]...)...)
		lc.tag("reserved-key-node-in-the-construction")
	}
	var ops []Op
	// Compile calls in the middle of the construction
	mid := map[int]string{}
	if r.Prob(0.45) {
		for m := r.Range(1, 2); m > 0; m-- {
			mid[r.Intn(len(w)+1)] = laterOption(r, lc.FE, own, r.Prob(0.4))
		}
		lc.tag("compile-in-the-middle")
	}
	for i := 0; i <= len(w); i++ {
		if opt, ok := mid[i]; ok {
			ops = append(ops, K(opt))
		}
		if i < len(w) {
			ops = append(ops, w[i])
		}
	}
	// Compile of the complete construction: with a bad option set (fails in the compile stage) or a good one
	rounds := 1
	if r.Prob(0.25) {
		rounds = 2
	}
	for ; rounds > 0; rounds-- {
		if r.Prob(0.9) {
			bad := r.Prob(0.5)
			ops = append(ops, K(laterOption(r, lc.FE, own, bad)))
			if bad {
				lc.tag("bad-options-on-the-complete-construction")
			} else {
				lc.tag("complete-construction-compiled")
			}
			if r.Prob(0.15) {
				ops = append(ops, K(laterOption(r, lc.FE, own, r.Prob(0.3))))
			}
		}
		if r.Prob(0.85) {
			ext := laterExtensions(r, lc.FE, keys, w)
			for _, o := range ext {
				if laterReservedAdd(o) {
					lc.tag("extension-adds-a-node-under-a-reserved-key")
				}
			}
			ops = append(ops, ext...)
			lc.tag("extension")
		}
	}
	ops = append(ops, K(laterOption(r, lc.FE, own, r.Prob(0.1))))
	if r.Prob(0.2) {
		ops = append(ops, K(laterOption(r, lc.FE, own, false)))
	}
	lc.Ops = ops
	lc.Text = opsText(ops)
	return lc
}

// ---- execution and oracle ------------------------------------------------------------

// laterFlat: the builder calls of ops[:upto] without their Compile calls on fresh objects, then ops[upto] (a Compile).
func laterFlat(lc *laterCase, upto int) (res callRes, inst instance, panicked bool) {
	inst = newInstance(lc.FE, lc.State)
	for _, op := range lc.Ops[:upto] {
		if op.K == "K" {
			continue
		}
		if r := inst.apply(op); r.Panic != nil {
			return r, inst, true
		}
	}
	res = inst.apply(lc.Ops[upto])
	return res, inst, res.Panic != nil
}

func (c *checker) checkLater(lc *laterCase) {
	rep := c.rep
	rep.AddEvaluations(1)
	rep.Count("later_cases", 1)
	rep.Count("later_cases/"+lc.FE, 1)
	inst := newInstance(lc.FE, lc.State)
	vec := make([]byte, 0, len(lc.Ops))
	declared := map[string]bool{}

	firstOK := -1 // position of the first successful Compile
	var first *immut
	failedAt := -1      // position of the first failed Compile (while none has succeeded)
	afterFailed := -1   // first declaring call after a failed Compile (while none has succeeded)
	afterSuccess := -1  // first declaring call after the first successful Compile
	nontrivial := false // a declaring call after an earlier Compile, followed by a Compile
	// a Workflow Compile replays the queued declarations; one that names a node which is not declared yet is
	// refused and that refusal sticks (legitimately: it is an Add* error), although the same declarations
	// compile once the node exists. Such a history is not compared with the flat construction.
	forward, forwardAtFailed := false, false
	staticSet := map[string]bool{}
	staticAgain := false
	known := func(k string) bool { return k == "start" || k == "end" || declared[k] }

	wit := func(i int, flat, note string) laterWitness {
		return laterWitness{Case: lc, Position: i, Call: lc.Ops[i].String(), Vector: string(vec), Flat: flat, Note: note}
	}
	phase := func() string {
		switch {
		case firstOK >= 0:
			return "after-successful-compile"
		case failedAt >= 0:
			return "after-failed-compile"
		}
		return "before-any-compile"
	}

	for i, op := range lc.Ops {
		res := inst.apply(op)
		vec = append(vec, res.class())
		if res.Panic != nil {
			if failedAt >= 0 || firstOK >= 0 {
				where := res.Where
				if where == "" {
					where = lc.FE + "-" + laterName(op)
				}
				rep.Violation("C20/later/panic/"+where+"/"+phase(),
					fmt.Sprintf("%s panics %s: %s\n  calls: %s", op, strings.ReplaceAll(phase(), "-", " "), firstLine(res.Panic.Value), lc.Text),
					wit(i, "", firstLine(res.Panic.Value)+"\n"+res.Panic.Stack))
			} else {
				rep.Count("later_panic_before_any_compile_left_to_the_other_workloads", 1)
			}
			return
		}
		if op.K == "WN" && op.Typ != "" {
			declared[op.Key] = true
		}
		switch op.K {
		case "WN":
			if op.SV != "" {
				if staticSet[op.Key+"."+op.SV] && failedAt >= 0 && firstOK < 0 {
					staticAgain = true
				}
				staticSet[op.Key+"."+op.SV] = true
			}
		}

		if op.K != "K" {
			decl := laterDeclares(op, declared)
			if decl && firstOK < 0 && failedAt >= 0 && afterFailed < 0 {
				afterFailed = i
			}
			if firstOK >= 0 {
				if decl && afterSuccess < 0 {
					afterSuccess = i
				}
				if decl {
					rep.Count("later_calls_after_successful_compile/"+lc.FE+"-"+laterName(op), 1)
					if laterReservedAdd(op) {
						rep.Count("later_reserved_key_after_successful_compile/"+lc.FE+"-"+laterMethod(op), 1)
					}
				}
				if lc.FE == "graph" {
					switch {
					case res.Err == nil:
						rep.Violation("C20/later/graph/"+laterName(op)+"-accepted-after-successful-compile",
							fmt.Sprintf("%s returned nil on a compiled graph\n  calls: %s", op, lc.Text), wit(i, "", ""))
					case !errors.Is(res.Err, compose.ErrGraphCompiled):
						rep.Violation("C20/later/graph/"+laterName(op)+"-error-is-not-ErrGraphCompiled",
							fmt.Sprintf("%s on a compiled graph: %v\n  calls: %s", op, res.Err, lc.Text), wit(i, "", ""))
					default:
						rep.Count("later_graph_call_refused_with_ErrGraphCompiled", 1)
					}
				}
				if ch, how := first.changed(c); ch {
					rep.Violation("C20/later/"+lc.FE+"/first-runnable-changed/after-"+laterName(op),
						fmt.Sprintf("the runnable of the first successful Compile behaves differently after %s: %s\n  calls: %s", op, how, lc.Text), wit(i, "", how))
				}
			} else if decl && failedAt >= 0 {
				rep.Count("later_calls_after_failed_compile/"+lc.FE+"-"+laterName(op), 1)
			}
			continue
		}

		// ---- a Compile
		ok := res.Err == nil
		if firstOK >= 0 {
			// once a Compile has succeeded
			if afterSuccess >= 0 {
				nontrivial = true
				rep.Count("later_compile_after_calls_on_a_compiled_builder/"+lc.FE, 1)
			}
			switch {
			case afterSuccess >= 0 && lc.FE != "graph" && ok:
				late := lc.Ops[afterSuccess]
				if late.K == "WN" && late.Typ == "" {
					// what was queued on a handle is forgotten when a later Add*Node replaces the handle: name that call
					for _, o := range lc.Ops[afterSuccess+1 : i] {
						if o.K == "WN" && o.Typ != "" && o.Key == late.Key {
							late = o
							break
						}
					}
				}
				rep.Violation("C20/later/"+lc.FE+"/after-successful-compile/"+laterName(late)+"-not-reported",
					fmt.Sprintf("%s on a compiled %s (a call without error result) is not reported by the next Compile: %s returned nil\n  calls: %s", late, lc.FE, op, lc.Text),
					wit(i, "", "first call after the successful Compile: "+late.String()))
			case afterSuccess >= 0 && lc.FE != "graph":
				rep.Count("later_modification_of_compiled_builder_reported_by_compile", 1)
				if errors.Is(res.Err, compose.ErrGraphCompiled) || errors.Is(res.Err, compose.ErrChainCompiled) {
					rep.Count("later_modification_of_compiled_builder_reported_as_ErrCompiled", 1)
				}
			}
			if ok && optClass(op.Opt) == optClass(lc.Ops[firstOK].Opt) {
				rep.Count("later_recompiled_runnable_compared_with_the_first", 1)
				if d, how := first.differs(inst.last(), c); d {
					name := "nothing-but-Compile"
					if afterSuccess >= 0 {
						name = laterName(lc.Ops[afterSuccess])
					}
					rep.Violation("C20/later/"+lc.FE+"/recompiled-runnable-differs/after-"+name,
						fmt.Sprintf("%s after a successful Compile with run-time-equivalent options gives another runnable: %s\n  calls: %s", op, how, lc.Text), wit(i, "", how))
				}
			}
			continue
		}

		// no Compile has succeeded before this one
		var flatRun runFn
		if failedAt >= 0 {
			if afterFailed >= 0 {
				nontrivial = true
			}
			rep.Count("later_compile_after_failed_compile/"+lc.FE, 1)
			fres, finst, fpanic := laterFlat(lc, i)
			rep.AddEvaluations(1)
			switch {
			case fpanic:
				rep.Count("later_flat_construction_panics_skipped", 1)
			case fres.Err != nil && ok:
				rep.Violation("C20/later/"+lc.FE+"/after-failed-compile/accepted-what-is-rejected-without-the-earlier-compile",
					fmt.Sprintf("%s returned nil; the same builder calls without the earlier (failed) Compile calls are rejected: %v\n  calls: %s", op, fres.Err, lc.Text),
					wit(i, "rejected: "+firstLine(fres.Err.Error()), ""))
			case fres.Err != nil:
				rep.Count("later_rejected_with_and_without_history", 1)
			case !ok && forwardAtFailed:
				rep.Count("later_workflow_declaration_before_its_node_refused_by_an_earlier_compile_skipped", 1)
			case !ok:
				if lc.FE == "chain" && afterFailed >= 0 {
					// the first Compile of a chain connects END; what is appended after it failed is refused
					rep.Count("later_chain_extension_after_failed_compile_reported", 1)
					break
				}
				name := "nothing-but-Compile"
				if afterFailed >= 0 {
					name = laterName(lc.Ops[afterFailed])
				}
				if staticAgain {
					name = "static-value-set-again"
				}
				rep.Violation("C20/later/"+lc.FE+"/after-failed-compile/rejected-what-compiles-without-the-earlier-compile/"+name,
					fmt.Sprintf("%s returned an error (%s); the same builder calls without the earlier (failed) Compile calls compile\n  calls: %s", op, firstLine(res.Err.Error()), lc.Text),
					wit(i, "accepted", firstLine(res.Err.Error())))
			default:
				flatRun = finst.last()
			}
		}
		if ok {
			firstOK = i
			upto := i
			first = newImmut(inst.last(), func() runFn {
				ctl := newInstance(lc.FE, lc.State)
				for _, o := range lc.Ops[:upto+1] {
					if r := ctl.apply(o); r.Panic != nil {
						return nil
					}
				}
				return ctl.last()
			}, c)
			rep.Count("later_first_successful_compile", 1)
			if flatRun != nil {
				rep.Count("later_runnable_compared_with_flat_construction/"+lc.FE, 1)
				fm := newImmut(flatRun, func() runFn {
					_, fi, p := laterFlat(lc, upto)
					if p {
						return nil
					}
					return fi.last()
				}, c)
				if d, how := fm.differs(inst.last(), c); d {
					name := "nothing-but-Compile"
					if afterFailed >= 0 {
						name = laterName(lc.Ops[afterFailed])
					}
					rep.Violation("C20/later/"+lc.FE+"/after-failed-compile/"+name+"-neither-applied-nor-reported",
						fmt.Sprintf("%s succeeds, but the runnable is not the one the same builder calls give without the earlier (failed) Compile calls: %s\n  calls: %s",
							op, strings.Replace(strings.Replace(how, "first runnable", "without the earlier Compile", 1), "re-compiled runnable", "with it", 1), lc.Text),
						wit(i, "accepted", how))
				}
			}
		} else {
			if failedAt < 0 {
				failedAt = i
			}
			// does a declaration made so far name a node that is not declared by now?
			forward = false
			for _, o := range lc.Ops[:i] {
				switch o.K {
				case "WN":
					for _, in := range o.In {
						forward = forward || !known(in.From)
					}
				case "WB":
					forward = forward || !known(o.From)
					for _, e := range o.Ends {
						forward = forward || !known(e)
					}
				}
			}
			if forward && lc.FE == "workflow" {
				forwardAtFailed = true
			}
		}
	}
	if nontrivial {
		rep.NonTrivial(lc.digest())
	}
	for _, t := range lc.Tags {
		if !strings.HasPrefix(t, "base:") {
			rep.Count("later_with/"+t, 1)
		}
	}
}
