package c20

import (
	"sort"
	"strings"
)

// ---------------------------------------------------------------------------
// Call model: a construction sequence is plain data. The same Op values are
// interpreted twice: by the executors (real eino objects, exec_test.go) and by
// the reference well-formedness checker (ref_test.go).
// ---------------------------------------------------------------------------

// Value types that occur in the generated programs.
const (
	tNone = 0 // unknown (passthrough not yet inferred)
	tStr  = 1 // string
	tInt  = 2 // int
	tMap  = 3 // map[string]any (output of a Parallel member, input of the join lambda)
	tIn   = 4 // struct In{X,Y string} (target of workflow field mappings)
	tAny  = 5 // any: the element type of map[string]any as the type of a mapped field; the input / output type of the lambdas a, sa; a branch condition over any
	tT    = 6 // *tT: implements fooer and barer
	tFoo  = 7 // interface fooer
	tBar  = 8 // interface barer
)

func isIfaceT(t int) bool { return t == tAny || t == tFoo || t == tBar }

// Op is one call of a front end.
//
//	Graph:    L (AddLambdaNode), P (AddPassthroughNode), GN (AddGraphNode), E (AddEdge), B (AddBranch), K (Compile)
//	Chain:    CL (AppendLambda), CP (AppendPassthrough), CG (AppendGraph), CPar (AppendParallel), CBr (AppendBranch), K
//	          CC / GC: Append<Component> / Add<Component>Node, Typ = kind (components_test.go; workload of later_test.go only)
//	Workflow: WN (Add*Node / End() / existing handle + AddInput…; Typ "G" = AddGraphNode), WB (AddBranch), K
type Op struct {
	K string `json:"k"`

	Key string `json:"key,omitempty"` // node key (L, P, WN)
	Typ string `json:"typ,omitempty"` // lambda type: s (string→string), i (int→int), si, is, m (map→string), S (In→string), sS (string→In), a (any→string), sa (string→any), sT (string→*tT), F (fooer→string), R (barer→string); WN: "" = use existing handle, P passthrough, G nested graph
	H   string `json:"h,omitempty"`   // add-node option variant, see hSpec

	From string   `json:"from,omitempty"` // E, B, WB
	To   string   `json:"to,omitempty"`   // E
	Ends []string `json:"ends,omitempty"` // B, WB
	Cond string   `json:"cond,omitempty"` // B, WB, CBr: condition input type s | i | a (any)

	N int `json:"n,omitempty"` // CPar / CBr: number of members; -1 = nil argument

	In []WIn  `json:"in,omitempty"`           // WN: inputs declared on the handle
	SV string `json:"static_value,omitempty"` // WN: SetStaticValue(FieldPath{SV}, "sv") on the handle, after the inputs

	Opt string `json:"opt,omitempty"` // K: "+"-separated list of all, any, max, name, store, ib=<key> (WithInterruptBeforeNodes), ia=<key> (WithInterruptAfterNodes), in that order of options

	Sub *Sub `json:"sub,omitempty"` // GN, CG, WN with Typ "G": the graph that is added as a node
}

// Sub is a graph / chain / workflow (string→string, no state) that is built by its own call sequence
// (without Compile) and then added as a node, optionally with WithGraphCompileOptions(Opt...).
type Sub struct {
	FE     string `json:"front_end"`
	Ops    []Op   `json:"-"`
	Text   string `json:"calls"`
	HasOpt bool   `json:"with_compile_options,omitempty"`
	Opt    string `json:"compile_options,omitempty"`
	// Pre: the graph is compiled standalone (no options) before it is added as a node
	Pre bool `json:"compiled_standalone_first,omitempty"`
}

func newSub(fe string, ops []Op, hasOpt bool, opt string) *Sub {
	return &Sub{FE: fe, Ops: ops, Text: opsText(ops), HasOpt: hasOpt, Opt: opt}
}

func (s *Sub) String() string {
	t := "{" + s.FE + ": " + s.Text
	if s.HasOpt {
		t += " | opts(" + s.Opt + ")"
	}
	if s.Pre {
		t += " | compiled standalone first"
	}
	return t + "}"
}

// WIn is one AddInput / AddInputWithOptions(WithNoDirectDependency) / AddDependency call.
type WIn struct {
	From  string `json:"from"`
	Field string `json:"field,omitempty"`      // ToField(Field); "" = whole input of the node
	FromF string `json:"from_field,omitempty"` // FromField(FromF) (with Field: MapFields(FromF, Field)); "" = whole output of the predecessor
	Mode  string `json:"mode,omitempty"`       // "" AddInput, "nd" no direct dependency, "dep" AddDependency
}

func (in WIn) mapped() bool { return in.Field != "" || in.FromF != "" }

func (o Op) String() string {
	var b strings.Builder
	switch o.K {
	case "L", "CL":
		b.WriteString(o.K)
		if o.Typ != "s" {
			b.WriteString(o.Typ)
		}
		b.WriteString("(" + o.Key)
		if o.H != "" {
			if o.Key != "" {
				b.WriteString(",")
			}
			b.WriteString(o.H)
		}
		b.WriteString(")")
	case "P", "CP":
		b.WriteString(o.K + "(" + o.Key)
		if o.H != "" {
			if o.Key != "" {
				b.WriteString(",")
			}
			b.WriteString(o.H)
		}
		b.WriteString(")")
	case "GN", "CG":
		b.WriteString(o.K + "(" + o.Key)
		if o.H != "" {
			if o.Key != "" {
				b.WriteString(",")
			}
			b.WriteString(o.H)
		}
		if o.Sub != nil {
			b.WriteString(o.Sub.String())
		}
		b.WriteString(")")
	case "E":
		b.WriteString("E(" + o.From + "," + o.To + ")")
	case "B", "WB":
		b.WriteString(o.K)
		if o.Cond == "i" || o.Cond == "a" {
			b.WriteString(o.Cond)
		}
		b.WriteString("(" + o.From + ">" + strings.Join(o.Ends, "|") + ")")
	case "CPar", "CBr":
		b.WriteString(o.K)
		if o.Cond == "i" {
			b.WriteString("i")
		}
		if o.N < 0 {
			b.WriteString("(nil)")
		} else {
			b.WriteString("(" + string(rune('0'+o.N)) + ")")
		}
	case "WN":
		b.WriteString("W")
		if o.Typ == "" {
			b.WriteString("+")
		} else {
			b.WriteString(o.Typ)
		}
		b.WriteString("(" + o.Key)
		if o.H != "" {
			b.WriteString("," + o.H)
		}
		if o.Sub != nil {
			b.WriteString(o.Sub.String())
		}
		for i, in := range o.In {
			if i == 0 {
				b.WriteString("<")
			} else {
				b.WriteString(",")
			}
			switch in.Mode {
			case "nd":
				b.WriteString("~")
			case "dep":
				b.WriteString("!")
			}
			b.WriteString(in.From)
			if in.FromF != "" {
				b.WriteString("." + in.FromF)
			}
			if in.Field != "" {
				b.WriteString(":" + in.Field)
			}
		}
		if o.SV != "" {
			b.WriteString(";" + o.SV + "=sv")
		}
		b.WriteString(")")
	case "K":
		b.WriteString("K(" + o.Opt + ")")
	case "CC", "GC":
		b.WriteString(o.K + ":" + o.Typ + "(" + o.Key + ")")
	default:
		b.WriteString("?" + o.K)
	}
	return b.String()
}

// Seq is one construction sequence on one front end.
type Seq struct {
	FE      string `json:"front_end"` // graph | chain | workflow
	State   bool   `json:"with_state"`
	Family  string `json:"family"`
	Prelude []Op   `json:"-"`
	Ops     []Op   `json:"-"`
	Reps    int    `json:"attempts,omitempty"` // on fresh objects; 0 = the default
	// for the witness
	Text string `json:"calls"`
}

func (s *Seq) all() []Op {
	out := make([]Op, 0, len(s.Prelude)+len(s.Ops))
	out = append(out, s.Prelude...)
	out = append(out, s.Ops...)
	return out
}

func opsText(ops []Op) string {
	parts := make([]string, len(ops))
	for i, o := range ops {
		parts[i] = o.String()
	}
	return strings.Join(parts, " ")
}

func (s *Seq) digest() string {
	st := "-"
	if s.State {
		st = "S"
	}
	return s.FE + "/" + st + "/" + opsText(s.Prelude) + " ; " + opsText(s.Ops)
}

func (s *Seq) fill() *Seq {
	s.Text = opsText(s.Prelude)
	if len(s.Prelude) > 0 {
		s.Text += " ; "
	}
	s.Text += opsText(s.Ops)
	return s
}

// lambdaTypes returns (input, output) value type of a lambda type tag.
func lambdaTypes(typ string) (int, int) {
	switch typ {
	case "s":
		return tStr, tStr
	case "i":
		return tInt, tInt
	case "si":
		return tStr, tInt
	case "is":
		return tInt, tStr
	case "m":
		return tMap, tStr
	case "S":
		return tIn, tStr
	case "sS":
		return tStr, tIn
	case "a":
		return tAny, tStr
	case "sa":
		return tStr, tAny
	case "sT":
		return tStr, tT
	case "F":
		return tFoo, tStr
	case "R":
		return tBar, tStr
	}
	return tStr, tStr
}

func condType(c string) int {
	switch c {
	case "i":
		return tInt
	case "a":
		return tAny
	}
	return tStr
}

// hSpec describes an add-node option variant.
//
//	pre / post      state handler with the right value and state type
//	preS / postS    state handler declared for another state type
//	preV / postV    state handler whose value type is not the node's type
//	                (for a passthrough node: `string` instead of `any`)
//	key             WithNodeKey("k1")  (legal in chains only)
//	ok / ik / iok   WithOutputKey("k") / WithInputKey("k") / both: that side of the node is a map[string]any
type hSpec struct {
	pre, post  bool
	wrongState bool
	wrongValue bool
	nodeKey    string
	needState  bool
	inKey      bool
	outKey     bool
}

func parseH(h string) hSpec {
	var s hSpec
	switch h {
	case "pre":
		s.pre = true
	case "post":
		s.post = true
	case "preS":
		s.pre, s.wrongState = true, true
	case "postS":
		s.post, s.wrongState = true, true
	case "preV":
		s.pre, s.wrongValue = true, true
	case "postV":
		s.post, s.wrongValue = true, true
	case "key":
		s.nodeKey = "k1"
	case "ok":
		s.outKey = true
	case "ik":
		s.inKey = true
	case "iok":
		s.inKey, s.outKey = true, true
	}
	s.needState = s.pre || s.post
	return s
}

func sortedCopy(xs []string) []string {
	c := append([]string(nil), xs...)
	sort.Strings(c)
	return c
}
