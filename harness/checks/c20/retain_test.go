package c20

import (
	"context"
	"errors"
	"fmt"
	"sort"
	"strconv"
	"strings"

	"github.com/cloudwego/eino/compose"
	"verifharness/internal/mon"
)

// ---------------------------------------------------------------------------
// Retained-object workload ("late operations").
//
// The call-sequence workload (gen_test.go) only talks to the top-level builder
// after Compile. A caller keeps much more than that: the *WorkflowNode handles
// returned by Add*Node / End(), *Parallel and *ChainBranch objects appended to a
// Chain, *GraphBranch objects and the end-node map they were made from, graphs
// that were added as nodes, and every slice or map it handed to the API. Each
// scenario below builds a well-formed program, keeps all of these, compiles
// once, records what the runnable does (Invoke and Stream), and then applies a
// sequence of late operations: every mutating entry point reachable through the
// retained objects, mutations of the retained arguments, and Compile again with
// the same / other options. Oracle (reference-free, before/after):
//   * no late operation panics;
//   * a Graph Add* call (top-level or on a graph that was compiled as a node)
//     returns an error;
//   * after every late operation the first runnable behaves exactly as before;
//   * a later Compile with run-time equivalent options that succeeds gives a
//     runnable that behaves like the first one (the graph was not modified).
// ---------------------------------------------------------------------------

// In3 is the struct input of field-mapping / static-value targets.
type In3 struct {
	X string
	Y string
	Z string
}

func init() {
	// Stream mode hands a struct that is filled field-wise by several predecessors to its node as
	// several partially filled chunks; eino needs a concat function for such a type.
	compose.RegisterStreamChunkConcatFunc(func(cs []In3) (In3, error) {
		var out In3
		for _, c := range cs {
			out.X += c.X
			out.Y += c.Y
			out.Z += c.Z
		}
		return out, nil
	})
	compose.RegisterStreamChunkConcatFunc(func(cs []In) (In, error) {
		var out In
		for _, c := range cs {
			out.X += c.X
			out.Y += c.Y
		}
		return out, nil
	})
}

func lamIn3(tag string) *compose.Lambda {
	return compose.InvokableLambda(func(ctx context.Context, in In3) (string, error) {
		traceAdd(ctx, tag)
		return in.X + "|" + in.Y + "|" + in.Z + tag, nil
	})
}

// lateOp is one thing a caller can still do after Compile.
type lateOp struct {
	Name    string // entry point / kind of retained argument: goes into signatures
	Detail  string // receiver and arguments (witness)
	compile string // non-empty: Compile of the top-level builder with this option variant
	mustErr bool   // the call returns an error value and must refuse
	// callerArg: the operation changes an argument object of a *compile option*; a later Compile
	// that is given the same (now different) argument legitimately compiles something else
	callerArg bool
	// nestedCompile: Compile (standalone) of a graph / chain / workflow that is a node of the scenario's
	// top-level graph: like a Compile of the top-level builder it changes nothing, and on builders nothing
	// else has touched it must succeed
	nestedCompile bool
	// noPairs: the operation is enumerated alone with every Compile variant (and drawn in the random
	// sequences), but not in the ordered pairs of the thorough tier
	noPairs bool
	// viewOnly: the operation writes to an object that describes the compiled graph (a *GraphInfo) and is
	// not an argument of anything: the builder must be as untouched afterwards as the runnable
	viewOnly bool
	do       func() (runFn, error)
}

func (o lateOp) String() string { return o.Name + "(" + o.Detail + ")" }

// workflowModifier: a call of the Workflow API that declares something (a node, an input, a dependency, a
// static value, a branch, an END input). None of them returns an error: on a compiled Workflow - compiled by
// its own Compile or as a node of the scenario's graph - the attempt must be reported by the next Compile,
// with ErrGraphCompiled.
func (o lateOp) workflowModifier() bool {
	return strings.HasPrefix(o.Name, "WorkflowNode.") || strings.Contains(o.Name, "Workflow.Add")
}

// variant is a set of compile options; class groups variants with the same run-time semantics.
type variant struct {
	name  string
	class string
}

type built struct {
	compile func(v string) (runFn, error)
	lates   []lateOp
}

type scenario struct {
	name     string
	fe       string
	variants []variant // variants[i] for i < nInit are also used for the first Compile
	nInit    int
	build    func() *built
}

func (sc *scenario) class(v string) string {
	for _, x := range sc.variants {
		if x.name == v {
			return x.class
		}
	}
	return v
}

// ---- retained compile-option arguments ------------------------------------------------

// optKit owns the argument objects of the compile options of one built scenario.
type optKit struct {
	before []string // WithInterruptBeforeNodes argument
	after  []string // WithInterruptAfterNodes argument
	opts   map[string][]compose.GraphCompileOption
	cbs    []compose.GraphCompileCallback
	// every Compile of the top-level builder also carries a compile callback that keeps the *GraphInfo it
	// is given (that is what compile callbacks are for: exporting the structure to a tool)
	infos []*compose.GraphInfo
	// nested: the scenario has graphs as nodes (late operations on their GraphInfo are offered too)
	nested bool
}

func (k *optKit) depths() []bool {
	if k.nested {
		return []bool{false, true}
	}
	return []bool{false}
}

type keepInfoCallback struct{ k *optKit }

func (c keepInfoCallback) OnFinish(ctx context.Context, info *compose.GraphInfo) {
	c.k.infos = append(c.k.infos, info)
}

type nopCompileCallback struct{ n *int }

func (c nopCompileCallback) OnFinish(ctx context.Context, info *compose.GraphInfo) { *c.n++ }

func newOptKit(beforeNode, afterNode string) *optKit {
	k := &optKit{before: []string{beforeNode}, after: []string{afterNode}, opts: map[string][]compose.GraphCompileOption{}}
	n := new(int)
	k.cbs = []compose.GraphCompileCallback{nopCompileCallback{n}}
	k.opts["plain"] = nil
	k.opts["name"] = []compose.GraphCompileOption{compose.WithGraphName("g")}
	k.opts["max"] = []compose.GraphCompileOption{compose.WithMaxRunSteps(9)}
	k.opts["all"] = []compose.GraphCompileOption{compose.WithNodeTriggerMode(compose.AllPredecessor)}
	k.opts["store"] = []compose.GraphCompileOption{compose.WithCheckPointStore(&memStore{m: map[string][]byte{}})}
	k.opts["cb"] = []compose.GraphCompileOption{compose.WithGraphCompileCallbacks(k.cbs...)}
	k.opts["ib"] = []compose.GraphCompileOption{compose.WithInterruptBeforeNodes(k.before), compose.WithCheckPointStore(&memStore{m: map[string][]byte{}})}
	k.opts["ia"] = []compose.GraphCompileOption{compose.WithCheckPointStore(&memStore{m: map[string][]byte{}}), compose.WithInterruptAfterNodes(k.after)}
	for _, v := range mon.SortedKeys(k.opts) {
		k.opts[v] = append(k.opts[v], compose.WithGraphCompileCallbacks(keepInfoCallback{k}))
	}
	return k
}

// eachInfo applies f to every *GraphInfo kept so far: those handed to the compile callback (nested=false)
// or those of the graphs that are nodes, at any depth, reached through GraphNodeInfo.GraphInfo (nested=true).
func (k *optKit) eachInfo(nested bool, f func(gi *compose.GraphInfo)) {
	seen := map[*compose.GraphInfo]bool{}
	var walk func(gi *compose.GraphInfo, depth int)
	walk = func(gi *compose.GraphInfo, depth int) {
		if gi == nil || seen[gi] || depth > 4 {
			return
		}
		seen[gi] = true
		// children first: f may empty the Nodes map
		for _, key := range mon.SortedKeys(gi.Nodes) {
			walk(gi.Nodes[key].GraphInfo, depth+1)
		}
		if nested == (depth > 0) {
			f(gi)
		}
	}
	for _, gi := range k.infos {
		walk(gi, 0)
	}
}

// infoLates: everything a holder of the *GraphInfo can write to - the Edges / DataEdges / Branches / Nodes
// maps, the slices in them, the slices inside the node infos - on the info of the compiled graph itself and
// on the infos of the graphs nested in it. The GraphInfo describes the compiled graph; it is not the graph.
func (k *optKit) infoLates() []lateOp {
	var ls []lateOp
	edgeOps := func(field string, get func(gi *compose.GraphInfo) map[string][]string) {
		for _, nested := range k.depths() {
			nested := nested
			name := "GraphInfo." + field
			if nested {
				name = "nested " + name
			}
			for _, val := range []string{compose.END, "zz"} {
				val := val
				ls = append(ls, voidOp(name+"-slice", "every element := "+val, func() {
					k.eachInfo(nested, func(gi *compose.GraphInfo) {
						m := get(gi)
						for _, key := range mon.SortedKeys(m) {
							for i := range m[key] {
								m[key][i] = val
							}
						}
					})
				}))
			}
			ls = append(ls, voidOp(name+"-slice", "every list: first element := its last element, then append(list[:0], zz)", func() {
				k.eachInfo(nested, func(gi *compose.GraphInfo) {
					m := get(gi)
					for _, key := range mon.SortedKeys(m) {
						if l := m[key]; len(l) > 0 {
							l[0] = l[len(l)-1]
							m[key] = append(l[:0], "zz")
						}
					}
				})
			}))
			ls = append(ls, voidOp(name+"-map", "every entry deleted, entry zz added", func() {
				k.eachInfo(nested, func(gi *compose.GraphInfo) {
					m := get(gi)
					for _, key := range mon.SortedKeys(m) {
						delete(m, key)
					}
					m["zz"] = []string{compose.END}
				})
			}))
		}
	}
	edgeOps("Edges", func(gi *compose.GraphInfo) map[string][]string { return gi.Edges })
	edgeOps("DataEdges", func(gi *compose.GraphInfo) map[string][]string { return gi.DataEdges })
	for _, nested := range k.depths() {
		nested := nested
		pre := "GraphInfo."
		if nested {
			pre = "nested GraphInfo."
		}
		ls = append(ls,
			voidOp(pre+"Branches", "GetEndNode() of every branch emptied, zz added", func() {
				k.eachInfo(nested, func(gi *compose.GraphInfo) {
					for _, key := range mon.SortedKeys(gi.Branches) {
						for i := range gi.Branches[key] {
							ends := gi.Branches[key][i].GetEndNode()
							for _, e := range mon.SortedKeys(ends) {
								delete(ends, e)
							}
							if ends != nil {
								ends["zz"] = true
							}
						}
					}
				})
			}),
			voidOp(pre+"Branches", "every branch := GraphBranch{}, every entry deleted", func() {
				k.eachInfo(nested, func(gi *compose.GraphInfo) {
					for _, key := range mon.SortedKeys(gi.Branches) {
						for i := range gi.Branches[key] {
							gi.Branches[key][i] = compose.GraphBranch{}
						}
						delete(gi.Branches, key)
					}
				})
			}),
			voidOp(pre+"Nodes.Mappings-slice", "every element := ToField(Z)", func() {
				k.eachInfo(nested, func(gi *compose.GraphInfo) {
					for _, key := range mon.SortedKeys(gi.Nodes) {
						ms := gi.Nodes[key].Mappings
						for i := range ms {
							ms[i] = compose.ToField("Z")
						}
					}
				})
			}),
			voidOp(pre+"Nodes.GraphAddNodeOpts-slice", "every element := WithOutputKey(late)", func() {
				k.eachInfo(nested, func(gi *compose.GraphInfo) {
					for _, key := range mon.SortedKeys(gi.Nodes) {
						os := gi.Nodes[key].GraphAddNodeOpts
						for i := range os {
							os[i] = compose.WithOutputKey("late")
						}
					}
				})
			}),
			voidOp(pre+"Nodes-map", "every entry := GraphNodeInfo{}, then deleted", func() {
				k.eachInfo(nested, func(gi *compose.GraphInfo) {
					for _, key := range mon.SortedKeys(gi.Nodes) {
						gi.Nodes[key] = compose.GraphNodeInfo{}
						delete(gi.Nodes, key)
					}
				})
			}),
			voidOp(pre+"NewGraphOptions-slice", "every element := WithGenLocalState(other state)", func() {
				k.eachInfo(nested, func(gi *compose.GraphInfo) {
					for i := range gi.NewGraphOptions {
						gi.NewGraphOptions[i] = compose.WithGenLocalState(func(ctx context.Context) *ostate { return &ostate{} })
					}
				})
			}),
			// (the option slice may be the very slice the caller passed to Compile / WithGraphCompileOptions)
			lateOp{Name: pre + "CompileOptions-slice", Detail: "every element := WithGraphName(late)", callerArg: true, do: func() (runFn, error) {
				k.eachInfo(nested, func(gi *compose.GraphInfo) {
					for i := range gi.CompileOptions {
						gi.CompileOptions[i] = compose.WithGraphName("late")
					}
				})
				return nil, nil
			}},
		)
	}
	return ls
}

func (k *optKit) get(v string) []compose.GraphCompileOption { return k.opts[v] }

// lates: mutations of the retained option arguments.
func (k *optKit) lates(otherNode string) []lateOp {
	var ls []lateOp
	set := func(name, detail string, f func()) {
		ls = append(ls, lateOp{Name: name, Detail: detail, callerArg: true, do: func() (runFn, error) { f(); return nil, nil }})
	}
	set("interrupt-before-nodes-slice", "nodes[0]="+otherNode, func() { k.before[0] = otherNode })
	set("interrupt-before-nodes-slice", "nodes[0]=zz", func() { k.before[0] = "zz" })
	set("interrupt-after-nodes-slice", "nodes[0]="+otherNode, func() { k.after[0] = otherNode })
	set("interrupt-after-nodes-slice", "nodes[0]=zz", func() { k.after[0] = "zz" })
	set("compile-options-slice", "opts[0]=WithGraphName for ib, ia, name, max", func() {
		for _, v := range []string{"ib", "ia", "name", "max"} {
			if len(k.opts[v]) > 0 {
				k.opts[v][0] = compose.WithGraphName("late")
			}
		}
	})
	set("compile-callbacks-slice", "cbs[0]=other", func() { k.cbs[0] = nopCompileCallback{new(int)} })
	info := k.infoLates()
	for i := range info {
		info[i].noPairs = true
		info[i].viewOnly = !info[i].callerArg
	}
	return append(ls, info...)
}

func compileLates(sc *scenario, compile func(v string) (runFn, error)) []lateOp {
	var ls []lateOp
	for _, v := range sc.variants {
		v := v
		ls = append(ls, lateOp{Name: "Compile", Detail: v.name, compile: v.name, do: func() (runFn, error) { return compile(v.name) }})
	}
	return ls
}

func errOp(name, detail string, f func() error) lateOp {
	return lateOp{Name: name, Detail: detail, mustErr: true, do: func() (runFn, error) { return nil, f() }}
}

func voidOp(name, detail string, f func()) lateOp {
	return lateOp{Name: name, Detail: detail, do: func() (runFn, error) { f(); return nil, nil }}
}

// a fresh small graph / chain / workflow that can be handed to Add*Graph* calls
func smallGraph(tag string) *compose.Graph[string, string] {
	g := compose.NewGraph[string, string]()
	_ = g.AddLambdaNode("x", mkLambda("s", tag))
	_ = g.AddEdge(compose.START, "x")
	_ = g.AddEdge("x", compose.END)
	return g
}

func strBranch(ends map[string]bool) *compose.GraphBranch {
	sorted := sortedCopy(mon.SortedKeys(ends)) // fixed at creation: the condition does not look at the map
	return compose.NewGraphBranch(func(ctx context.Context, in string) (string, error) {
		return sorted[len(in)%len(sorted)], nil
	}, ends)
}

// ---- late operations on a Graph value (top-level or nested) ---------------------------------

// graphLates: every Add* of the Graph API on g. known: keys of existing nodes (≥1).
func graphLates(recv string, g *compose.Graph[string, string], known []string) []lateOp {
	k0 := known[0]
	kl := known[len(known)-1]
	n := func(s string) string { return recv + "." + s }
	return []lateOp{
		errOp(n("AddLambdaNode"), "new key q", func() error { return g.AddLambdaNode("q", mkLambda("s", "q")) }),
		errOp(n("AddLambdaNode"), "existing key "+k0, func() error { return g.AddLambdaNode(k0, mkLambda("s", "late")) }),
		errOp(n("AddPassthroughNode"), "new key r", func() error { return g.AddPassthroughNode("r") }),
		errOp(n("AddGraphNode"), "new key sg", func() error { return g.AddGraphNode("sg", smallGraph("sg")) }),
		errOp(n("AddEdge"), "start->"+kl, func() error { return g.AddEdge(compose.START, kl) }),
		errOp(n("AddEdge"), k0+"->end", func() error { return g.AddEdge(k0, compose.END) }),
		errOp(n("AddEdge"), kl+"->"+k0, func() error { return g.AddEdge(kl, k0) }),
		errOp(n("AddBranch"), k0+">"+kl+"|end", func() error {
			return g.AddBranch(k0, strBranch(map[string]bool{kl: true, compose.END: true}))
		}),
		errOp(n("AddBranch"), "start>"+k0+"|end", func() error {
			return g.AddBranch(compose.START, strBranch(map[string]bool{k0: true, compose.END: true}))
		}),
	}
}

// branchLates: the end-node map a branch was made from, reached through the retained map and
// through GetEndNode().
func branchLates(recv string, br *compose.GraphBranch, ends map[string]bool, members []string, others []string) []lateOp {
	var ls []lateOp
	for _, m := range members {
		m := m
		ls = append(ls, voidOp("branch-end-nodes-map", recv+": delete(ends,"+m+")", func() { delete(ends, m) }))
		ls = append(ls, voidOp("GraphBranch.GetEndNode-map", recv+": delete(GetEndNode(),"+m+")", func() { delete(br.GetEndNode(), m) }))
	}
	for _, o := range others {
		o := o
		ls = append(ls, voidOp("branch-end-nodes-map", recv+": ends["+o+"]=true", func() { ends[o] = true }))
		ls = append(ls, voidOp("GraphBranch.GetEndNode-map", recv+": GetEndNode()["+o+"]=true", func() { br.GetEndNode()[o] = true }))
	}
	ls = append(ls, voidOp("branch-end-nodes-map", recv+": ends["+members[0]+"]=false", func() { ends[members[0]] = false }))
	return ls
}

// ---- late operations on a Chain value -----------------------------------------------------------

func chainLates(recv string, c *compose.Chain[string, string]) []lateOp {
	n := func(s string) string { return recv + "." + s }
	return []lateOp{
		voidOp(n("AppendLambda"), "s", func() { c.AppendLambda(mkLambda("s", "late")) }),
		voidOp(n("AppendLambda"), "WithNodeKey(late)", func() { c.AppendLambda(mkLambda("s", "late"), compose.WithNodeKey("late")) }),
		voidOp(n("AppendPassthrough"), "", func() { c.AppendPassthrough() }),
		voidOp(n("AppendGraph"), "small graph", func() { c.AppendGraph(smallGraph("late")) }),
		voidOp(n("AppendParallel"), "new parallel of 2", func() {
			c.AppendParallel(compose.NewParallel().AddLambda("l0", mkLambda("s", "l0")).AddLambda("l1", mkLambda("s", "l1")))
		}),
		voidOp(n("AppendBranch"), "new branch of 2", func() {
			c.AppendBranch(compose.NewChainBranch(func(ctx context.Context, in string) (string, error) {
				return "l" + strconv.Itoa(len(in)%2), nil
			}).AddLambda("l0", mkLambda("s", "l0")).AddLambda("l1", mkLambda("s", "l1")))
		}),
		voidOp(n("AppendParallel"), "nil", func() { c.AppendParallel(nil) }),
		voidOp(n("AppendBranch"), "nil", func() { c.AppendBranch(nil) }),
	}
}

func parallelLates(recv string, p *compose.Parallel, c *compose.Chain[string, string], existing string) []lateOp {
	return []lateOp{
		voidOp("Parallel.AddLambda", recv+": new output key k9", func() { p.AddLambda("k9", mkLambda("s", "k9")) }),
		voidOp("Parallel.AddLambda", recv+": existing output key "+existing, func() { p.AddLambda(existing, mkLambda("s", "late")) }),
		voidOp("Parallel.AddPassthrough", recv+": k8", func() { p.AddPassthrough("k8") }),
		voidOp("Parallel.AddGraph", recv+": k7", func() { p.AddGraph("k7", smallGraph("k7")) }),
		voidOp("Chain.AppendParallel", "the retained "+recv+" again", func() { c.AppendParallel(p) }),
		voidOp("Parallel.AddLambda+Chain.AppendParallel", recv+": k6, then appended again", func() {
			p.AddLambda("k6", mkLambda("s", "k6"))
			c.AppendParallel(p)
		}),
	}
}

func chainBranchLates(recv string, cb *compose.ChainBranch, c *compose.Chain[string, string], existing string) []lateOp {
	return []lateOp{
		voidOp("ChainBranch.AddLambda", recv+": new key b9", func() { cb.AddLambda("b9", mkLambda("s", "b9")) }),
		voidOp("ChainBranch.AddLambda", recv+": existing key "+existing, func() { cb.AddLambda(existing, mkLambda("s", "late")) }),
		voidOp("ChainBranch.AddPassthrough", recv+": b8", func() { cb.AddPassthrough("b8") }),
		voidOp("ChainBranch.AddGraph", recv+": b7", func() { cb.AddGraph("b7", smallGraph("b7")) }),
		voidOp("Chain.AppendBranch", "the retained "+recv+" again", func() { c.AppendBranch(cb) }),
		voidOp("ChainBranch.AddLambda+Chain.AppendBranch", recv+": b6, then appended again", func() {
			cb.AddLambda("b6", mkLambda("s", "b6"))
			c.AppendBranch(cb)
		}),
	}
}

// ---- late operations on Workflow objects --------------------------------------------------------

type whandle struct {
	name string
	get  func() *compose.WorkflowNode
}

// handleLates: every method of a *WorkflowNode. froms: predecessor keys to try; fields: target
// field names / map keys (existing, mapped, unmapped, unknown).
func handleLates(prefix string, h whandle, froms []string, fields []string) []lateOp {
	var ls []lateOp
	r := prefix + h.name
	for _, f := range froms {
		f := f
		ls = append(ls,
			voidOp("WorkflowNode.AddInput", r+" <- "+f, func() { h.get().AddInput(f) }),
			voidOp("WorkflowNode.AddInput", r+" <- "+f+" ToField("+fields[0]+")", func() { h.get().AddInput(f, compose.ToField(fields[0])) }),
			voidOp("WorkflowNode.AddInputWithOptions", r+" <- "+f+" ToField("+fields[len(fields)-1]+") WithNoDirectDependency", func() {
				h.get().AddInputWithOptions(f, []*compose.FieldMapping{compose.ToField(fields[len(fields)-1])}, compose.WithNoDirectDependency())
			}),
			voidOp("WorkflowNode.AddDependency", r+" <- "+f, func() { h.get().AddDependency(f) }),
		)
	}
	for _, fld := range fields {
		fld := fld
		ls = append(ls,
			voidOp("WorkflowNode.SetStaticValue", r+": "+fld+"=\"late\"", func() { h.get().SetStaticValue(compose.FieldPath{fld}, "late") }),
			voidOp("WorkflowNode.SetStaticValue", r+": "+fld+"=7", func() { h.get().SetStaticValue(compose.FieldPath{fld}, 7) }),
		)
	}
	return ls
}

// workflowLates: the Workflow's own methods.
func workflowLates(prefix string, wf *compose.Workflow[string, string], known []string, field string) []lateOp {
	k0 := known[0]
	kl := known[len(known)-1]
	n := func(s string) string { return prefix + "Workflow." + s }
	return []lateOp{
		voidOp(n("AddLambdaNode"), "new key q <- start", func() { wf.AddLambdaNode("q", mkLambda("s", "q")).AddInput(compose.START) }),
		voidOp(n("AddLambdaNode"), "new key q <- start, End() <- q", func() {
			wf.AddLambdaNode("q", mkLambda("s", "q")).AddInput(compose.START)
			wf.End().AddInput("q")
		}),
		voidOp(n("AddLambdaNode"), "existing key "+kl+" <- start, static "+field, func() {
			wf.AddLambdaNode(kl, mkLambda("s", "late")).AddInput(compose.START).SetStaticValue(compose.FieldPath{field}, "late")
		}),
		voidOp(n("AddLambdaNode"), "existing key "+k0, func() { wf.AddLambdaNode(k0, mkLambda("s", "late")) }),
		voidOp(n("AddPassthroughNode"), "new key r <- "+k0, func() { wf.AddPassthroughNode("r").AddInput(k0) }),
		voidOp(n("AddGraphNode"), "new key sg <- start", func() { wf.AddGraphNode("sg", smallGraph("sg")).AddInput(compose.START) }),
		voidOp(n("AddBranch"), k0+">"+kl+"|end", func() { wf.AddBranch(k0, strBranch(map[string]bool{kl: true, compose.END: true})) }),
		voidOp(n("AddBranch"), "start>"+k0+"|zz", func() { wf.AddBranch(compose.START, strBranch(map[string]bool{k0: true, "zz": true})) }),
		voidOp(n("AddEnd"), k0, func() { wf.AddEnd(k0) }),
		voidOp(n("AddEnd"), k0+" ToField("+field+")", func() { wf.AddEnd(k0, compose.ToField(field)) }),
	}
}

// ---------------------------------------------------------------------------
// Scenarios
// ---------------------------------------------------------------------------

var (
	pregelVariants = []variant{{"plain", "pregel"}, {"ib", "ib"}, {"ia", "ia"}, {"name", "pregel"}, {"store", "pregel"}, {"cb", "pregel"}, {"max", "pregel-max"}, {"all", "dag"}}
	chainVariants  = []variant{{"plain", "pregel"}, {"ib", "ib"}, {"ia", "ia"}, {"name", "pregel"}, {"store", "pregel"}, {"cb", "pregel"}, {"max", "pregel-max"}}
	wfVariants     = []variant{{"plain", "dag"}, {"ib", "ib"}, {"ia", "ia"}, {"name", "dag"}, {"store", "dag"}, {"cb", "dag"}}
)

var scenarios []scenario

func init() {
	// ---------------- Workflow: field mappings + static values ----------------
	for shape := 0; shape < 4; shape++ {
		shape := shape
		sc := scenario{name: "w-static-" + []string{"struct", "map", "none-struct", "none-map"}[shape], fe: "workflow", variants: wfVariants, nInit: 3}
		sc.build = func() *built {
			sp := &sc
			wf := compose.NewWorkflow[string, string]()
			kit := newOptKit("c", "a")
			a := wf.AddLambdaNode("a", mkLambda("s", "a")).AddInput(compose.START)
			var c *compose.WorkflowNode
			if shape%2 == 0 {
				c = wf.AddLambdaNode("c", lamIn3("c"))
			} else {
				c = wf.AddLambdaNode("c", mkLambda("m", "c"))
			}
			// retained arguments: the mapping slices, a mapping object, the field paths
			fpY, fpZ := compose.FieldPath{"Y"}, compose.FieldPath{"Z"}
			mapY := compose.ToFieldPath(fpY)
			mapsA := []*compose.FieldMapping{mapY}
			mapsS := []*compose.FieldMapping{compose.ToField("X")}
			c.AddInput(compose.START, mapsS...)
			c.AddInputWithOptions("a", mapsA)
			if shape < 2 {
				c.SetStaticValue(fpZ, "sz")
			}
			end := wf.End().AddInput("c")
			b := &built{}
			b.compile = func(v string) (runFn, error) {
				r, err := wf.Compile(context.Background(), kit.get(v)...)
				if err != nil {
					return nil, err
				}
				return wrapRunnable(r), nil
			}
			hs := []whandle{
				{"a", func() *compose.WorkflowNode { return a }},
				{"c", func() *compose.WorkflowNode { return c }},
				{"end", func() *compose.WorkflowNode { return end }},
				{"End()", func() *compose.WorkflowNode { return wf.End() }},
			}
			fields := []string{"Z", "X", "Q"}
			for _, h := range hs {
				b.lates = append(b.lates, handleLates("", h, []string{compose.START, "a", "zz"}, fields)...)
			}
			b.lates = append(b.lates, workflowLates("", wf, []string{"a", "c"}, "Z")...)
			b.lates = append(b.lates,
				voidOp("field-mapping-slice", "AddInputWithOptions(a, maps): maps[0]=ToField(Z)", func() { mapsA[0] = compose.ToField("Z") }),
				voidOp("field-mapping-slice", "AddInputWithOptions(a, maps): maps[0]=ToField(X)", func() { mapsA[0] = compose.ToField("X") }),
				voidOp("field-mapping-slice", "AddInput(start, maps...): maps[0]=ToField(Z)", func() { mapsS[0] = compose.ToField("Z") }),
				voidOp("field-path-slice", "ToFieldPath(path) of the mapping a->c: path[0]=Z", func() { fpY[0] = "Z" }),
				voidOp("field-path-slice", "SetStaticValue(path, ..) of c: path[0]=Y", func() { fpZ[0] = "Y" }),
				voidOp("WorkflowNode.AddInput-retained-FieldMapping", "c <- start with the mapping object of a->c", func() { c.AddInput(compose.START, mapY) }),
				voidOp("WorkflowNode.AddInput-retained-FieldMapping", "end <- zz with the mapping object of a->c", func() { end.AddInput("zz", mapY) }),
				voidOp("Workflow.AddEnd-retained-FieldMapping", "AddEnd(c, the mapping object of a->c)", func() { wf.AddEnd("c", mapY) }),
			)
			b.lates = append(b.lates, kit.lates("a")...)
			b.lates = append(b.lates, compileLates(sp, b.compile)...)
			return b
		}
		scenarios = append(scenarios, sc)
	}

	// ---------------- Workflow: branch, passthrough, nested graph ----------------
	{
		sc := scenario{name: "w-branch", fe: "workflow", variants: wfVariants, nInit: 2}
		sc.build = func() *built {
			sp := &sc
			wf := compose.NewWorkflow[string, string]()
			kit := newOptKit("b", "a")
			a := wf.AddLambdaNode("a", mkLambda("s", "a")).AddInput(compose.START)
			bn := wf.AddLambdaNode("b", mkLambda("s", "b")).AddInputWithOptions("a", nil, compose.WithNoDirectDependency())
			p := wf.AddPassthroughNode("p").AddInput("b")
			ends := map[string]bool{"b": true, compose.END: true}
			br := strBranch(ends)
			wb := wf.AddBranch("a", br)
			end := wf.End().AddInput("p")
			b := &built{}
			b.compile = func(v string) (runFn, error) {
				r, err := wf.Compile(context.Background(), kit.get(v)...)
				if err != nil {
					return nil, err
				}
				return wrapRunnable(r), nil
			}
			for _, h := range []whandle{
				{"a", func() *compose.WorkflowNode { return a }},
				{"b", func() *compose.WorkflowNode { return bn }},
				{"p", func() *compose.WorkflowNode { return p }},
				{"end", func() *compose.WorkflowNode { return end }},
			} {
				b.lates = append(b.lates, handleLates("", h, []string{compose.START, "b"}, []string{"k"})...)
			}
			b.lates = append(b.lates, workflowLates("", wf, []string{"a", "b"}, "k")...)
			b.lates = append(b.lates, branchLates("branch a>b|end", br, ends, []string{"b", compose.END}, []string{"a", "p", "zz"})...)
			b.lates = append(b.lates,
				voidOp("GraphBranch.GetEndNode-map", "through the *WorkflowBranch: delete(GetEndNode(), b)", func() { delete(wb.GetEndNode(), "b") }),
				voidOp("Workflow.AddBranch", "the retained branch object again from a", func() { wf.AddBranch("a", br) }),
				voidOp("Workflow.AddBranch", "the retained branch object again from start", func() { wf.AddBranch(compose.START, br) }),
			)
			b.lates = append(b.lates, kit.lates("a")...)
			b.lates = append(b.lates, compileLates(sp, b.compile)...)
			return b
		}
		scenarios = append(scenarios, sc)
	}
	{
		sc := scenario{name: "w-nested", fe: "workflow", variants: wfVariants, nInit: 2}
		sc.build = func() *built {
			sp := &sc
			// inner workflow (with a static value) and inner graph as nodes of an outer workflow
			inner := compose.NewWorkflow[string, string]()
			ic := inner.AddLambdaNode("c", lamIn3("ic")).AddInput(compose.START, compose.ToField("X")).SetStaticValue(compose.FieldPath{"Z"}, "isz")
			iend := inner.End().AddInput("c")
			sub := smallGraph("sub")
			wf := compose.NewWorkflow[string, string]()
			kit := newOptKit("g", "w")
			kit.nested = true
			w := wf.AddGraphNode("w", inner).AddInput(compose.START)
			g := wf.AddGraphNode("g", sub).AddInput("w")
			end := wf.End().AddInput("g")
			b := &built{}
			b.compile = func(v string) (runFn, error) {
				r, err := wf.Compile(context.Background(), kit.get(v)...)
				if err != nil {
					return nil, err
				}
				return wrapRunnable(r), nil
			}
			for _, h := range []whandle{
				{"c", func() *compose.WorkflowNode { return ic }},
				{"end", func() *compose.WorkflowNode { return iend }},
				{"End()", func() *compose.WorkflowNode { return inner.End() }},
			} {
				b.lates = append(b.lates, handleLates("inner workflow: ", h, []string{compose.START, "c"}, []string{"Z", "Y"})...)
			}
			b.lates = append(b.lates, workflowLates("nested ", inner, []string{"c"}, "Y")...)
			b.lates = append(b.lates, graphLates("nested Graph", sub, []string{"x"})...)
			for _, h := range []whandle{
				{"w", func() *compose.WorkflowNode { return w }},
				{"g", func() *compose.WorkflowNode { return g }},
				{"end", func() *compose.WorkflowNode { return end }},
			} {
				b.lates = append(b.lates, handleLates("", h, []string{compose.START, "w"}, []string{"k"})...)
			}
			b.lates = append(b.lates, workflowLates("", wf, []string{"w", "g"}, "k")...)
			b.lates = append(b.lates,
				lateOp{Name: "nested Workflow.Compile", Detail: "no options", nestedCompile: true, do: func() (runFn, error) {
					_, err := inner.Compile(context.Background())
					return nil, err
				}},
				lateOp{Name: "nested Graph.Compile", Detail: "WithMaxRunSteps", nestedCompile: true, do: func() (runFn, error) {
					_, err := sub.Compile(context.Background(), compose.WithMaxRunSteps(3))
					return nil, err
				}},
			)
			b.lates = append(b.lates, kit.lates("w")...)
			b.lates = append(b.lates, compileLates(sp, b.compile)...)
			return b
		}
		scenarios = append(scenarios, sc)
	}

	// ---------------- Graph: branches ----------------
	for shape := 0; shape < 2; shape++ {
		shape := shape
		sc := scenario{name: "g-branch-" + []string{"node", "start-two"}[shape], fe: "graph", variants: pregelVariants, nInit: 3}
		sc.build = func() *built {
			sp := &sc
			g := compose.NewGraph[string, string]()
			kit := newOptKit("b", "a")
			_ = g.AddLambdaNode("a", mkLambda("s", "a"))
			_ = g.AddLambdaNode("b", mkLambda("s", "b"))
			b := &built{}
			if shape == 0 {
				ends := map[string]bool{"b": true, compose.END: true}
				br := strBranch(ends)
				_ = g.AddEdge(compose.START, "a")
				_ = g.AddBranch("a", br)
				_ = g.AddEdge("b", compose.END)
				b.lates = append(b.lates, branchLates("branch a>b|end", br, ends, []string{"b", compose.END}, []string{"a", "zz"})...)
				b.lates = append(b.lates,
					errOp("Graph.AddBranch", "the retained branch object again from a", func() error { return g.AddBranch("a", br) }),
					errOp("Graph.AddBranch", "the retained branch object again from b", func() error { return g.AddBranch("b", br) }))
			} else {
				// two branches on START (their index matters at run time), both may choose END
				e1 := map[string]bool{"a": true, "b": true}
				e2 := map[string]bool{"b": true, "a": true}
				br1, br2 := strBranch(e1), strBranch(e2)
				_ = g.AddBranch(compose.START, br1)
				_ = g.AddBranch(compose.START, br2)
				_ = g.AddEdge("a", compose.END)
				_ = g.AddEdge("b", compose.END)
				b.lates = append(b.lates, branchLates("first branch start>a|b", br1, e1, []string{"a", "b"}, []string{compose.END, "zz"})...)
				b.lates = append(b.lates, branchLates("second branch start>a|b", br2, e2, []string{"a"}, []string{"zz"})...)
				b.lates = append(b.lates,
					errOp("Graph.AddBranch", "the retained second branch object again from start", func() error { return g.AddBranch(compose.START, br2) }),
					errOp("Graph.AddBranch", "the retained first branch object again from a", func() error { return g.AddBranch("a", br1) }))
			}
			b.compile = func(v string) (runFn, error) {
				r, err := g.Compile(context.Background(), kit.get(v)...)
				if err != nil {
					return nil, err
				}
				return wrapRunnable(r), nil
			}
			b.lates = append(b.lates, graphLates("Graph", g, []string{"a", "b"})...)
			b.lates = append(b.lates, kit.lates("a")...)
			b.lates = append(b.lates, compileLates(sp, b.compile)...)
			return b
		}
		scenarios = append(scenarios, sc)
	}

	// ---------------- Graph: nested graph / chain / workflow nodes ----------------
	{
		sc := scenario{name: "g-nested", fe: "graph", variants: pregelVariants, nInit: 3}
		sc.build = func() *built {
			sp := &sc
			sub := compose.NewGraph[string, string]()
			_ = sub.AddLambdaNode("x", mkLambda("s", "x"))
			_ = sub.AddLambdaNode("y", mkLambda("s", "y"))
			_ = sub.AddEdge(compose.START, "x")
			sends := map[string]bool{"y": true, compose.END: true}
			sbr := strBranch(sends)
			_ = sub.AddBranch("x", sbr)
			_ = sub.AddEdge("y", compose.END)
			sib := []string{"y"} // interrupt-before argument of the nested graph's compile options
			subOpts := []compose.GraphCompileOption{compose.WithInterruptBeforeNodes(sib), compose.WithGraphName("sub")}

			par := compose.NewParallel().AddLambda("k0", mkLambda("s", "k0")).AddLambda("k1", mkLambda("s", "k1"))
			subc := compose.NewChain[string, string]().AppendLambda(mkLambda("s", "c0")).AppendParallel(par).AppendLambda(mkLambda("m", "c2"))

			inner := compose.NewWorkflow[string, string]()
			ic := inner.AddLambdaNode("c", lamIn3("ic")).AddInput(compose.START, compose.ToField("Y")).SetStaticValue(compose.FieldPath{"X"}, "isx")
			inner.End().AddInput("c")

			g := compose.NewGraph[string, string]()
			kit := newOptKit("t", "s")
			kit.nested = true
			_ = g.AddGraphNode("s", sub, compose.WithGraphCompileOptions(subOpts...))
			_ = g.AddGraphNode("t", subc)
			_ = g.AddGraphNode("u", inner)
			_ = g.AddEdge(compose.START, "s")
			_ = g.AddEdge("s", "t")
			_ = g.AddEdge("t", "u")
			_ = g.AddEdge("u", compose.END)
			b := &built{}
			b.compile = func(v string) (runFn, error) {
				r, err := g.Compile(context.Background(), kit.get(v)...)
				if err != nil {
					return nil, err
				}
				return wrapRunnable(r), nil
			}
			b.lates = append(b.lates, graphLates("Graph", g, []string{"s", "t"})...)
			b.lates = append(b.lates, graphLates("nested Graph", sub, []string{"x", "y"})...)
			b.lates = append(b.lates, branchLates("nested branch x>y|end", sbr, sends, []string{"y", compose.END}, []string{"x", "zz"})...)
			b.lates = append(b.lates, chainLates("nested Chain", subc)...)
			b.lates = append(b.lates, parallelLates("Parallel of the nested chain", par, subc, "k0")...)
			b.lates = append(b.lates, handleLates("inner workflow: ", whandle{"c", func() *compose.WorkflowNode { return ic }}, []string{compose.START}, []string{"X", "Z"})...)
			b.lates = append(b.lates, workflowLates("nested ", inner, []string{"c"}, "Z")...)
			b.lates = append(b.lates,
				lateOp{Name: "nested Graph.Compile", Detail: "no options", nestedCompile: true, do: func() (runFn, error) {
					_, err := sub.Compile(context.Background())
					return nil, err
				}},
				lateOp{Name: "nested Graph.Compile", Detail: "AllPredecessor", nestedCompile: true, do: func() (runFn, error) {
					_, err := sub.Compile(context.Background(), compose.WithNodeTriggerMode(compose.AllPredecessor))
					return nil, err
				}},
				lateOp{Name: "nested Chain.Compile", Detail: "no options", nestedCompile: true, do: func() (runFn, error) {
					_, err := subc.Compile(context.Background())
					return nil, err
				}},
				lateOp{Name: "nested Workflow.Compile", Detail: "no options", nestedCompile: true, do: func() (runFn, error) {
					_, err := inner.Compile(context.Background())
					return nil, err
				}},
				voidOp("interrupt-before-nodes-slice", "nested graph: WithGraphCompileOptions(WithInterruptBeforeNodes(nodes)): nodes[0]=zz", func() { sib[0] = "zz" }),
				voidOp("compile-options-slice", "nested graph: WithGraphCompileOptions(opts...): opts[0]=WithGraphName", func() { subOpts[0] = compose.WithGraphName("late") }),
			)
			b.lates = append(b.lates, kit.lates("s")...)
			b.lates = append(b.lates, compileLates(sp, b.compile)...)
			return b
		}
		scenarios = append(scenarios, sc)
	}

	// ---------------- Chain: parallel, branch, nested ----------------
	for shape := 0; shape < 2; shape++ {
		shape := shape
		sc := scenario{name: "c-parallel-" + []string{"middle", "first"}[shape], fe: "chain", variants: chainVariants, nInit: 3}
		sc.build = func() *built {
			sp := &sc
			c := compose.NewChain[string, string]()
			kit := newOptKit([]string{"join", "head"}[shape], []string{"head", "join"}[shape])
			kit.nested = shape == 1
			sub := smallGraph("pg")
			p := compose.NewParallel().AddLambda("k0", mkLambda("s", "k0")).AddLambda("k1", mkLambda("s", "k1"))
			if shape == 1 {
				p.AddGraph("k2", sub)
				c.AppendParallel(p)
				c.AppendLambda(mkLambda("m", "j"), compose.WithNodeKey("join"))
				c.AppendLambda(mkLambda("s", "h"), compose.WithNodeKey("head"))
			} else {
				c.AppendLambda(mkLambda("s", "h"), compose.WithNodeKey("head"))
				c.AppendParallel(p)
				c.AppendLambda(mkLambda("m", "j"), compose.WithNodeKey("join"))
			}
			b := &built{}
			b.compile = func(v string) (runFn, error) {
				r, err := c.Compile(context.Background(), kit.get(v)...)
				if err != nil {
					return nil, err
				}
				return wrapRunnable(r), nil
			}
			b.lates = append(b.lates, chainLates("Chain", c)...)
			b.lates = append(b.lates, parallelLates("Parallel", p, c, "k0")...)
			if shape == 1 {
				b.lates = append(b.lates, graphLates("nested Graph", sub, []string{"x"})...)
			}
			b.lates = append(b.lates, kit.lates("head")...)
			b.lates = append(b.lates, compileLates(sp, b.compile)...)
			return b
		}
		scenarios = append(scenarios, sc)
	}
	{
		sc := scenario{name: "c-branch", fe: "chain", variants: chainVariants, nInit: 3}
		sc.build = func() *built {
			sp := &sc
			c := compose.NewChain[string, string]()
			kit := newOptKit("tail", "head")
			kit.nested = true
			subc := compose.NewChain[string, string]().AppendLambda(mkLambda("s", "n0")).AppendLambda(mkLambda("s", "n1"))
			cb := compose.NewChainBranch(func(ctx context.Context, in string) (string, error) {
				return "b" + strconv.Itoa(len(in)%3), nil
			}).AddLambda("b0", mkLambda("s", "b0")).AddLambda("b1", mkLambda("s", "b1")).AddGraph("b2", subc)
			c.AppendLambda(mkLambda("s", "h"), compose.WithNodeKey("head"))
			c.AppendBranch(cb)
			c.AppendLambda(mkLambda("s", "t"), compose.WithNodeKey("tail"))
			b := &built{}
			b.compile = func(v string) (runFn, error) {
				r, err := c.Compile(context.Background(), kit.get(v)...)
				if err != nil {
					return nil, err
				}
				return wrapRunnable(r), nil
			}
			b.lates = append(b.lates, chainLates("Chain", c)...)
			b.lates = append(b.lates, chainBranchLates("ChainBranch", cb, c, "b0")...)
			b.lates = append(b.lates, chainLates("nested Chain", subc)...)
			b.lates = append(b.lates, lateOp{Name: "nested Chain.Compile", Detail: "no options", nestedCompile: true, do: func() (runFn, error) {
				_, err := subc.Compile(context.Background())
				return nil, err
			}})
			b.lates = append(b.lates, kit.lates("head")...)
			b.lates = append(b.lates, compileLates(sp, b.compile)...)
			return b
		}
		scenarios = append(scenarios, sc)
	}
}

// ---------------------------------------------------------------------------
// Sequences of late operations and their enumeration
// ---------------------------------------------------------------------------

// lateSeq: scenario sc, first Compile with variants[init], then lates[idx...] in order.
type lateSeq struct {
	sc   int
	init int
	idx  []int
}

type lateWitness struct {
	Scenario string   `json:"scenario"`
	FE       string   `json:"front_end"`
	Init     string   `json:"first_compile_options"`
	Late     []string `json:"late_operations"`
	At       int      `json:"position,omitempty"`
	Note     string   `json:"note,omitempty"`
}

func nLates(sc int) int { return len(scenarios[sc].build().lates) }

// isCompile[i] for the late operations of a scenario (same order on every build)
func compileFlags(sc int) []bool {
	ls := scenarios[sc].build().lates
	f := make([]bool, len(ls))
	for i, l := range ls {
		f[i] = l.compile != ""
	}
	return f
}

// lateSpace enumerates, for one (scenario, init variant): every single late operation followed by
// every Compile variant (op, K), every (K, op), and - allPairs (thorough tier) - every ordered pair
// of operations followed by a Compile with the options of the first Compile (op1, op2, K0), also
// with a Compile of every variant between the two (op1, K, op2, K0).
type lateSpace struct {
	sc, init int
	n        int   // number of late operations
	ks       []int // indices of the Compile operations
	sameK    int   // index of Compile with the first Compile's variant
	allPairs bool
	pair     []int // indices of the operations that take part in the ordered pairs
}

func newLateSpace(sc, init int, allPairs bool) *lateSpace {
	sp := &lateSpace{sc: sc, init: init, allPairs: allPairs, sameK: -1}
	ls := scenarios[sc].build().lates
	sp.n = len(ls)
	for i, l := range ls {
		if l.compile != "" {
			sp.ks = append(sp.ks, i)
			if l.compile == scenarios[sc].variants[init].name {
				sp.sameK = i
			}
		}
		if !l.noPairs {
			sp.pair = append(sp.pair, i)
		}
	}
	return sp
}

func (sp *lateSpace) count() int64 {
	n, k, m := int64(sp.n), int64(len(sp.ks)), int64(len(sp.pair))
	total := n*k + k*n
	if sp.allPairs {
		total += m * m * (1 + k)
	}
	return total
}

func (sp *lateSpace) nth(i int64) lateSeq {
	n, k, m := int64(sp.n), int64(len(sp.ks)), int64(len(sp.pair))
	s := lateSeq{sc: sp.sc, init: sp.init}
	switch {
	case i < n*k:
		s.idx = []int{int(i / k), sp.ks[i%k]}
	case i < 2*n*k:
		i -= n * k
		s.idx = []int{sp.ks[i/n], int(i % n)}
	case i < 2*n*k+m*m:
		i -= 2 * n * k
		s.idx = []int{sp.pair[i/m], sp.pair[i%m], sp.sameK}
	default:
		i -= 2*n*k + m*m
		pair, v := i/k, i%k
		s.idx = []int{sp.pair[pair/m], sp.ks[v], sp.pair[pair%m], sp.sameK}
	}
	return s
}

func randomLateSeq(r *mon.Rand) lateSeq {
	sc := r.Intn(len(scenarios))
	s := lateSeq{sc: sc, init: r.Intn(scenarios[sc].nInit)}
	n := nLatesCached(sc)
	flags := compileFlagsCached(sc)
	var ks []int
	for i, f := range flags {
		if f {
			ks = append(ks, i)
		}
	}
	for l := r.Range(3, 7); l > 0; l-- {
		if r.Prob(0.3) {
			s.idx = append(s.idx, ks[r.Intn(len(ks))])
		} else {
			s.idx = append(s.idx, r.Intn(n))
		}
	}
	s.idx = append(s.idx, ks[r.Intn(len(ks))])
	return s
}

var lateCountCache = map[int]int{}
var lateFlagCache = map[int][]bool{}

func nLatesCached(sc int) int {
	if n, ok := lateCountCache[sc]; ok {
		return n
	}
	n := nLates(sc)
	lateCountCache[sc] = n
	return n
}

func compileFlagsCached(sc int) []bool {
	if f, ok := lateFlagCache[sc]; ok {
		return f
	}
	f := compileFlags(sc)
	lateFlagCache[sc] = f
	return f
}

// ---------------------------------------------------------------------------
// Execution and oracle
// ---------------------------------------------------------------------------

type lateResult struct {
	class     string // panic, accepted, changed, recompiled-differs, modified
	at        int
	name      string
	detail    string
	recompile bool
}

func (c *checker) checkLate(s lateSeq) {
	res, w := c.runLate(s, true)
	if res == nil {
		return
	}
	sc := &scenarios[s.sc]
	if res.class == "modified" || (res.class == "changed" && res.recompile) {
		// which late operation is responsible? try each non-Compile operation of the sequence alone
		names := sc.build().lates
		name := ""
		var cands []string
		seen := map[string]bool{}
		flags := compileFlagsCached(s.sc)
		// the Compile alone?
		if r0, _ := c.runLate(lateSeq{sc: s.sc, init: s.init, idx: []int{s.idx[res.at]}}, false); r0 != nil && r0.at == 0 &&
			(r0.class == res.class || r0.class == "recompiled-differs") {
			res.class, res.recompile = r0.class, r0.recompile
			name = "nothing-but-Compile"
		}
		for _, i := range s.idx[:res.at] {
			if name != "" {
				break
			}
			if flags[i] {
				continue
			}
			single := lateSeq{sc: s.sc, init: s.init, idx: []int{i, s.idx[res.at]}}
			if r1, _ := c.runLate(single, false); r1 != nil && r1.class == res.class && r1.at == 1 {
				name = names[i].Name
				break
			}
			if n := names[i].Name; !seen[n] {
				seen[n] = true
				cands = append(cands, n)
			}
		}
		if name == "" && len(cands) > 0 {
			// no operation does it alone (typically two open findings acting together): the signature
			// names the alphabetically first kind, the detail all of them
			sort.Strings(cands)
			name = cands[0]
			res.detail += "\n(no single late operation of the sequence reproduces this alone; kinds involved: " + strings.Join(cands, ", ") + ")"
		}
		if name == "" {
			name = "nothing-but-Compile"
		}
		res.name = name
	}
	var sig, what string
	switch res.class {
	case "panic":
		sig = "C20/panic/" + sc.fe + "-after-compile/" + res.name
		what = "a call on an object the caller retained panicked after a successful Compile (an attempt to modify a compiled graph must be refused with an error, never a panic)"
	case "accepted":
		sig = "C20/compiled/" + sc.fe + "/" + res.name + "-accepted-after-successful-compile"
		what = "an Add* call on a graph that has been compiled (by its own Compile or as a node of the compiled graph) returned nil"
	case "changed":
		if res.recompile {
			sig = "C20/recompile-corrupts-first-runnable/" + sc.fe + "/after-" + res.name
			what = "the runnable returned by the first successful Compile behaves differently after a later Compile (preceded by the named operations on retained objects)"
		} else {
			// one signature per entry point / kind of retained argument, whatever the front end
			sig = "C20/retained-object-changes-runnable/" + res.name
			what = "the runnable returned by the first successful Compile behaves differently after a later operation on an object the caller retained"
		}
	case "recompiled-differs":
		sig = "C20/recompiled-runnable-differs/" + sc.fe
		what = "Compile of an untouched, already compiled builder with run-time equivalent options gives a runnable that behaves differently from the first one"
	case "late-not-reported":
		// the same signatures as in the call-sequence workload: what was declared on the compiled Workflow
		kind := "declaration"
		switch {
		case strings.Contains(res.name, "AddBranch"):
			kind = "AddBranch"
		case strings.Contains(res.name, "Node") && strings.Contains(res.name, "Workflow.Add"):
			kind = "Add-Node"
		}
		sig = "C20/compiled/workflow/compile-accepted-after-late-" + kind
		what = "a declaration on a compiled Workflow (a call without error result; the Workflow was compiled by its own Compile or as a node) was not reported by the next Compile: every attempt to modify a compiled graph must be refused with an error"
	case "recompile-fails":
		sig = "C20/compile-not-repeatable/" + sc.fe + "/" + strings.ReplaceAll(res.name, " ", "-") + "-of-untouched-builder-fails"
		what = "after a successful Compile and nothing but further Compile calls (of the builder itself, of the builders that are its nodes), Compile returned an error"
	case "modified":
		sig = "C20/builder-modified-after-compile/" + sc.fe + "/" + res.name
		what = "after operations on retained objects, Compile with run-time equivalent options gives a runnable that behaves differently from the first one (or, after nothing but writes to a kept *GraphInfo, fails): the compiled graph was modified"
	}
	c.rep.Violation(sig, fmt.Sprintf("%s\n%s\nscenario %s, first Compile(%s); late operations: %s\nnoticed after operation #%d %s",
		what, res.detail, sc.name, w.Init, strings.Join(w.Late, " ; "), res.at, w.Late[res.at]), w)
}

type lateWitnessX struct {
	lateWitness
	name string
}

// runLate executes one sequence on fresh objects. Returns nil if nothing was found.
func (c *checker) runLate(s lateSeq, count bool) (*lateResult, *lateWitnessX) {
	sc := &scenarios[s.sc]
	rep := c.rep
	b := sc.build()
	initV := sc.variants[s.init]
	w := &lateWitnessX{lateWitness: lateWitness{Scenario: sc.name, FE: sc.fe, Init: initV.name}}
	for _, i := range s.idx {
		w.Late = append(w.Late, b.lates[i].String())
	}
	var r1 runFn
	var err error
	if p := mon.Safe(func() { r1, err = b.compile(initV.name) }); p != nil || err != nil || r1 == nil {
		// the scenarios are well-formed: this is a harness problem or a grave eino regression
		msg := ""
		if p != nil {
			msg = "panic: " + firstLine(p.Value)
		} else if err != nil {
			msg = firstLine(err.Error())
		}
		rep.Violation("C20/rejected-well-formed/"+sc.fe+"-compile/retained-scenario-"+sc.name,
			fmt.Sprintf("the first Compile(%s) of the well-formed scenario %s failed: %s", initV.name, sc.name, msg), w.lateWitness)
		return nil, w
	}
	control := func() runFn {
		cb := sc.build()
		r, err := cb.compile(initV.name)
		if err != nil {
			return nil
		}
		return r
	}
	im := newImmut(r1, control, c)
	if count {
		rep.Count("late_sequences", 1)
		rep.Count("late_sequences/"+sc.fe, 1)
		for i := range im.stable {
			if im.stable[i] && initV.class[0] == 'i' && (im.before[i].Intr != "" || im.before[i].SIntr != "") {
				rep.Count("late_runs_interrupted_before_the_late_operations", 1)
			}
		}
	}
	callerArg := false
	mutated := false
	var wfMods []string // calls of the Workflow API that declared something on a compiled Workflow
	touched := false    // something else than Compile calls (of the top-level builder or of a nested one) happened
	var views []string  // ... except writing to a kept *GraphInfo: these operations were applied
	for pos, i := range s.idx {
		op := b.lates[i]
		var r2 runFn
		var e error
		p := mon.Safe(func() { r2, e = op.do() })
		if count {
			rep.Count("late_ops_applied", 1)
			rep.Count("late_op/"+op.Name, 1)
		}
		if p != nil {
			w.name = op.Name
			return &lateResult{class: "panic", at: pos, name: op.Name,
				detail: fmt.Sprintf("%s panicked: %s\nfirst eino frame: %s", op, firstLine(p.Value), p.FirstFrame("github.com/cloudwego/eino/"))}, w
		}
		if op.mustErr {
			if e == nil {
				w.name = op.Name
				return &lateResult{class: "accepted", at: pos, name: op.Name, detail: fmt.Sprintf("%s returned nil", op)}, w
			}
			if count {
				rep.Count("late_add_refused_with_error", 1)
			}
		}
		if ch, why := im.changed(c); ch {
			w.name = op.Name
			return &lateResult{class: "changed", at: pos, name: op.Name, detail: why, recompile: op.compile != ""}, w
		}
		// a declaration on a compiled Workflow can only be reported by the next Compile (of the Workflow, or of
		// the graph it is a node of): it must be, and with ErrGraphCompiled
		if op.workflowModifier() {
			wfMods = append(wfMods, op.Name)
		} else if op.compile != "" && len(wfMods) > 0 {
			if count {
				rep.Count("late_workflow_declarations_followed_by_compile", 1)
			}
			switch {
			case e == nil:
				// named after the kind of declaration that is known to go unreported, if one is among them (a
				// late Add*Node on an existing key also replaces the handle and with it what was queued on it)
				name := wfMods[0]
				for _, m := range wfMods {
					if strings.Contains(m, "Workflow.Add") && strings.Contains(m, "Node") {
						name = m
						break
					}
				}
				w.name = name
				return &lateResult{class: "late-not-reported", at: pos, name: name,
					detail: fmt.Sprintf("%s returned nil after %s on a compiled Workflow", op, strings.Join(wfMods, ", "))}, w
			case errors.Is(e, compose.ErrGraphCompiled) && count:
				// (not demanded: an error is; a late AddInput on a handle whose input is already mapped is refused
				// with "already mapped" before the edge is tried)
				rep.Count("late_workflow_declarations_reported_with_ErrGraphCompiled", 1)
			}
		}
		// Compile does not change what was built: as long as nothing but Compile calls happened, a Compile
		// of the top-level builder with the options of its first Compile, and the standalone Compile of a
		// builder that is a node of it, must succeed
		if !touched && e != nil && (op.nestedCompile || op.compile == initV.name) {
			// would the Compile calls alone fail as well?
			var compilesOnly []int
			for _, j := range s.idx[:pos+1] {
				if b.lates[j].compile != "" || b.lates[j].nestedCompile {
					compilesOnly = append(compilesOnly, j)
				}
			}
			if len(views) > 0 && len(compilesOnly) < pos+1 {
				if r0, _ := c.runLate(lateSeq{sc: s.sc, init: s.init, idx: compilesOnly}, false); r0 != nil && r0.class == "recompile-fails" {
					views = nil
				}
			}
			if len(views) > 0 {
				// only a description of the graph was written to: the builder was reached through it
				w.name = views[0]
				return &lateResult{class: "modified", at: pos, name: views[0],
					detail: fmt.Sprintf("%s returned an error after nothing but Compile calls and writes to a kept *GraphInfo (%s): %s", op, strings.Join(views, ", "), firstLine(e.Error()))}, w
			}
			w.name = op.Name
			return &lateResult{class: "recompile-fails", at: pos, name: op.Name,
				detail: fmt.Sprintf("%s returned an error: %s", op, firstLine(e.Error()))}, w
		}
		if !touched && count && (op.nestedCompile || op.compile == initV.name) {
			rep.Count("late_compile_of_untouched_builders_succeeded", 1)
		}
		switch {
		case op.viewOnly:
			views = append(views, op.Name)
		case op.compile == "" && !op.nestedCompile:
			touched = true
		}
		switch {
		case op.compile == "":
			mutated = true
			if op.callerArg {
				callerArg = true
			}
		case e != nil:
			if count {
				rep.Count("late_compile_failed", 1)
			}
		case r2 != nil && sc.class(op.compile) == initV.class && !callerArg:
			if count {
				rep.Count("late_compile_equivalent_options_compared", 1)
			}
			if d, why := im.differs(r2, c); d {
				if !mutated {
					w.name = "Compile"
					return &lateResult{class: "recompiled-differs", at: pos, name: "Compile", detail: why}, w
				}
				w.name = op.Name
				return &lateResult{class: "modified", at: pos, name: op.Name, detail: why}, w
			}
		}
	}
	if count {
		rep.Count("late_sequences_first_runnable_unchanged_to_the_end", 1)
	}
	return nil, w
}

func (s lateSeq) digest() string {
	parts := make([]string, len(s.idx))
	for i, x := range s.idx {
		parts[i] = strconv.Itoa(x)
	}
	return "late/" + scenarios[s.sc].name + "/" + strconv.Itoa(s.init) + "/" + strings.Join(parts, ",")
}

func totalLates() int {
	n := 0
	for i := range scenarios {
		n += nLatesCached(i)
	}
	return n
}

// lateOpNames: every kind of late operation some scenario offers (sorted).
func lateOpNames() []string {
	set := map[string]bool{}
	for i := range scenarios {
		for _, l := range scenarios[i].build().lates {
			set[l.Name] = true
		}
	}
	return mon.SortedKeys(set)
}
