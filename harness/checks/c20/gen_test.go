package c20

import (
	"verifharness/internal/mon"
)

// ---------------------------------------------------------------------------
// Workloads.
//   1. families: bounded-exhaustive enumeration of all call sequences of length
//      1..L over a ~14-call alphabet after a fixed prelude (≤3 node keys);
//   2. injection: every call of the front end's full alphabet inserted at /
//      substituted for every position of every well-formed base program;
//   3. random: mutated base programs and free random sequences (longer).
// 1 and 2 are finite spaces that are enumerated completely.
// ---------------------------------------------------------------------------

func L(key string) Op             { return Op{K: "L", Key: key, Typ: "s"} }
func Lt(typ, key string) Op       { return Op{K: "L", Key: key, Typ: typ} }
func Lh(key, h string) Op         { return Op{K: "L", Key: key, Typ: "s", H: h} }
func P(key string) Op             { return Op{K: "P", Key: key} }
func Ph(key, h string) Op         { return Op{K: "P", Key: key, H: h} }
func E(f, t string) Op            { return Op{K: "E", From: f, To: t} }
func B(f string, e ...string) Op  { return Op{K: "B", From: f, Ends: e, Cond: "s"} }
func Bi(f string, e ...string) Op { return Op{K: "B", From: f, Ends: e, Cond: "i"} }
func K(opt string) Op             { return Op{K: "K", Opt: opt} }

func CL(typ string) Op { return Op{K: "CL", Typ: typ} }
func CLh(h string) Op  { return Op{K: "CL", Typ: "s", H: h} }
func CP() Op           { return Op{K: "CP"} }
func CPh(h string) Op  { return Op{K: "CP", H: h} }
func CPar(n int) Op    { return Op{K: "CPar", N: n} }
func CBr(n int) Op     { return Op{K: "CBr", N: n, Cond: "s"} }
func CBri(n int) Op    { return Op{K: "CBr", N: n, Cond: "i"} }

func in(from string) WIn               { return WIn{From: from} }
func inF(from, field string) WIn       { return WIn{From: from, Field: field} }
func inND(from string) WIn             { return WIn{From: from, Mode: "nd"} }
func inNDF(from, f string) WIn         { return WIn{From: from, Field: f, Mode: "nd"} }
func dep(from string) WIn              { return WIn{From: from, Mode: "dep"} }
func WL(key string, ins ...WIn) Op     { return Op{K: "WN", Key: key, Typ: "s", In: ins} }
func WS(key string, ins ...WIn) Op     { return Op{K: "WN", Key: key, Typ: "S", In: ins} }
func WLh(key, h string, ins ...WIn) Op { return Op{K: "WN", Key: key, Typ: "s", H: h, In: ins} }
func WP(key string, ins ...WIn) Op     { return Op{K: "WN", Key: key, Typ: "P", In: ins} }
func WA(key string, ins ...WIn) Op     { return Op{K: "WN", Key: key, In: ins} } // existing handle / End()
func WB(f string, e ...string) Op      { return Op{K: "WB", From: f, Ends: e, Cond: "s"} }
func WBi(f string, e ...string) Op     { return Op{K: "WB", From: f, Ends: e, Cond: "i"} }

func inFF(from, fromF, field string) WIn { return WIn{From: from, FromF: fromF, Field: field} }
func WT(typ, key string, ins ...WIn) Op  { return Op{K: "WN", Key: key, Typ: typ, In: ins} }
func WPh(key, h string, ins ...WIn) Op   { return Op{K: "WN", Key: key, Typ: "P", H: h, In: ins} }
func GN(key string, sub *Sub) Op         { return Op{K: "GN", Key: key, Sub: sub} }
func CG(sub *Sub) Op                     { return Op{K: "CG", Sub: sub} }
func WG(key string, sub *Sub, ins ...WIn) Op {
	return Op{K: "WN", Key: key, Typ: "G", Sub: sub, In: ins}
}

// zero-target branches, branches whose condition reads an `any`, static values
func B0(f string) Op               { return Op{K: "B", From: f, Cond: "s"} }
func Bi0(f string) Op              { return Op{K: "B", From: f, Cond: "i"} }
func Ba(f string, e ...string) Op  { return Op{K: "B", From: f, Ends: e, Cond: "a"} }
func WBa(f string, e ...string) Op { return Op{K: "WB", From: f, Ends: e, Cond: "a"} }
func WB0(f string) Op              { return Op{K: "WB", From: f, Cond: "s"} }
func sv(op Op, field string) Op    { op.SV = field; return op }
func subPre(sub *Sub) *Sub         { c := *sub; c.Pre = true; return &c }

// graphs that are added as nodes (string→string); opts(...) = WithGraphCompileOptions
func subOpt(sub *Sub, opt string) *Sub { return newSub(sub.FE, sub.Ops, true, opt) }

var (
	subGraphLine   = newSub("graph", []Op{L("a"), E("start", "a"), E("a", "end")}, false, "")
	subGraphBranch = newSub("graph", []Op{L("a"), L("b"), E("start", "a"), B("a", "b", "end"), E("b", "end")}, false, "")
	// a loop that is legal unless the graph runs in all-predecessor mode
	subGraphLoopEdge   = newSub("graph", []Op{L("a"), L("b"), E("start", "a"), E("a", "b"), E("b", "a"), E("b", "end")}, false, "")
	subGraphLoopBranch = newSub("graph", []Op{L("a"), L("b"), E("start", "a"), E("a", "b"), B("b", "a", "end")}, false, "")
	subGraphNoExit     = newSub("graph", []Op{L("a"), E("start", "a")}, false, "")
	subChainLine       = newSub("chain", []Op{CL("s"), CP()}, false, "")
	subWfLine          = newSub("workflow", []Op{WL("a", in("start")), WA("end", in("a"))}, false, "")
	subWfBranch        = newSub("workflow", []Op{WL("a", in("start")), WL("b", inND("a")), WB("a", "b", "end"), WA("end", in("b"))}, false, "")
	subWfLoopDep       = newSub("workflow", []Op{WL("a", in("start"), dep("b")), WL("b", in("a")), WA("end", in("b"))}, false, "")
	subWfLoopBranch    = newSub("workflow", []Op{WL("a", in("start")), WL("b", in("a")), WB("b", "a", "end"), WA("end", in("b"))}, false, "")
	subWfLoopData      = newSub("workflow", []Op{WL("a", dep("start"), inND("b")), WL("b", in("a")), WA("end", in("b"))}, false, "")
	subWfMappedPass    = newSub("workflow", []Op{WP("p", inF("start", "X")), WS("c", in("p")), WA("end", in("c"))}, false, "")
	// a workflow with a static value and a branch: what Workflow.Compile hands to the graph besides the inputs
	subWfStatic = newSub("workflow", []Op{WL("a", in("start")), sv(WS("c", inF("a", "X")), "Y"), WL("b", inND("c")), WB("c", "b", "end"), WA("end", in("b"))}, false, "")
)

// nestedVariants: the graphs above with the compile options that matter for them, valid and invalid.
var nestedVariants = []*Sub{
	subGraphLine, subOpt(subGraphLine, "all"), subOpt(subGraphLine, "all+max"), subOpt(subGraphLine, "max+name+all"), subOpt(subGraphLine, "max"),
	subOpt(subGraphBranch, "all"), subGraphLoopEdge, subOpt(subGraphLoopEdge, "all"), subOpt(subGraphLoopBranch, "max"), subOpt(subGraphLoopBranch, "all"),
	subOpt(subGraphLoopBranch, "name+all"), subGraphNoExit,
	subChainLine, subOpt(subChainLine, "max"), subOpt(subChainLine, "all"), subOpt(subChainLine, "any+name"),
	subWfLine, subOpt(subWfLine, "name"), subOpt(subWfLine, "max"), subOpt(subWfLine, "name+max"), subOpt(subWfLine, "max+store"), subOpt(subWfLine, "all"), subOpt(subWfLine, "any"),
	subWfBranch, subWfLoopDep, subWfLoopBranch, subWfLoopData, subOpt(subWfLoopData, "name"), subWfMappedPass,
	// interrupt points on known and unknown node keys; graphs that were compiled standalone before
	subOpt(subGraphLine, "ib=a"), subOpt(subGraphLine, "store+ia=zz"), subOpt(subChainLine, "ia=node_0"), subOpt(subWfLine, "ib=a+ia=a"), subOpt(subWfBranch, "ib=start"),
	subWfStatic, subPre(subWfStatic), subPre(subGraphBranch), subPre(subChainLine), subPre(subGraphNoExit),
}

type family struct {
	name    string
	fe      string
	state   bool
	prelude []Op
	alpha   []Op
	reps    int // attempts of every sequence (0 = default)
	lenQ    int // sequence length in the quick / thorough tier (0 = by front end, see maxLen)
	lenT    int
	suffix  []Op // calls that follow every enumerated sequence
}

// maxLen: sequences of length 1..maxLen are enumerated. Quick tier: 4 for the
// Graph and Chain families, 3 for the (more expensive) Workflow families;
// thorough tier: 5, except the two Workflow families that start from a prelude
// (4 calls after the prelude).
func (f *family) maxLen(thorough bool) int {
	if thorough && f.lenT > 0 {
		return f.lenT
	}
	if !thorough && f.lenQ > 0 {
		return f.lenQ
	}
	switch {
	case thorough && f.fe == "workflow" && len(f.prelude) > 0:
		return 4
	case thorough:
		return 5
	case f.fe == "workflow":
		return 3
	}
	return 4
}

var families = []family{
	{name: "G-keys-edges", fe: "graph",
		alpha: []Op{L("a"), L("b"), P("c"), L("start"), Lh("a", "pre"), E("start", "a"), E("a", "b"), E("a", "end"), E("b", "end"),
			E("a", "z"), E("end", "a"), B("a", "b", "end"), B("a", "b"), K("")}},
	{name: "G-edges-cycles-modes", fe: "graph", prelude: []Op{L("a"), L("b")},
		alpha: []Op{E("start", "a"), E("start", "b"), E("a", "b"), E("b", "a"), E("a", "a"), E("a", "end"), E("b", "end"), E("a", "start"),
			B("start", "a", "b"), B("a", "b", "end"), B("b", "a", "end"), K(""), K("all"), K("max"), K("all+max")}},
	{name: "G-passthrough-types", fe: "graph", prelude: []Op{L("a"), Lt("i", "b"), P("c")},
		alpha: []Op{E("start", "a"), E("start", "c"), E("a", "c"), E("c", "a"), E("c", "b"), E("b", "c"), E("c", "end"), E("a", "end"),
			E("c", "c"), E("a", "b"), B("c", "a", "end"), Bi("c", "b", "end"), K(""), K("all")}},
	{name: "G-state-handlers", fe: "graph", state: true,
		alpha: []Op{L("a"), Lh("a", "pre"), Lh("a", "post"), Lh("b", "preS"), Lh("b", "preV"), Ph("c", "pre"), Ph("c", "preV"), Lh("a", "key"),
			E("start", "a"), E("a", "end"), E("start", "c"), E("c", "end"), K(""), K("max")}},
	{name: "G-branches", fe: "graph", prelude: []Op{L("a"), L("b"), P("c")},
		alpha: []Op{B("start", "a", "b"), B("start", "a", "end"), B("a", "b", "end"), B("a", "b"), B("a", "end"), B("a", "b", "z"), B("z", "a", "b"),
			B("end", "a", "b"), B("c", "a", "end"), B("a", "a", "end"), Bi("a", "b", "end"), E("start", "a"), E("b", "end"), K(""), K("all")}},
	{name: "C-builders", fe: "chain",
		alpha: []Op{CL("s"), CL("i"), CLh("key"), CLh("pre"), CP(), CPar(2), CL("m"), CPar(1), CPar(-1), CBr(2), CBr(1), CBr(-1), K(""), K("all"), K("max")}},
	{name: "W-field-mappings", fe: "workflow",
		alpha: []Op{WL("a", in("start")), WL("b", in("a")), WL("b", in("start")), WS("c", inF("start", "X"), inF("a", "Y")),
			WS("c", inF("start", "X"), inF("a", "X")), WS("c", in("a")), WA("end", in("a")), WA("end", in("b")), WA("end", in("c")),
			WA("c", inF("b", "Y")), WA("b", dep("a")), K(""), K("max"), K("all")}},
	{name: "W-branches-violations", fe: "workflow", prelude: []Op{WL("a", in("start")), WA("end", in("a"))},
		alpha: []Op{WL("b", in("a")), WL("b"), WA("end", in("b")), WA("b", in("z")), WA("b", in("end")), WL("a", in("start")), WL("start", in("a")),
			WB("a", "b", "end"), WB("a", "b", "z"), WB("a", "b"), WB("z", "a", "end"), WA("a", in("b")), WA("b", inND("start")), K(""), K("name")}},
	{name: "W-passthrough-dependencies", fe: "workflow", prelude: []Op{WL("a", in("start"))},
		alpha: []Op{WP("p", dep("start")), WP("p", dep("a")), WP("p", in("a")), WP("p"), WA("end", in("a")), WA("end", dep("p")), WA("end", in("p")),
			WA("p", dep("a")), WL("b", in("p")), WA("end", in("b")), WB("a", "p", "end"), K(""), K("name"), K("max")}},
	// nodes with an input / output key next to typed nodes and to passthrough nodes whose type is not known yet
	{name: "G-keyed-nodes", fe: "graph", prelude: []Op{Lt("m", "d"), E("d", "end")},
		alpha: []Op{Ph("a", "ok"), Lh("a", "ok"), P("b"), Ph("c", "ik"), Ph("c", "iok"), E("start", "a"), E("a", "b"), E("b", "d"), E("a", "d"), E("a", "c"), E("c", "end"),
			B("b", "d", "end"), K("")}},
	// all-predecessor mode over graphs whose nodes are reached through branches, plain edges or both: acyclic ones
	// and ones with a loop closed by an edge or by a branch; the DAG validation iterates Go maps (30 attempts)
	{name: "G-dag-branches", fe: "graph", reps: 30, lenQ: 3, lenT: 4, prelude: []Op{L("a"), L("b"), L("c"), E("start", "a"), E("c", "end")},
		alpha: []Op{B("a", "b", "end"), B("a", "b", "c"), E("a", "b"), E("b", "c"), B("b", "c", "end"), E("a", "c"), E("b", "a"), B("c", "a", "end"), B("b", "a", "c"), B("start", "b", "c"),
			K("all"), K("")}},
	// inputs with field mappings on passthrough nodes: what is declared first must not matter, and Workflow.compile
	// visits the nodes in the order of a Go map (every sequence is repeated 30 times)
	{name: "W-mapped-passthrough", fe: "workflow", reps: 30, prelude: []Op{WL("a", in("start")), WS("c", in("p")), WA("end", in("c"))},
		alpha: []Op{WP("p", inF("start", "X")), WP("p", inF("a", "Y")), WP("p", inF("start", "X"), inF("a", "Y")), WP("p", inNDF("a", "X"), dep("a")), WP("p"), WA("p", inF("a", "Y")),
			WT("sS", "b", in("a")), WP("p", in("b")), WP("p", inFF("b", "X", "Y")), WA("p", inFF("b", "Y", "X")), WL("c", in("p")), WA("p", inFF("b", "X", "")), K(""), K("name")}},
	// loops in a Workflow (always all-predecessor mode), closed through every kind of connection
	{name: "W-loops", fe: "workflow", prelude: []Op{WL("b", in("a")), WA("end", in("b"))},
		alpha: []Op{WL("a", in("start")), WL("a", dep("start"), inND("b")), WL("a", dep("start"), in("b")), WL("a", in("start"), dep("b")), WA("a", dep("b")), WA("a", inND("b")),
			WB("b", "a", "end"), WB("a", "b", "end"), WA("b", dep("a")), WL("c", in("b")), WA("a", dep("c")), WS("a", inF("start", "X"), inNDF("b", "Y")), K(""), K("max")}},
	// a pass-through node between concretely typed producers (s: *tT, i: int) and consumers declared with interface
	// types (fooer, barer, any) or with conflicting concrete types, several inputs per node: a pass-through node takes
	// the type of the first typed neighbour it is connected to, and a Workflow makes the connections at Compile
	// (every sequence is repeated 40 times: the order must be a function of the calls, not of a map iteration)
	{name: "W-passthrough-interface", fe: "workflow", reps: 40, lenQ: 3, lenT: 4,
		prelude: []Op{WT("sT", "s", in("start")), WT("si", "i", in("start"))}, suffix: []Op{WA("end", in("a")), K("")},
		alpha: []Op{WP("p", in("s")), WP("p", in("i")), WP("p"), WA("p", in("s")), WT("F", "a", in("p")), WT("a", "a", in("p")), WL("a", in("p")),
			WT("R", "b", in("p")), WT("a", "b", in("p")), WL("b", in("p")), WP("q", in("p")), WT("F", "b", in("q")), WBa("p", "a", "b")}},
	// the same on the Graph front end, where the caller's order of AddEdge / AddBranch calls decides
	{name: "G-passthrough-interface", fe: "graph", lenQ: 3, lenT: 4, prelude: []Op{Lt("si", "i"), Lt("sT", "t"), P("p"), Lt("a", "a"), L("b"), Lt("F", "f"), Lt("R", "r")},
		alpha: []Op{E("start", "i"), E("start", "t"), E("i", "p"), E("t", "p"), E("p", "a"), E("p", "b"), E("p", "f"), E("p", "r"), Ba("p", "a", "end"), B("p", "b", "end"),
			E("a", "end"), E("b", "end"), K("")}},
	// pass-through nodes whose edges wait for a type (p -> q, p -> r, all untyped), typed later by branches: by
	// ill-formed ones without targets (which used to be accepted and typed q and r without looking at the waiting
	// edges) and by well-formed ones; the waiting edges are kept in a Go map (30 attempts)
	{name: "G-passthrough-waiting", fe: "graph", reps: 30, lenQ: 3, lenT: 4,
		prelude: []Op{P("p"), P("q"), P("r"), Lt("is", "a"), L("b"), E("p", "q"), E("p", "r"), E("a", "end")}, suffix: []Op{K("")},
		alpha: []Op{Bi0("q"), B0("r"), B0("q"), Bi("q", "a", "end"), B("r", "b", "end"), E("start", "p"), E("q", "a"), E("r", "b"), E("b", "end")}},
	// what a Workflow hands to the graph at Compile besides the inputs - branches, static values -, Compile calls that
	// fail for a repairable reason (END not connected yet, a step limit) before the one that succeeds, Compile twice
	{name: "W-recompile", fe: "workflow", lenQ: 4, lenT: 5, prelude: []Op{WL("a", in("start")), WL("b", inND("a")), WB("a", "b", "end")},
		alpha: []Op{WA("end", in("b")), K(""), K("max"), K("name"), sv(WS("c", inF("a", "X")), "Y"), WA("end", dep("c")), sv(WA("c"), "X"), sv(WA("c"), "Y"),
			WB("a", "b", "end"), sv(WL("b", inND("a")), "Q")}},
	// the same with END connected from the start: the Compile calls that fail are those with a step limit
	{name: "W-recompile-step-limit", fe: "workflow", lenQ: 4, lenT: 5, prelude: []Op{WL("a", in("start")), WL("b", inND("a")), WB("a", "b", "end"), WA("end", in("b"))},
		alpha: []Op{K(""), K("max"), K("name"), sv(WS("c", inF("a", "X")), "Y"), sv(WA("c"), "Y"), sv(WA("c"), "X"), WA("end", dep("c")), WB("a", "b", "end")}},
	// a pass-through node that only has field-mapped connections (they tell nothing about its type) gets its type from the
	// condition of a branch - declared before the first Compile, or after a Compile that failed for the missing type
	{name: "W-branch-types-passthrough", fe: "workflow", lenQ: 3, lenT: 4,
		prelude: []Op{WT("sS", "a", in("start")), WP("p", inFF("a", "Y", "")), WS("c", inNDF("p", "X"), inF("start", "Y")), WA("end", in("c"))},
		alpha:   []Op{K(""), K("name"), K("max"), WB("p", "c", "end"), WBi("p", "c", "end"), WBa("p", "c", "end"), WA("p", dep("start")), WL("b", in("p"))}},
	// interrupt points are given by node key
	{name: "G-interrupt-keys", fe: "graph", lenQ: 3, lenT: 3, prelude: []Op{L("a"), L("b"), E("start", "a"), E("a", "b"), E("b", "end")},
		alpha: []Op{K("ib=a"), K("ia=b"), K("ib=zz"), K("store+ia=zz"), K("ib=end"), K("ia=start"), K("ib=a+ia=zz"), K("ib=a,b+store"), K("ib=a,zz"), K(""), GN("c", subOpt(subGraphLine, "ib=a")),
			E("b", "c")}},
}

// countSeqs returns the number of sequences of length 1..maxLen over n symbols.
func countSeqs(n, maxLen int) int64 {
	var total, p int64 = 0, 1
	for l := 1; l <= maxLen; l++ {
		p *= int64(n)
		total += p
	}
	return total
}

// nthSeq decodes index i (0-based, shorter sequences first) into a sequence.
func (f *family) nthSeq(i int64) *Seq {
	n := int64(len(f.alpha))
	l, p := 1, n
	for i >= p {
		i -= p
		l++
		p *= n
	}
	ops := make([]Op, l)
	for k := l - 1; k >= 0; k-- {
		ops[k] = f.alpha[i%n]
		i /= n
	}
	ops = append(ops, f.suffix...)
	return (&Seq{FE: f.fe, State: f.state, Family: f.name, Prelude: f.prelude, Ops: ops, Reps: f.reps}).fill()
}

// ---- full alphabets (injection and random workloads) ------------------------

var fullGraph = []Op{
	L("a"), L("b"), Lt("i", "b"), Lt("si", "a"), Lt("is", "b"), P("c"), P("a"), L("start"), L("end"), P("end"),
	Lh("a", "pre"), Lh("a", "post"), Lh("b", "preS"), Lh("b", "postS"), Lh("b", "preV"), Lh("b", "postV"), Ph("c", "pre"), Ph("c", "post"),
	Ph("c", "preV"), Ph("c", "postS"), Lh("b", "key"), L("d"),
	E("start", "a"), E("start", "b"), E("start", "c"), E("start", "end"), E("a", "b"), E("b", "a"), E("a", "a"), E("a", "c"), E("c", "a"),
	E("c", "b"), E("b", "c"), E("c", "c"), E("a", "end"), E("b", "end"), E("c", "end"), E("end", "a"), E("a", "start"), E("end", "start"),
	E("z", "a"), E("a", "z"), E("start", "start"), E("end", "end"),
	B("start", "a", "b"), B("start", "a", "end"), B("a", "b", "end"), B("b", "a", "end"), B("a", "b"), B("a", "end"), B("a", "b", "z"),
	B("a", "z", "y"), B("z", "a", "b"), B("end", "a", "b"), B("c", "a", "end"), B("c", "b", "end"), Bi("c", "b", "end"), B("a", "a", "end"),
	Bi("a", "b", "end"), B("a", "c", "end"), B("a", "b", "c", "end"), B("a", "start", "end"),
	K(""), K("all"), K("any"), K("max"), K("all+max"), K("any+max"), K("name"), K("store"),
	// nodes with input / output keys, option sets in another order
	Ph("c", "ok"), Ph("c", "ik"), Ph("c", "iok"), Lh("a", "ok"), Lh("b", "ik"), Lt("m", "b"), K("max+all"), K("name+all"), K("store+max+all"),
	// nodes and conditions over interface types, branches without targets, interrupt points by node key
	Lt("a", "b"), Lt("a", "a"), Lt("sa", "a"), Lt("sT", "a"), Lt("F", "b"), Ba("c", "a", "end"), Ba("a", "b", "end"), B0("a"), B0("c"), Bi0("c"), Ba("c"),
	K("ib=a"), K("ia=b+store"), K("ib=zz"), K("ia=end"), K("all+ib=c"), K("ib=a,zz"),
}

var fullChain = []Op{
	CL("s"), CL("i"), CL("si"), CL("is"), CL("m"), CLh("key"), CLh("pre"), CLh("post"), CLh("preS"), CLh("preV"), CP(), CPh("pre"), CPh("preV"),
	CPar(2), CPar(3), CPar(1), CPar(0), CPar(-1), CBr(2), CBr(3), CBri(2), CBr(1), CBr(0), CBr(-1),
	K(""), K("all"), K("any"), K("max"), K("name"), K("store"),
	CPh("ok"), CPh("ik"), CPh("iok"), CLh("ok"), K("max+all"), K("name+any"),
	CL("a"), CL("sa"), CL("sT"), CL("F"), {K: "CBr", N: 2, Cond: "a"}, K("ib=node_0"), K("ia=node_1+store"), K("ib=zz"), K("ia=start"),
}

var fullWorkflow = []Op{
	WL("a", in("start")), WL("a"), WL("b", in("a")), WL("b", in("start")), WL("b"), WL("b", in("a"), in("start")), WL("b", dep("a")),
	WS("c", inF("start", "X"), inF("a", "Y")), WS("c", inF("start", "X")), WS("c", inF("start", "X"), inF("a", "X")), WS("c", in("a")),
	WS("c", inF("a", "Q")), WS("c", inF("start", "X"), inNDF("a", "Y")), WS("c"),
	WL("b", inF("a", "X")), WLh("b", "pre", in("a")), WLh("b", "key", in("a")),
	WA("end", in("a")), WA("end", in("b")), WA("end", in("c")), WA("end", dep("a")), WA("end", inF("a", "X")),
	WA("c", inF("b", "Y")), WA("c", inF("a", "Y")), WA("b", dep("a")), WA("b", in("z")), WA("b", in("end")), WA("a", in("b")), WA("a", dep("b")),
	WA("b", inND("start")), WA("b", in("a")), WA("a", in("a")),
	WL("start", in("a")), WL("end", in("a")),
	WP("p", dep("start")), WP("p", dep("a")), WP("p", in("a")), WP("p"), WA("end", dep("p")), WA("end", in("p")), WA("p", dep("a")), WL("b", in("p")), WB("a", "p", "end"),
	WB("a", "b", "end"), WB("a", "b", "z"), WB("a", "b"), WB("z", "a", "end"), WB("start", "a", "b"), WB("a", "b", "c"), WB("end", "a", "b"),
	WBi("a", "b", "end"), WB("b", "a", "end"),
	K(""), K("max"), K("all"), K("any"), K("name"), K("store"),
	// field mappings at passthrough nodes, keyed nodes, loops through data-only inputs, option sets in another order
	WP("p", inF("a", "X")), WP("p", inF("start", "X"), inF("a", "Y")), WS("c", in("p")), WT("sS", "b", in("a")), WL("c", inFF("b", "X", "")), WP("p", inFF("b", "X", "")),
	WPh("p", "ok", in("a")), WPh("p", "ik", in("a")), WPh("p", "iok", in("a")), WT("m", "b", in("p")),
	WL("a", dep("start"), inND("b")), WA("a", inND("b")), WA("a", inNDF("b", "Y")), WA("b", inND("a")),
	K("name+max"), K("max+name"), K("store+max"), K("max+any"),
	// nodes and conditions over interface types next to pass-through nodes, static values, branches without targets,
	// interrupt points by node key
	WT("a", "b", in("p")), WT("a", "b", in("a")), WT("sa", "a", in("start")), WT("sT", "a", in("start")), WT("F", "b", in("p")), WT("F", "b", in("a")), WP("p", in("a")),
	WBa("p", "b", "end"), WBa("a", "b", "end"), WB0("a"), WB0("p"),
	sv(WS("c", inF("start", "X")), "Y"), sv(WS("c", inF("a", "X")), "X"), sv(WA("c"), "Y"), sv(WA("c"), "Q"), sv(WA("b"), "X"), sv(WS("c"), "Y"),
	K("ib=a"), K("ia=b+store"), K("ib=zz"), K("ia=end"), K("name+ib=p"),
}

func init() {
	// graphs added as nodes, under the keys the base programs use (substituted for a node of a base program
	// they are connected like that node)
	for _, sub := range nestedVariants {
		fullGraph = append(fullGraph, GN("a", sub), GN("b", sub))
		fullChain = append(fullChain, CG(sub))
		fullWorkflow = append(fullWorkflow, WG("a", sub, in("start")), WG("b", sub, in("a")))
	}
}

func fullAlphabet(fe string) []Op {
	switch fe {
	case "chain":
		return fullChain
	case "workflow":
		return fullWorkflow
	}
	return fullGraph
}

// ---- well-formed base programs ------------------------------------------------

type base struct {
	name  string
	fe    string
	state bool
	ops   []Op
	reps  int
}

var bases = []base{
	{name: "g-line1", fe: "graph", ops: []Op{L("a"), E("start", "a"), E("a", "end"), K("")}},
	{name: "g-line2-any", fe: "graph", ops: []Op{L("a"), L("b"), E("start", "a"), E("a", "b"), E("b", "end"), K("any")}},
	{name: "g-fan-all", fe: "graph", ops: []Op{L("a"), L("b"), P("c"), E("start", "c"), E("c", "a"), E("a", "b"), E("b", "end"), K("all")}},
	{name: "g-loop-branch", fe: "graph", ops: []Op{L("a"), L("b"), E("start", "a"), E("a", "b"), B("b", "a", "end"), K("max")}},
	{name: "g-state", fe: "graph", state: true, ops: []Op{Lh("a", "pre"), Lh("b", "post"), Ph("c", "pre"), E("start", "a"), E("a", "c"), E("c", "b"), E("b", "end"), K("")}},
	{name: "g-start-branch-all", fe: "graph", ops: []Op{L("a"), L("b"), B("start", "a", "b"), E("a", "end"), E("b", "end"), K("all")}},
	{name: "g-pass-backwards", fe: "graph", ops: []Op{P("c"), L("a"), E("c", "a"), E("start", "c"), E("a", "end"), K("")}},
	{name: "g-typed", fe: "graph", ops: []Op{Lt("si", "a"), Lt("is", "b"), P("c"), E("start", "a"), E("a", "c"), E("c", "b"), E("b", "end"), K("name")}},
	{name: "g-branch-pass", fe: "graph", ops: []Op{L("a"), P("c"), E("start", "c"), B("c", "a", "end"), E("a", "end"), K("store")}},

	{name: "c-line", fe: "chain", ops: []Op{CL("s"), CL("s"), K("")}},
	{name: "c-parallel", fe: "chain", ops: []Op{CL("s"), CPar(2), CL("m"), K("")}},
	{name: "c-branch", fe: "chain", ops: []Op{CL("s"), CBr(2), CL("s"), K("max")}},
	{name: "c-branch-first", fe: "chain", ops: []Op{CBr(2), CP(), CLh("key"), K("name")}},
	{name: "c-state", fe: "chain", state: true, ops: []Op{CLh("pre"), CPh("post"), CLh("post"), K("")}},
	{name: "c-typed", fe: "chain", ops: []Op{CL("si"), CL("i"), CL("is"), K("")}},

	{name: "w-line", fe: "workflow", ops: []Op{WL("a", in("start")), WL("b", in("a")), WA("end", in("b")), K("")}},
	{name: "w-fields", fe: "workflow", ops: []Op{WL("a", in("start")), WS("c", inF("start", "X"), inF("a", "Y")), WA("end", in("c")), K("")}},
	{name: "w-fields-late", fe: "workflow", ops: []Op{WL("a", in("start")), WL("b", in("a")), WS("c", inF("a", "X")), WA("c", inF("b", "Y")), WA("end", in("c")), K("name")}},
	{name: "w-branch", fe: "workflow", ops: []Op{WL("a", in("start")), WL("b", inND("a")), WB("a", "b", "end"), WA("end", in("b")), K("")}},
	{name: "w-passthrough", fe: "workflow", ops: []Op{WL("a", in("start")), WP("p", in("a")), WL("b", in("p"), dep("a")), WA("end", in("b")), K("name")}},
	{name: "w-dep-state", fe: "workflow", state: true, ops: []Op{WLh("a", "pre", in("start")), WL("b", in("start"), dep("a")), WA("end", in("b")), K("store")}},

	{name: "g-keyed", fe: "graph", ops: []Op{L("a"), Ph("c", "ok"), Lt("m", "b"), E("start", "a"), E("a", "c"), E("c", "b"), E("b", "end"), K("")}},
	{name: "g-keyed-in", fe: "graph", ops: []Op{Lh("a", "ok"), Ph("c", "ik"), L("b"), E("start", "a"), E("c", "b"), E("a", "c"), E("b", "end"), K("all")}},
	{name: "g-nested-all", fe: "graph", ops: []Op{L("a"), GN("b", subOpt(subGraphBranch, "all")), E("start", "a"), E("a", "b"), E("b", "end"), K("all")}},
	{name: "g-nested-workflow", fe: "graph", ops: []Op{GN("a", subWfBranch), GN("b", subOpt(subGraphLoopBranch, "max")), E("start", "a"), E("a", "b"), E("b", "end"), K("max")}},
	{name: "c-keyed", fe: "chain", ops: []Op{CPh("ok"), CP(), CL("m"), K("")}},
	{name: "c-nested", fe: "chain", ops: []Op{CL("s"), CG(subOpt(subWfLine, "name")), CG(subOpt(subGraphLine, "all")), K("max")}},
	{name: "w-mapped-passthrough", fe: "workflow", reps: 30, ops: []Op{WL("a", in("start")), WP("p", inF("start", "X"), inF("a", "Y")), WS("c", in("p")), WA("end", in("c")), K("")}},
	{name: "w-from-field-passthrough", fe: "workflow", reps: 30, ops: []Op{WT("sS", "b", in("start")), WP("p", inFF("b", "X", "")), WL("a", in("p")), WA("end", in("a")), K("name")}},
	{name: "w-data-only", fe: "workflow", ops: []Op{WL("a", in("start")), WL("b", in("a")), WL("c", inND("a"), dep("b")), WA("end", in("c")), K("name")}},
	{name: "w-nested", fe: "workflow", ops: []Op{WL("a", in("start")), WG("b", subOpt(subGraphLine, "all"), in("a")), WG("c", subWfBranch, in("b")), WA("end", in("c")), K("")}},
	// a pass-through node between a concrete producer and consumers declared with interface types (Workflow: 40 attempts)
	{name: "w-passthrough-interface", fe: "workflow", reps: 40, ops: []Op{WT("sT", "a", in("start")), WP("p", in("a")), WT("F", "b", in("p")), WT("R", "c", in("p")), WA("end", in("b"), dep("c")), K("")}},
	{name: "g-passthrough-interface", fe: "graph", ops: []Op{Lt("si", "a"), P("c"), Lt("a", "b"), E("start", "a"), E("a", "c"), E("c", "b"), E("b", "end"), K("ib=b")}},
	// a branch and a static value, interrupt points, a nested workflow that was compiled standalone first
	{name: "w-static-branch", fe: "workflow", ops: []Op{WL("a", in("start")), sv(WS("c", inF("a", "X")), "Y"), WL("b", inND("c")), WB("c", "b", "end"), WA("end", in("b")), K("ia=c")}},
	{name: "g-nested-precompiled", fe: "graph", ops: []Op{GN("a", subPre(subWfStatic)), GN("b", subPre(subGraphBranch)), E("start", "a"), E("a", "b"), E("b", "end"), K("ib=b+store")}},
}

// injection sequences of one base: (position, full-alphabet op, insert|replace).
func (b *base) injectionCount() int64 {
	n := int64(len(fullAlphabet(b.fe)))
	return int64(len(b.ops)+1)*n + int64(len(b.ops))*n
}

func (b *base) nthInjection(i int64) *Seq {
	alpha := fullAlphabet(b.fe)
	n := int64(len(alpha))
	ins := int64(len(b.ops)+1) * n
	var ops []Op
	if i < ins {
		pos, v := int(i/n), alpha[i%n]
		ops = append(ops, b.ops[:pos]...)
		ops = append(ops, v)
		ops = append(ops, b.ops[pos:]...)
	} else {
		i -= ins
		pos, v := int(i/n), alpha[i%n]
		ops = append(ops, b.ops[:pos]...)
		ops = append(ops, v)
		ops = append(ops, b.ops[pos+1:]...)
	}
	return (&Seq{FE: b.fe, State: b.state, Family: "inject:" + b.name, Ops: ops, Reps: b.reps}).fill()
}

// ---- random longer sequences -----------------------------------------------------

func randomSeq(r *mon.Rand) *Seq {
	if r.Prob(0.6) {
		// a mutated well-formed program
		b := bases[r.Intn(len(bases))]
		alpha := fullAlphabet(b.fe)
		ops := append([]Op(nil), b.ops...)
		for m := r.Range(1, 4); m > 0; m-- {
			switch r.Intn(5) {
			case 0, 1: // insert
				pos := r.Intn(len(ops) + 1)
				ops = append(ops[:pos], append([]Op{alpha[r.Intn(len(alpha))]}, ops[pos:]...)...)
			case 2: // delete
				if len(ops) > 1 {
					pos := r.Intn(len(ops))
					ops = append(ops[:pos], ops[pos+1:]...)
				}
			case 3: // swap
				if len(ops) > 1 {
					pos := r.Intn(len(ops) - 1)
					ops[pos], ops[pos+1] = ops[pos+1], ops[pos]
				}
			case 4: // repeat an op later
				pos := r.Intn(len(ops))
				at := r.Range(pos, len(ops))
				ops = append(ops[:at], append([]Op{ops[pos]}, ops[at:]...)...)
			}
		}
		// later attempts after the (possibly successful) Compile
		for m := r.Range(0, 4); m > 0; m-- {
			ops = append(ops, alpha[r.Intn(len(alpha))])
		}
		state := b.state
		if r.Prob(0.15) {
			state = !state
		}
		return (&Seq{FE: b.fe, State: state, Family: "random:mutate:" + b.name, Ops: ops}).fill()
	}
	fe := mon.PickOne(r, []string{"graph", "graph", "chain", "workflow"})
	alpha := fullAlphabet(fe)
	n := r.Range(6, 14)
	ops := make([]Op, n)
	for i := range ops {
		ops[i] = alpha[r.Intn(len(alpha))]
	}
	if r.Prob(0.7) {
		// bias towards something that can compile: no early Compile, one at the end
		for i := range ops[:n-1] {
			for ops[i].K == "K" {
				ops[i] = alpha[r.Intn(len(alpha))]
			}
		}
		ops[n-1] = K(mon.PickOne(r, []string{"", "", "all", "max", "name"}))
	}
	return (&Seq{FE: fe, State: r.Prob(0.3), Family: "random:free", Ops: ops}).fill()
}
