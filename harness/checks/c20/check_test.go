package c20

import (
	"errors"
	"fmt"
	"os"
	"runtime/debug"
	"strings"
	"testing"

	"github.com/cloudwego/eino/compose"
	"verifharness/internal/mon"
)

const (
	reps      = 5   // attempts of every sequence on fresh objects
	blockSize = 256 // enumerated sequences per CASE marker
)

var runInputs = []string{"", "x", "xy"}

type pred struct {
	na   bool
	rule string
}

type witness struct {
	Seq       *Seq   `json:"sequence"`
	Position  int    `json:"position,omitempty"`
	Call      string `json:"call,omitempty"`
	Predicted string `json:"reference,omitempty"`
	Observed  string `json:"observed,omitempty"`
	Vector    string `json:"outcome_vector,omitempty"`
	Note      string `json:"note,omitempty"`
}

type checker struct {
	rep     *mon.Reporter
	sampled int
}

func callName(op Op) string {
	switch op.K {
	case "L":
		return "AddLambdaNode"
	case "P":
		return "AddPassthroughNode"
	case "GN":
		return "AddGraphNode"
	case "CG":
		return "AppendGraph"
	case "E":
		return "AddEdge"
	case "B":
		return "AddBranch"
	case "CL":
		return "AppendLambda"
	case "CP":
		return "AppendPassthrough"
	case "CPar":
		return "AppendParallel"
	case "CBr":
		return "AppendBranch"
	case "WN":
		return "AddNode-AddInput"
	case "WB":
		return "AddBranch"
	case "K":
		return "compile"
	}
	return op.K
}

// execution of one attempt
type attempt struct {
	inst instance
	res  []callRes
	vec  []byte
}

func classText(c byte) string {
	switch c {
	case 'o':
		return "accepted (nil error)"
	case 'e':
		return "rejected (error)"
	case 'p':
		return "PANIC"
	}
	return "no result (builder call)"
}

func hasFieldMapping(ops []Op) bool {
	for _, o := range ops {
		for _, in := range o.In {
			if in.Field != "" {
				return true
			}
		}
	}
	return false
}

func runAll(r runFn) []runOut {
	out := make([]runOut, len(runInputs))
	for i, in := range runInputs {
		out[i] = r(in)
	}
	return out
}

// immut tracks the first compiled runnable of an attempt.
type immut struct {
	r       runFn
	control func() runFn // the same construction on fresh objects, compiled once, never touched again
	before  []runOut
	stable  []bool // results (values, errors, panics, interrupts) reproducible
	tstable []bool // also the set of executed node bodies reproducible
}

// confirmRuns: a difference counts only if it is persistent (see confirm).
const confirmRuns = 30

func newImmut(r runFn, control func() runFn, c *checker) *immut {
	m := &immut{r: r, control: control}
	m.before = runAll(r)
	again := runAll(r)
	m.stable = make([]bool, len(runInputs))
	m.tstable = make([]bool, len(runInputs))
	for i := range m.before {
		m.stable[i] = m.before[i].same(again[i])
		m.tstable[i] = m.stable[i] && m.before[i].sameTrace(again[i])
		if !m.stable[i] {
			c.rep.Count("runs_not_reproducible_skipped", 1)
		} else if !m.tstable[i] {
			c.rep.Count("runs_with_irreproducible_set_of_executed_nodes", 1)
		}
	}
	c.rep.Count("runnable_runs", int64(2*len(runInputs)))
	return m
}

// differsFrom: does `now` deviate from the recorded outcome of input i, as far as that is reproducible?
func (m *immut) differsFrom(i int, now runOut) bool {
	switch {
	case m.tstable[i]:
		return !now.sameAll(m.before[i])
	case m.stable[i]:
		return !now.same(m.before[i])
	}
	return false
}

// confirm separates a runnable that was changed from a run whose outcome depends on scheduling
// (e.g. a workflow node without a path to END races with the end of the run; in Stream mode such a
// node may fail where it does not in Invoke mode): the difference must persist - r never gives the
// old outcome again in confirmRuns runs - and an untouched control built by the same calls on fresh
// objects must give the old outcome in every one of confirmRuns runs.
func (m *immut) confirm(r runFn, i int, c *checker) bool {
	in := runInputs[i]
	for k := 0; k < confirmRuns; k++ {
		if !m.differsFrom(i, r(in)) {
			c.rep.Count("differences_not_persistent_skipped", 1)
			return false
		}
	}
	ctl := m.control()
	if ctl == nil {
		c.rep.Count("differences_without_control_skipped", 1)
		return false
	}
	for k := 0; k < confirmRuns; k++ {
		if m.differsFrom(i, ctl(in)) {
			c.rep.Count("differences_with_irreproducible_control_skipped", 1)
			return false
		}
	}
	c.rep.Count("runnable_runs", 2*confirmRuns)
	return true
}

// changed re-runs the first runnable and reports the first input whose outcome differs.
func (m *immut) changed(c *checker) (bool, string) {
	now := runAll(m.r)
	c.rep.Count("runnable_runs", int64(len(runInputs)))
	for i := range now {
		if m.differsFrom(i, now[i]) && m.confirm(m.r, i, c) {
			return true, fmt.Sprintf("input %q: before %s, afterwards %s", runInputs[i], m.before[i], now[i])
		}
	}
	return false, ""
}

func (m *immut) differs(other runFn, c *checker) (bool, string) {
	now := runAll(other)
	c.rep.Count("runnable_runs", int64(len(runInputs)))
	for i := range now {
		if m.differsFrom(i, now[i]) && m.confirm(other, i, c) {
			return true, fmt.Sprintf("input %q: first runnable %s, re-compiled runnable %s", runInputs[i], m.before[i], now[i])
		}
	}
	return false, ""
}

// acceptReject maps an outcome vector to accepted / not accepted / no result.
func acceptReject(v []byte) string {
	b := make([]byte, len(v))
	for i, c := range v {
		if c == 'p' {
			c = 'e'
		}
		b[i] = c
	}
	return string(b)
}

// comparablePrefix: the outcome vectors of two attempts are compared up to the first panic of either.
func comparablePrefix(a, b []byte, max int) int {
	n := max
	if len(a) < n {
		n = len(a)
	}
	if len(b) < n {
		n = len(b)
	}
	for i := 0; i < n; i++ {
		if a[i] == 'p' || b[i] == 'p' {
			return i
		}
	}
	return n
}

func postAdds(fe string) []Op {
	switch fe {
	case "chain":
		return []Op{CL("s"), CP(), CPar(2), CBr(2), CLh("key")}
	case "workflow":
		return []Op{WL("q", in("start")), WA("end", in("q")), WB("start", "q", "end"), WA("a", in("start")), WL("a", in("start"))}
	}
	return []Op{L("q"), P("r"), L("a"), E("start", "q"), E("start", "end"), E("a", "a"), B("start", "q", "end"), Lh("s", "pre")}
}

// optClass groups compile options that give the same run-time semantics.
func optClass(opt string) string {
	k := parseK(opt)
	intr := ""
	if len(k.before) > 0 {
		intr += "|before=" + strings.Join(sortedCopy(k.before), ",")
	}
	if len(k.after) > 0 {
		intr += "|after=" + strings.Join(sortedCopy(k.after), ",")
	}
	switch {
	case k.mode == "all" && k.max:
		return "all+max" + intr
	case k.mode == "all":
		return "all" + intr
	case k.max:
		return "pregel-max" + intr
	}
	return "pregel" + intr
}

// usesIface: the sequence (or a graph nested in it) declares a node or a branch condition over an
// interface type.
func usesIface(ops []Op) bool {
	for _, o := range ops {
		switch o.K {
		case "L", "CL", "WN":
			if in, out := lambdaTypes(o.Typ); o.Typ != "" && o.Typ != "P" && o.Typ != "G" && (isIfaceT(in) || isIfaceT(out)) {
				return true
			}
		case "B", "WB", "CBr":
			if o.Cond == "a" {
				return true
			}
		}
		if o.Sub != nil && usesIface(o.Sub.Ops) {
			return true
		}
	}
	return false
}

func hasPassthrough(ops []Op) bool {
	for _, o := range ops {
		if o.K == "P" || o.K == "CP" || (o.K == "WN" && o.Typ == "P") {
			return true
		}
		if o.Sub != nil && hasPassthrough(o.Sub.Ops) {
			return true
		}
	}
	return false
}

func zeroTargetBranch(ops []Op) bool {
	for _, o := range ops {
		if (o.K == "B" || o.K == "WB") && len(o.Ends) == 0 {
			return true
		}
		if o.Sub != nil && zeroTargetBranch(o.Sub.Ops) {
			return true
		}
	}
	return false
}

// nondetFeature: a feature of the input that goes into the signature of a non-deterministic outcome
// (what the sequence contains, not a proven cause).
func nondetFeature(ops []Op) string {
	switch {
	case mappedAtPassthrough(ops):
		return "/field-mapped-input-at-passthrough"
	case zeroTargetBranch(ops):
		return "/zero-target-branch"
	case usesIface(ops) && hasPassthrough(ops):
		return "/passthrough-next-to-interface-typed-node"
	}
	return ""
}

// hasPre: a graph that is compiled standalone before it is added as a node.
func hasPre(ops []Op) bool {
	for _, o := range ops {
		if o.Sub != nil && (o.Sub.Pre || hasPre(o.Sub.Ops)) {
			return true
		}
	}
	return false
}

func clearPre(ops []Op) []Op {
	out := make([]Op, len(ops))
	for i, o := range ops {
		if o.Sub != nil {
			sub := *o.Sub
			sub.Pre = false
			sub.Ops = clearPre(sub.Ops)
			o.Sub = &sub
		}
		out[i] = o
	}
	return out
}

// staticValueDeclaredAgain: the calls set a static value on a field of a node, a Compile fails, and the
// same field of the same node is given a static value again.
func staticValueDeclaredAgain(ops []Op, failed []int) bool {
	for _, j := range failed {
		before := map[string]bool{}
		for _, o := range ops[:j] {
			if o.K == "WN" && o.SV != "" {
				before[o.Key+"."+o.SV] = true
			}
		}
		for _, o := range ops[j:] {
			if o.K == "WN" && o.SV != "" && before[o.Key+"."+o.SV] {
				return true
			}
		}
	}
	return false
}

// branchOnPassthroughAfter: after a Compile that failed, a branch is declared on a pass-through node.
func branchOnPassthroughAfter(ops []Op, failed []int) bool {
	pass := map[string]bool{}
	for _, o := range ops {
		if o.K == "WN" && o.Typ == "P" || o.K == "P" {
			pass[o.Key] = true
		}
	}
	for _, j := range failed {
		for _, o := range ops[j:] {
			if (o.K == "WB" || o.K == "B") && pass[o.From] {
				return true
			}
		}
	}
	return false
}

// compileStageRule: the reference attributes the failure of a Compile to the compile stage proper (an
// incomplete graph, a bad option set, a loop, an ill-formed nested graph) and not to a declaration that
// was replayed and refused (a Workflow replays its declarations at Compile; such a refusal sticks).
func compileStageRule(rule string) bool {
	for _, p := range []string{"no-entry-edge", "no-exit-edge", "uninferred-passthrough", "cycle-in-all-predecessor-mode", "max-steps-in-all-predecessor-mode",
		"trigger-mode-on-chain-or-workflow", "unknown-interrupt-node", "nested-"} {
		if strings.HasPrefix(rule, p) {
			return true
		}
	}
	return false
}

// checkCompileHistory: Compile does not change what was built. (1) A Compile that failed for a reason
// of the compile stage must be without influence on a later Compile: the same calls without the failed
// Compile calls, on fresh objects, must give the same outcome and, if that is a runnable, the same
// behaviour (branch conditions are part of the trace: a branch that is registered twice evaluates its
// condition twice per run). (2) A graph that was compiled standalone before it was added as a node must
// compile, as a node, like one that was not. Reference-free; not applied to chains (the first Compile
// of a chain connects END, documented behaviour the reference mirrors) and to sequences with interface
// types (there the order in which a Workflow replays its declarations - all at once, or in two portions
// around a failed Compile - legitimately decides the type of a pass-through node).
func (c *checker) checkCompileHistory(s *Seq, ops []Op, first *attempt, preds []pred, disagreeAt int, text func(int) string) {
	if s.FE == "chain" || usesIface(ops) {
		return
	}
	np := len(s.Prelude)
	// the Compile calls to look at: the first successful one with a history, and the last one with a history
	var cand []int
	history := func(i int) (failed []int, pre, ok bool) {
		for j := 0; j < i; j++ {
			if ops[j].K == "K" && first.vec[j] == 'e' {
				if !compileStageRule(preds[j].rule) {
					return nil, false, false
				}
				failed = append(failed, j)
			}
		}
		pre = hasPre(ops[:i+1])
		return failed, pre, len(failed) > 0 || pre
	}
	firstOK, lastK := -1, -1
	for i, op := range ops {
		// (the reference and eino agree on every call before this Compile)
		if op.K != "K" || i >= len(first.vec) || i > disagreeAt || first.vec[i] == 'p' {
			continue
		}
		if _, _, ok := history(i); !ok {
			continue
		}
		if first.vec[i] == 'o' && firstOK < 0 {
			firstOK = i
		}
		lastK = i
	}
	if firstOK >= 0 {
		cand = append(cand, firstOK)
	}
	if lastK >= 0 && lastK != firstOK {
		cand = append(cand, lastK)
	}
	build := func(calls []Op) (instance, byte, bool) {
		inst := newInstance(s.FE, s.State)
		var last byte
		for _, o := range calls {
			res := inst.apply(o)
			if res.Panic != nil {
				return nil, 'p', false
			}
			last = res.class()
		}
		return inst, last, true
	}
	for _, i := range cand {
		failed, pre, _ := history(i)
		orig := ops[:i+1]
		type variant struct {
			calls []Op
			class string
			what  string
		}
		var vs []variant
		if len(failed) > 0 {
			skip := map[int]bool{}
			for _, j := range failed {
				skip[j] = true
			}
			var calls []Op
			for j, o := range orig {
				if !skip[j] {
					calls = append(calls, o)
				}
			}
			vs = append(vs, variant{calls, "after-failed-compile", "the same calls without the Compile calls that failed"})
		}
		if pre {
			vs = append(vs, variant{clearPre(orig), "nested-graph-compiled-standalone-first", "the same calls with nested graphs that were not compiled standalone before they were added"})
		}
		for _, v := range vs {
			c.rep.Count("compile_history_comparisons", 1)
			c.rep.Count("compile_history_comparisons/"+v.class, 1)
			c.rep.AddEvaluations(1)
			alt, altCls, ok := build(v.calls)
			if !ok {
				c.rep.Count("compile_history_alternative_panicked_skipped", 1)
				continue
			}
			w := witness{Seq: s, Position: i - np, Call: ops[i].String(), Note: v.what + ": " + opsText(v.calls)}
			if altCls != first.vec[i] {
				feature := ""
				if v.class == "after-failed-compile" {
					// (what the sequence contains, not a proven cause)
					switch {
					case staticValueDeclaredAgain(orig, failed):
						feature = "/static-value-declared-again"
					case branchOnPassthroughAfter(orig, failed):
						feature = "/branch-on-pass-through-node-declared-afterwards"
					}
				}
				c.rep.Violation("C20/compile-not-repeatable/"+s.FE+"/"+v.class+"/compile-outcome"+feature,
					fmt.Sprintf("the outcome of Compile depends on an earlier Compile of the same objects: %s here, %s for %s\n%s\nalternative: %s",
						classText(first.vec[i]), classText(altCls), v.what, text(i), opsText(v.calls)), w)
				continue
			}
			if altCls != 'o' || preds[i].rule != "" {
				continue
			}
			// both compiled (and the reference finds the graph well-formed, so it can be run): same behaviour?
			origInst, cls, ok := build(orig)
			if !ok || cls != 'o' {
				continue
			}
			control := func() runFn {
				inst, cls, ok := build(orig)
				if !ok || cls != 'o' {
					return nil
				}
				return inst.last()
			}
			im := newImmut(origInst.last(), control, c)
			c.rep.Count("compile_history_runnables_compared", 1)
			if d, why := im.differs(alt.last(), c); d {
				c.rep.Violation("C20/compile-not-repeatable/"+s.FE+"/"+v.class+"/runnable",
					fmt.Sprintf("the runnable a Compile returns depends on an earlier Compile of the same objects (\"first runnable\" = this sequence, \"re-compiled\" = %s): %s\n%s\nalternative: %s",
						v.what, why, text(i), opsText(v.calls)), w)
			}
		}
	}
}

// keyedPassthroughs: the keys of the passthrough nodes declared with an input or output key (any: also
// in a chain, whose nodes have no key in the call model, or in a graph that is added as a node).
func keyedPassthroughs(ops []Op) (keys map[string]bool, any bool) {
	keys = map[string]bool{}
	for _, o := range ops {
		if h := parseH(o.H); (h.inKey || h.outKey) && (o.K == "P" || o.K == "CP" || (o.K == "WN" && o.Typ == "P")) {
			keys[o.Key] = true
			any = true
		}
		if o.Sub != nil {
			if _, sub := keyedPassthroughs(o.Sub.Ops); sub {
				any = true
			}
		}
	}
	return keys, any
}

// keyedPassthroughNear: does call i of ops touch a passthrough node that was declared with an input or
// output key (Compile and the builder calls of chains and workflows: is there such a node at all).
func keyedPassthroughNear(ops []Op, i int) bool {
	keyed, any := keyedPassthroughs(ops[:i+1])
	switch op := ops[i]; op.K {
	case "E":
		return keyed[op.From] || keyed[op.To]
	case "B":
		if keyed[op.From] {
			return true
		}
		for _, e := range op.Ends {
			if keyed[e] {
				return true
			}
		}
		return false
	case "L", "P", "GN":
		return false
	}
	return any
}

// panicSignature: C20/panic/<front end>-<call>/<the reference's rule for that call>; for a Compile that
// met the problem in a graph added as a node: nested-<front end of that graph>-compile/<its rule>.
func panicSignature(fe string, ops []Op, i int, rule, where string) string {
	if where != "" {
		return "C20/panic/" + where
	}
	site := fe + "-" + callName(ops[i])
	inner, innerSite := rule, site
	for strings.HasPrefix(inner, "nested-") {
		cut := strings.IndexByte(inner, '/')
		innerSite, inner = inner[:cut]+"-compile", inner[cut+1:]
	}
	switch {
	case inner == keyedOnBothSides:
		// one root cause whatever the front end and the nesting
		return "C20/panic/compile/uninferred-passthrough-keyed-on-both-sides"
	case keyedPassthroughNear(ops, i):
		// a call that works on such a node: what else the reference finds about the call (a Compile
		// covers every deferred declaration) is another matter
		return "C20/panic/" + site + "/at-keyed-passthrough"
	case innerSite != site:
		return "C20/panic/" + innerSite + "/" + inner
	}
	return "C20/panic/" + site + "/" + panicRule(rule)
}

// panicRule names the reference's view of a call that panicked.
func panicRule(rule string) string {
	if rule != "" {
		return rule
	}
	return "well-formed-call"
}

// mappedAtPassthrough: the sequence declares an input with a field mapping on or from a passthrough node.
func mappedAtPassthrough(ops []Op) bool {
	pass := map[string]bool{}
	for _, o := range ops {
		if o.K == "WN" && o.Typ == "P" {
			pass[o.Key] = true
		}
	}
	for _, o := range ops {
		if o.Sub != nil && mappedAtPassthrough(o.Sub.Ops) {
			return true
		}
		for _, in := range o.In {
			if in.mapped() && (pass[o.Key] || pass[in.From]) {
				return true
			}
		}
	}
	return false
}

// acceptedSignature: the signature of "the reference rejects (rule), eino returned nil".
func acceptedSignature(fe string, op Op, rule string) string {
	site := fe + "-" + callName(op)
	// an ill-formed graph that was added as a node: named after the innermost graph and its rule
	for strings.HasPrefix(rule, "nested-") {
		cut := strings.IndexByte(rule, '/')
		site, rule = rule[:cut]+"-compile", rule[cut+1:]
	}
	switch {
	case strings.HasSuffix(rule, "branch-condition-type-vs-inferred-passthrough"):
		// one root cause, reachable through Graph.AddBranch and Chain.AppendBranch
		return "C20/accepted-ill-formed/AddBranch/branch-condition-type-vs-inferred-passthrough"
	case rule == "sticky":
		return "C20/sticky/" + fe + "/call-accepted-after-an-earlier-error"
	case rule == "compiled":
		return "C20/compiled/" + fe + "/" + callName(op) + "-accepted-after-successful-compile"
	case strings.HasPrefix(rule, "compiled/"):
		// a modification of a compiled Workflow that only the next Compile can report
		return "C20/compiled/" + fe + "/" + callName(op) + "-accepted-after-" + strings.TrimPrefix(rule, "compiled/")
	}
	return "C20/accepted-ill-formed/" + site + "/" + rule
}

// postOps: what is tried on a builder after its first successful Compile, in
// addition to the rest of the sequence: Compile again with the same and with
// other options, every kind of Add*, Compile again.
func postOps(fe, sameOpt string) []Op {
	ops := []Op{K(sameOpt)}
	for _, o := range []string{"", "name", "all", "max"} {
		if o != sameOpt {
			ops = append(ops, K(o))
		}
	}
	ops = append(ops, postAdds(fe)...)
	ops = append(ops, K(sameOpt))
	return ops
}

func (c *checker) checkSeq(s *Seq) {
	ops := s.all()
	np := len(s.Prelude)
	rep := c.rep
	reps := reps
	if s.Reps > 0 {
		reps = s.Reps
	}

	// ---- reference prediction for the calls of the sequence
	ref := newReference(s.FE, s.State)
	preds := make([]pred, len(ops), len(ops)+16)
	firstReject, okCompile := -1, -1
	for i, op := range ops {
		na, rule := ref.predict(op)
		preds[i] = pred{na, rule}
		if !na && rule != "" && firstReject < 0 {
			firstReject = i
		}
		if rule == "" && op.K == "K" && okCompile < 0 {
			okCompile = i
		}
	}

	// ---- attempts on fresh objects; attempt 0 also carries the immutability monitor
	var first *attempt
	var im *immut
	imAt := -1
	var corruptedAt = -1
	var corruptedWhy string
	ext := ops // attempt 0 continues with postOps after a successful Compile
	type recompiled struct {
		at  int
		why string
	}
	var differs *recompiled
	agreeSoFar := true
	onlyCompiles, recompileFailedAt := true, -1
	type stray struct {
		at  int
		res callRes
	}
	var strays []stray // panics seen only in a later attempt
	for a := 0; a < reps; a++ {
		at := &attempt{inst: newInstance(s.FE, s.State)}
		for i := 0; i < len(ext) && (a == 0 || i < len(ops)); i++ {
			op := ext[i]
			res := at.inst.apply(op)
			at.res = append(at.res, res)
			at.vec = append(at.vec, res.class())
			if res.Panic != nil {
				// the objects are in an undefined state after a panic: nothing that follows says anything
				break
			}
			if a != 0 {
				continue
			}
			if im == nil {
				// A runnable is only run if the reference, too, accepts its Compile and all calls before
				// it (a graph the reference rejects may e.g. contain a cycle in all-predecessor mode
				// and never terminate); such a disagreement is reported below.
				if i < len(ops) {
					switch cls := res.class(); {
					case cls == 'p':
						agreeSoFar = false
					case preds[i].na:
					case preds[i].rule == "" && cls == 'o', preds[i].rule != "" && cls == 'e':
					default:
						agreeSoFar = false
					}
				}
				if op.K == "K" && res.class() == 'o' && agreeSoFar && i == okCompile {
					upto := i
					control := func() runFn {
						inst := newInstance(s.FE, s.State)
						for _, o := range ops[:upto+1] {
							inst.apply(o)
						}
						return inst.last()
					}
					im, imAt = newImmut(at.inst.last(), control, c), i
					ext = append(append([]Op(nil), ops...), postOps(s.FE, op.Opt)...)
					for j := len(ops); j < len(ext); j++ {
						na, rule := ref.predict(ext[j])
						preds = append(preds, pred{na, rule})
					}
				}
				continue
			}
			rep.Count("calls_after_first_compile", 1)
			// Compile once more with the very same options, nothing but Compile calls in between: the
			// builder is unchanged, the outcome must be the same
			if op.K != "K" {
				onlyCompiles = false
			} else if onlyCompiles && op.Opt == ext[imAt].Opt {
				rep.Count("recompiled_unchanged_builder_same_options", 1)
				if res.class() == 'e' && recompileFailedAt < 0 {
					recompileFailedAt = i
				}
			}
			// the first runnable is re-run after every later call of the sequence itself, after every
			// later Compile, and after the last call of the appended group of Add* calls
			look := i < len(ops) || op.K == "K" || ext[i+1].K == "K"
			if corruptedAt < 0 && look {
				if ch, why := im.changed(c); ch {
					corruptedAt, corruptedWhy = i, why
				} else if op.K == "K" && res.class() == 'o' && preds[i].rule == "" && differs == nil && optClass(op.Opt) == optClass(ext[imAt].Opt) {
					rep.Count("recompiled_equivalent_options", 1)
					if d, why := im.differs(at.inst.last(), c); d {
						differs = &recompiled{i, why}
					}
				}
			}
		}
		rep.AddEvaluations(1)
		if a == 0 {
			first = at
			continue
		}
		// a panic is reported on its own (below) and ends its attempt; the outcomes are compared up to there
		// (error in one attempt, panic in the other: both "not accepted")
		for i, cl := range at.vec {
			if cl == 'p' && (i >= len(first.vec) || first.vec[i] != 'p') {
				strays = append(strays, stray{i, at.res[i]})
			}
		}
		n := comparablePrefix(at.vec, first.vec, len(ops))
		if acceptReject(at.vec[:n]) != acceptReject(first.vec[:n]) {
			sig := "C20/nondeterministic-outcome/" + s.FE + nondetFeature(ops)
			rep.Violation(sig,
				fmt.Sprintf("the same construction sequence gave different accept/reject vectors on two attempts: %s vs %s (o=accepted e=error p=panic n=no result)\ncalls: %s",
					first.vec[:n], at.vec[:n], s.Text),
				witness{Seq: s, Vector: string(first.vec[:n]) + " / " + string(at.vec[:n])})
			break
		}
	}
	rep.Count("attempts", int64(reps))
	rep.Count("calls_observed", int64(len(ops)*reps+len(ext)-len(ops)))

	text := func(i int) string {
		if i < len(ops) {
			return fmt.Sprintf("calls: %s  [call #%d %s]", s.Text, i-np, ext[i])
		}
		return fmt.Sprintf("calls: %s ; then, after the successful Compile: %s  [%s]", s.Text, opsText(ext[len(ops):i+1]), ext[i])
	}

	for _, st := range strays {
		op := ext[st.at]
		rep.Violation(panicSignature(s.FE, ext, st.at, preds[st.at].rule, st.res.Where),
			fmt.Sprintf("%s panicked on one of %d attempts of the same sequence (not on the first attempt): %s\nfirst eino frame: %s\n%s",
				callName(op), reps, firstLine(st.res.Panic.Value), st.res.Panic.FirstFrame("github.com/cloudwego/eino/"), text(st.at)),
			witness{Seq: s, Position: st.at - np, Call: op.String(), Observed: "PANIC on a later attempt", Vector: string(first.vec)})
		break
	}

	// ---- reference vs. observed (first disagreement only: afterwards the two states differ)
	agree := true
	disagreeAt := len(ext)
	var stickyErr error
	stickyAt := -1
	for i, op := range ext {
		res, p := first.res[i], preds[i]
		cls := first.vec[i]
		predText := "must be accepted"
		if p.na {
			predText = "builder call without result"
		} else if p.rule != "" {
			predText = "must be rejected with an error: " + p.rule
		}
		w := witness{Seq: s, Position: i - np, Call: op.String(), Predicted: predText, Observed: classText(cls), Vector: string(first.vec)}
		switch {
		case cls == 'p':
			rep.Violation(panicSignature(s.FE, ext, i, p.rule, res.Where),
				fmt.Sprintf("%s panicked instead of returning an error (reference: %s): %s\nfirst eino frame: %s\n%s",
					callName(op), predText, firstLine(res.Panic.Value), res.Panic.FirstFrame("github.com/cloudwego/eino/"), text(i)),
				w)
			agree = false
		case p.na:
			// nothing to compare
		case p.rule != "" && cls == 'o':
			sig := acceptedSignature(s.FE, op, p.rule)
			rep.Violation(sig, fmt.Sprintf("%s returned nil, reference: %s\n%s\nobserved vector: %s", op, predText, text(i), first.vec), w)
			agree = false
		case p.rule == "" && cls == 'e':
			// The property demands that ill-formed constructions are rejected; it does not demand that
			// everything else is accepted (eino may validate more than the statement lists). An extra
			// rejection is therefore counted, not reported; determinism and stickiness of this sequence
			// are still judged above, the reference comparison stops here.
			rep.Count("rejected_although_reference_finds_it_well_formed", 1)
			if strings.HasPrefix(s.Family, "shape") {
				rep.Count("shape_rejected_although_reference_finds_it_well_formed", 1)
			}
			debugLine("REJECTED-WELL-FORMED", s, fmt.Sprintf("%s: %s", text(i), firstLine(res.Err.Error())))
			agree = false
		}
		if !agree {
			disagreeAt = i
			break
		}
		if p.na || cls != 'e' {
			continue
		}
		rule := p.rule
		if strings.HasPrefix(rule, "nested-") {
			// the rule of the innermost graph is what is counted, and that it was met in a nested graph
			for strings.HasPrefix(rule, "nested-") {
				rule = rule[strings.IndexByte(rule, '/')+1:]
			}
			rep.Count("rule-in-nested-graph/"+rule, 1)
		}
		for _, group := range []string{"chain-deferred-error", "cycle-in-all-predecessor-mode", "uninferred-passthrough"} {
			if strings.HasPrefix(rule, group+"/") {
				rep.Count("rule/"+rule, 1)
				rule = group
			}
		}
		rep.Count("rule/"+rule, 1)
		// "the first error sticks": on the Graph front end every later call returns that very error
		if s.FE == "graph" {
			switch {
			case p.rule == "sticky":
				rep.Count("sticky_errors_checked", 1)
				if stickyErr != nil && !errors.Is(res.Err, stickyErr) {
					rep.Violation("C20/sticky/graph/later-call-returns-a-different-error",
						fmt.Sprintf("%s returned %q, the first error (call #%d) was %q\n%s", op, firstLine(res.Err.Error()), stickyAt-np, firstLine(stickyErr.Error()), text(i)), w)
					agree = false
				}
			case p.rule == "compiled":
				rep.Count("add_after_compile_rejected", 1)
				if !errors.Is(res.Err, compose.ErrGraphCompiled) {
					rep.Violation("C20/compiled/graph/"+callName(op)+"-error-is-not-ErrGraphCompiled",
						fmt.Sprintf("%s after a successful Compile returned %q, not ErrGraphCompiled\n%s", op, firstLine(res.Err.Error()), text(i)), w)
					agree = false
				}
			case op.K != "K" && stickyErr == nil:
				stickyErr, stickyAt = res.Err, i
			}
		} else if p.rule == "sticky" {
			rep.Count("sticky_errors_checked", 1)
		} else if s.FE == "workflow" && op.K == "K" && (p.rule == "compiled" || strings.HasPrefix(p.rule, "compiled/")) {
			// a Workflow reports a modification after a successful Compile through the next Compile. (That it does so
			// with ErrGraphCompiled is not demanded: the statement asks for an error; a late AddInput on a handle whose
			// input is already mapped is refused with "already mapped" before the edge is tried. Counted.)
			rep.Count("workflow_late_modification_reported_by_compile", 1)
			if errors.Is(res.Err, compose.ErrGraphCompiled) {
				rep.Count("workflow_late_modification_reported_with_ErrGraphCompiled", 1)
			}
		}
		if !agree {
			break
		}
	}
	if agree {
		rep.Count("sequences_agreeing_with_reference", 1)
	}

	// ---- Compile does not change what was built (reference-free)
	if recompileFailedAt >= 0 {
		i := recompileFailedAt
		rep.Violation("C20/compile-not-repeatable/"+s.FE+"/second-compile-of-unchanged-builder-fails",
			fmt.Sprintf("Compile succeeded (call #%d), nothing but Compile calls followed, and Compile with the very same options then returned an error: %s\n%s",
				imAt-np, firstLine(first.res[i].Err.Error()), text(i)),
			witness{Seq: s, Position: i - np, Call: ext[i].String(), Observed: classText('e'), Vector: string(first.vec)})
	}
	c.checkCompileHistory(s, ops, first, preds, disagreeAt, text)

	// ---- immutability after a successful Compile (reference-free)
	if im != nil {
		rep.Count("sequences_compiled", 1)
		if strings.HasPrefix(s.Family, "shape") {
			rep.Count("structure_sequences_compiled", 1)
		}
		if c.sampled < 3 {
			c.sampled++
			rep.Sample(map[string]any{"sequence": s, "outcome_vector_incl_appended_calls": string(first.vec), "appended_after_compile": opsText(ext[len(ops):])})
		}
		addsBetween := func(upto int) bool {
			for j := imAt + 1; j < upto; j++ {
				if ext[j].K != "K" {
					return true
				}
			}
			return false
		}
		switch {
		case corruptedAt >= 0:
			op := ext[corruptedAt]
			w := witness{Seq: s, Position: corruptedAt - np, Call: op.String(), Note: corruptedWhy}
			if op.K == "K" {
				rep.Violation("C20/recompile-corrupts-first-runnable/"+c.corruptionClass(s),
					fmt.Sprintf("the runnable returned by the first successful Compile behaves differently after a later Compile call on the same builder: %s\n%s", corruptedWhy, text(corruptedAt)), w)
			} else {
				rep.Violation("C20/add-after-compile-changes-runnable/"+s.FE,
					fmt.Sprintf("the compiled runnable behaves differently after refused Add* calls on its builder (noticed after %s): %s\n%s", op, corruptedWhy, text(corruptedAt)), w)
			}
		case differs != nil:
			w := witness{Seq: s, Position: differs.at - np, Call: ext[differs.at].String(), Note: differs.why}
			if addsBetween(differs.at) {
				rep.Violation("C20/builder-modified-after-compile/"+s.FE,
					fmt.Sprintf("after Add* calls on a compiled builder, Compile with equivalent options gives a runnable that behaves differently from the first one: %s\n%s", differs.why, text(differs.at)), w)
			} else {
				rep.Violation("C20/recompiled-runnable-differs/"+c.corruptionClass(s),
					fmt.Sprintf("Compile of an unchanged, already compiled builder with equivalent options gives a runnable that behaves differently: %s\n%s", differs.why, text(differs.at)), w)
			}
		default:
			rep.Count("first_runnable_unchanged_to_the_end", 1)
		}
	}

	// ---- bookkeeping
	if okCompile >= 0 || firstReject >= 2 {
		rep.NonTrivial(s.digest())
	}
	rep.Count("sequences", 1)
	rep.Count("sequences/"+s.FE, 1)
	if firstReject >= 0 {
		rep.Count("sequences_with_rejection", 1)
	}
}

// debugLine: with C20_DEBUG_FILE set, disagreements that are only counted are written there (development aid).
func debugLine(kind string, s *Seq, text string) {
	path := os.Getenv("C20_DEBUG_FILE")
	if path == "" {
		return
	}
	f, err := os.OpenFile(path, os.O_APPEND|os.O_CREATE|os.O_WRONLY, 0o644)
	if err != nil {
		return
	}
	defer f.Close()
	fmt.Fprintf(f, "%s [%s/%s] %s\n", kind, s.FE, s.Family, text)
}

func (c *checker) corruptionClass(s *Seq) string {
	if s.FE == "workflow" && hasFieldMapping(s.all()) {
		return "workflow-field-mapping"
	}
	return s.FE
}

// ---------------------------------------------------------------------------

type unit struct {
	fam   int   // index into families, -1: injection, -2: late operations on retained objects
	base  int   // index into bases (injection) / into lateSpaces
	start int64 // first sequence index
	count int64
}

func buildUnits(thorough bool) []unit {
	var us []unit
	for fi := range families {
		total := countSeqs(len(families[fi].alpha), families[fi].maxLen(thorough))
		for s := int64(0); s < total; s += blockSize {
			n := int64(blockSize)
			if s+n > total {
				n = total - s
			}
			us = append(us, unit{fam: fi, start: s, count: n})
		}
	}
	for bi := range bases {
		total := bases[bi].injectionCount()
		for s := int64(0); s < total; s += blockSize {
			n := int64(blockSize)
			if s+n > total {
				n = total - s
			}
			us = append(us, unit{fam: -1, base: bi, start: s, count: n})
		}
	}
	lateSpaces = nil
	for si := range scenarios {
		for init := 0; init < scenarios[si].nInit; init++ {
			lateSpaces = append(lateSpaces, newLateSpace(si, init, thorough))
		}
	}
	for li, sp := range lateSpaces {
		total := sp.count()
		for s := int64(0); s < total; s += blockSize {
			n := int64(blockSize)
			if s+n > total {
				n = total - s
			}
			us = append(us, unit{fam: -2, base: li, start: s, count: n})
		}
	}
	return us
}

var lateSpaces []*lateSpace

func TestCheck(t *testing.T) {
	cfg := mon.Load("C20")
	// millions of tiny short-lived builder objects, a few MB live: collect less often
	debug.SetGCPercent(1600)
	// of every 16 sampled cases: 2 constructions with builder calls after an earlier Compile (later_test.go), 3 random call sequences, 1 random sequence of late operations, 6 structures,
	// 2 pass-through nodes between concrete and interface-typed neighbours, 1 waiting edges, 1 Compile again
	nRandom := cfg.Pick(9600, 96000)

	var famDesc []string
	for _, f := range families {
		famDesc = append(famDesc, fmt.Sprintf("%s(%d calls, length ≤%d)", f.name, len(f.alpha), f.maxLen(cfg.Thorough())))
	}
	rule := fmt.Sprintf("A case is one construction sequence (Graph, Chain or Workflow front end) executed %d times on fresh eino objects (30 to 40 times: the families / base programs / sampled sequences with field-mapped pass-through nodes, with pass-through nodes between concretely typed and interface-typed neighbours, with edges between pass-through nodes that wait for a type, and every sampled structure - where the order in which the implementation iterates its maps can matter) and once by the reference well-formedness checker; "+
		"EXHAUSTIVE sub-spaces (children that only enumerate): (1) every call sequence up to the stated length over each family alphabet after the family's prelude, ≤3 node keys: %s; "+
		"(2) every call of the front end's full alphabet (graph %d, chain %d, workflow %d calls) inserted before / substituted for every position of each of %d well-formed base programs. "+
		"(3) late operations on retained objects: %d well-formed scenarios (workflow with field mappings / static values / branch / nested graphs, graph with branches / nested graph, chain and workflow nodes, chain with parallel / branch / nested graphs), "+
		"each compiled with up to 3 option sets (plain, interrupt-before, interrupt-after), then every pair (late operation, Compile variant) and (Compile variant, late operation)%s, where the late operations (%d in total) are "+
		"every mutating method of every retained object (WorkflowNode handles incl. End(), Workflow, Graph, Chain, Parallel, ChainBranch, nested graphs) and every mutation of a retained argument (end-node maps incl. GetEndNode(), field-mapping slices, field paths, interrupt-node slices, option and callback slices) and of everything reachable from the *GraphInfo that a compile callback of every Compile is given and keeps (Edges, DataEdges, Branches, Nodes maps, the slices in them and in the node infos, the GraphInfo of nested graphs). "+
		"SAMPLED: %d cases in the remaining children: of every 16, 2 constructions (chain of lambda / pass-through / nested-graph / parallel / branch / keyed stages, or a well-formed Graph / Workflow base program) with Compile calls in the middle and after the complete construction - with option sets that make Compile fail in the compile stage or good ones - followed by further Append* / Add* / AddInput / AddDependency / SetStaticValue / AddBranch calls and a Compile again, judged without the reference against the same builder calls with one Compile on fresh objects; 2 sequences around a pass-through node (or two) between concretely typed producers and consumers declared with interface types (any, two method interfaces), the producer's type or a conflicting type, with branches whose condition reads such types, lowered in a random call / declaration order; "+
		"1 sequence of pass-through nodes that are connected to each other before anything tells their type and are typed later by branches (with two, one or no target, conditions over string / int / any), typed successors or their predecessor; "+
		"1 structure with a Compile history (END connected only after a first Compile, a bad option set first, a Compile in the middle of the construction, Compile twice, nested graphs compiled standalone first; Workflows with branches and static values); "+
		"3 random longer call sequences (mutated base programs, free sequences of 6..14 calls), 1 random sequence of 4..8 late operations and "+
		"6 random STRUCTURES (a typed skeleton of 2..8 nodes on any front end with keyed lambda / passthrough nodes, field-mapped Workflow inputs on and from passthrough nodes, branches, data-only inputs, control-only dependencies, "+
		"graphs added as nodes up to two levels deep with their own compile options, at most one deliberate violation - a loop closed through an edge / branch / input / data-only input / dependency, an option set that is invalid for the front end, an uninferable passthrough, a mutation - "+
		"lowered to calls in a random order and executed 30 times on fresh objects). "+
		"Distinct = distinct (front end, state, call sequence); non-trivial = the reference predicts a successful Compile (immutability phase runs: later Add*/Compile, re-run of the first runnable on %d inputs) "+
		"or at least two accepted calls before the first rejection.",
		reps, strings.Join(famDesc, ", "), len(fullGraph), len(fullChain), len(fullWorkflow), len(bases),
		len(scenarios), map[bool]string{false: "", true: " and every ordered pair of late operations (those on a kept GraphInfo excepted) followed by Compile"}[cfg.Thorough()], totalLates(), nRandom, len(runInputs))
	rule += pairOrderRule(cfg)
	rep := mon.NewReporter(cfg, "exploration", rule, []string{
		"node bodies, branch conditions and state handlers are deterministic pure functions of their input (and the per-run state)",
		"error-ness, error identity (errors.Is with the first error / ErrGraphCompiled) and panics are compared, never message texts",
		"a failing Compile is not required to poison the builder (only Add* errors are sticky); chain and workflow builder calls have no result and are observed through Compile",
		"WithGetStateEnable has no public constructor in the pinned version and is not exercised; nil node arguments are not generated",
		"type mismatches are not among the ill-formed constructions the statement lists; the reference predicts them as eino defines them (a pass-through node has the type of the first typed neighbour it was connected to, in call order; a Workflow connects in declaration order) because it must predict the first failing call",
		"Compile does not change what was built: a Compile that fails in the compile stage proper, a second Compile of an untouched builder and the standalone Compile of a graph that is added as a node afterwards are without influence on later outcomes (compared with the same calls without them, on fresh objects; not for chains, whose first Compile connects END)",
		"every run of a compiled runnable is one Invoke and one Stream (chunks compared as a multiset) of the same input, incl. the nodes named by an interrupt; a difference counts only if it persists over 30 re-runs and an untouched control built by the same calls reproduces the old outcome 30 times",
		"late operations: contents of values handed to eino as data (static values, node bodies, state) are the caller's and are not mutated; objects are not re-used in a second graph",
		"runs whose result is not reproducible on the untouched first runnable are excluded from the before/after comparison (counted)",
	}, cfg.Pick(2000, 20000))
	defer func() {
		if err := rep.Flush(); err != nil {
			t.Fatalf("flush: %v", err)
		}
	}()
	c := &checker{rep: rep}

	// harness self-check: every base program is well-formed for the reference
	for _, b := range bases {
		ref := newReference(b.fe, b.state)
		for i, op := range b.ops {
			if na, rule := ref.predict(op); !na && rule != "" {
				t.Fatalf("harness: base %s call %d %s rejected by the reference: %s", b.name, i, op, rule)
			}
		}
		if !ref.everCompiled() {
			t.Fatalf("harness: base %s does not compile in the reference", b.name)
		}
	}

	// harness self-check: the component stage groups of later_test.go compile and run
	if err := componentSelfCheck(); err != nil {
		t.Fatalf("harness: component stages: %v", err)
	}

	// harness self-check: every scenario offers a Compile with the options of its first Compile
	for si := range scenarios {
		for init := 0; init < scenarios[si].nInit; init++ {
			if sp := newLateSpace(si, init, false); sp.sameK < 0 || len(sp.ks) != len(scenarios[si].variants) {
				t.Fatalf("harness: scenario %s: Compile operations incomplete (%d of %d, same=%d)", scenarios[si].name, len(sp.ks), len(scenarios[si].variants), sp.sameK)
			}
		}
	}

	// ---- division of labour between the children
	nRand := 1
	if cfg.Shards >= 12 {
		nRand = 2
	}
	nExh := cfg.Shards - nRand
	combined := false
	if cfg.Shards < 3 {
		combined, nExh, nRand = true, cfg.Shards, cfg.Shards
	}
	units := buildUnits(cfg.Thorough())
	var myUnits []int
	var myRandom int64
	exhRank, randRank := -1, -1
	if combined {
		exhRank, randRank = cfg.Shard, cfg.Shard
	} else if cfg.Shard < nExh {
		exhRank = cfg.Shard
	} else {
		randRank = cfg.Shard - nExh
	}
	if exhRank >= 0 {
		for u := exhRank; u < len(units); u += nExh {
			myUnits = append(myUnits, u)
		}
	}
	if randRank >= 0 {
		myRandom = int64(nRandom / nRand)
		if randRank < nRandom%nRand {
			myRandom++
		}
	}
	rep.SetExhaustive(exhRank >= 0 && randRank < 0)
	if exhRank >= 0 && randRank < 0 {
		rep.Count("children_enumerating_only", 1)
	} else {
		rep.Count("children_sampling", 1)
	}

	// appended after the other sampled cases (their indices and generators stay as they were): Workflow declarations
	// on one pair of nodes in every order (wf_pair_order_test.go)
	var myPairs int64
	if randRank >= 0 {
		myPairs = int64(pairOrderCount(cfg) / nRand)
		if randRank < pairOrderCount(cfg)%nRand {
			myPairs++
		}
	}

	rep.Cases(int64(len(myUnits))+myRandom+myPairs, func(idx int64, rng *mon.Rand) {
		if k := idx - int64(len(myUnits)) - myRandom; k >= 0 {
			pc := pairOrderGen(rng)
			c.checkPairOrder(pc)
			if k < 3 {
				rep.Sample(pc)
			}
			return
		}
		if idx < int64(len(myUnits)) {
			u := units[myUnits[idx]]
			if u.fam == -2 {
				for k := int64(0); k < u.count; k++ {
					ls := lateSpaces[u.base].nth(u.start + k)
					c.checkLate(ls)
					rep.NonTrivial(ls.digest())
				}
				rep.Count("enumerated_late_sequences", u.count)
				return
			}
			for k := int64(0); k < u.count; k++ {
				var s *Seq
				if u.fam >= 0 {
					s = families[u.fam].nthSeq(u.start + k)
				} else {
					s = bases[u.base].nthInjection(u.start + k)
				}
				c.checkSeq(s)
			}
			rep.Count("enumerated_sequences", u.count)
			return
		}
		// every sampled case is accompanied by one chain construction "branch, then a stage fed by all its targets"
		// from its own generator (chain_branch_tail_test.go), so the sampled sequences below stay what they were
		c.checkChainBranchTail(mon.Fork(cfg.Seed, "chain-branch-tail", fmt.Sprint(cfg.Shard), fmt.Sprint(idx)))
		switch k := (idx - int64(len(myUnits))) % 16; {
		case k >= 14:
			lc := laterSeq(rng)
			c.checkLater(lc)
			if idx-int64(len(myUnits)) < 48 {
				rep.Sample(lc)
			}
			return
		case k >= 10:
			var s *Seq
			switch k {
			case 10, 11:
				s = ifaceSeq(rng)
			case 12:
				s = waitSeq(rng)
			default:
				s = recompileSeq(rng)
			}
			c.checkSeq(s)
			kind := strings.Split(s.Family, ":")[0]
			rep.Count("sampled_"+kind+"_sequences", 1)
			for _, t := range strings.Split(s.Family, ":")[1:] {
				rep.Count(kind+"_with/"+t, 1)
			}
			if idx-int64(len(myUnits)) < 28 {
				rep.Sample(s)
			}
			return
		case k == 3:
			ls := randomLateSeq(rng)
			c.checkLate(ls)
			rep.NonTrivial(ls.digest())
			rep.Count("random_late_sequences", 1)
			return
		case k > 3:
			s := shapeSeq(rng)
			c.checkSeq(s)
			rep.Count("structure_sequences", 1)
			for _, t := range strings.Split(s.Family, ":")[1:] {
				rep.Count("structure_with/"+t, 1)
			}
			if idx-int64(len(myUnits)) < 8 {
				rep.Sample(s)
			}
			return
		}
		s := randomSeq(rng)
		c.checkSeq(s)
		rep.Count("random_sequences", 1)
		if idx-int64(len(myUnits)) < 3 {
			rep.Sample(s)
		}
	})

	// the monitors must have observed something of every kind
	pairOrderRequire(rep)
	rep.Require("sequences_compiled", 50)
	rep.Require("add_after_compile_rejected", 50)
	rep.Require("sticky_errors_checked", 500)
	rep.Require("recompiled_equivalent_options", 20)
	rep.Require("first_runnable_unchanged_to_the_end", 20)
	rep.Require("late_sequences", 1000)
	rep.Require("late_add_refused_with_error", 100)
	rep.Require("late_compile_equivalent_options_compared", 100)
	rep.Require("late_runs_interrupted_before_the_late_operations", 100)
	for _, n := range lateOpNames() {
		rep.Require("late_op/"+n, 1)
	}
	// the structure workload and the classes it is there for
	rep.Require("structure_sequences", 1000)
	rep.Require("structure_sequences_compiled", 100)
	for _, t := range []string{"keyed-passthrough", "mapped-at-passthrough", "nested", "branch", "data-only-input", "dependency", "invalid-options", "untyped-passthrough",
		"loop-closed-by-edge", "loop-closed-by-branch", "loop-closed-by-input", "loop-closed-by-data-only-input", "loop-closed-by-dependency"} {
		rep.Require("structure_with/"+t, 20)
	}
	for _, r := range []string{"cycle-in-all-predecessor-mode/closed-by-branch", "cycle-in-all-predecessor-mode/closed-by-data-only-input"} {
		rep.Require("rule/"+r, 10)
	}
	for _, r := range []string{"cycle-in-all-predecessor-mode", "cycle-in-all-predecessor-mode/closed-by-branch", "cycle-in-all-predecessor-mode/closed-by-data-only-input",
		"max-steps-in-all-predecessor-mode", "trigger-mode-on-chain-or-workflow", "uninferred-passthrough", "no-exit-edge"} {
		rep.Require("rule-in-nested-graph/"+r, 5)
	}
	// the sub-workloads of the second coverage round and what they are there for
	rep.Require("sampled_iface_sequences", 500)
	rep.Require("sampled_wait_sequences", 200)
	rep.Require("sampled_recompile_sequences", 200)
	for _, t := range []string{"iface_with/conflicting-consumer", "iface_with/branch", "wait_with/zero-target-branch", "wait_with/branch",
		"recompile_with/end-connected-after-a-failed-compile", "recompile_with/bad-options-before", "recompile_with/compiled-twice", "recompile_with/early-compile",
		"recompile_with/static-value", "recompile_with/branch", "structure_with/static-value", "structure_with/unknown-interrupt-node", "structure_with/interrupt-option"} {
		rep.Require(t, 10)
	}
	rep.Require("compile_history_comparisons/after-failed-compile", 200)
	rep.Require("compile_history_comparisons/nested-graph-compiled-standalone-first", 50)
	rep.Require("compile_history_runnables_compared", 50)
	rep.Require("recompiled_unchanged_builder_same_options", 500)
	rep.Require("late_compile_of_untouched_builders_succeeded", 200)
	rep.Require("late_workflow_declarations_followed_by_compile", 500)
	rep.Require("workflow_late_modification_reported_by_compile", 100)
	for _, r := range []string{"zero-target-branch", "unknown-interrupt-node", "static-value-invalid"} {
		rep.Require("rule/"+r, 10)
	}
	rep.Require("rule-in-nested-graph/unknown-interrupt-node", 5)
	// builder calls after an earlier Compile (later_test.go)
	rep.Require("later_cases", 500)
	for _, fe := range []string{"chain", "workflow", "graph"} {
		rep.Require("later_compile_after_failed_compile/"+fe, 50)
		rep.Require("later_compile_after_calls_on_a_compiled_builder/"+fe, 30)
		rep.Require("later_runnable_compared_with_flat_construction/"+fe, 10)
	}
	for _, n := range []string{"chain-AppendLambda", "chain-AppendPassthrough", "chain-AppendGraph", "chain-AppendParallel", "chain-AppendBranch",
		"workflow-AddLambdaNode", "workflow-AddPassthroughNode", "workflow-AddGraphNode", "workflow-AddBranch", "workflow-WorkflowNode.AddInput",
		"workflow-WorkflowNode.AddDependency", "workflow-WorkflowNode.SetStaticValue", "workflow-End.AddInput",
		"graph-AddLambdaNode", "graph-AddEdge", "graph-AddBranch", "graph-AddGraphNode"} {
		rep.Require("later_calls_after_failed_compile/"+n, 5)
		rep.Require("later_calls_after_successful_compile/"+n, 5)
	}
	rep.Require("later_modification_of_compiled_builder_reported_by_compile", 100)
	rep.Require("later_chain_extension_after_failed_compile_reported", 20)
	rep.Require("later_with/static-value", 20)
	rep.Require("later_with/component-stages", 10)
	for _, r := range []string{"reserved-key", "duplicate-key", "unknown-node", "duplicate-edge", "edge-from-end", "edge-to-start", "no-entry-edge", "no-exit-edge",
		"uninferred-passthrough", "cycle-in-all-predecessor-mode", "single-target-branch", "state-handler-without-state", "handler-state-type", "handler-value-type",
		"passthrough-handler-not-any", "node-key-option-outside-chain", "type-mismatch", "trigger-mode-on-chain-or-workflow", "max-steps-in-all-predecessor-mode",
		"chain-deferred-error", "chain-without-nodes", "sticky", "compiled"} {
		rep.Require("rule/"+r, 1)
	}
}
