package c20

import (
	"sort"

	"verifharness/internal/mon"
)

// ---------------------------------------------------------------------------
// Structure workload. Instead of drawing calls from a fixed alphabet it draws a
// *structure* - a typed skeleton of 2..6 nodes on one of the three front ends,
// decorated with the constructions the alphabets do not reach - and lowers it to
// a call sequence in a random order:
//
//   * nodes with WithInputKey / WithOutputKey (lambda and passthrough), next to
//     typed nodes, to untyped passthrough nodes and to chains of them;
//   * Workflow inputs with field mappings (ToField / FromField / MapFields) on and
//     from passthrough nodes, struct and map sources and targets;
//   * connections of every kind (edge, branch target, Workflow input, data-only
//     input, control-only dependency), and a loop closed through any of them;
//   * compile-option sets (trigger mode, step limit, name, store; any order), valid
//     and invalid for the front end;
//   * the whole thing added as a node (AddGraphNode / AppendGraph, with or without
//     WithGraphCompileOptions) of a parent of any front end, up to two levels.
//
// The sequence is judged by the same monitors as every other sequence (reference
// well-formedness predicate, panic, stickiness, immutability) and is repeated 30
// times on fresh objects: Workflow.compile and graph.compile iterate Go maps of
// a handful of entries, where one iteration order may come up only once in 8.
// ---------------------------------------------------------------------------

const shapeReps = 30

var shapeKeys = []string{"a", "b", "c", "d", "e", "f", "g", "h"}

type shNode struct {
	key string
	op  Op    // the declaring call (L, P, GN / WN), inputs of a workflow node are kept in ins
	ins []WIn // workflow
	in  int   // intended types
	out int
}

type shConn struct {
	from, to string
	group    int // 0: edge; >0: target of branch number group
}

type shBranch struct {
	from string
	ends []string
	cond string
}

type shape struct {
	fe     string
	nodes  []*shNode
	conns  []shConn   // graph front end
	brs    []shBranch // both
	endIns []WIn      // workflow
	tags   []string
}

func (s *shape) node(key string) *shNode {
	for _, n := range s.nodes {
		if n.key == key {
			return n
		}
	}
	return nil
}

func (s *shape) tag(t string) { s.tags = append(s.tags, t) }

func (s *shape) outT(key string) int {
	if key == "start" {
		return tStr
	}
	if n := s.node(key); n != nil {
		return n.out
	}
	return tNone
}

func (s *shape) inT(key string) int {
	if key == "end" {
		return tStr
	}
	if n := s.node(key); n != nil {
		return n.in
	}
	return tNone
}

// preds: direct predecessors of key over every kind of connection.
func (s *shape) preds(key string) []string {
	var ps []string
	for _, c := range s.conns {
		if c.to == key {
			ps = append(ps, c.from)
		}
	}
	for _, b := range s.brs {
		for _, e := range b.ends {
			if e == key {
				ps = append(ps, b.from)
			}
		}
	}
	if n := s.node(key); n != nil {
		for _, in := range n.ins {
			ps = append(ps, in.From)
		}
	}
	return ps
}

// ancestors of key (nodes only), key itself included.
func (s *shape) ancestors(key string) []string {
	seen := map[string]bool{key: true}
	todo := []string{key}
	for len(todo) > 0 {
		k := todo[0]
		todo = todo[1:]
		for _, p := range s.preds(k) {
			if p != "start" && !seen[p] && s.node(p) != nil {
				seen[p] = true
				todo = append(todo, p)
			}
		}
	}
	out := make([]string, 0, len(seen))
	for k := range seen {
		out = append(out, k)
	}
	sort.Strings(out)
	return out
}

type shSource struct {
	key string
	t   int
}

func pickSource(r *mon.Rand, avail []shSource) shSource {
	// the most recent nodes are preferred: deeper structures
	if len(avail) > 1 && r.Prob(0.55) {
		return avail[len(avail)-1]
	}
	return avail[r.Intn(len(avail))]
}

// ---- Graph front end ----------------------------------------------------------

func genGraphShape(r *mon.Rand, depth int) *shape {
	s := &shape{fe: "graph"}
	n := r.Range(2, 5)
	avail := []shSource{{"start", tStr}}
	for i := 0; i < n; i++ {
		key := shapeKeys[i]
		src := pickSource(r, avail)
		nd := &shNode{key: key, in: src.t}
		switch src.t {
		case tMap:
			switch x := r.Intn(16); {
			case x < 6:
				nd.op, nd.out = Lt("m", key), tStr
			case x < 10:
				nd.op, nd.out = Ph(key, "ik"), tStr
				s.tag("keyed-passthrough")
			case x < 11:
				// keyed on both sides: nothing can tell the node's own type
				nd.op, nd.out = Ph(key, "iok"), tMap
				s.tag("keyed-passthrough")
				s.tag("untyped-passthrough")
			default:
				nd.op, nd.out = P(key), tMap
			}
		default:
			switch x := r.Intn(12); {
			case x < 3:
				nd.op, nd.out = L(key), tStr
			case x < 6:
				nd.op, nd.out = P(key), tStr
			case x < 8:
				nd.op, nd.out = Ph(key, "ok"), tMap
				s.tag("keyed-passthrough")
			case x < 9:
				nd.op, nd.out = Lh(key, "ok"), tMap
			case x < 11 && depth > 0:
				nd.op, nd.out = Op{K: "GN", Key: key, Sub: genSub(r, depth-1)}, tStr
				s.tag("nested")
			default:
				nd.op, nd.out = L(key), tStr
			}
		}
		s.nodes = append(s.nodes, nd)
		s.conns = append(s.conns, shConn{from: src.key, to: key})
		// a second predecessor now and then (fan-in of control; the types fit)
		if r.Prob(0.2) {
			if o := pickSource(r, avail); o.key != src.key && o.t == src.t {
				s.conns = append(s.conns, shConn{from: o.key, to: key})
			}
		}
		avail = append(avail, shSource{key, nd.out})
	}
	// sinks lead to END; a map is first turned into a string again
	for _, nd := range append([]*shNode(nil), s.nodes...) {
		if s.hasSuccessor(nd.key) {
			continue
		}
		switch nd.out {
		case tStr:
			s.conns = append(s.conns, shConn{from: nd.key, to: "end"})
		case tMap:
			if len(s.nodes) < len(shapeKeys) {
				key := shapeKeys[len(s.nodes)]
				s.nodes = append(s.nodes, &shNode{key: key, op: Lt("m", key), in: tMap, out: tStr})
				s.conns = append(s.conns, shConn{from: nd.key, to: key}, shConn{from: key, to: "end"})
			}
		}
	}
	// some of the outgoing edges of a node become the targets of a branch
	group := 0
	for _, from := range s.fromKeys() {
		if s.outT(from) != tStr || !r.Prob(0.35) {
			continue
		}
		var idx []int
		for i, c := range s.conns {
			if c.from == from && c.group == 0 {
				idx = append(idx, i)
			}
		}
		if len(idx) == 0 {
			continue
		}
		group++
		ends := []string{}
		for _, i := range idx {
			s.conns[i].group = group
			ends = append(ends, s.conns[i].to)
		}
		if len(ends) == 1 {
			other := "end"
			if ends[0] == "end" {
				other = ""
				for _, nd := range s.nodes {
					if nd.in == tStr && nd.key != from {
						other = nd.key
						break
					}
				}
			}
			if other == "" {
				for _, i := range idx {
					s.conns[i].group = 0
				}
				group--
				continue
			}
			ends = append(ends, other)
		}
		s.brs = append(s.brs, shBranch{from: from, ends: ends, cond: "s"})
		s.tag("branch")
	}
	return s
}

func (s *shape) hasSuccessor(key string) bool {
	for _, c := range s.conns {
		if c.from == key {
			return true
		}
	}
	for _, b := range s.brs {
		if b.from == key {
			return true
		}
	}
	for _, n := range s.nodes {
		for _, in := range n.ins {
			if in.From == key {
				return true
			}
		}
	}
	for _, in := range s.endIns {
		if in.From == key {
			return true
		}
	}
	return false
}

func (s *shape) fromKeys() []string {
	keys := []string{"start"}
	for _, n := range s.nodes {
		keys = append(keys, n.key)
	}
	return keys
}

// closeLoopGraph adds one connection from a node back to one of its ancestors (or itself).
func (s *shape) closeLoopGraph(r *mon.Rand) {
	var froms []*shNode
	for _, n := range s.nodes {
		if n.out == tStr {
			froms = append(froms, n)
		}
	}
	if len(froms) == 0 {
		return
	}
	v := froms[r.Intn(len(froms))]
	var tos []string
	for _, a := range s.ancestors(v.key) {
		if s.inT(a) == tStr {
			tos = append(tos, a)
		}
	}
	if len(tos) == 0 {
		return
	}
	u := tos[r.Intn(len(tos))]
	if r.Prob(0.5) {
		s.conns = append(s.conns, shConn{from: v.key, to: u})
		s.tag("loop-closed-by-edge")
		return
	}
	other := "end"
	if r.Prob(0.3) {
		for _, n := range s.nodes {
			if n.in == tStr && n.key != u {
				other = n.key
			}
		}
	}
	s.brs = append(s.brs, shBranch{from: v.key, ends: []string{u, other}, cond: "s"})
	s.tag("loop-closed-by-branch")
}

func (s *shape) lowerGraph(r *mon.Rand) []Op {
	var decl, conn []Op
	for _, n := range s.nodes {
		decl = append(decl, n.op)
	}
	for _, c := range s.conns {
		if c.group == 0 {
			conn = append(conn, E(c.from, c.to))
		}
	}
	for _, b := range s.brs {
		conn = append(conn, Op{K: "B", From: b.from, Ends: b.ends, Cond: b.cond})
	}
	shuffleOps(r, decl)
	shuffleOps(r, conn)
	ops := append(decl, conn...)
	if r.Prob(0.12) {
		shuffleOps(r, ops) // a node may be used before it is declared
	}
	return ops
}

func shuffleOps(r *mon.Rand, ops []Op) {
	for i := len(ops) - 1; i > 0; i-- {
		j := r.Intn(i + 1)
		ops[i], ops[j] = ops[j], ops[i]
	}
}

// ---- Workflow front end ---------------------------------------------------------

func genWorkflowShape(r *mon.Rand, depth int) *shape {
	s := &shape{fe: "workflow"}
	n := r.Range(2, 5)
	avail := []shSource{{"start", tStr}}
	sources := func(t int, not string) []shSource {
		var out []shSource
		for _, a := range avail {
			if a.t == t && a.key != not {
				out = append(out, a)
			}
		}
		return out
	}
	for i := 0; i < n; i++ {
		key := shapeKeys[i]
		src := pickSource(r, avail)
		nd := &shNode{key: key, in: src.t}
		wn := func(typ, h string) Op { return Op{K: "WN", Key: key, Typ: typ, H: h} }
		switch src.t {
		case tMap:
			switch r.Intn(5) {
			case 0, 1:
				nd.op, nd.out, nd.ins = wn("m", ""), tStr, []WIn{in(src.key)}
			case 2:
				nd.op, nd.out, nd.ins = wn("P", "ik"), tStr, []WIn{in(src.key)}
				s.tag("keyed-passthrough")
			case 3:
				// one entry of the map as the whole input
				nd.op, nd.in, nd.out, nd.ins = wn("s", ""), tStr, tStr, []WIn{{From: src.key, FromF: "k"}}
				s.tag("mapped")
			default:
				nd.op, nd.out, nd.ins = wn("P", ""), tMap, []WIn{in(src.key)}
			}
		case tIn:
			switch r.Intn(6) {
			case 0:
				nd.op, nd.out, nd.ins = wn("S", ""), tStr, []WIn{in(src.key)}
			case 1:
				nd.op, nd.in, nd.out, nd.ins = wn("s", ""), tStr, tStr, []WIn{{From: src.key, FromF: mon.PickOne(r, []string{"X", "Y"})}}
				s.tag("mapped")
			case 2:
				nd.op, nd.out, nd.ins = wn("S", ""), tStr, []WIn{{From: src.key, FromF: "X", Field: "Y"}, {From: src.key, FromF: "Y", Field: "X"}}
				s.tag("mapped")
			case 3:
				nd.op, nd.out, nd.ins = wn("P", ""), tIn, []WIn{in(src.key)}
			case 4:
				// a passthrough that is given one field of a struct: its type can only come from its successor
				nd.op, nd.in, nd.out, nd.ins = wn("P", ""), tStr, tStr, []WIn{{From: src.key, FromF: mon.PickOne(r, []string{"X", "Y"})}}
				s.tag("mapped-at-passthrough")
			default:
				// a passthrough whose fields are given one by one
				nd.op, nd.out, nd.ins = wn("P", ""), tIn, []WIn{{From: src.key, FromF: "X", Field: "X"}, {From: src.key, FromF: "Y", Field: "Y"}}
				s.tag("mapped-at-passthrough")
			}
		default:
			switch x := r.Intn(16); {
			case x < 3:
				nd.op, nd.out, nd.ins = wn("s", ""), tStr, []WIn{in(src.key)}
			case x < 5:
				nd.op, nd.out, nd.ins = wn("P", ""), tStr, []WIn{in(src.key)}
			case x < 6:
				nd.op, nd.out, nd.ins = wn("P", "ok"), tMap, []WIn{in(src.key)}
				s.tag("keyed-passthrough")
			case x < 7:
				nd.op, nd.out, nd.ins = wn("s", "ok"), tMap, []WIn{in(src.key)}
			case x < 9:
				nd.op, nd.out, nd.ins = wn("sS", ""), tIn, []WIn{in(src.key)}
			case x < 11:
				// a struct input put together from strings
				nd.op, nd.in, nd.out, nd.ins = wn("S", ""), tIn, tStr, []WIn{inF(src.key, "X")}
				if o := sources(tStr, src.key); len(o) > 0 && r.Prob(0.6) {
					nd.ins = append(nd.ins, inF(o[r.Intn(len(o))].key, "Y"))
				} else if r.Prob(0.75) {
					// the other field is a static value
					nd.op.SV = "Y"
					s.tag("static-value")
				}
				s.tag("mapped")
			case x < 13:
				// the same into a passthrough: its type (In) can only come from its successor
				nd.op, nd.in, nd.out, nd.ins = wn("P", ""), tIn, tIn, []WIn{inF(src.key, mon.PickOne(r, []string{"X", "Y"}))}
				if o := sources(tStr, src.key); len(o) > 0 && r.Prob(0.5) && nd.ins[0].Field == "X" {
					nd.ins = append(nd.ins, inF(o[r.Intn(len(o))].key, "Y"))
				}
				s.tag("mapped-at-passthrough")
			case x < 15 && depth > 0:
				nd.op, nd.out, nd.ins = Op{K: "WN", Key: key, Typ: "G", Sub: genSub(r, depth-1)}, tStr, []WIn{in(src.key)}
				s.tag("nested")
			default:
				nd.op, nd.out, nd.ins = wn("s", ""), tStr, []WIn{in(src.key)}
			}
		}
		// the data of a node may arrive without a direct dependency, the order then comes from elsewhere
		if r.Prob(0.2) {
			for k := range nd.ins {
				nd.ins[k].Mode = "nd"
			}
			nd.ins = append(nd.ins, dep(nd.ins[0].From))
			s.tag("data-only-input")
		}
		// control-only dependencies
		if r.Prob(0.25) {
			o := avail[r.Intn(len(avail))]
			dup := false
			for _, in := range nd.ins {
				if in.From == o.key && in.Mode != "nd" {
					dup = true
				}
			}
			if !dup {
				nd.ins = append(nd.ins, dep(o.key))
				s.tag("dependency")
			}
		}
		s.nodes = append(s.nodes, nd)
		avail = append(avail, shSource{key, nd.out})
	}
	// sinks lead to END (its input is one whole string)
	for _, nd := range append([]*shNode(nil), s.nodes...) {
		if s.hasSuccessor(nd.key) {
			continue
		}
		whole := len(s.endIns) > 0
		switch {
		case whole:
			s.endIns = append(s.endIns, dep(nd.key))
		case nd.out == tStr:
			s.endIns = append(s.endIns, in(nd.key))
		case nd.out == tIn:
			s.endIns = append(s.endIns, WIn{From: nd.key, FromF: "X"})
			s.tag("mapped")
		case nd.out == tMap:
			if len(s.nodes) < len(shapeKeys) {
				key := shapeKeys[len(s.nodes)]
				s.nodes = append(s.nodes, &shNode{key: key, op: Op{K: "WN", Key: key, Typ: "m"}, in: tMap, out: tStr, ins: []WIn{in(nd.key)}})
				s.endIns = append(s.endIns, in(key))
			}
		}
	}
	// a branch takes over the control of some inputs
	for _, from := range s.fromKeys() {
		if s.outT(from) != tStr || !r.Prob(0.3) {
			continue
		}
		var ends []string
		for _, nd := range s.nodes {
			took := false
			for k := range nd.ins {
				if nd.ins[k].From == from && nd.ins[k].Mode == "" {
					nd.ins[k].Mode = "nd"
					took = true
				}
			}
			if took {
				// the control-only twin of that input would be a second control connection
				kept := nd.ins[:0]
				for _, in := range nd.ins {
					if !(in.From == from && in.Mode == "dep") {
						kept = append(kept, in)
					}
				}
				nd.ins = kept
				ends = append(ends, nd.key)
			}
		}
		if len(ends) == 0 {
			continue
		}
		if len(ends) == 1 {
			ends = append(ends, "end")
		}
		s.brs = append(s.brs, shBranch{from: from, ends: ends, cond: "s"})
		s.tag("branch")
	}
	return s
}

// closeLoopWorkflow makes an ancestor u of node v wait for v: through a control-only dependency, a
// branch target, an input, or a data-only input.
func (s *shape) closeLoopWorkflow(r *mon.Rand) {
	if len(s.nodes) == 0 {
		return
	}
	v := s.nodes[r.Intn(len(s.nodes))]
	anc := s.ancestors(v.key)
	u := s.node(anc[r.Intn(len(anc))])
	kind := r.Intn(4)
	if v.out != tStr && kind == 1 {
		kind = 0 // the condition of a branch reads a string
	}
	switch kind {
	case 0:
		u.ins = append(u.ins, dep(v.key))
		s.tag("loop-closed-by-dependency")
	case 1:
		other := "end"
		if r.Prob(0.3) {
			other = s.nodes[r.Intn(len(s.nodes))].key
			if other == u.key {
				other = "end"
			}
		}
		s.brs = append(s.brs, shBranch{from: v.key, ends: []string{u.key, other}, cond: "s"})
		s.tag("loop-closed-by-branch")
	default:
		mode := ""
		tag := "loop-closed-by-input"
		if kind == 3 {
			mode, tag = "nd", "loop-closed-by-data-only-input"
		}
		// u takes (a part of) its data from v; what it took from its forward predecessors becomes a
		// control-only dependency unless the two are different fields of a struct
		field := ""
		if u.in == tIn && v.out == tStr && len(u.ins) > 0 && u.ins[0].Field == "X" && len(u.ins) == 1 {
			field = "Y"
		} else {
			var kept []WIn
			seen := map[string]bool{}
			for _, in := range u.ins {
				if in.Mode == "dep" {
					if !seen[in.From] {
						kept = append(kept, in)
						seen[in.From] = true
					}
					continue
				}
			}
			for _, in := range u.ins {
				if in.Mode != "dep" && !seen[in.From] && in.From != v.key {
					kept = append(kept, dep(in.From))
					seen[in.From] = true
				}
			}
			u.ins = kept
		}
		fromF := ""
		switch {
		case v.out == tIn && u.in == tStr, v.out == tMap && u.in == tStr:
			fromF = "X"
		}
		u.ins = append(u.ins, WIn{From: v.key, Field: field, FromF: fromF, Mode: mode})
		s.tag(tag)
	}
}

func (s *shape) lowerWorkflow(r *mon.Rand) []Op {
	var ops []Op
	for _, n := range s.nodes {
		op := n.op
		cut := len(n.ins)
		if r.Prob(0.35) {
			cut = r.Intn(len(n.ins) + 1)
		}
		op.In = append([]WIn(nil), n.ins[:cut]...)
		ops = append(ops, op)
	}
	shuffleOps(r, ops)
	// the inputs that were not declared together with the node, END's inputs and the branches come later, in any order
	var later []Op
	for _, n := range s.nodes {
		for _, o := range ops {
			if o.Key == n.key {
				for _, in := range n.ins[len(o.In):] {
					later = append(later, WA(n.key, in))
				}
			}
		}
	}
	if len(s.endIns) > 0 {
		if r.Prob(0.6) {
			later = append(later, WA("end", s.endIns...))
		} else {
			for _, in := range s.endIns {
				later = append(later, WA("end", in))
			}
		}
	}
	for _, b := range s.brs {
		later = append(later, Op{K: "WB", From: b.from, Ends: b.ends, Cond: b.cond})
	}
	shuffleOps(r, later)
	ops = append(ops, later...)
	if r.Prob(0.08) {
		shuffleOps(r, ops)
	}
	return ops
}

// ---- Chain front end ------------------------------------------------------------

func genChainOps(r *mon.Rand, depth int) ([]Op, []string) {
	var ops []Op
	var tags []string
	t := tStr
	n := r.Range(1, 5)
	for i := 0; i < n; i++ {
		if t == tMap {
			switch x := r.Intn(16); {
			case x < 5:
				ops = append(ops, CP())
			case x < 9:
				ops, t = append(ops, CPh("ik")), tStr
				tags = append(tags, "keyed-passthrough")
			case x < 10:
				ops = append(ops, CPh("iok"))
				tags = append(tags, "keyed-passthrough", "untyped-passthrough")
			default:
				ops, t = append(ops, CL("m")), tStr
			}
			continue
		}
		switch x := r.Intn(12); {
		case x < 3:
			ops = append(ops, CL("s"))
		case x < 5:
			ops = append(ops, CP())
		case x < 7:
			ops, t = append(ops, CPh("ok")), tMap
			tags = append(tags, "keyed-passthrough")
		case x < 8:
			ops, t = append(ops, CLh("ok")), tMap
		case x < 9:
			ops, t = append(ops, CPar(r.Range(2, 3))), tMap
		case x < 10:
			ops = append(ops, CBr(2))
		case depth > 0:
			ops = append(ops, Op{K: "CG", Sub: genSub(r, depth-1)})
			tags = append(tags, "nested")
		default:
			ops = append(ops, CL("s"))
		}
	}
	if t == tMap {
		ops = append(ops, CL("m"))
	}
	return ops, tags
}

// ---- compile options ---------------------------------------------------------------

// nodeKeys: the keys of the nodes the calls declare (top level).
func nodeKeys(ops []Op) []string {
	set := map[string]bool{}
	for _, o := range ops {
		switch {
		case o.K == "L", o.K == "P", o.K == "GN", o.K == "WN" && o.Typ != "":
			if o.Key != "" && o.Key != "start" && o.Key != "end" {
				set[o.Key] = true
			}
		}
	}
	return mon.SortedKeys(set)
}

// compileOptionKeys: like compileOption, with interrupt points now and then: on a node of the graph (keys; valid), or -
// wantInvalid - on a key that names no node of it (a typo, START, END, one good and one bad key).
func compileOptionKeys(r *mon.Rand, fe string, wantInvalid bool, keys []string) (opt string, tags []string) {
	if wantInvalid && r.Prob(0.4) {
		opt = compileOption(r, fe, false)
		bad := mon.PickOne(r, []string{"zz", "zz", "end", "start", "node_9", "k"})
		if len(keys) > 0 && r.Prob(0.3) {
			bad = keys[r.Intn(len(keys))] + "," + bad
		}
		tok := mon.PickOne(r, []string{"ib=", "ia="}) + bad
		if r.Prob(0.3) {
			tok = "store+" + tok
		}
		if opt != "" {
			if r.Bool() {
				opt = opt + "+" + tok
			} else {
				opt = tok + "+" + opt
			}
		} else {
			opt = tok
		}
		return opt, []string{"invalid-options", "unknown-interrupt-node"}
	}
	opt = compileOption(r, fe, wantInvalid)
	if wantInvalid {
		return opt, []string{"invalid-options"}
	}
	if fe == "chain" {
		keys = []string{"node_0", "node_1"} // (whether they name a node depends on the chain: the reference knows)
	}
	if len(keys) > 0 && r.Prob(0.2) {
		tok := mon.PickOne(r, []string{"ib=", "ia="}) + keys[r.Intn(len(keys))]
		if r.Prob(0.3) {
			tok += "+" + mon.PickOne(r, []string{"ib=", "ia="}) + keys[r.Intn(len(keys))]
		}
		if opt != "" {
			opt += "+"
		}
		opt += tok
		tags = append(tags, "interrupt-option")
	}
	return opt, tags
}

// compileOption draws an option set for a front end; about a third of them is not valid for it.
func compileOption(r *mon.Rand, fe string, wantInvalid bool) string {
	valid := map[string][]string{
		"graph":    {"", "", "all", "all", "any", "max", "name", "store", "any+max", "name+all", "all+name", "max+name+store", "store+all"},
		"chain":    {"", "", "max", "name", "store", "name+max", "max+store"},
		"workflow": {"", "", "name", "store", "name+store", "store+name"},
	}
	invalid := map[string][]string{
		"graph":    {"all+max", "max+all", "name+all+max", "max+name+all", "all+store+max", "any+all+max"},
		"chain":    {"all", "any", "all+max", "name+any", "max+all"},
		"workflow": {"max", "max", "name+max", "max+name", "store+max", "all", "any", "all+max", "any+max", "max+any", "name+all"},
	}
	if wantInvalid {
		return mon.PickOne(r, invalid[fe])
	}
	return mon.PickOne(r, valid[fe])
}

// ---- putting it together -------------------------------------------------------------

type builtShape struct {
	fe   string
	ops  []Op // without Compile
	opt  string
	tags []string
}

// genBuilt draws one graph / chain / workflow: structure, at most one deliberate violation, option set.
func genBuilt(r *mon.Rand, depth int, fe string) builtShape {
	b := builtShape{fe: fe}
	violation := ""
	if r.Prob(0.45) {
		violation = mon.PickOne(r, []string{"loop", "loop", "loop", "option", "option", "untyped", "mutation"})
	}
	switch fe {
	case "graph":
		s := genGraphShape(r, depth)
		if violation == "loop" {
			s.closeLoopGraph(r)
		}
		if violation == "untyped" && len(s.nodes) < len(shapeKeys) {
			key := shapeKeys[len(s.nodes)]
			nd := &shNode{key: key, op: Ph(key, mon.PickOne(r, []string{"", "", "ok", "ik", "iok"}))}
			s.nodes = append(s.nodes, nd)
			switch r.Intn(3) {
			case 0: // no connection at all
			case 1: // connected to another untyped passthrough only
				if len(s.nodes) < len(shapeKeys) {
					k2 := shapeKeys[len(s.nodes)]
					s.nodes = append(s.nodes, &shNode{key: k2, op: P(k2)})
					s.conns = append(s.conns, shConn{from: key, to: k2})
				}
			default:
				s.conns = append(s.conns, shConn{from: key, to: key})
			}
			s.tag("untyped-passthrough")
		}
		b.ops, b.tags = s.lowerGraph(r), s.tags
	case "workflow":
		s := genWorkflowShape(r, depth)
		if violation == "loop" {
			s.closeLoopWorkflow(r)
		}
		if violation == "untyped" && len(s.nodes) < len(shapeKeys) {
			key := shapeKeys[len(s.nodes)]
			nd := &shNode{key: key, op: Op{K: "WN", Key: key, Typ: "P", H: mon.PickOne(r, []string{"", "", "ok", "ik"})}}
			from := "start"
			if len(s.nodes) > 0 && r.Prob(0.6) {
				from = s.nodes[r.Intn(len(s.nodes))].key
			}
			switch r.Intn(3) {
			case 0: // only a control-only dependency
				nd.ins = []WIn{dep(from)}
			case 1: // only inputs with field mappings: they tell nothing about its type
				nd.ins = []WIn{inF(from, "X")}
				if s.outT(from) == tIn {
					nd.ins = []WIn{{From: from, FromF: "X"}}
				}
				s.tag("mapped-at-passthrough")
			default:
				nd.ins = []WIn{dep(from), inNDF(from, "Y")}
				s.tag("mapped-at-passthrough")
			}
			s.nodes = append(s.nodes, nd)
			s.endIns = append(s.endIns, dep(key))
			s.tag("untyped-passthrough")
		}
		b.ops, b.tags = s.lowerWorkflow(r), s.tags
	default:
		b.ops, b.tags = genChainOps(r, depth)
	}
	if violation == "mutation" && len(b.ops) > 1 {
		switch r.Intn(3) {
		case 0:
			pos := r.Intn(len(b.ops))
			b.ops = append(b.ops[:pos:pos], b.ops[pos+1:]...)
		case 1:
			pos := r.Intn(len(b.ops))
			at := r.Range(pos, len(b.ops))
			b.ops = append(b.ops[:at:at], append([]Op{b.ops[pos]}, b.ops[at:]...)...)
		default:
			alpha := fullAlphabet(fe)
			pos := r.Intn(len(b.ops) + 1)
			b.ops = append(b.ops[:pos:pos], append([]Op{alpha[r.Intn(len(alpha))]}, b.ops[pos:]...)...)
		}
		b.tags = append(b.tags, "mutated")
	}
	var otags []string
	b.opt, otags = compileOptionKeys(r, fe, violation == "option", nodeKeys(b.ops))
	b.tags = append(b.tags, otags...)
	return b
}

func pickFE(r *mon.Rand) string {
	return mon.PickOne(r, []string{"graph", "graph", "graph", "workflow", "workflow", "workflow", "chain"})
}

// genSub: a graph that is added as a node.
func genSub(r *mon.Rand, depth int) *Sub {
	b := genBuilt(r, depth, pickFE(r))
	// The graph is compiled by its parent only (a mutation may have put a Compile among its calls): the
	// reference and eino are compared call by call at the top level only, and a Compile inside is where
	// the two may part unnoticed (eino refuses a node without predecessor in all-predecessor mode, which
	// the statement does not name and the reference does not model).
	ops := b.ops[:0:0]
	for _, o := range b.ops {
		if o.K != "K" {
			ops = append(ops, o)
		}
	}
	sub := newSub(b.fe, ops, b.opt != "" || r.Prob(0.2), b.opt)
	// compiled standalone before it is added as a node, now and then
	sub.Pre = r.Prob(0.15)
	return sub
}

func shapeSeq(r *mon.Rand) *Seq {
	depth := 0
	if r.Prob(0.5) {
		depth = 1
		if r.Prob(0.25) {
			depth = 2
		}
	}
	b := genBuilt(r, depth, pickFE(r))
	ops := append([]Op(nil), b.ops...)
	if r.Prob(0.12) && len(ops) > 1 {
		// a Compile in the middle of the construction: it fails (something is still missing, or a bad option
		// set is given on purpose) and must be without influence on what follows
		pos := r.Range(len(ops)/2, len(ops))
		k := K(mon.PickOne(r, []string{b.opt, compileOption(r, b.fe, true), compileOption(r, b.fe, false)}))
		ops = append(ops[:pos:pos], append([]Op{k}, ops[pos:]...)...)
		b.tags = append(b.tags, "early-compile")
	}
	ops = append(ops, K(b.opt))
	if r.Prob(0.25) {
		// Compile once more (a failing Compile does not poison the builder, the outcome must be the same)
		ops = append(ops, K(mon.PickOne(r, []string{b.opt, b.opt, compileOption(r, b.fe, false), compileOption(r, b.fe, true)})))
	}
	if hasPre(ops) {
		b.tags = append(b.tags, "nested-precompiled")
	}
	tags := sortedCopy(b.tags)
	fam := "shape"
	last := ""
	for _, t := range tags {
		if t != last {
			fam += ":" + t
			last = t
		}
	}
	return (&Seq{FE: b.fe, Family: fam, Ops: ops, Reps: shapeReps}).fill()
}
