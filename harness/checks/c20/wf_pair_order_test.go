package c20

import (
	"context"
	"fmt"
	"sort"
	"strings"

	"github.com/cloudwego/eino/compose"
	"verifharness/internal/mon"
)

// ---------------------------------------------------------------------------
// Sub-workload "pair order": several Workflow declarations for ONE pair of nodes (src, dst),
// applied in every order.
//
// A Workflow can connect a pair of nodes by three kinds of edge: control + data (AddInput),
// data only (AddInputWithOptions(..., WithNoDirectDependency())) and control only (AddDependency).
// Whether a set of declarations on one pair is well-formed (no duplicate edge, no conflicting
// target path, compatible types) is a property of the SET: the statement lists "duplicate edges"
// among the ill-formed constructions that are rejected and says nothing that could make the
// verdict depend on the order in which the declarations of one node were written down.
//
// A case is a multiset of 2..3 declarations on the pair plus a small neighbourhood (an unrelated
// second predecessor that keeps the graph otherwise well-formed). Every distinct order of the
// declarations of dst is built on fresh eino objects, compiled 5 times (fresh objects each) and,
// when Compile accepts it, invoked once.
//
// Oracles (no table of expected verdicts):
//   (a) accept / reject of Compile is the same for every order of the same multiset;
//   (b) the same order gives the same accept / reject on each of the 5 attempts;
//   (c) no call panics; a construction that Compile accepted runs (node bodies never fail, so an
//       error of Invoke comes from the graph itself: an ill-formed construction was accepted)
//       and gives the same output in every order;
//   (d) a multiset with two edges of the same kind on the pair (two declarations that carry
//       control, or two that carry data - e.g. AddInput(src) twice) is rejected in every order.
// ---------------------------------------------------------------------------

const pairOrderReps = 5

// poDecl is one declaration on the node dst.
type poDecl struct {
	Pred string // "src" (the pair under test) or "oth" (the unrelated second predecessor)
	Kind string // "input" AddInput | "input-opts" AddInputWithOptions without an option | "data-only" AddInputWithOptions(WithNoDirectDependency) | "dependency" AddDependency
	From string // source field, "" = the entire output
	To   string // target field, "" = the entire input
}

func (d poDecl) control() bool { return d.Kind != "data-only" }
func (d poDecl) data() bool    { return d.Kind != "dependency" }

func (d poDecl) String() string {
	m := ""
	if d.From != "" || d.To != "" {
		m = fmt.Sprintf(", %s->%s", d.From, d.To)
	}
	switch d.Kind {
	case "input":
		return fmt.Sprintf("AddInput(%s%s)", d.Pred, m)
	case "input-opts":
		return fmt.Sprintf("AddInputWithOptions(%s%s)", d.Pred, m)
	case "data-only":
		return fmt.Sprintf("AddInputWithOptions(%s%s, WithNoDirectDependency())", d.Pred, m)
	}
	return fmt.Sprintf("AddDependency(%s)", d.Pred)
}

func (d poDecl) mappings() []*compose.FieldMapping {
	switch {
	case d.From != "" && d.To != "":
		return []*compose.FieldMapping{compose.MapFields(d.From, d.To)}
	case d.To != "":
		return []*compose.FieldMapping{compose.ToField(d.To)}
	case d.From != "":
		return []*compose.FieldMapping{compose.FromField(d.From)}
	}
	return nil
}

// poCase is one generated case: the neighbourhood and the declarations of dst (the multiset on the
// pair first, then the declaration of the second predecessor if it has one on dst).
type poCase struct {
	SrcIsStart bool   // the pair is (START, dst)
	SrcKind    string // type of src's output: "map" map[string]any | "struct" poOut
	DstKind    string // "map" lambda over map[string]any | "struct" lambda over poIn | "end" the pair is (src, END)
	Neighbour  string // how the second predecessor reaches END: "data" oth->dst with a mapping to field C | "dependency" oth->dst control only | "end" oth->END only
	Decls      []poDecl
	NPair      int // Decls[:NPair] is the multiset on the pair
	X, Y       string
}

func (c *poCase) multiset() string {
	var s []string
	for _, d := range c.Decls[:c.NPair] {
		s = append(s, d.String())
	}
	sort.Strings(s)
	return "{" + strings.Join(s, "; ") + "}"
}

func (c *poCase) digest() string {
	return fmt.Sprintf("pair-order|start=%v|src=%s|dst=%s|nb=%s|%s", c.SrcIsStart, c.SrcKind, c.DstKind, c.Neighbour, c.multiset())
}

func (c *poCase) order(perm []int) string {
	var s []string
	for _, i := range perm {
		s = append(s, c.Decls[i].String())
	}
	return strings.Join(s, " ; ")
}

// duplicateEdge: two declarations of the multiset carry the same kind of edge for the pair.
func (c *poCase) duplicateEdge() bool {
	nc, nd := 0, 0
	for _, d := range c.Decls[:c.NPair] {
		if d.control() {
			nc++
		}
		if d.data() {
			nd++
		}
	}
	return nc > 1 || nd > 1
}

type poOut struct{ X, Y string }
type poIn struct{ A, B, C string }

// the alphabet of declarations on the pair
func pairOrderAlphabet() []poDecl {
	return []poDecl{
		{Pred: "src", Kind: "input"},
		{Pred: "src", Kind: "input", From: "X", To: "A"},
		{Pred: "src", Kind: "input", From: "Y", To: "B"},
		{Pred: "src", Kind: "data-only", From: "X", To: "A"},
		{Pred: "src", Kind: "data-only", From: "Y", To: "B"},
		{Pred: "src", Kind: "data-only"},
		{Pred: "src", Kind: "dependency"},
		{Pred: "src", Kind: "input-opts", From: "X", To: "B"},
		{Pred: "src", Kind: "input-opts"},
	}
}

func pairOrderGen(r *mon.Rand) *poCase {
	c := &poCase{
		SrcIsStart: r.Prob(0.3),
		SrcKind:    mon.PickOne(r, []string{"map", "map", "struct"}),
		DstKind:    mon.PickOne(r, []string{"map", "map", "struct", "struct", "end"}),
		Neighbour:  mon.PickOne(r, []string{"data", "dependency", "end"}),
		X:          "x" + r.Str(1, 3),
		Y:          "y" + r.Str(1, 3),
	}
	alpha := pairOrderAlphabet()
	n := 2 + r.Intn(2)
	switch {
	case r.Prob(0.1):
		// AddInput(src) twice (+ possibly a third declaration)
		c.Decls = append(c.Decls, alpha[0], alpha[0])
		if n == 3 {
			c.Decls = append(c.Decls, mon.PickOne(r, alpha))
		}
	case r.Prob(0.15):
		// the well-formed way to connect a pair by two declarations: data only + control only
		n = 2
		c.Decls = append(c.Decls, alpha[3+r.Intn(3)], alpha[6])
	case r.Prob(0.35):
		// one data-only and one declaration with control, the rest free
		c.Decls = append(c.Decls, alpha[3+r.Intn(3)], mon.PickOne(r, []poDecl{alpha[0], alpha[1], alpha[2], alpha[6], alpha[7], alpha[8]}))
		if n == 3 {
			c.Decls = append(c.Decls, mon.PickOne(r, alpha))
		}
	default:
		for i := 0; i < n; i++ {
			c.Decls = append(c.Decls, mon.PickOne(r, alpha))
		}
	}
	c.NPair = len(c.Decls)
	whole, control := false, false
	for _, d := range c.Decls {
		whole = whole || (d.data() && d.To == "")
		control = control || d.control()
	}
	// the entire output of src as the entire input of dst needs equal types: mostly give it that
	if whole && r.Prob(0.75) {
		c.SrcKind = "map"
		if c.DstKind == "struct" {
			c.DstKind = "map"
		}
	}
	// data-only inputs alone do not order dst after src: the documented obligation of the caller is
	// a path src -> ... -> dst through other nodes; src -> oth -> dst is that path
	if !control && c.Neighbour == "end" {
		c.Neighbour = mon.PickOne(r, []string{"data", "dependency"})
	}
	switch c.Neighbour {
	case "data":
		c.Decls = append(c.Decls, poDecl{Pred: "oth", Kind: "input", From: "Z", To: "C"})
	case "dependency":
		c.Decls = append(c.Decls, poDecl{Pred: "oth", Kind: "dependency"})
	}
	return c
}

// pairOrderPerms: every distinct order of the declarations (equal declarations are interchangeable).
func pairOrderPerms(c *poCase) [][]int {
	n := len(c.Decls)
	var out [][]int
	seen := map[string]bool{}
	cur := make([]int, 0, n)
	used := make([]bool, n)
	var rec func()
	rec = func() {
		if len(cur) == n {
			k := c.order(cur)
			if !seen[k] {
				seen[k] = true
				out = append(out, append([]int(nil), cur...))
			}
			return
		}
		for i := 0; i < n; i++ {
			if used[i] {
				continue
			}
			used[i] = true
			cur = append(cur, i)
			rec()
			cur = cur[:len(cur)-1]
			used[i] = false
		}
	}
	rec()
	return out
}

type poRun struct {
	Class  byte // 'o' Compile accepted, 'e' rejected with an error, 'p' a call panicked
	Err    string
	Panic  *mon.Panic
	invoke func() (string, error)
}

func poApply(n *compose.WorkflowNode, pred string, d poDecl) {
	switch d.Kind {
	case "input":
		n.AddInput(pred, d.mappings()...)
	case "input-opts":
		n.AddInputWithOptions(pred, d.mappings())
	case "data-only":
		n.AddInputWithOptions(pred, d.mappings(), compose.WithNoDirectDependency())
	default:
		n.AddDependency(pred)
	}
}

func poMapBody(_ context.Context, in map[string]any) (map[string]any, error) {
	out := make(map[string]any, len(in))
	for k, v := range in {
		out[k] = v
	}
	return out, nil
}

func poStructBody(_ context.Context, in poIn) (map[string]any, error) {
	return map[string]any{"A": in.A, "B": in.B, "C": in.C}, nil
}

// poBuild builds the workflow of the case with dst's declarations in the given order and compiles it.
// I is the workflow's input type: the type of src's output when the pair starts at START.
func poBuild[I any](c *poCase, perm []int, input I) (res poRun) {
	ctx := context.Background()
	res.Panic = mon.Safe(func() {
		wf := compose.NewWorkflow[I, map[string]any]()
		src := "src"
		if c.SrcIsStart {
			src = compose.START
		} else {
			// the workflow's input is a map here
			var l *compose.Lambda
			if c.SrcKind == "map" {
				l = compose.InvokableLambda(func(_ context.Context, in map[string]any) (map[string]any, error) {
					return map[string]any{"X": fmt.Sprint(in["X"], "!"), "Y": fmt.Sprint(in["Y"], "!")}, nil
				})
			} else {
				l = compose.InvokableLambda(func(_ context.Context, in map[string]any) (poOut, error) {
					return poOut{X: fmt.Sprint(in["X"], "!"), Y: fmt.Sprint(in["Y"], "!")}, nil
				})
			}
			wf.AddLambdaNode("src", l).AddInput(compose.START)
		}
		// the unrelated second predecessor: fed from src, so that src -> oth -> dst is a path
		wf.AddLambdaNode("oth", compose.InvokableLambda(func(_ context.Context, in map[string]any) (map[string]any, error) {
			return map[string]any{"Z": fmt.Sprint("oth(", in["X"], ")")}, nil
		})).AddInput(src, compose.MapFields("X", "X"))

		var dst *compose.WorkflowNode
		switch c.DstKind {
		case "map":
			dst = wf.AddLambdaNode("dst", compose.InvokableLambda(poMapBody))
		case "struct":
			dst = wf.AddLambdaNode("dst", compose.InvokableLambda(poStructBody))
		default:
			dst = wf.End()
		}
		for _, i := range perm {
			d := c.Decls[i]
			pred := d.Pred
			if pred == "src" {
				pred = src
			}
			poApply(dst, pred, d)
		}
		if c.DstKind != "end" {
			wf.End().AddInput("dst", compose.ToField("D"))
		}
		if c.Neighbour == "end" {
			wf.End().AddInput("oth", compose.ToField("O"))
		}
		r, err := wf.Compile(ctx)
		if err != nil {
			res.Class, res.Err = 'e', err.Error()
			return
		}
		res.Class = 'o'
		res.invoke = func() (string, error) {
			out, err := r.Invoke(ctx, input)
			if err != nil {
				return "", err
			}
			return mon.Canon(out), nil
		}
	})
	if res.Panic != nil {
		res.Class = 'p'
	}
	return res
}

func pairOrderBuild(c *poCase, perm []int) poRun {
	if c.SrcIsStart && c.SrcKind == "struct" {
		return poBuild(c, perm, poOut{X: c.X, Y: c.Y})
	}
	return poBuild(c, perm, map[string]any{"X": c.X, "Y": c.Y})
}

// poObs is what one order of the declarations did.
type poObs struct {
	Order   string
	Classes string // one letter per attempt
	Err     string // error of the first attempt
	Ran     bool
	Out     string
	RunErr  string
	RunPan  *mon.Panic
}

func pairOrderObserve(c *poCase) []poObs {
	var obs []poObs
	for _, perm := range pairOrderPerms(c) {
		o := poObs{Order: c.order(perm)}
		var cls []byte
		for a := 0; a < pairOrderReps; a++ {
			res := pairOrderBuild(c, perm)
			cls = append(cls, res.Class)
			if a == 0 {
				o.Err = res.Err
				if res.Panic != nil {
					o.Err = "panic: " + res.Panic.Value
				}
				if res.Class == 'o' {
					o.Ran = true
					o.RunPan = mon.Safe(func() {
						out, err := res.invoke()
						o.Out = out
						if err != nil {
							o.RunErr = err.Error()
						}
					})
				}
			}
		}
		o.Classes = string(cls)
		obs = append(obs, o)
	}
	return obs
}

type poWitness struct {
	Case     *poCase
	Multiset string
	Orders   []poObs
}

func (c *checker) checkPairOrder(pc *poCase) {
	rep := c.rep
	obs := pairOrderObserve(pc)
	w := poWitness{Case: pc, Multiset: pc.multiset(), Orders: obs}
	where := fmt.Sprintf("pair (%s, %s), src output %s, second predecessor %s", map[bool]string{true: "START", false: "src"}[pc.SrcIsStart],
		map[bool]string{true: "END", false: "dst(" + pc.DstKind + ")"}[pc.DstKind == "end"], pc.SrcKind, pc.Neighbour)

	rep.Count("pair_order_cases", 1)
	rep.Count("pair_order_orders", int64(len(obs)))
	rep.Count("pair_order_compiles", int64(len(obs)*pairOrderReps))
	rep.AddEvaluations(int64(len(obs) * pairOrderReps))
	rep.Distinct("pair_order_multisets", pc.digest())
	if len(obs) > 1 {
		rep.NonTrivial(pc.digest())
	}

	var accepted, rejected *poObs
	reported := map[string]bool{}
	report := func(sig, text string) {
		if !reported[sig] {
			reported[sig] = true
			rep.Violation(sig, text, w)
		}
	}
	for i := range obs {
		o := &obs[i]
		// (c) never a panic
		if strings.ContainsRune(o.Classes, 'p') {
			report("C20/panic/workflow-same-pair", fmt.Sprintf("%s: declarations of the node in the order [%s]: a builder call or Compile panicked: %s", where, o.Order, o.Err))
			continue
		}
		// (b) the same order, the same outcome on every attempt
		if strings.Trim(o.Classes, o.Classes[:1]) != "" {
			report("C20/nondeterministic-verdict/workflow-same-pair", fmt.Sprintf("%s: the same declarations in the same order [%s] on fresh objects: Compile outcomes %s (o accepted, e rejected) over %d attempts", where, o.Order, o.Classes, pairOrderReps))
			continue
		}
		if o.Classes[0] == 'o' {
			if accepted == nil {
				accepted = o
			}
		} else if rejected == nil {
			rejected = o
		}
	}
	// (a) the verdict does not depend on the order of the declarations
	if accepted != nil && rejected != nil {
		report("C20/order-dependent-verdict/workflow-same-pair", fmt.Sprintf("%s: the declarations %s on one pair of nodes are accepted by Compile in the order [%s] and rejected in the order [%s] (%s)",
			where, pc.multiset(), accepted.Order, rejected.Order, rejected.Err))
	}
	// (d) two edges of the same kind on the pair: rejected in every order
	if pc.duplicateEdge() {
		rep.Count("pair_order_duplicate_edge_multisets", 1)
		if accepted != nil {
			report("C20/duplicate-edge-accepted/workflow-same-pair", fmt.Sprintf("%s: the declarations %s connect the pair twice by the same kind of edge (control or data), but Compile accepts them in the order [%s]",
				where, pc.multiset(), accepted.Order))
		}
	}
	// (c) what Compile accepted runs, with the same result in every order
	var first *poObs
	for i := range obs {
		o := &obs[i]
		if !o.Ran {
			continue
		}
		rep.Count("pair_order_runs", 1)
		switch {
		case o.RunPan != nil:
			report("C20/accepted-graph-panics/workflow-same-pair", fmt.Sprintf("%s: Compile accepted the declarations in the order [%s], Invoke panics: %s", where, o.Order, o.RunPan.Value))
			continue
		case o.RunErr != "":
			report("C20/accepted-graph-fails-to-run/workflow-same-pair", fmt.Sprintf("%s: Compile accepted the declarations in the order [%s], but the graph cannot run (no node body fails): %s", where, o.Order, o.RunErr))
			continue
		}
		if first == nil {
			first = o
		} else if o.Out != first.Out {
			report("C20/order-dependent-output/workflow-same-pair", fmt.Sprintf("%s: the accepted declarations %s give %s in the order [%s] and %s in the order [%s]", where, pc.multiset(), first.Out, first.Order, o.Out, o.Order))
		}
	}
	switch {
	case accepted != nil && rejected == nil:
		rep.Count("pair_order_multisets_accepted_in_every_order", 1)
	case accepted == nil && rejected != nil:
		rep.Count("pair_order_multisets_rejected_in_every_order", 1)
	}
	if pc.SrcIsStart {
		rep.Count("pair_order_with/start-as-src", 1)
	}
	if pc.DstKind == "end" {
		rep.Count("pair_order_with/end-as-dst", 1)
	}
	for _, d := range pc.Decls[:pc.NPair] {
		rep.Count("pair_order_decl/"+d.Kind, 1)
	}
}

// pairOrderCount: number of pair-order cases of the whole run (divided among the sampling children).
func pairOrderCount(cfg mon.Config) int {
	return cfg.Pick(1600, 16000)
}

func pairOrderRule(cfg mon.Config) string {
	return fmt.Sprintf(" PAIR ORDER (sampled, %d further cases in the sampling children): a multiset of 2..3 Workflow declarations on ONE pair of nodes (src, dst) from the alphabet "+
		"{AddInput(src), AddInput(src, X->A), AddInput(src, Y->B), AddInputWithOptions(src, X->B), AddInputWithOptions(src), data-only inputs X->A / Y->B / entire output (WithNoDirectDependency), AddDependency(src)} "+
		"(src a lambda node or START with a map or struct output, dst a lambda node over a map or a struct or END, a second predecessor that reaches dst by a mapped input or a dependency, or END only), "+
		"dst's declarations applied in EVERY distinct order, each order built and compiled %d times on fresh objects and invoked once if Compile accepts it; judged without a reference: "+
		"the same accept / reject in every order and on every attempt, no panic, what is accepted runs and gives the same output in every order, two edges of the same kind on the pair are rejected in every order. "+
		"Distinct = distinct (neighbourhood, multiset); non-trivial = at least two distinct orders.", pairOrderCount(cfg), pairOrderReps)
}

func pairOrderRequire(rep *mon.Reporter) {
	rep.Require("pair_order_cases", 100)
	rep.Require("pair_order_multisets_accepted_in_every_order", 10)
	rep.Require("pair_order_multisets_rejected_in_every_order", 50)
	rep.Require("pair_order_duplicate_edge_multisets", 50)
	rep.Require("pair_order_runs", 20)
	rep.Require("pair_order_decl/data-only", 50)
	rep.Require("pair_order_decl/dependency", 20)
	rep.Require("pair_order_with/start-as-src", 20)
	rep.Require("pair_order_with/end-as-dst", 20)
}
