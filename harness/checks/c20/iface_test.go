package c20

import (
	"verifharness/internal/mon"
)

// ---------------------------------------------------------------------------
// Three sampled sub-workloads for behaviour that the call alphabets and the
// structure workload did not reach (hunting findings of round 2). All of them
// produce plain call sequences that are judged by checkSeq (reference, panic,
// stickiness, determinism over many attempts, immutability, compile history).
//
//  1. ifaceSeq: a pass-through node (or a chain of two) between concretely typed
//     producers and consumers that are declared with interface types (any, fooer,
//     barer), with the producer's own type, or with a conflicting concrete type;
//     several consumers per node, branches whose condition reads an interface
//     type, the concrete type or a conflicting one. A pass-through node takes the
//     type of the FIRST typed neighbour it is connected to: on the Graph front end
//     that is decided by the caller's call order (all orders are drawn), on the
//     Workflow front end by the order in which Compile replays the declarations -
//     which must be a function of the calls (40 attempts per sequence).
//  2. waitSeq: pass-through nodes connected to each other before anything tells
//     their type (the edges wait), typed later by branches (well-formed ones, and
//     ill-formed ones with no or one target, with conditions over string / int /
//     any), by typed successors or by their predecessor, in a drawn order.
//  3. recompileSeq: what a Workflow hands to its graph at Compile (inputs,
//     branches, static values), with Compile calls that fail for a repairable
//     reason before the construction is complete, Compile twice, nested graphs
//     that were compiled standalone first.
// ---------------------------------------------------------------------------

const (
	ifaceRepsWorkflow = 40
	ifaceRepsGraph    = 12
	waitReps          = 30
)

type ifaceProducer struct {
	typ string
	out int
}

var ifaceProducers = []ifaceProducer{{"si", tInt}, {"sT", tT}, {"sT", tT}, {"s", tStr}, {"sa", tAny}, {"sS", tIn}}

// ifaceConsumers: lambda types (all →string) by what they can take from a value of type t.
func ifaceConsumers(t int) (iface, exact, conflicting []string) {
	switch t {
	case tInt:
		return []string{"a"}, []string{"is"}, []string{"s", "S", "F"}
	case tStr:
		return []string{"a"}, []string{"s"}, []string{"is", "S", "R"}
	case tT:
		return []string{"a", "F", "R", "F", "R"}, []string{"F"}, []string{"s", "is"}
	case tIn:
		return []string{"a"}, []string{"S"}, []string{"s", "F"}
	}
	// any: everything may fit (checked at run time)
	return []string{"a"}, []string{"a"}, []string{"s", "is", "F"}
}

func condFor(r *mon.Rand, t int) string {
	// the condition reads an any, the producer's type (as far as there is a condition over it), or a conflicting type
	switch x := r.Intn(10); {
	case x < 5:
		return "a"
	case x < 8:
		if t == tInt {
			return "i"
		}
		if t == tStr {
			return "s"
		}
		return "a"
	}
	if t == tInt {
		return "s"
	}
	return "i"
}

func genIfaceShape(r *mon.Rand, fe string) *shape {
	s := &shape{fe: fe}
	wf := fe == "workflow"
	s.tag("interface-typed-neighbour")
	// ---- producers
	nProd := 1
	if r.Prob(0.25) {
		nProd = 2
	}
	var prods []*shNode
	for i := 0; i < nProd; i++ {
		p := ifaceProducers[r.Intn(len(ifaceProducers))]
		key := []string{"a", "b"}[i]
		in, out := lambdaTypes(p.typ)
		nd := &shNode{key: key, in: in, out: out}
		if wf {
			nd.op, nd.ins = Op{K: "WN", Key: key, Typ: p.typ}, []WIn{in0("start")}
		} else {
			nd.op = Lt(p.typ, key)
			s.conns = append(s.conns, shConn{from: "start", to: key})
		}
		prods = append(prods, nd)
		s.nodes = append(s.nodes, nd)
	}
	t := prods[0].out
	// ---- the pass-through node(s)
	pass := []string{"p"}
	if r.Prob(0.3) {
		pass = append(pass, "q")
	}
	for i, key := range pass {
		nd := &shNode{key: key, in: t, out: t}
		if wf {
			nd.op = Op{K: "WN", Key: key, Typ: "P"}
			if i == 0 {
				nd.ins = []WIn{in0(prods[0].key)}
				for _, o := range prods[1:] {
					nd.ins = append(nd.ins, dep(o.key)) // a workflow node has one whole-value source
				}
			} else {
				nd.ins = []WIn{in0(pass[i-1])}
			}
		} else {
			nd.op = P(key)
			if i == 0 {
				for _, o := range prods {
					s.conns = append(s.conns, shConn{from: o.key, to: key})
				}
			} else {
				s.conns = append(s.conns, shConn{from: pass[i-1], to: key})
			}
		}
		s.nodes = append(s.nodes, nd)
	}
	// ---- consumers: at least one declared with an interface type; a conflicting one now and then
	ifc, exact, confl := ifaceConsumers(t)
	nCons := r.Range(2, 4)
	typs := []string{mon.PickOne(r, ifc)}
	conflict := false
	for len(typs) < nCons {
		switch x := r.Intn(10); {
		case x < 3 && !conflict:
			typs = append(typs, mon.PickOne(r, confl))
			conflict = true
			s.tag("conflicting-consumer")
		case x < 6:
			typs = append(typs, mon.PickOne(r, ifc))
		default:
			typs = append(typs, mon.PickOne(r, exact))
		}
	}
	shuffleStrings(r, typs)
	consKeys := []string{"c", "d", "e", "f"}
	var cons []*shNode
	for i, typ := range typs {
		key := consKeys[i]
		from := pass[r.Intn(len(pass))]
		in, _ := lambdaTypes(typ)
		nd := &shNode{key: key, in: in, out: tStr}
		if wf {
			nd.op, nd.ins = Op{K: "WN", Key: key, Typ: typ}, []WIn{in0(from)}
		} else {
			nd.op = Lt(typ, key)
			s.conns = append(s.conns, shConn{from: from, to: key})
		}
		cons = append(cons, nd)
		s.nodes = append(s.nodes, nd)
	}
	// ---- END: the first consumer's value (a Graph: the others are dead ends; a Workflow: END waits for them)
	if wf {
		s.endIns = []WIn{in0(cons[0].key)}
		for _, c := range cons[1:] {
			if r.Prob(0.7) {
				s.endIns = append(s.endIns, dep(c.key))
			}
		}
	} else {
		s.conns = append(s.conns, shConn{from: cons[0].key, to: "end"})
	}
	// ---- a branch on a pass-through node
	if r.Prob(0.45) {
		from := pass[r.Intn(len(pass))]
		var ends []string
		for _, c := range cons {
			hangsOn := false
			if wf {
				hangsOn = len(c.ins) > 0 && c.ins[0].From == from
			} else {
				for _, cn := range s.conns {
					hangsOn = hangsOn || (cn.from == from && cn.to == c.key)
				}
			}
			if hangsOn && r.Prob(0.7) {
				ends = append(ends, c.key)
			}
		}
		switch x := r.Intn(20); {
		case x == 0:
			ends = nil // no target at all
			s.tag("zero-target-branch")
		case x == 1 && len(ends) > 1:
			ends = ends[:1]
		case len(ends) < 2:
			ends = append(ends, "end")
			if len(ends) < 2 {
				ends = append(ends, cons[0].key)
			}
		}
		// the branch takes over the control of the connections to its targets
		for _, e := range ends {
			if wf {
				if c := s.node(e); c != nil && len(c.ins) > 0 && c.ins[0].From == from {
					c.ins[0].Mode = "nd"
				}
			} else {
				for i := range s.conns {
					if s.conns[i].from == from && s.conns[i].to == e {
						s.conns[i].group = len(s.brs) + 1
					}
				}
			}
		}
		s.brs = append(s.brs, shBranch{from: from, ends: ends, cond: condFor(r, t)})
		s.tag("branch")
	}
	return s
}

func in0(from string) WIn { return WIn{From: from} }

func shuffleStrings(r *mon.Rand, xs []string) {
	for i := len(xs) - 1; i > 0; i-- {
		j := r.Intn(i + 1)
		xs[i], xs[j] = xs[j], xs[i]
	}
}

func famOf(prefix string, tags []string) string {
	fam, last := prefix, ""
	for _, t := range sortedCopy(tags) {
		if t != last {
			fam += ":" + t
			last = t
		}
	}
	return fam
}

func ifaceSeq(r *mon.Rand) *Seq {
	fe := mon.PickOne(r, []string{"graph", "workflow", "workflow"})
	s := genIfaceShape(r, fe)
	var ops []Op
	reps := ifaceRepsGraph
	if fe == "workflow" {
		ops = s.lowerWorkflow(r)
		reps = ifaceRepsWorkflow
	} else {
		ops = s.lowerGraph(r)
	}
	opt, tags := compileOptionKeys(r, fe, r.Prob(0.06), nodeKeys(ops))
	ops = append(ops, K(opt))
	if r.Prob(0.2) {
		ops = append(ops, K(opt))
	}
	return (&Seq{FE: fe, Family: famOf("iface", append(s.tags, tags...)), Ops: ops, Reps: reps}).fill()
}

// ---- waiting edges --------------------------------------------------------------------------

func waitSeq(r *mon.Rand) *Seq {
	tags := []string{"waiting-edges"}
	n := r.Range(3, 5)
	pk := []string{"p", "q", "r", "u", "v"}[:n]
	var decl, wait, typing []Op
	for _, k := range pk {
		decl = append(decl, P(k))
	}
	// a tree (now and then a DAG) of pass-through nodes: every node but the first hangs on an earlier one
	for i := 1; i < n; i++ {
		wait = append(wait, E(pk[r.Intn(i)], pk[i]))
		if i >= 2 && r.Prob(0.2) {
			if o := pk[r.Intn(i)]; o != wait[len(wait)-1].From {
				wait = append(wait, E(o, pk[i]))
			}
		}
	}
	// typed nodes: x takes an int, y a string, z an any
	decl = append(decl, Lt("is", "x"), L("y"), Lt("a", "z"))
	lam := map[string]string{"i": "x", "s": "y", "a": "z"}
	// what types the pass-through nodes: branches (also ill-formed ones), typed successors, the predecessor
	for _, k := range pk {
		switch x := r.Intn(10); {
		case x < 3:
			cond := mon.PickOne(r, []string{"s", "i", "a"})
			typing = append(typing, Op{K: "B", From: k, Cond: cond}) // no target
			tags = append(tags, "zero-target-branch")
		case x < 4:
			cond := mon.PickOne(r, []string{"s", "i"})
			typing = append(typing, Op{K: "B", From: k, Cond: cond, Ends: []string{lam[cond]}})
		case x < 7:
			cond := mon.PickOne(r, []string{"s", "i", "a", "s", "i"})
			other := "end"
			if r.Prob(0.3) {
				other = "z"
			}
			typing = append(typing, Op{K: "B", From: k, Cond: cond, Ends: []string{lam[cond], other}})
			tags = append(tags, "branch")
		case x < 9:
			typing = append(typing, E(k, mon.PickOne(r, []string{"x", "y", "z"})))
		}
	}
	typing = append(typing, E("start", pk[0]))
	rest := []Op{E(mon.PickOne(r, []string{"x", "y", "z"}), "end")}
	if r.Prob(0.5) {
		rest = append(rest, E(pk[n-1], mon.PickOne(r, []string{"x", "y", "z"})))
	}
	shuffleOps(r, decl)
	shuffleOps(r, wait)
	shuffleOps(r, typing)
	ops := append(append(append(decl, wait...), typing...), rest...)
	if r.Prob(0.35) {
		// anything may come first
		tail := ops[len(decl):]
		shuffleOps(r, tail)
	}
	ops = append(ops, K(mon.PickOne(r, []string{"", "", "all", "name"})))
	return (&Seq{FE: "graph", Family: famOf("wait", tags), Ops: ops, Reps: waitReps}).fill()
}

// ---- Compile again ------------------------------------------------------------------------------

// recompileSeq: a Workflow (or a Graph / Chain around nested workflows) with branches and static values,
// and a history of Compile calls before the last one.
func recompileSeq(r *mon.Rand) *Seq {
	fe := mon.PickOne(r, []string{"workflow", "workflow", "workflow", "graph"})
	depth := 0
	if fe == "graph" || r.Prob(0.3) {
		depth = 1
	}
	var b builtShape
	for try := 0; ; try++ {
		b = genBuilt(r, depth, fe)
		ok := true
		for _, t := range b.tags {
			// (one deliberate violation per structure is the business of the structure workload)
			if t == "invalid-options" || t == "mutated" || t == "untyped-passthrough" {
				ok = false
			}
		}
		if ok || try > 6 {
			break
		}
	}
	ops := append([]Op(nil), b.ops...)
	tags := append([]string{}, b.tags...)
	good := b.opt
	last := K(good)
	switch kind := r.Intn(5); {
	case kind == 0:
		// END is connected after a first Compile
		var end, other []Op
		for _, o := range ops {
			if (o.K == "WN" && o.Key == "end") || (o.K == "E" && o.To == "end") {
				end = append(end, o)
			} else {
				other = append(other, o)
			}
		}
		ops = append(append(append(other, K(good)), end...), last)
		tags = append(tags, "end-connected-after-a-failed-compile")
	case kind == 1:
		// a bad option set first
		ops = append(ops, K(compileOption(r, fe, true)), last)
		tags = append(tags, "bad-options-before")
	case kind == 2:
		// a Compile somewhere in the second half of the construction
		pos := r.Range(len(ops)/2, len(ops))
		ops = append(ops[:pos:pos], append([]Op{K(mon.PickOne(r, []string{good, compileOption(r, fe, true)}))}, ops[pos:]...)...)
		ops = append(ops, last)
		tags = append(tags, "early-compile")
	case kind == 3:
		ops = append(ops, last, last)
		if r.Prob(0.5) {
			ops = append(ops, K(compileOption(r, fe, false)), last)
		}
		tags = append(tags, "compiled-twice")
	default:
		ops = append(ops, K(compileOption(r, fe, true)), K(compileOption(r, fe, true)), last, last)
		tags = append(tags, "bad-options-before", "compiled-twice")
	}
	if hasPre(ops) {
		tags = append(tags, "nested-precompiled")
	}
	return (&Seq{FE: fe, Family: famOf("recompile", tags), Ops: ops, Reps: 8}).fill()
}
