package c20

import (
	"context"
	"fmt"
	"sort"
	"strings"

	"github.com/cloudwego/eino/components/document"
	"github.com/cloudwego/eino/components/embedding"
	"github.com/cloudwego/eino/components/indexer"
	"github.com/cloudwego/eino/components/model"
	"github.com/cloudwego/eino/components/prompt"
	"github.com/cloudwego/eino/components/retriever"
	"github.com/cloudwego/eino/components/tool"
	"github.com/cloudwego/eino/compose"
	"github.com/cloudwego/eino/schema"
	"verifharness/internal/mon"
)

// ---------------------------------------------------------------------------
// Component stages (coverage round 4): every Append* method of a Chain and every Add*Node method of a
// Graph / Workflow, with deterministic fakes. Used by the workload of later_test.go only (calls CC / GC
// and Workflow declarations with Typ "C:<kind>"); the reference does not know them.
//
//	retriever   string → []*Document        transformer  []*Document → []*Document
//	indexer     []*Document → []string      embedding    []string → [][]float64
//	loader      document.Source → []*Document
//	template    map[string]any → []*Message model        []*Message → *Message (with one tool call)
//	tools       *Message → []*Message
//
// glue lambdas (mkLambda): s2L string→[]string, s2M string→map, s2Src string→Source, D2s, I2s, V2s, Ms2s, M2s → string.
// ---------------------------------------------------------------------------

var componentKinds = []string{"retriever", "transformer", "indexer", "embedding", "loader", "template", "model", "tools"}

func componentMethod(kind string) string {
	switch kind {
	case "retriever":
		return "Retriever"
	case "transformer":
		return "DocumentTransformer"
	case "indexer":
		return "Indexer"
	case "embedding":
		return "Embedding"
	case "loader":
		return "Loader"
	case "template":
		return "ChatTemplate"
	case "model":
		return "ChatModel"
	case "tools":
		return "ToolsNode"
	}
	return "?" + kind
}

type fakeRetriever struct{ tag string }

func (f fakeRetriever) Retrieve(ctx context.Context, q string, _ ...retriever.Option) ([]*schema.Document, error) {
	traceAdd(ctx, f.tag)
	return []*schema.Document{{ID: "d0", Content: q + f.tag}, {ID: "d1", Content: f.tag}}, nil
}

type fakeTransformer struct{ tag string }

func (f fakeTransformer) Transform(ctx context.Context, src []*schema.Document, _ ...document.TransformerOption) ([]*schema.Document, error) {
	traceAdd(ctx, f.tag)
	out := make([]*schema.Document, 0, len(src))
	for _, d := range src {
		out = append(out, &schema.Document{ID: d.ID, Content: d.Content + f.tag})
	}
	return out, nil
}

type fakeIndexer struct{ tag string }

func (f fakeIndexer) Store(ctx context.Context, docs []*schema.Document, _ ...indexer.Option) ([]string, error) {
	traceAdd(ctx, f.tag)
	ids := make([]string, 0, len(docs))
	for _, d := range docs {
		ids = append(ids, d.ID+":"+d.Content+f.tag)
	}
	return ids, nil
}

type fakeEmbedder struct{ tag string }

func (f fakeEmbedder) EmbedStrings(ctx context.Context, texts []string, _ ...embedding.Option) ([][]float64, error) {
	traceAdd(ctx, f.tag)
	out := make([][]float64, 0, len(texts))
	for _, t := range texts {
		out = append(out, []float64{float64(len(t)), float64(len(f.tag))})
	}
	return out, nil
}

type fakeLoader struct{ tag string }

func (f fakeLoader) Load(ctx context.Context, src document.Source, _ ...document.LoaderOption) ([]*schema.Document, error) {
	traceAdd(ctx, f.tag)
	return []*schema.Document{{ID: "l0", Content: src.URI + f.tag}}, nil
}

type fakeModel struct{ tag string }

func (f fakeModel) Generate(ctx context.Context, in []*schema.Message, _ ...model.Option) (*schema.Message, error) {
	traceAdd(ctx, f.tag)
	var b strings.Builder
	for _, m := range in {
		b.WriteString(m.Content + ";")
	}
	return &schema.Message{Role: schema.Assistant, Content: b.String() + f.tag,
		ToolCalls: []schema.ToolCall{{ID: "c1", Function: schema.FunctionCall{Name: "t", Arguments: `{"q":"` + fmt.Sprint(len(b.String())) + `"}`}}}}, nil
}

func (f fakeModel) Stream(ctx context.Context, in []*schema.Message, opts ...model.Option) (*schema.StreamReader[*schema.Message], error) {
	m, err := f.Generate(ctx, in, opts...)
	if err != nil {
		return nil, err
	}
	return schema.StreamReaderFromArray([]*schema.Message{m}), nil
}

type fakeTool struct{ tag string }

func (f fakeTool) Info(context.Context) (*schema.ToolInfo, error) {
	return &schema.ToolInfo{Name: "t", Desc: "a tool"}, nil
}

func (f fakeTool) InvokableRun(ctx context.Context, args string, _ ...tool.Option) (string, error) {
	traceAdd(ctx, f.tag)
	return args + f.tag, nil
}

func mkToolsNode(tag string) *compose.ToolsNode {
	tn, err := compose.NewToolNode(context.Background(), &compose.ToolsNodeConfig{Tools: []tool.BaseTool{fakeTool{tag}}})
	if err != nil {
		panic("harness: NewToolNode: " + err.Error())
	}
	return tn
}

func mkTemplate() prompt.ChatTemplate {
	return prompt.FromMessages(schema.FString, schema.UserMessage("ask {q}"))
}

// glue lambdas; nil = not one of them
func mkGlueLambda(typ, tag string) *compose.Lambda {
	switch typ {
	case "s2L":
		return compose.InvokableLambda(func(ctx context.Context, in string) ([]string, error) {
			traceAdd(ctx, tag)
			return []string{in, in + tag}, nil
		})
	case "s2M":
		return compose.InvokableLambda(func(ctx context.Context, in string) (map[string]any, error) {
			traceAdd(ctx, tag)
			return map[string]any{"q": in + tag}, nil
		})
	case "s2Src":
		return compose.InvokableLambda(func(ctx context.Context, in string) (document.Source, error) {
			traceAdd(ctx, tag)
			return document.Source{URI: in + tag}, nil
		})
	case "D2s":
		return compose.InvokableLambda(func(ctx context.Context, in []*schema.Document) (string, error) {
			traceAdd(ctx, tag)
			var b strings.Builder
			for _, d := range in {
				b.WriteString(d.ID + "=" + d.Content + ";")
			}
			return b.String() + tag, nil
		})
	case "I2s":
		return compose.InvokableLambda(func(ctx context.Context, in []string) (string, error) {
			traceAdd(ctx, tag)
			return strings.Join(in, ",") + tag, nil
		})
	case "V2s":
		return compose.InvokableLambda(func(ctx context.Context, in [][]float64) (string, error) {
			traceAdd(ctx, tag)
			return fmt.Sprint(in) + tag, nil
		})
	case "Ms2s":
		return compose.InvokableLambda(func(ctx context.Context, in []*schema.Message) (string, error) {
			traceAdd(ctx, tag)
			parts := make([]string, 0, len(in))
			for _, m := range in {
				parts = append(parts, string(m.Role)+":"+m.Content)
			}
			sort.Strings(parts)
			return strings.Join(parts, ";") + tag, nil
		})
	case "M2s":
		return compose.InvokableLambda(func(ctx context.Context, in *schema.Message) (string, error) {
			traceAdd(ctx, tag)
			return string(in.Role) + ":" + in.Content + tag, nil
		})
	}
	return nil
}

// appendComponent: Chain.Append<Component>
func appendComponent(c *compose.Chain[string, string], kind, tag string) {
	switch kind {
	case "retriever":
		c.AppendRetriever(fakeRetriever{tag})
	case "transformer":
		c.AppendDocumentTransformer(fakeTransformer{tag})
	case "indexer":
		c.AppendIndexer(fakeIndexer{tag})
	case "embedding":
		c.AppendEmbedding(fakeEmbedder{tag})
	case "loader":
		c.AppendLoader(fakeLoader{tag})
	case "template":
		c.AppendChatTemplate(mkTemplate())
	case "model":
		c.AppendChatModel(fakeModel{tag})
	case "tools":
		c.AppendToolsNode(mkToolsNode(tag))
	default:
		panic("harness: unknown component kind " + kind)
	}
}

// graphAddComponent: Graph.Add<Component>Node
func graphAddComponent(g *compose.Graph[string, string], key, kind string) error {
	switch kind {
	case "retriever":
		return g.AddRetrieverNode(key, fakeRetriever{key})
	case "transformer":
		return g.AddDocumentTransformerNode(key, fakeTransformer{key})
	case "indexer":
		return g.AddIndexerNode(key, fakeIndexer{key})
	case "embedding":
		return g.AddEmbeddingNode(key, fakeEmbedder{key})
	case "loader":
		return g.AddLoaderNode(key, fakeLoader{key})
	case "template":
		return g.AddChatTemplateNode(key, mkTemplate())
	case "model":
		return g.AddChatModelNode(key, fakeModel{key})
	case "tools":
		return g.AddToolsNode(key, mkToolsNode(key))
	}
	panic("harness: unknown component kind " + kind)
}

// workflowAddComponent: Workflow.Add<Component>Node
func workflowAddComponent(wf *compose.Workflow[string, string], key, kind string) *compose.WorkflowNode {
	switch kind {
	case "retriever":
		return wf.AddRetrieverNode(key, fakeRetriever{key})
	case "transformer":
		return wf.AddDocumentTransformerNode(key, fakeTransformer{key})
	case "indexer":
		return wf.AddIndexerNode(key, fakeIndexer{key})
	case "embedding":
		return wf.AddEmbeddingNode(key, fakeEmbedder{key})
	case "loader":
		return wf.AddLoaderNode(key, fakeLoader{key})
	case "template":
		return wf.AddChatTemplateNode(key, mkTemplate())
	case "model":
		return wf.AddChatModelNode(key, fakeModel{key})
	case "tools":
		return wf.AddToolsNode(key, mkToolsNode(key))
	}
	panic("harness: unknown component kind " + kind)
}

func CC(kind, tag string) Op             { return Op{K: "CC", Typ: kind, Key: tag} }
func GC(kind, key string) Op             { return Op{K: "GC", Typ: kind, Key: key} }
func WC(kind, key string, ins ...WIn) Op { return Op{K: "WN", Typ: "C:" + kind, Key: key, In: ins} }

// componentGroups: stage groups string → string of a chain that go through component stages.
func componentGroup(r *mon.Rand, tag func() string) []Op {
	lam := func(typ string) Op { return tagged(CL(typ), tag()) }
	switch r.Intn(4) {
	case 0:
		ops := []Op{CC("retriever", tag())}
		if r.Bool() {
			ops = append(ops, CC("transformer", tag()))
		}
		if r.Bool() {
			return append(ops, CC("indexer", tag()), lam("I2s"))
		}
		return append(ops, lam("D2s"))
	case 1:
		return []Op{lam("s2L"), CC("embedding", tag()), lam("V2s")}
	case 2:
		ops := []Op{lam("s2M"), CC("template", tag()), CC("model", tag())}
		if r.Bool() {
			return append(ops, CC("tools", tag()), lam("Ms2s"))
		}
		return append(ops, lam("M2s"))
	}
	return []Op{lam("s2Src"), CC("loader", tag()), lam("D2s")}
}

// componentSelfCheck: every component group compiles and runs (harness self-check).
func componentSelfCheck() error {
	for seed := uint64(1); seed <= 40; seed++ {
		r := mon.NewRand(seed)
		n := 0
		ops := componentGroup(r, func() string { n++; return fmt.Sprintf("t%d", n) })
		inst := newInstance("chain", false)
		for _, op := range ops {
			if res := inst.apply(op); res.Panic != nil {
				return fmt.Errorf("%s: %s panics: %s", opsText(ops), op, res.Panic.Value)
			}
		}
		if res := inst.apply(K("")); res.Err != nil || res.Panic != nil {
			return fmt.Errorf("%s: Compile: %v %v", opsText(ops), res.Err, res.Panic)
		}
		if out := inst.last()("x"); out.Err || out.Panic || out.SErr || out.SPanic {
			return fmt.Errorf("%s: run: %s", opsText(ops), out)
		}
	}
	return nil
}
