package c20

import (
	"context"
	"fmt"
	"io"
	"sort"
	"strconv"
	"strings"
	"sync"

	"github.com/cloudwego/eino/compose"
	"verifharness/internal/mon"
)

// ---------------------------------------------------------------------------
// Executors: interpret Op values with the real eino public API.
// ---------------------------------------------------------------------------

type gstate struct{ N int } // the graph's local state
type ostate struct{ N int } // a state type the graph does not have

// In is the struct input of the field-mapping target node of workflows.
type In struct {
	X string
	Y string
}

type memStore struct{ m map[string][]byte }

func (s *memStore) Get(_ context.Context, id string) ([]byte, bool, error) {
	b, ok := s.m[id]
	return b, ok, nil
}
func (s *memStore) Set(_ context.Context, id string, b []byte) error {
	s.m[id] = append([]byte(nil), b...)
	return nil
}

// callRes is the observable result of one call.
type callRes struct {
	NA    bool // builder-style call without error result
	Err   error
	Panic *mon.Panic
	// a panic while the graph that is to be added as a node was being built: which call of which front end
	Where string
}

func (c callRes) class() byte {
	switch {
	case c.Panic != nil:
		return 'p'
	case c.NA:
		return 'n'
	case c.Err != nil:
		return 'e'
	}
	return 'o'
}

type runFn func(in string) runOut

type runOut struct {
	Val   string
	Err   bool
	Panic bool
	Intr  string // interrupt info of an interrupted Invoke ("" = no interrupt)
	// the same input through Stream: the received chunks (sorted: chunks of concurrently
	// running nodes arrive in scheduling order), error-ness, panic, interrupt info
	SVal   string
	SErr   bool
	SPanic bool
	SIntr  string
	// which node bodies ran (sorted tags) in the Invoke / the Stream call: compared separately (sameTrace)
	Trace  string
	STrace string
	Msg    string // error / panic texts: diagnostics only, never compared
}

func (a runOut) sameTrace(b runOut) bool { return a.Trace == b.Trace && a.STrace == b.STrace }

// sameAll: results and executed node bodies
func (a runOut) sameAll(b runOut) bool { return a.same(b) && a.sameTrace(b) }

func (a runOut) same(b runOut) bool {
	return a.Val == b.Val && a.Err == b.Err && a.Panic == b.Panic && a.Intr == b.Intr &&
		a.SVal == b.SVal && a.SErr == b.SErr && a.SPanic == b.SPanic && a.SIntr == b.SIntr
}

func (a runOut) String() string {
	one := func(val string, err, pan bool, intr string) string {
		switch {
		case pan:
			return "PANIC"
		case intr != "":
			return "INTERRUPT(" + intr + ")"
		case err:
			return "ERROR"
		}
		return strconv.Quote(val)
	}
	s := "Invoke=" + one(a.Val, a.Err, a.Panic, a.Intr) + " ran{" + a.Trace + "} Stream=" + one(a.SVal, a.SErr, a.SPanic, a.SIntr) + " ran{" + a.STrace + "}"
	if a.Msg != "" {
		s += " [" + a.Msg + "]"
	}
	return s
}

type instance interface {
	apply(op Op) callRes
	last() runFn // runnable produced by the most recent successful Compile
}

// interruptText renders which nodes an interrupt error names (recursively for nested graphs).
func interruptText(err error) string {
	info, ok := compose.ExtractInterruptInfo(err)
	if !ok {
		return ""
	}
	var render func(i *compose.InterruptInfo) string
	render = func(i *compose.InterruptInfo) string {
		if i == nil {
			return "nil"
		}
		s := fmt.Sprintf("before=%v after=%v rerun=%v", sortedCopy(i.BeforeNodes), sortedCopy(i.AfterNodes), sortedCopy(i.RerunNodes))
		for _, k := range mon.SortedKeys(i.SubGraphs) {
			s += " sub[" + k + "]{" + render(i.SubGraphs[k]) + "}"
		}
		return s
	}
	return render(info)
}

// wrapRunnable runs an input through Invoke and through Stream.
func wrapRunnable(r compose.Runnable[string, string]) runFn {
	return func(in string) runOut {
		var out runOut
		tr, str := &runTrace{}, &runTrace{}
		p := mon.Safe(func() {
			v, err := r.Invoke(context.WithValue(context.Background(), traceKey{}, tr), in)
			if err != nil {
				out.Err, out.Msg, out.Intr = true, "invoke: "+firstLine(err.Error()), interruptText(err)
				return
			}
			out.Val = v
		})
		if p != nil {
			out.Val, out.Err, out.Intr = "", false, ""
			out.Panic, out.Msg = true, "invoke: "+firstLine(p.Value)
		}
		var chunks []string
		var serr error
		p = mon.Safe(func() {
			sr, err := r.Stream(context.WithValue(context.Background(), traceKey{}, str), in)
			if err != nil {
				serr = err
				return
			}
			defer sr.Close()
			for {
				c, err := sr.Recv()
				if err == io.EOF {
					return
				}
				if err != nil {
					serr = err
					return
				}
				chunks = append(chunks, c)
			}
		})
		switch {
		case p != nil:
			out.SPanic = true
			out.Msg += " stream: " + firstLine(p.Value)
		case serr != nil:
			out.SErr, out.SIntr = true, interruptText(serr)
			out.Msg += " stream: " + firstLine(serr.Error())
		default:
			sort.Strings(chunks)
			out.SVal = strings.Join(chunks, "\x00")
		}
		out.Trace, out.STrace = tr.String(), str.String()
		return out
	}
}

func firstLine(s string) string {
	if i := strings.IndexByte(s, '\n'); i >= 0 {
		s = s[:i]
	}
	if len(s) > 200 {
		s = s[:200]
	}
	return s
}

func newInstance(fe string, state bool) instance {
	var opts []compose.NewGraphOption
	if state {
		opts = append(opts, compose.WithGenLocalState(func(ctx context.Context) *gstate { return &gstate{} }))
	}
	switch fe {
	case "chain":
		return &cInst{c: compose.NewChain[string, string](opts...)}
	case "workflow":
		return &wInst{wf: compose.NewWorkflow[string, string](opts...), handles: map[string]*compose.WorkflowNode{}}
	}
	return &gInst{g: compose.NewGraph[string, string](opts...)}
}

// ---- node bodies ----------------------------------------------------------

// runTrace records which node bodies ran during one Invoke / Stream call (carried by the call's context,
// so that a node still running after the call has returned cannot write into a later call's trace).
type traceKey struct{}

type runTrace struct {
	mu   sync.Mutex
	tags []string
}

func traceAdd(ctx context.Context, tag string) {
	if t, ok := ctx.Value(traceKey{}).(*runTrace); ok {
		t.mu.Lock()
		t.tags = append(t.tags, tag)
		t.mu.Unlock()
	}
}

func (t *runTrace) String() string {
	t.mu.Lock()
	tags := append([]string(nil), t.tags...)
	t.mu.Unlock()
	sort.Strings(tags)
	return strings.Join(tags, ",")
}

// tobj implements fooer and barer; its pointer (value type tT of the model) is what the lambdas sT produce.
type tobj struct{ s string }

func (t *tobj) Foo() string { return "foo(" + t.s + ")" }
func (t *tobj) Bar() string { return "bar(" + t.s + ")" }

type fooer interface{ Foo() string }
type barer interface{ Bar() string }

// anyText renders a value of any generated type without addresses.
func anyText(v any) string {
	switch x := v.(type) {
	case nil:
		return "nil"
	case string:
		return x
	case int:
		return strconv.Itoa(x)
	case *tobj:
		if x == nil {
			return "T(nil)"
		}
		return "T(" + x.s + ")"
	case In:
		return "In(" + x.X + "," + x.Y + ")"
	case map[string]any:
		ks := make([]string, 0, len(x))
		for k := range x {
			ks = append(ks, k)
		}
		sort.Strings(ks)
		var b strings.Builder
		for _, k := range ks {
			b.WriteString(k + "=" + anyText(x[k]) + ";")
		}
		return "map(" + b.String() + ")"
	}
	return "?"
}

func mkLambda(typ, tag string) *compose.Lambda {
	if l := mkGlueLambda(typ, tag); l != nil {
		return l
	}
	switch typ {
	case "a":
		return compose.InvokableLambda(func(ctx context.Context, in any) (string, error) { traceAdd(ctx, tag); return anyText(in) + tag, nil })
	case "sa":
		return compose.InvokableLambda(func(ctx context.Context, in string) (any, error) { traceAdd(ctx, tag); return in + tag, nil })
	case "sT":
		return compose.InvokableLambda(func(ctx context.Context, in string) (*tobj, error) { traceAdd(ctx, tag); return &tobj{in + tag}, nil })
	case "F":
		return compose.InvokableLambda(func(ctx context.Context, in fooer) (string, error) { traceAdd(ctx, tag); return in.Foo() + tag, nil })
	case "R":
		return compose.InvokableLambda(func(ctx context.Context, in barer) (string, error) { traceAdd(ctx, tag); return in.Bar() + tag, nil })
	case "i":
		return compose.InvokableLambda(func(ctx context.Context, in int) (int, error) { traceAdd(ctx, tag); return in*3 + 1, nil })
	case "si":
		return compose.InvokableLambda(func(ctx context.Context, in string) (int, error) { traceAdd(ctx, tag); return len(in), nil })
	case "is":
		return compose.InvokableLambda(func(ctx context.Context, in int) (string, error) {
			traceAdd(ctx, tag)
			return strconv.Itoa(in) + tag, nil
		})
	case "m":
		return compose.InvokableLambda(func(ctx context.Context, in map[string]any) (string, error) {
			traceAdd(ctx, tag)
			ks := make([]string, 0, len(in))
			for k := range in {
				ks = append(ks, k)
			}
			sort.Strings(ks)
			var b strings.Builder
			for _, k := range ks {
				fmt.Fprintf(&b, "%s=%v;", k, in[k])
			}
			return b.String() + tag, nil
		})
	case "S":
		return compose.InvokableLambda(func(ctx context.Context, in In) (string, error) {
			traceAdd(ctx, tag)
			return in.X + "|" + in.Y + tag, nil
		})
	case "sS":
		return compose.InvokableLambda(func(ctx context.Context, in string) (In, error) {
			traceAdd(ctx, tag)
			return In{X: in + tag, Y: in + "y"}, nil
		})
	}
	return compose.InvokableLambda(func(ctx context.Context, in string) (string, error) { traceAdd(ctx, tag); return in + tag, nil })
}

func preH[T any, S any](mod func(T, int) T) compose.GraphAddNodeOpt {
	return compose.WithStatePreHandler(func(ctx context.Context, in T, st S) (T, error) {
		n := 0
		if g, ok := any(st).(*gstate); ok {
			g.N++
			n = g.N
		}
		return mod(in, n), nil
	})
}

func postH[T any, S any](mod func(T, int) T) compose.GraphAddNodeOpt {
	return compose.WithStatePostHandler(func(ctx context.Context, out T, st S) (T, error) {
		n := 0
		if g, ok := any(st).(*gstate); ok {
			g.N++
			n = g.N
		}
		return mod(out, n), nil
	})
}

// The handlers touch the state (counter) but their visible effect does not
// depend on it: nodes of one super-step run concurrently, so a counter in the
// output would make runs irreproducible.
func modStr(s string, n int) string { return s + "#" }
func modInt(i int, n int) int       { return i + 1 }
func modAny(v any, n int) any {
	if s, ok := v.(string); ok {
		return s + "~"
	}
	return v
}
func modMap(m map[string]any, n int) map[string]any { return m }
func modIn(v In, n int) In                          { v.X += "#"; return v }

// handlerOpt builds a state handler for a node whose relevant value type is vt
// (tNone = passthrough, which requires `any`).
func handlerOpt(h hSpec, vt int) compose.GraphAddNodeOpt {
	if h.wrongValue {
		// a handler over a value type the node does not have
		if vt == tStr {
			vt = tInt
		} else {
			vt = tStr
		}
	}
	type mk struct{ pre, post, preO, postO compose.GraphAddNodeOpt }
	var m mk
	switch vt {
	case tNone, tAny:
		m = mk{preH[any, *gstate](modAny), postH[any, *gstate](modAny), preH[any, *ostate](modAny), postH[any, *ostate](modAny)}
	case tInt:
		m = mk{preH[int, *gstate](modInt), postH[int, *gstate](modInt), preH[int, *ostate](modInt), postH[int, *ostate](modInt)}
	case tMap:
		m = mk{preH[map[string]any, *gstate](modMap), postH[map[string]any, *gstate](modMap), preH[map[string]any, *ostate](modMap), postH[map[string]any, *ostate](modMap)}
	case tIn:
		m = mk{preH[In, *gstate](modIn), postH[In, *gstate](modIn), preH[In, *ostate](modIn), postH[In, *ostate](modIn)}
	default:
		m = mk{preH[string, *gstate](modStr), postH[string, *gstate](modStr), preH[string, *ostate](modStr), postH[string, *ostate](modStr)}
	}
	switch {
	case h.pre && h.wrongState:
		return m.preO
	case h.post && h.wrongState:
		return m.postO
	case h.pre:
		return m.pre
	}
	return m.post
}

func nodeOpts(op Op, pass bool) []compose.GraphAddNodeOpt {
	h := parseH(op.H)
	var opts []compose.GraphAddNodeOpt
	if h.nodeKey != "" {
		opts = append(opts, compose.WithNodeKey(h.nodeKey))
	}
	if h.inKey {
		opts = append(opts, compose.WithInputKey("k"))
	}
	if h.outKey {
		opts = append(opts, compose.WithOutputKey("k"))
	}
	if h.needState {
		vt := tNone
		if !pass {
			in, out := lambdaTypes(op.Typ)
			vt = in
			if h.post {
				vt = out
			}
		}
		opts = append(opts, handlerOpt(h, vt))
	}
	return opts
}

// mkBranch: a single-choice branch from node `from`; every evaluation of its condition is recorded in
// the run's trace ("?from"). Without targets there is nothing to choose from: a multi-choice branch
// with an empty target set.
func mkBranch(from, cond string, ends []string) *compose.GraphBranch {
	sorted := sortedCopy(ends)
	set := map[string]bool{}
	for _, e := range ends {
		set[e] = true
	}
	tag := "?" + from
	if len(sorted) == 0 {
		switch cond {
		case "i":
			return compose.NewGraphMultiBranch(func(ctx context.Context, in int) (map[string]bool, error) { traceAdd(ctx, tag); return nil, nil }, set)
		case "a":
			return compose.NewGraphMultiBranch(func(ctx context.Context, in any) (map[string]bool, error) { traceAdd(ctx, tag); return nil, nil }, set)
		}
		return compose.NewGraphMultiBranch(func(ctx context.Context, in string) (map[string]bool, error) { traceAdd(ctx, tag); return nil, nil }, set)
	}
	switch cond {
	case "i":
		return compose.NewGraphBranch(func(ctx context.Context, in int) (string, error) {
			traceAdd(ctx, tag)
			if in < 0 {
				in = -in
			}
			return sorted[in%len(sorted)], nil
		}, set)
	case "a":
		return compose.NewGraphBranch(func(ctx context.Context, in any) (string, error) {
			traceAdd(ctx, tag)
			return sorted[len(anyText(in))%len(sorted)], nil
		}, set)
	}
	return compose.NewGraphBranch(func(ctx context.Context, in string) (string, error) {
		traceAdd(ctx, tag)
		return sorted[len(in)%len(sorted)], nil
	}, set)
}

func compileOpts(opt string) []compose.GraphCompileOption {
	var out []compose.GraphCompileOption
	for _, o := range strings.Split(opt, "+") {
		switch o {
		case "all":
			out = append(out, compose.WithNodeTriggerMode(compose.AllPredecessor))
		case "any":
			out = append(out, compose.WithNodeTriggerMode(compose.AnyPredecessor))
		case "max":
			out = append(out, compose.WithMaxRunSteps(7))
		case "name":
			out = append(out, compose.WithGraphName("g"))
		case "store":
			out = append(out, compose.WithCheckPointStore(&memStore{m: map[string][]byte{}}))
		default:
			switch {
			case strings.HasPrefix(o, "ib="):
				out = append(out, compose.WithInterruptBeforeNodes(strings.Split(o[3:], ",")))
			case strings.HasPrefix(o, "ia="):
				out = append(out, compose.WithInterruptAfterNodes(strings.Split(o[3:], ",")))
			}
		}
	}
	return out
}

// buildSub builds the graph that is to be added as a node: every call of its own sequence on a fresh
// builder. A panic of one of these calls is handed to the caller with the place where it happened.
func buildSub(sub *Sub) (g compose.AnyGraph, pan *mon.Panic, where string) {
	inst := newInstance(sub.FE, false)
	ref := newReference(sub.FE, false)
	for i, op := range sub.Ops {
		_, rule := ref.predict(op)
		if res := inst.apply(op); res.Panic != nil {
			w := res.Where
			if w == "" {
				w = strings.TrimPrefix(panicSignature("nested-"+sub.FE, sub.Ops, i, rule, ""), "C20/panic/")
			}
			return nil, res.Panic, w
		}
	}
	if sub.Pre {
		// compiled standalone first (the outcome does not matter here; its parent compiles it again)
		if res := inst.apply(Op{K: "K"}); res.Panic != nil {
			return nil, res.Panic, "nested-" + sub.FE + "-compile/standalone-before-added-as-node"
		}
	}
	switch x := inst.(type) {
	case *gInst:
		return x.g, nil, ""
	case *cInst:
		return x.c, nil, ""
	case *wInst:
		return x.wf, nil, ""
	}
	panic("harness: buildSub: unknown instance")
}

func subNodeOpts(op Op) []compose.GraphAddNodeOpt {
	opts := nodeOpts(op, false)
	if op.Sub.HasOpt {
		opts = append(opts, compose.WithGraphCompileOptions(compileOpts(op.Sub.Opt)...))
	}
	return opts
}

// ---- Graph ------------------------------------------------------------------

type gInst struct {
	g *compose.Graph[string, string]
	r runFn
}

func (x *gInst) last() runFn { return x.r }

func (x *gInst) apply(op Op) (res callRes) {
	pan := mon.Safe(func() {
		switch op.K {
		case "L":
			res.Err = x.g.AddLambdaNode(op.Key, mkLambda(op.Typ, op.Key), nodeOpts(op, false)...)
		case "P":
			res.Err = x.g.AddPassthroughNode(op.Key, nodeOpts(op, true)...)
		case "GC":
			res.Err = graphAddComponent(x.g, op.Key, op.Typ)
		case "GN":
			sub, bp, where := buildSub(op.Sub)
			if bp != nil {
				res.Panic, res.Where = bp, where
				return
			}
			res.Err = x.g.AddGraphNode(op.Key, sub, subNodeOpts(op)...)
		case "E":
			res.Err = x.g.AddEdge(op.From, op.To)
		case "B":
			res.Err = x.g.AddBranch(op.From, mkBranch(op.From, op.Cond, op.Ends))
		case "K":
			r, err := x.g.Compile(context.Background(), compileOpts(op.Opt)...)
			res.Err = err
			if err == nil {
				x.r = wrapRunnable(r)
			}
		default:
			panic("harness: gInst cannot apply " + op.K)
		}
	})
	if pan != nil {
		res.Panic = pan
	}
	return res
}

// ---- Chain ------------------------------------------------------------------

type cInst struct {
	c *compose.Chain[string, string]
	r runFn
}

func (x *cInst) last() runFn { return x.r }

func (x *cInst) apply(op Op) (res callRes) {
	pan := mon.Safe(func() {
		switch op.K {
		case "CL":
			res.NA = true
			tag := "n"
			if op.Key != "" {
				tag = op.Key // a tag of its own (the chain's node key is node_N whatever it is)
			}
			x.c.AppendLambda(mkLambda(op.Typ, tag), nodeOpts(op, false)...)
		case "CC":
			res.NA = true
			appendComponent(x.c, op.Typ, op.Key)
		case "CP":
			res.NA = true
			x.c.AppendPassthrough(nodeOpts(op, true)...)
		case "CG":
			res.NA = true
			sub, bp, where := buildSub(op.Sub)
			if bp != nil {
				res.Panic, res.Where = bp, where
				return
			}
			x.c.AppendGraph(sub, subNodeOpts(op)...)
		case "CPar":
			res.NA = true
			if op.N < 0 {
				x.c.AppendParallel(nil)
				return
			}
			p := compose.NewParallel()
			for i := 0; i < op.N; i++ {
				p.AddLambda("k"+strconv.Itoa(i), mkLambda("s", "p"+strconv.Itoa(i)))
			}
			x.c.AppendParallel(p)
		case "CBr":
			res.NA = true
			if op.N < 0 {
				x.c.AppendBranch(nil)
				return
			}
			n := op.N
			var cb *compose.ChainBranch
			if op.Cond == "i" {
				cb = compose.NewChainBranch(func(ctx context.Context, in int) (string, error) {
					if in < 0 {
						in = -in
					}
					return "b" + strconv.Itoa(in%n), nil
				})
			} else {
				cb = compose.NewChainBranch(func(ctx context.Context, in string) (string, error) {
					return "b" + strconv.Itoa(len(in)%n), nil
				})
			}
			for i := 0; i < n; i++ {
				cb.AddLambda("b"+strconv.Itoa(i), mkLambda("s", "b"+strconv.Itoa(i)))
			}
			x.c.AppendBranch(cb)
		case "K":
			r, err := x.c.Compile(context.Background(), compileOpts(op.Opt)...)
			res.Err = err
			if err == nil {
				x.r = wrapRunnable(r)
			}
		default:
			panic("harness: cInst cannot apply " + op.K)
		}
	})
	if pan != nil {
		res.Panic = pan
	}
	return res
}

// ---- Workflow ---------------------------------------------------------------

type wInst struct {
	wf      *compose.Workflow[string, string]
	handles map[string]*compose.WorkflowNode
	r       runFn
}

func (x *wInst) last() runFn { return x.r }

func (x *wInst) apply(op Op) (res callRes) {
	pan := mon.Safe(func() {
		switch op.K {
		case "WN":
			res.NA = true
			var h *compose.WorkflowNode
			switch {
			case op.Key == "end" && op.Typ == "":
				h = x.wf.End()
				x.handles["end"] = h
			case op.Typ == "":
				h = x.handles[op.Key]
				if h == nil {
					return
				}
			case op.Typ == "P":
				h = x.wf.AddPassthroughNode(op.Key, nodeOpts(op, true)...)
				x.handles[op.Key] = h
			case strings.HasPrefix(op.Typ, "C:"):
				h = workflowAddComponent(x.wf, op.Key, op.Typ[2:])
				x.handles[op.Key] = h
			case op.Typ == "G":
				sub, bp, where := buildSub(op.Sub)
				if bp != nil {
					res.Panic, res.Where = bp, where
					return
				}
				h = x.wf.AddGraphNode(op.Key, sub, subNodeOpts(op)...)
				x.handles[op.Key] = h
			default:
				h = x.wf.AddLambdaNode(op.Key, mkLambda(op.Typ, op.Key), nodeOpts(op, false)...)
				x.handles[op.Key] = h
			}
			for _, in := range op.In {
				var maps []*compose.FieldMapping
				switch {
				case in.Field != "" && in.FromF != "":
					maps = append(maps, compose.MapFields(in.FromF, in.Field))
				case in.Field != "":
					maps = append(maps, compose.ToField(in.Field))
				case in.FromF != "":
					maps = append(maps, compose.FromField(in.FromF))
				}
				switch in.Mode {
				case "nd":
					h.AddInputWithOptions(in.From, maps, compose.WithNoDirectDependency())
				case "dep":
					h.AddDependency(in.From)
				default:
					h.AddInput(in.From, maps...)
				}
			}
			if op.SV != "" {
				h.SetStaticValue(compose.FieldPath{op.SV}, "sv")
			}
		case "WB":
			res.NA = true
			x.wf.AddBranch(op.From, mkBranch(op.From, op.Cond, op.Ends))
		case "K":
			r, err := x.wf.Compile(context.Background(), compileOpts(op.Opt)...)
			res.Err = err
			if err == nil {
				x.r = wrapRunnable(r)
			}
		default:
			panic("harness: wInst cannot apply " + op.K)
		}
	})
	if pan != nil {
		res.Panic = pan
	}
	return res
}
