package c20

// Chain: what follows a branch. Chain.AppendBranch leaves the branch targets as the "previous nodes" of the
// next stage, and the next Append* connects every one of them to the new stage. When the targets have different
// output types (a concrete type next to an interface type) and the next stage is a pass-through node - typed by
// the first typed neighbour it is connected to - the ORDER in which the targets are connected decides the
// pass-through node's type and with it whether a later stage is accepted. The statement promises that ill-formed
// constructions are rejected deterministically: the same builder calls must give the same Compile verdict (and, if
// they compile, the same run outcomes) on every build. Metamorphic oracle, no reference needed: one construction
// is built tailBuilds times on fresh objects; verdicts and run outcomes must all be equal.

import (
	"context"
	"fmt"
	"sort"
	"strings"

	"github.com/cloudwego/eino/compose"

	"verifharness/internal/mon"
)

const tailBuilds = 32

// value types of the branch targets' outputs and of the consumer's input
const (
	ttString = iota
	ttAny
	ttInt
	ttStringer
	ttN
)

var ttNames = [...]string{"string", "any", "int", "fmt.Stringer"}

type tailStr string

func (s tailStr) String() string { return string(s) }

type tailCase struct {
	Targets  []int  `json:"target_output_types"` // by key t0, t1, ...
	Pass     int    `json:"passthrough_stages"`  // 0..2 pass-through stages after the branch
	Consumer int    `json:"consumer_input_type"` // the typed stage after them
	Kind     string `json:"tail_kind"`           // "lambda" | "parallel"
}

func (c tailCase) digest() string {
	var ts []string
	for _, t := range c.Targets {
		ts = append(ts, ttNames[t])
	}
	return fmt.Sprintf("branch[%s]/pass%d/%s(%s)", strings.Join(ts, ","), c.Pass, c.Kind, ttNames[c.Consumer])
}

func genTailCase(r *mon.Rand) tailCase {
	c := tailCase{Pass: r.Intn(3), Consumer: r.Intn(ttN), Kind: "lambda"}
	if r.Intn(4) == 0 {
		c.Kind = "parallel"
	}
	n := r.Range(2, 4)
	for i := 0; i < n; i++ {
		c.Targets = append(c.Targets, r.Intn(ttN))
	}
	return c
}

func tailProducer(t int) *compose.Lambda {
	switch t {
	case ttString:
		return compose.InvokableLambda(func(ctx context.Context, in string) (string, error) { return in + "/s", nil })
	case ttAny:
		return compose.InvokableLambda(func(ctx context.Context, in string) (any, error) { return in + "/a", nil })
	case ttInt:
		return compose.InvokableLambda(func(ctx context.Context, in string) (int, error) { return len(in), nil })
	default:
		return compose.InvokableLambda(func(ctx context.Context, in string) (fmt.Stringer, error) { return tailStr(in + "/S"), nil })
	}
}

func tailConsumer(t int) *compose.Lambda {
	switch t {
	case ttString:
		return compose.InvokableLambda(func(ctx context.Context, in string) (string, error) { return "string:" + in, nil })
	case ttAny:
		return compose.InvokableLambda(func(ctx context.Context, in any) (string, error) { return fmt.Sprintf("any:%v", in), nil })
	case ttInt:
		return compose.InvokableLambda(func(ctx context.Context, in int) (string, error) { return fmt.Sprintf("int:%d", in), nil })
	default:
		return compose.InvokableLambda(func(ctx context.Context, in fmt.Stringer) (string, error) { return "stringer:" + in.String(), nil })
	}
}

// buildTail builds the construction once on fresh objects and returns the Compile verdict and, if it compiled,
// the outcome of one Invoke per branch target.
func buildTail(c tailCase) (verdict string, runs []string, p *mon.Panic) {
	p = mon.Safe(func() {
		ch := compose.NewChain[string, any]()
		br := compose.NewChainBranch(func(ctx context.Context, in string) (string, error) {
			return strings.SplitN(in, ":", 2)[0], nil
		})
		for i, t := range c.Targets {
			br.AddLambda(fmt.Sprintf("t%d", i), tailProducer(t))
		}
		ch.AppendBranch(br)
		for i := 0; i < c.Pass; i++ {
			ch.AppendPassthrough()
		}
		if c.Kind == "parallel" {
			par := compose.NewParallel()
			par.AddLambda("k1", tailConsumer(c.Consumer))
			par.AddLambda("k2", tailConsumer(ttAny))
			ch.AppendParallel(par)
		} else {
			ch.AppendLambda(tailConsumer(c.Consumer))
		}
		r, err := ch.Compile(context.Background())
		if err != nil {
			verdict = "rejected"
			return
		}
		verdict = "accepted"
		for i := range c.Targets {
			out, err := r.Invoke(context.Background(), fmt.Sprintf("t%d:x", i))
			if err != nil {
				runs = append(runs, "error")
			} else {
				runs = append(runs, mon.Canon(out))
			}
		}
	})
	return
}

func (c *checker) checkChainBranchTail(r *mon.Rand) {
	tc := genTailCase(r)
	seen := map[string]int{}
	for b := 0; b < tailBuilds; b++ {
		v, runs, p := buildTail(tc)
		if p != nil {
			c.rep.Violation("C20/panic/chain/stage-after-branch", fmt.Sprintf("%s: panic %s at %s", tc.digest(), p.Value, p.FirstFrame("github.com/cloudwego/eino/")), tc)
			return
		}
		seen[v+" "+strings.Join(runs, "|")]++
	}
	c.rep.AddEvaluations(tailBuilds)
	c.rep.Count("chain_branch_tail_constructions", 1)
	c.rep.Distinct("chain_branch_tail_shapes", tc.digest())
	mixed := false
	for _, t := range tc.Targets {
		if t != tc.Targets[0] {
			mixed = true
		}
	}
	if mixed {
		c.rep.Count("chain_branch_tail_with_differently_typed_targets", 1)
		c.rep.NonTrivial("chain-branch-tail/" + tc.digest())
	}
	if len(seen) > 1 {
		var ks []string
		for k, n := range seen {
			ks = append(ks, fmt.Sprintf("%d× %s", n, k))
		}
		sort.Strings(ks)
		sig := "C20/nondeterministic/chain/stage-after-branch-with-differently-typed-targets"
		c.rep.Violation(sig, fmt.Sprintf("%s: %d builds of the same builder calls on fresh objects gave %d different outcomes: %s",
			tc.digest(), tailBuilds, len(seen), strings.Join(ks, " ; ")), tc)
	}
}
