package c04

import (
	"context"

	"github.com/cloudwego/eino/compose"

	"verifharness/internal/gspec"
	"verifharness/internal/mon"
)

func callAny(ctx context.Context, r interface{}, para string, in gspec.V, chunkSeed uint64, pipeCap int) (gspec.Outcome, mon.WaitResult, []mon.G) {
	return gspec.CallGuarded(ctx, r.(compose.Runnable[gspec.V, gspec.V]), para, in, chunkSeed, pipeCap)
}

func chainCase(ctx context.Context, rep *mon.Reporter, rng *mon.Rand, cfg mon.Config) {
	c := gspec.GenChain(rng, true, 1)
	r, err := gspec.BuildChain(ctx, c)
	if err != nil {
		rep.Violation(ID+"/build-error/chain", err.Error(), c)
		return
	}
	for i := 0; i < 2; i++ {
		in := gspec.V{"in": rng.Str(1, 6)}
		ref := gspec.EvalChain(c, in)
		if ref.Err != "" {
			continue
		}
		for _, para := range paras {
			if !oneRun(ctx, rep, &gspec.GraphSpec{Name: "chain:" + c.Digest()}, r, in, ref, nil, para, rng.Uint64(), []int{-1, 0, 1}[rng.Intn(3)], "chain") {
				break
			}
		}
		rep.Count("chain_cases", 1)
		if len(ref.Execs) >= 2 {
			rep.NonTrivial("chain|" + c.Digest() + "|" + gspec.Canon(in))
		}
	}
}
