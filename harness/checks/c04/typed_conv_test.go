package c04

// Typed sub-workload, second coverage round, part 1: lazily failing converter nodes
// (hunt/lazy-converter-panic-escapes-run).
//
// A "conv" node is an identity node whose Transform form is the idiom of eino's own ReAct agent
// and tool helpers: schema.StreamReaderWithConvert over the input stream. Its convert function -
// the per-chunk code of the node - panics, or returns an error, on the chunk that holds a trigger.
// Nothing of that runs when the node is called: it runs when somebody reads the node's output, on
// whatever goroutine that is (a successor inside the executor, a branch condition, the caller of
// Stream / Transform, the concatenation Collect does for the caller).
//
// The trigger is a property of the content, not of the chunking: a string chunk triggers iff it
// holds the trigger byte, a map chunk iff it holds the trigger key, any other chunk (nil, pointer,
// struct) by a flag of the node. So "some chunk triggers" is the same as "the whole value
// triggers", the reference knows whether the node fails, and the position of the failing chunk in
// the stream (first, middle, last, after empty chunks) follows from the PRNG-chosen byte / key and
// the PRNG-chosen cuts of the producers upstream. A node that fails must fail the run in every
// paradigm - as a failure at call time or an error item, never as a panic on the caller.

import (
	"context"
	"errors"
	"fmt"
	"strings"

	"github.com/cloudwego/eino/compose"
	"github.com/cloudwego/eino/schema"

	"verifharness/internal/mon"
)

const injectedPanic = "c04: injected panic of a stream converter"

var errInjectedConv = errors.New("c04: injected failure of a stream converter")

// convFires: does the chunk (or the whole value) v trigger the failure of the conv node n.
func convFires(n *tnode, v any) bool {
	switch x := v.(type) {
	case string:
		return n.TrigByte != "" && strings.Contains(x, n.TrigByte)
	case map[string]any:
		if n.TrigKey == "" {
			return false
		}
		_, ok := x[n.TrigKey]
		return ok
	}
	return n.TrigOther
}

func convFail[O any](n *tnode, where string) (O, error) {
	var z O
	if typedTrace {
		fmt.Printf("TRACE %s: converter fails (%s) in %s\n", n.Key, n.Conv, where)
	}
	if n.Conv == "panic" {
		panic(injectedPanic + " (node " + n.Key + ", " + where + ")")
	}
	return z, fmt.Errorf("node %s, %s: %w", n.Key, where, errInjectedConv)
}

// genConv turns the freshly typed node n (n.In chosen) into a conv node; v is the value the
// reference expects at its input (known == false: a stand-in).
func (g *tgen) genConv(n *tnode, v any, known bool) {
	r := g.r
	n.Out, n.Dyn, n.Lazy = n.In, dSame, true
	n.Seed = r.Uint64()
	// the Transform form is the lazy one; the other native forms (if any) check the whole value
	n.Para = pT
	if r.Prob(0.35) {
		n.Para |= 1 + r.Intn(15)
	}
	n.Conv = mon.PickOne(r, []string{"panic", "panic", "error"})
	n.TrigByte, n.TrigKey, n.TrigOther = "#", "zz", r.Prob(0.4)
	if !known {
		return
	}
	switch x := v.(type) {
	case string:
		if len(x) > 0 && r.Prob(0.5) {
			n.TrigByte = string(x[r.Intn(len(x))]) // position in the string = position in the stream
		}
	case map[string]any:
		if ks := mon.SortedKeys(x); len(ks) > 0 && r.Prob(0.5) {
			n.TrigKey = mon.PickOne(r, ks)
		}
	}
}

// mkConvLambda: the real node. I == O.
func mkConvLambda[I, O any](n *tnode, env *tenv) *compose.Lambda {
	whole := func(in I, where string) (O, error) {
		if typedTrace {
			fmt.Printf("TRACE %s (conv) runs on %s as %s\n", n.Key, canon(any(in)), where)
		}
		if convFires(n, any(in)) {
			return convFail[O](n, where)
		}
		return as[O](any(in))
	}
	emit := func(o O) (*schema.StreamReader[O], error) {
		r := mon.NewRand(n.Seed)
		return toStream[O](splitVal(any(o), n.Out, r, env.atomic), r)
	}
	var (
		inv compose.Invoke[I, O, topt]
		str compose.Stream[I, O, topt]
		col compose.Collect[I, O, topt]
	)
	if n.Para&pI != 0 {
		inv = func(ctx context.Context, in I, _ ...topt) (O, error) { return whole(in, "native Invoke") }
	}
	if n.Para&pS != 0 {
		str = func(ctx context.Context, in I, _ ...topt) (*schema.StreamReader[O], error) {
			o, err := whole(in, "native Stream")
			if err != nil {
				return nil, err
			}
			return emit(o)
		}
	}
	if n.Para&pC != 0 {
		col = func(ctx context.Context, sr *schema.StreamReader[I], _ ...topt) (O, error) {
			in, err := drain(sr)
			if err != nil {
				var z O
				return z, err
			}
			return whole(in, "native Collect")
		}
	}
	tra := func(ctx context.Context, sr *schema.StreamReader[I], _ ...topt) (*schema.StreamReader[O], error) {
		return schema.StreamReaderWithConvert(sr, func(i I) (O, error) {
			if convFires(n, any(i)) {
				return convFail[O](n, "convert function of the native Transform, chunk "+canon(any(i)))
			}
			return as[O](any(i))
		}), nil
	}
	l, err := compose.AnyLambda(inv, str, col, tra)
	if err != nil {
		panic(err)
	}
	return l
}
