package c04

// Nil-chunk sub-workload, part 2: Workflow field mappings whose source path meets nil in some chunks
// of the source stream while another chunk holds the value (hunt3/stream-nil-in-chunk, open).
//
// Sources: map[string]any, Rec, *Rec - produced by a natively streaming node or streamed in by the
// caller of Collect / Transform. Shapes of the "gap": the mapped map entry is nil in some chunks; a map
// entry on the path is an untyped nil / a typed nil pointer / a nil map; a zero struct chunk next to the
// one non-zero chunk (nil pointer, nil interface, nil map on the path); a nil pointer chunk next to the
// non-nil one. Targets: a key of END's map, a key of a consumer's map[string]any / map[string]string,
// the whole input of a consumer declared string / any.
//
// Oracle: the stream is its concatenation: Invoke(concat(chunks)) per the harness's own path walk; a
// value everywhere, or (nil / nothing on the path of the concatenation, nil for a target that cannot hold
// nil) a failure everywhere.

import (
	"context"
	"fmt"
	"io"
	"strings"

	"github.com/cloudwego/eino/compose"
	"github.com/cloudwego/eino/schema"

	"verifharness/internal/mon"
)

const (
	nmMarkPath  = "nil-on-source-path-in-some-chunk"
	nmMarkValue = "nil-mapped-value-in-some-chunk-for-non-nillable-target"
)

type nmSpec struct {
	Src       string   `json:"source"` // node | caller
	SrcTy     ty       `json:"-"`
	SrcTyName string   `json:"source_type"`
	Shape     string   `json:"shape"`
	Path      []string `json:"path"`
	Target    string   `json:"target"`
	Extra     bool     `json:"second_mapping_g_to_j"`
	Chunks    []any    `json:"-"`
	ChunkStr  []string `json:"chunks"`
	Mark      string   `json:"gap"`
	HasValue  bool     `json:"some_chunk_holds_the_value"`
	PPara     string   `json:"producer_native"`
	CPara     string   `json:"consumer_native"`
	Input     string   `json:"input"`
	Seed      uint64   `json:"seed"`

	pPara, cPara int
}

func (s *nmSpec) digest() string {
	return mon.H8(fmt.Sprint(s.Src, s.SrcTy, s.Shape, s.Path, s.Target, s.Extra, s.ChunkStr, s.pPara, s.cPara))
}

func nmNonNillable(target string) bool {
	return target == "node-whole-string" || target == "node-mapstr-key"
}

func nmGen(r *mon.Rand) *nmSpec {
	s := &nmSpec{Seed: r.Uint64(), Input: r.Str(1, 6), Src: "node"}
	if r.Prob(0.45) {
		s.Src = "caller"
	}
	s.pPara, s.cPara = ncPara(r), ncPara(r)
	if r.Prob(0.85) && s.pPara&(pS|pT) == 0 {
		s.pPara |= mon.PickOne(r, []int{pS, pT, pS | pT})
	}
	s.Shape = mon.PickOne(r, []string{"map-leaf", "map-leaf", "map-leaf", "map-ptr-path", "map-ptr-path", "map-map-path", "struct-ptr-path", "struct-ptr-path", "struct-iface-path", "struct-map-path", "struct-field", "ptr-root", "ptr-root"})
	s.Target = mon.PickOne(r, []string{"end-map-key", "node-map-key", "node-whole-string", "node-whole-any", "node-mapstr-key"})
	s.HasValue = r.Prob(0.85)
	val := r.Str(1, 6)
	nGap := r.Range(0, 2)
	if r.Prob(0.7) && nGap == 0 {
		nGap = 1
	}
	var real, gaps []any
	gapMarks := false // some gap chunk is of the kind that the chunk-wise stream form cannot walk
	switch s.Shape {
	case "map-leaf":
		s.SrcTy, s.Path = tMap, []string{"F"}
		if s.HasValue {
			for _, p := range splitStr(val, r) {
				real = append(real, map[string]any{"F": p})
			}
		}
		for i := 0; i < nGap; i++ {
			gaps = append(gaps, map[string]any{"F": nil})
			gapMarks = true
		}
	case "map-ptr-path":
		s.SrcTy, s.Path = tMap, []string{"P", "S"}
		if s.HasValue {
			real = append(real, map[string]any{"P": &Rec{S: val}})
		}
		for i := 0; i < nGap; i++ {
			if r.Bool() {
				gaps = append(gaps, map[string]any{"P": nil})
			} else {
				gaps = append(gaps, map[string]any{"P": (*Rec)(nil)})
			}
			gapMarks = true
		}
	case "map-map-path":
		s.SrcTy, s.Path = tMap, []string{"M", "x"}
		if s.HasValue {
			real = append(real, map[string]any{"M": map[string]any{"x": val}})
			if r.Prob(0.3) {
				real = ncInsert(r, real, map[string]any{"M": map[string]any{"y": "why"}})
			}
		}
		for i := 0; i < nGap; i++ {
			if r.Prob(0.65) || (!s.HasValue && !gapMarks) {
				gaps = append(gaps, map[string]any{"M": nil})
				gapMarks = true
			} else {
				gaps = append(gaps, map[string]any{"M": map[string]any(nil)}) // a chunk without the key: tolerated
			}
		}
	case "struct-ptr-path":
		s.SrcTy, s.Path = tRec, []string{"P", "S"}
		if s.HasValue {
			real = append(real, Rec{P: &Rec{S: val}})
		}
		for i := 0; i < nGap; i++ {
			gaps = append(gaps, Rec{})
			gapMarks = true
		}
	case "struct-iface-path":
		s.SrcTy, s.Path = tRec, []string{"X", "S"}
		if s.HasValue {
			real = append(real, Rec{X: &Rec{S: val}})
		}
		for i := 0; i < nGap; i++ {
			gaps = append(gaps, Rec{})
			gapMarks = true
		}
	case "struct-map-path":
		s.SrcTy, s.Path, s.HasValue = tRec, []string{"M", "x"}, true
		real = append(real, Rec{M: map[string]any{"x": val}})
		for i := 0; i < nGap; i++ {
			gaps = append(gaps, Rec{}) // nil map = a chunk without the key: tolerated
		}
	case "struct-field":
		s.SrcTy, s.Path, s.HasValue = tRec, []string{"S"}, true
		real = append(real, Rec{S: val})
		for i := 0; i < nGap; i++ {
			gaps = append(gaps, Rec{})
		}
	case "ptr-root":
		s.SrcTy = tPtr
		s.Path = mon.PickOne(r, [][]string{{"S"}, {"P", "S"}})
		if s.HasValue {
			real = append(real, &Rec{S: val, P: &Rec{S: val + ".p"}})
		}
		for i := 0; i < nGap; i++ {
			gaps = append(gaps, (*Rec)(nil))
			gapMarks = true
		}
	}
	if len(real)+len(gaps) == 0 {
		// nothing at all is not a stream of this workload: one gap chunk
		switch s.SrcTy {
		case tMap:
			gaps = append(gaps, map[string]any{s.Path[0]: nil})
		case tRec:
			gaps = append(gaps, Rec{})
		default:
			gaps = append(gaps, (*Rec)(nil))
		}
		gapMarks = true
	}
	chunks := real
	for _, g := range gaps {
		chunks = ncInsert(r, chunks, g)
	}
	if s.SrcTy == tMap {
		mapTarget := s.Target == "end-map-key" || s.Target == "node-map-key"
		s.Extra = mapTarget && r.Prob(0.35)
		if s.Extra {
			if r.Bool() {
				chunks = ncInsert(r, chunks, map[string]any{"g": "gee"})
			} else {
				chunks[r.Intn(len(chunks))].(map[string]any)["g"] = "gee"
			}
		} else if r.Prob(0.25) {
			chunks = ncInsert(r, chunks, map[string]any{"h": "no mapped key here"})
		}
	}
	s.Chunks = chunks
	for _, c := range chunks {
		s.ChunkStr = append(s.ChunkStr, canon(c))
	}
	if s.HasValue && gapMarks {
		if s.Shape == "map-leaf" {
			if nmNonNillable(s.Target) {
				s.Mark = nmMarkValue
			}
		} else {
			s.Mark = nmMarkPath
		}
	}
	s.SrcTyName, s.PPara, s.CPara = s.SrcTy.String(), paraStr(s.pPara), paraStr(s.cPara)
	return s
}

// nmTake: the harness's own walk along a source path.
func nmTake(v any, path []string) (any, string) {
	cur := v
	for _, seg := range path {
		switch x := cur.(type) {
		case nil:
			return nil, "nil on the path at " + seg
		case map[string]any:
			val, ok := x[seg]
			if !ok {
				return nil, "no key " + seg
			}
			cur = val
		case *Rec:
			if x == nil {
				return nil, "nil pointer on the path at " + seg
			}
			cur = recField(*x, seg)
		case Rec:
			cur = recField(x, seg)
		default:
			return nil, fmt.Sprintf("a %T on the path at %s", cur, seg)
		}
	}
	return cur, ""
}

func nmEval(s *nmSpec) ncRef {
	whole, err := joinVals(s.Chunks)
	if err != nil {
		return ncRef{Fail: "harness: chunks do not concatenate: " + err.Error()}
	}
	leaf, problem := nmTake(whole, s.Path)
	if problem != "" {
		return ncRef{Fail: "the concatenated source: " + problem}
	}
	if leaf == nil && nmNonNillable(s.Target) {
		return ncRef{Fail: "the mapped value of the concatenated source is nil, the target cannot hold nil"}
	}
	if leaf != nil {
		if _, ok := leaf.(string); !ok {
			return ncRef{Fail: fmt.Sprintf("harness: leaf of type %T", leaf)}
		}
	}
	m := map[string]any{"k": leaf}
	if s.Extra {
		m["j"] = "gee"
	}
	switch s.Target {
	case "end-map-key":
		return ncRef{Val: m}
	case "node-map-key", "node-mapstr-key":
		return ncRef{Val: "c(" + canon(m) + ")"}
	default:
		return ncRef{Val: "c(" + canon(leaf) + ")"}
	}
}

// nmMapStrConsumer: map[string]string -> string; native stream forms merge their chunks key-wise.
func nmMapStrConsumer(para int, seed uint64) *compose.Lambda {
	run := func(in map[string]string) string {
		m := make(map[string]any, len(in))
		for k, v := range in {
			m[k] = v
		}
		return "c(" + canon(m) + ")"
	}
	read := func(sr *schema.StreamReader[map[string]string]) (map[string]string, error) {
		defer sr.Close()
		out := map[string]string{}
		for {
			c, err := sr.Recv()
			if err == io.EOF {
				return out, nil
			}
			if err != nil {
				return nil, err
			}
			for k, v := range c {
				out[k] += v
			}
		}
	}
	emit := func(o string) (*schema.StreamReader[string], error) {
		r := mon.NewRand(seed)
		return toStream[string](anyStrs(splitStr(o, r)), r)
	}
	var (
		inv compose.Invoke[map[string]string, string, topt]
		str compose.Stream[map[string]string, string, topt]
		col compose.Collect[map[string]string, string, topt]
		tra compose.Transform[map[string]string, string, topt]
	)
	if para&pI != 0 {
		inv = func(ctx context.Context, in map[string]string, _ ...topt) (string, error) { return run(in), nil }
	}
	if para&pS != 0 {
		str = func(ctx context.Context, in map[string]string, _ ...topt) (*schema.StreamReader[string], error) {
			return emit(run(in))
		}
	}
	if para&pC != 0 {
		col = func(ctx context.Context, sr *schema.StreamReader[map[string]string], _ ...topt) (string, error) {
			in, err := read(sr)
			if err != nil {
				return "", err
			}
			return run(in), nil
		}
	}
	if para&pT != 0 {
		tra = func(ctx context.Context, sr *schema.StreamReader[map[string]string], _ ...topt) (*schema.StreamReader[string], error) {
			in, err := read(sr)
			if err != nil {
				return nil, err
			}
			return emit(run(in))
		}
	}
	l, err := compose.AnyLambda(inv, str, col, tra)
	if err != nil {
		panic(err)
	}
	return l
}

func nmBuildIO[I, O any](s *nmSpec) (caller, error) {
	wf := compose.NewWorkflow[I, O]()
	src := compose.START
	if s.Src == "node" {
		spec := &ncSpec{Seed: s.Seed}
		wf.AddLambdaNode("p", ncProducer(spec, s.Chunks, s.SrcTy, s.pPara, s.Input)).AddInput(compose.START)
		src = "p"
	}
	keyed := []*compose.FieldMapping{compose.MapFieldPaths(compose.FieldPath(s.Path), compose.FieldPath{"k"})}
	if s.Extra {
		keyed = append(keyed, compose.MapFields("g", "j"))
	}
	whole := []*compose.FieldMapping{compose.FromFieldPath(compose.FieldPath(s.Path))}
	switch s.Target {
	case "end-map-key":
		wf.End().AddInput(src, keyed...)
	case "node-map-key":
		wf.AddLambdaNode("c", ncConsumer("c", tMap, s.cPara, s.Seed^1)).AddInput(src, keyed...)
		wf.End().AddInput("c")
	case "node-mapstr-key":
		wf.AddLambdaNode("c", nmMapStrConsumer(s.cPara, s.Seed^1)).AddInput(src, keyed...)
		wf.End().AddInput("c")
	case "node-whole-string":
		wf.AddLambdaNode("c", ncConsumer("c", tStr, s.cPara, s.Seed^1)).AddInput(src, whole...)
		wf.End().AddInput("c")
	case "node-whole-any":
		wf.AddLambdaNode("c", ncConsumer("c", tAny, s.cPara, s.Seed^1)).AddInput(src, whole...)
		wf.End().AddInput("c")
	}
	r, err := wf.Compile(context.Background())
	if err != nil {
		return nil, err
	}
	return mkCaller(r), nil
}

func nmBuildO[I any](s *nmSpec) (caller, error) {
	if s.Target == "end-map-key" {
		return nmBuildIO[I, map[string]any](s)
	}
	return nmBuildIO[I, string](s)
}

func nmBuild(s *nmSpec) (caller, error) {
	if s.Src == "node" {
		return nmBuildO[string](s)
	}
	switch s.SrcTy {
	case tMap:
		return nmBuildO[map[string]any](s)
	case tRec:
		return nmBuildO[Rec](s)
	default:
		return nmBuildO[*Rec](s)
	}
}

func nilMappedCase(ctx context.Context, rep *mon.Reporter, rng *mon.Rand, cfg mon.Config, sample bool) {
	s := nmGen(rng)
	ref := nmEval(s)
	wit := map[string]any{"spec": s, "reference": ref.String()}
	if strings.HasPrefix(ref.Fail, "harness:") {
		rep.Violation(ID+"/nilmapped/harness-error", ref.Fail, wit)
		return
	}
	call, err := nmBuild(s)
	if err != nil {
		rep.Violation(ID+"/nilmapped/build-error", "the generated workflow does not build: "+err.Error(), wit)
		return
	}
	rep.Count("nilmapped_cases", 1)
	rep.Count("nilmapped_shape_"+s.Shape, 1)
	rep.Count("nilmapped_target_"+s.Target, 1)
	rep.Count("nilmapped_source_"+s.Src, 1)
	if s.Mark != "" {
		rep.Count("nilmapped_gap_"+s.Mark, 1)
	}
	if ref.Fail != "" {
		rep.Count("nilmapped_ref_must_fail", 1)
	} else {
		rep.Count("nilmapped_ref_value", 1)
	}
	rep.Distinct("nilmapped_shapes", fmt.Sprint(s.Src, s.Shape, s.Path, s.Target, s.Extra, s.HasValue, s.Mark))

	var in any = s.Input
	chunksOf := func(r *mon.Rand) []any { return anyStrs(splitStr(s.Input, r)) }
	if s.Src == "caller" {
		whole, _ := joinVals(s.Chunks)
		in = whole
		chunksOf = func(r *mon.Rand) []any { return s.Chunks }
	}
	obs, ok := ncRun(ctx, rep, rng, call, in, chunksOf, cfg.Pick(1, 2), "nilmapped")
	if !ok {
		return
	}
	var lines []string
	for _, o := range obs {
		lines = append(lines, o.String())
	}
	wit["observed"] = lines
	detail := fmt.Sprintf("workflow, source %s declared %s, mapping %s -> %s", s.Src, s.SrcTy, strings.Join(s.Path, "."), s.Target)
	detail += "\nchunks of the source: [" + strings.Join(s.ChunkStr, ", ") + "]\nreference (Invoke on the concatenation): " + ref.String() + "\nobserved:\n  " + strings.Join(lines, "\n  ")
	dev, bad := ncDeviations(rep, ID+"/nilmapped", obs, ref.Fail != "", canon(ref.Val), detail, wit)
	if !bad && len(dev) > 0 {
		// the open finding: the value forms are right, stream forms fail on the chunk with the gap
		onlyStreamFailures := len(dev) == 1 && dev["unexpected-error"] != "" && !strings.Contains(dev["unexpected-error"], "I")
		if s.Mark != "" && ref.Fail == "" && onlyStreamFailures {
			rep.Violation(ID+"/nilmapped/open/"+s.Mark+"/failure-not-in-every-paradigm", detail+"\ndeviating paradigms: "+dev["unexpected-error"], wit)
		} else {
			gap := s.Mark
			if gap == "" {
				gap = "no-gap-that-stops-a-chunk"
			}
			for _, class := range mon.SortedKeys(dev) {
				rep.Violation(ID+"/nilmapped/"+gap+"/"+class+"/"+ncForms(dev[class]), detail+"\ndeviating paradigms: "+dev[class], wit)
			}
		}
	}
	if len(s.Chunks) >= 2 {
		rep.NonTrivial("nilmapped|" + s.digest())
	}
	if sample {
		rep.Sample(wit)
	}
}
