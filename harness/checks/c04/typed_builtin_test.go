package c04

// Typed sub-workload, second coverage round, part 2: the framework's own lambdas of
// compose/types_lambda.go inside the typed programs (hunt/tolist-stream-form-not-concatenable).
//
// A node with Pre != "" stands for a small pipeline of real nodes:
//
//	"tolist":   compose.ToList[In]()  ->  consumer declared func([]In) Out
//	"msgparse": producer declared func(In) *schema.Message  ->  compose.MessageParser[Out](JSON parser)
//	"msglist":  producer  ->  compose.ToList[*schema.Message]()  ->  consumer declared func([]*schema.Message) Out
//
// The producers in front of ToList are the ordinary nodes of the program: strings come in pieces,
// declared maps with their keys spread over chunks. The message producer writes the JSON text of
// its result into the content (or into the arguments of a tool call) of a message and, in its
// stream forms, cuts that text at PRNG positions into message chunks. The consumers implement a
// PRNG-chosen subset of the four paradigms (value-only ones make the framework concatenate the
// list chunks; MessageParser is invoke-only by construction). A consumer that natively reads a
// stream of lists concatenates like the harness does everywhere: []*schema.Message position-wise
// (that is the one list type eino documents a concatenation for), of any other list type at most
// one chunk may be non-empty.
//
// For the reference the whole pipeline is one node: Out = body(In), for the message pipelines
// passed through JSON (encoding/json, not the sonic the framework uses).

import (
	"context"
	"encoding/json"
	"fmt"
	"io"
	"strings"

	"github.com/cloudwego/eino/compose"
	"github.com/cloudwego/eino/schema"

	"verifharness/internal/mon"
)

func isMsgPre(n *tnode) bool { return n.Pre == "msgparse" || n.Pre == "msglist" }

// ---- JSON ---------------------------------------------------------------------------------------

func decodeJSON[O any](text string) (O, error) {
	var o O
	err := json.Unmarshal([]byte(text), &o)
	return o, err
}

func decodeJSONAs(text string, out ty) (any, error) {
	switch out {
	case tStr:
		return decodeJSON[string](text)
	case tAny:
		return decodeJSON[any](text)
	case tPtr:
		return decodeJSON[*Rec](text)
	case tRec:
		return decodeJSON[Rec](text)
	case tMap:
		return decodeJSON[map[string]any](text)
	}
	return nil, fmt.Errorf("no JSON form for the declared type %s", out)
}

// jsonOf: the JSON text of a value of the universe, as the message producers write it. A nil map is
// written as {} like an empty one: the two are one value for this workload (concatenating map
// chunks builds a fresh map), and JSON would tell them apart.
func jsonOf(v any) (string, error) {
	var b strings.Builder
	if err := writeJSON(&b, v); err != nil {
		return "", err
	}
	return b.String(), nil
}

func writeJSON(b *strings.Builder, v any) error {
	switch x := v.(type) {
	case nil:
		b.WriteString("null")
	case string:
		q, err := json.Marshal(x)
		if err != nil {
			return err
		}
		b.Write(q)
	case map[string]any:
		b.WriteByte('{')
		for i, k := range mon.SortedKeys(x) {
			if i > 0 {
				b.WriteByte(',')
			}
			if err := writeJSON(b, k); err != nil {
				return err
			}
			b.WriteByte(':')
			if err := writeJSON(b, x[k]); err != nil {
				return err
			}
		}
		b.WriteByte('}')
	case *Rec:
		if x == nil {
			b.WriteString("null")
			return nil
		}
		return writeJSON(b, *x)
	case Rec:
		b.WriteString(`{"S":`)
		if err := writeJSON(b, x.S); err != nil {
			return err
		}
		b.WriteString(`,"X":`)
		if err := writeJSON(b, x.X); err != nil {
			return err
		}
		b.WriteString(`,"P":`)
		if err := writeJSON(b, x.P); err != nil {
			return err
		}
		b.WriteString(`,"M":`)
		if err := writeJSON(b, x.M); err != nil {
			return err
		}
		b.WriteByte('}')
	case Lbl:
		b.WriteString(`{"L":`)
		if err := writeJSON(b, x.L); err != nil {
			return err
		}
		b.WriteByte('}')
	default:
		return fmt.Errorf("no JSON form for a %T", v)
	}
	return nil
}

// jsonRoundTrip: what a value becomes when it travels as JSON text and is parsed into `out`.
func jsonRoundTrip(v any, out ty) (any, error) {
	t, err := jsonOf(v)
	if err != nil {
		return nil, err
	}
	return decodeJSONAs(t, out)
}

// wrapJSON puts the text under the parser's key path.
func wrapJSON(text, path string) string {
	switch path {
	case "w":
		return `{"w":` + text + `}`
	case "w.v":
		return `{"u":"x","w":{"v":` + text + `,"t":null}}`
	}
	return text
}

func unwrapJSON(text, path string) (string, error) {
	if path == "" {
		return text, nil
	}
	cur := json.RawMessage(text)
	for _, k := range strings.Split(path, ".") {
		var m map[string]json.RawMessage
		if err := json.Unmarshal(cur, &m); err != nil {
			return "", err
		}
		next, ok := m[k]
		if !ok {
			return "", fmt.Errorf("harness: no key %q in the message text", k)
		}
		cur = next
	}
	return string(cur), nil
}

// ---- messages -----------------------------------------------------------------------------------

func msgText(n *tnode, m *schema.Message) (string, error) {
	if m == nil {
		return "", fmt.Errorf("harness: nil message")
	}
	if n.MsgFrom == "tool_call" {
		if len(m.ToolCalls) != 1 {
			return "", fmt.Errorf("harness: %d tool calls in the message", len(m.ToolCalls))
		}
		return m.ToolCalls[0].Function.Arguments, nil
	}
	return m.Content, nil
}

func mkMsg(n *tnode, piece string, first, withRole bool) *schema.Message {
	m := &schema.Message{}
	if withRole {
		m.Role = schema.Assistant
	}
	if n.MsgFrom == "tool_call" {
		idx := 0
		tc := schema.ToolCall{Index: &idx}
		if first {
			tc.ID, tc.Type, tc.Function.Name = "call_1", "function", "f"
		}
		tc.Function.Arguments = piece
		m.ToolCalls = []schema.ToolCall{tc}
		return m
	}
	m.Content = piece
	return m
}

// joinMsgs: the harness's own concatenation of the message chunks this workload produces.
func joinMsgs(n *tnode, ms []*schema.Message) (*schema.Message, error) {
	var b strings.Builder
	role := schema.RoleType("")
	for _, m := range ms {
		t, err := msgText(n, m)
		if err != nil {
			return nil, err
		}
		b.WriteString(t)
		if m.Role != "" {
			role = m.Role
		}
	}
	return mkMsgWhole(n, b.String(), role), nil
}

func mkMsgWhole(n *tnode, text string, role schema.RoleType) *schema.Message {
	m := mkMsg(n, text, true, false)
	m.Role = role
	return m
}

func mkMsgProducer[I any](n *tnode, env *tenv) *compose.Lambda {
	run := func(in I) (string, error) {
		if typedTrace {
			fmt.Printf("TRACE %s_m (message producer) runs on %s\n", n.Key, canon(any(in)))
		}
		t, err := jsonOf(n.body(any(in)))
		if err != nil {
			return "", fmt.Errorf("harness: %w", err)
		}
		return wrapJSON(t, n.MsgPath), nil
	}
	whole := func(text string) *schema.Message { return mkMsgWhole(n, text, schema.Assistant) }
	emit := func(text string) (*schema.StreamReader[*schema.Message], error) {
		r := mon.NewRand(n.Seed ^ 0x9e3779b97f4a7c15)
		pieces := []string{text}
		if !env.atomic {
			pieces = splitStr(text, r)
		}
		allRoles := r.Bool()
		chunks := make([]any, len(pieces))
		for i, p := range pieces {
			chunks[i] = mkMsg(n, p, i == 0, i == 0 || allRoles)
		}
		if typedTrace {
			fmt.Printf("TRACE %s_m emits %d message chunk(s): %q\n", n.Key, len(pieces), pieces)
		}
		return toStream[*schema.Message](chunks, r)
	}
	var (
		inv compose.Invoke[I, *schema.Message, topt]
		str compose.Stream[I, *schema.Message, topt]
		col compose.Collect[I, *schema.Message, topt]
		tra compose.Transform[I, *schema.Message, topt]
	)
	if n.PrePara&pI != 0 {
		inv = func(ctx context.Context, in I, _ ...topt) (*schema.Message, error) {
			t, err := run(in)
			if err != nil {
				return nil, err
			}
			return whole(t), nil
		}
	}
	if n.PrePara&pS != 0 {
		str = func(ctx context.Context, in I, _ ...topt) (*schema.StreamReader[*schema.Message], error) {
			t, err := run(in)
			if err != nil {
				return nil, err
			}
			return emit(t)
		}
	}
	if n.PrePara&pC != 0 {
		col = func(ctx context.Context, sr *schema.StreamReader[I], _ ...topt) (*schema.Message, error) {
			in, err := drain(sr)
			if err != nil {
				return nil, err
			}
			t, err := run(in)
			if err != nil {
				return nil, err
			}
			return whole(t), nil
		}
	}
	if n.PrePara&pT != 0 {
		tra = func(ctx context.Context, sr *schema.StreamReader[I], _ ...topt) (*schema.StreamReader[*schema.Message], error) {
			in, err := drain(sr)
			if err != nil {
				return nil, err
			}
			t, err := run(in)
			if err != nil {
				return nil, err
			}
			return emit(t)
		}
	}
	l, err := compose.AnyLambda(inv, str, col, tra)
	if err != nil {
		panic(err)
	}
	return l
}

func msgProducerFor(n *tnode, env *tenv) *compose.Lambda {
	switch n.In {
	case tStr:
		return mkMsgProducer[string](n, env)
	case tAny:
		return mkMsgProducer[any](n, env)
	case tNamed:
		return mkMsgProducer[Named](n, env)
	case tPtr:
		return mkMsgProducer[*Rec](n, env)
	case tRec:
		return mkMsgProducer[Rec](n, env)
	default:
		return mkMsgProducer[map[string]any](n, env)
	}
}

func mkMsgParser[O any](n *tnode) *compose.Lambda {
	cfg := &schema.MessageJSONParseConfig{ParseKeyPath: n.MsgPath}
	if n.MsgFrom == "tool_call" {
		cfg.ParseFrom = schema.MessageParseFromToolCall
	} else if n.Seed&2 != 0 {
		cfg.ParseFrom = schema.MessageParseFromContent // else: the default
	}
	return compose.MessageParser[O](schema.NewMessageJSONParser[O](cfg))
}

func msgParserFor(n *tnode) *compose.Lambda {
	switch n.Out {
	case tStr:
		return mkMsgParser[string](n)
	case tAny:
		return mkMsgParser[any](n)
	case tPtr:
		return mkMsgParser[*Rec](n)
	case tRec:
		return mkMsgParser[Rec](n)
	default:
		return mkMsgParser[map[string]any](n)
	}
}

// ---- list consumers -----------------------------------------------------------------------------

// drainList reads a stream of lists. ok == false: the stream held no chunk at all.
func drainList[E any](n *tnode, sr *schema.StreamReader[[]E]) (list []E, err error) {
	defer sr.Close()
	var chunks [][]E
	for {
		c, err := sr.Recv()
		if err == io.EOF {
			break
		}
		if err != nil {
			return nil, err
		}
		chunks = append(chunks, c)
	}
	if len(chunks) == 0 {
		return nil, nil
	}
	if mc, isMsg := any(chunks).([][]*schema.Message); isMsg {
		// position-wise, lists of one length
		var col []*schema.Message
		for _, c := range mc {
			if len(c) != 1 {
				return nil, fmt.Errorf("harness: a list chunk of %d messages, expected 1", len(c))
			}
			col = append(col, c[0])
		}
		m, err := joinMsgs(n, col)
		if err != nil {
			return nil, err
		}
		return any([]*schema.Message{m}).([]E), nil
	}
	var keep []E
	nonEmpty := 0
	for _, c := range chunks {
		if len(c) > 0 {
			keep = c
			nonEmpty++
		}
	}
	if nonEmpty > 1 {
		return nil, fmt.Errorf("harness: the %d list chunks handed to the node do not concatenate (%d non-empty chunks of type %T)", len(chunks), nonEmpty, keep)
	}
	return keep, nil
}

// mkListConsumer: the node behind ToList. elem turns the one element of the list into the value
// the node's body is applied to (identity for "tolist", parsing the message for "msglist").
func mkListConsumer[E, O any](n *tnode, env *tenv, apply func(e E) (any, error)) *compose.Lambda {
	run := func(list []E) (O, error) {
		var z O
		if len(list) != 1 {
			return z, fmt.Errorf("harness: the node behind ToList got a list of %d elements", len(list))
		}
		if typedTrace {
			fmt.Printf("TRACE %s (list consumer) runs on [%v]\n", n.Key, any(list[0]))
		}
		v, err := apply(list[0])
		if err != nil {
			return z, err
		}
		return as[O](v)
	}
	emit := func(o O) (*schema.StreamReader[O], error) {
		r := mon.NewRand(n.Seed)
		return toStream[O](splitVal(any(o), n.Out, r, env.atomic), r)
	}
	var (
		inv compose.Invoke[[]E, O, topt]
		str compose.Stream[[]E, O, topt]
		col compose.Collect[[]E, O, topt]
		tra compose.Transform[[]E, O, topt]
	)
	if n.Para&pI != 0 {
		inv = func(ctx context.Context, in []E, _ ...topt) (O, error) { return run(in) }
	}
	if n.Para&pS != 0 {
		str = func(ctx context.Context, in []E, _ ...topt) (*schema.StreamReader[O], error) {
			o, err := run(in)
			if err != nil {
				return nil, err
			}
			return emit(o)
		}
	}
	if n.Para&pC != 0 {
		col = func(ctx context.Context, sr *schema.StreamReader[[]E], _ ...topt) (O, error) {
			in, err := drainList(n, sr)
			if err != nil {
				var z O
				return z, err
			}
			return run(in)
		}
	}
	if n.Para&pT != 0 {
		tra = func(ctx context.Context, sr *schema.StreamReader[[]E], _ ...topt) (*schema.StreamReader[O], error) {
			in, err := drainList(n, sr)
			if err != nil {
				return nil, err
			}
			o, err := run(in)
			if err != nil {
				return nil, err
			}
			return emit(o)
		}
	}
	l, err := compose.AnyLambda(inv, str, col, tra)
	if err != nil {
		panic(err)
	}
	return l
}

func listConsumerOut[E any](n *tnode, env *tenv, apply func(e E) (any, error)) *compose.Lambda {
	switch n.Out {
	case tStr:
		return mkListConsumer[E, string](n, env, apply)
	case tAny:
		return mkListConsumer[E, any](n, env, apply)
	case tNamed:
		return mkListConsumer[E, Named](n, env, apply)
	case tPtr:
		return mkListConsumer[E, *Rec](n, env, apply)
	case tRec:
		return mkListConsumer[E, Rec](n, env, apply)
	default:
		return mkListConsumer[E, map[string]any](n, env, apply)
	}
}

func bodyOf[E any](n *tnode) func(e E) (any, error) {
	return func(e E) (any, error) { return n.body(any(e)), nil }
}

// toListAndConsumer: compose.ToList[In] and the node behind it.
func toListAndConsumer(n *tnode, env *tenv) (*compose.Lambda, *compose.Lambda) {
	switch n.In {
	case tStr:
		return compose.ToList[string](), listConsumerOut(n, env, bodyOf[string](n))
	case tAny:
		return compose.ToList[any](), listConsumerOut(n, env, bodyOf[any](n))
	case tNamed:
		return compose.ToList[Named](), listConsumerOut(n, env, bodyOf[Named](n))
	case tPtr:
		return compose.ToList[*Rec](), listConsumerOut(n, env, bodyOf[*Rec](n))
	case tRec:
		return compose.ToList[Rec](), listConsumerOut(n, env, bodyOf[Rec](n))
	default:
		return compose.ToList[map[string]any](), listConsumerOut(n, env, bodyOf[map[string]any](n))
	}
}

func msgListConsumer(n *tnode, env *tenv) *compose.Lambda {
	return listConsumerOut(n, env, func(m *schema.Message) (any, error) {
		t, err := msgText(n, m)
		if err != nil {
			return nil, err
		}
		if t, err = unwrapJSON(t, n.MsgPath); err != nil {
			return nil, err
		}
		v, err := decodeJSONAs(t, n.Out)
		if err != nil {
			return nil, fmt.Errorf("harness: the message text %q does not parse: %w", t, err)
		}
		return v, nil
	})
}

// ---- the pipeline of real nodes -------------------------------------------------------------------

type realNode struct {
	key string
	l   *compose.Lambda
}

// realNodes: the real nodes of a lambda node, entry first; the last one carries the node's key.
func realNodes(n *tnode, env *tenv) []realNode {
	switch n.Pre {
	case "tolist":
		tl, c := toListAndConsumer(n, env)
		return []realNode{{n.Key + "_l", tl}, {n.Key, c}}
	case "msgparse":
		return []realNode{{n.Key + "_m", msgProducerFor(n, env)}, {n.Key, msgParserFor(n)}}
	case "msglist":
		return []realNode{{n.Key + "_m", msgProducerFor(n, env)}, {n.Key + "_l", compose.ToList[*schema.Message]()}, {n.Key, msgListConsumer(n, env)}}
	}
	return []realNode{{n.Key, lambdaFor(n, env)}}
}

// entryKey: the key of the real node that receives the node's input.
func entryKey(n *tnode) string {
	switch n.Pre {
	case "tolist":
		return n.Key + "_l"
	case "msgparse", "msglist":
		return n.Key + "_m"
	}
	return n.Key
}

// ---- generator ------------------------------------------------------------------------------------

// genPre makes the freshly typed node n (n.In chosen) one of the pipelines.
func (g *tgen) genPre(n *tnode) {
	r := g.r
	g.fill(n, true)
	n.Lazy = false
	n.Pre = mon.PickOne(r, []string{"tolist", "tolist", "msgparse", "msglist"})
	if isMsgPre(n) {
		n.PrePara = g.para()
		n.MsgFrom = mon.PickOne(r, []string{"content", "content", "tool_call"})
		n.MsgPath = mon.PickOne(r, []string{"", "", "w", "w.v"})
		if n.Dyn != dSame && r.Prob(0.7) {
			// mostly what parsers are used for: structs and maps
			n.Out = mon.PickOne(r, []ty{tRec, tPtr, tMap, tMap, tAny})
			n.Dyn = mon.PickOne(r, dynsFor(n.Out))
		}
	}
	g.normPre(n)
}

// normPre re-establishes what a pipeline node needs after the generator has changed its output side.
func (g *tgen) normPre(n *tnode) {
	if n.Conv != "" && (n.Out != n.In || n.Dyn != dSame || n.Sub != nil || n.Pass) {
		n.Conv = "" // re-typed by the generator: an ordinary node
	}
	if n.Pre == "" {
		return
	}
	n.Lazy = false
	if n.Sub != nil || n.Pass || n.Conv != "" {
		n.Pre = ""
		return
	}
	if isMsgPre(n) && n.Out == tNamed {
		n.Pre = "tolist" // there is no JSON form of an interface with methods
	}
	if n.Pre == "msgparse" {
		n.Para = pI // compose.MessageParser implements Invoke only
	}
}
