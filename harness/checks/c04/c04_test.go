// Package c04: Invoke, Stream, Collect and Transform of a compiled graph agree.
package c04

import (
	"context"
	"fmt"
	"os"
	"testing"

	"verifharness/internal/gspec"
	"verifharness/internal/mon"
)

const ID = "C04"

func genOpts(r *mon.Rand, cfg mon.Config, mode gspec.Mode) gspec.GenOpts {
	o := gspec.GenOpts{
		Mode: mode, MinNodes: 2, MaxNodes: cfg.Pick(7, 10),
		Branches: 0.5, Multi: 0.4, StreamCond: 0.5, AllowEmpty: 0.2,
		Nest: cfg.Pick(1, 2), NestProb: 0.12, State: 0.3, StreamState: 0.5,
		Streamy: true, Keys: 0.25, Renames: 0.15, Passthrough: 0.12, Wide: 0.3,
		CtrlOnly: 0.2, DataOnly: 0.3, Fields: 0.5, TwoBranches: 0.2,
	}
	if mode == gspec.Pregel {
		o.Cycles = 0.3
		o.MaxStepsProb = 0.1
	}
	return o
}

func TestCheck(t *testing.T) {
	cfg := mon.Load(ID)
	rep := mon.NewReporter(cfg, "exploration",
		"(a) generated graph/DAG/workflow/chain specs in which every node natively implements a PRNG-chosen non-empty subset of {Invoke,Stream,Collect,Transform}, splits its output into PRNG chunkings (single chunk, empty leading chunks, keys spread over chunks, array-backed or Pipe(cap 0/1/3)+goroutine producers, lazy transforms), with fan-out copies, fan-in merges, stream and value branch conditions, (stream) state handlers, input/output keys, workflow field mappings and nested graphs. Metamorphic oracle: for one compiled object and one logical input all four paradigms, under 2-4 input chunkings, must give the value of the reference interpreter (outputs concatenated by the harness's own concatenator); an injected node failure on the data path to END (error returned / error item mid-stream) must fail the run in all four paradigms; no panic on the caller, no hang (quiescence monitor). Non-trivial: >=2 bodies executed and >=2 different native paradigm sets among the executed nodes; distinct = (spec, input) digests. "+
			"(b) typed sub-workload written against eino's public API: series-parallel programs (Graph in both trigger modes, Chain, Workflow, nested up to 2 deep) whose nodes are declared over string / any / a named interface / *struct / struct / map[string]any, produce untyped nils, typed nil pointers, nil maps and maps holding nil, sit behind input/output keys, run-time checked edges, value and stream branch conditions, fan-ins and field mappings (whole<->field, struct and map sources); the generator grows a program along the reference evaluation of its input, so that well-typed continuations, continuations that must fail everywhere, and the known-undefined situations (two fan-in predecessors with one key, fan-in of any-typed map outputs, an input key or mapped source key that never shows up) are all produced. Also generated inside these programs: identity nodes whose Transform form is schema.StreamReaderWithConvert with a convert function that panics / fails on the chunk holding a PRNG-chosen byte or key (the run must fail in every paradigm, never panic on the caller); pipelines around the framework's own lambdas (compose.ToList over every type of the universe and over *schema.Message, compose.MessageParser with JSON text cut over message chunks) behind multi-chunk producers and in front of consumers of every paradigm set; workflow branches that select one of several consumers reading the same output over data-only (field-mapped) inputs, and type-switch branches in graphs and chains, where the siblings that are not selected would not pass the checks of their edge. Oracle: reference value in every paradigm / a failure in every paradigm / (undefined) agreement of the four paradigms; never a panic on the caller's goroutine or a hang. Non-trivial: >=2 lambda nodes, >=2 declared types, >=2 native paradigm sets or a nested program. "+
			"(c) nil-chunk sub-workload: a source declared any / a named interface (or map[string]any in front of WithInputKey) - a natively streaming node, or the caller of Collect / Transform - delivers the pieces of one real value (string pieces, map chunks, one pointer / struct chunk next to zero chunks) with 0-3 untyped nil chunks (nil values below the key) in front of, between and behind them, or nothing but nil chunks, or real chunks of a type that does not fit; behind it a run-time checked edge into a lambda / nested graph / END / the two consumers of a fan-out declared over string, *struct, struct, map, a named interface or any, a pass-through node in between, a value or stream branch condition declared over a type, or WithInputKey, in Graph (both trigger modes), Chain and Workflow. Oracle: the stream is its concatenation - if the concatenated value fits the declared type(s) all four paradigms deliver consumer(value), otherwise all four fail. Non-trivial: >=2 source chunks.",
		[]string{"node functions are homomorphic w.r.t. chunk concatenation where a lazy transform is used, so agreement is a theorem of the spec", "gspec workload: absent input keys, zero-chunk streams and colliding-key merges in stream form are not generated / not compared (the statement does not define them); the typed sub-workload generates them and demands only that the four paradigms agree", "typed sub-workload: only strings and maps declared as such are cut into several non-empty chunks; other declared types come as one chunk (an untyped nil possibly as several nil chunks); struct-typed mapping targets are only fed by single-chunk sources (the concatenation of partial structs is the C15 finding stream-struct-fan-in)"},
		150)
	defer func() {
		if err := rep.Flush(); err != nil {
			t.Fatalf("flush: %v", err)
		}
	}()
	ctx := context.Background()
	rep.Require("typed_cases", 100)
	for _, k := range []string{"typed_site_lazy-converter-fires", "typed_site_lazy-converter-passes", "typed_site_skipped-target-edge", "typed_site_builtin-tolist", "typed_site_builtin-msgparse", "typed_site_builtin-msglist", "typed_programs_with_type-switch-branch"} {
		rep.Require(k, 5)
	}
	for _, hz := range []string{hzDupKey, hzAnyFanIn, hzMissingInKey, hzMissingMapK} {
		rep.Require("typed_ref_undefined_"+hz, 3)
	}
	n := int64(cfg.Pick(300, 1200))
	nTyped := int64(cfg.Pick(500, 6000))
	nNil := int64(cfg.Pick(200, 10000))
	rep.Require("nilchunk_cases", 50)
	rep.Require("nilchunk_kind_nil-next-to-real-chunks", 20)
	rep.Require("nilchunk_kind_only-nil-chunks", 5)
	rep.Cases(n+nTyped+nNil, func(idx int64, rng *mon.Rand) {
		if idx < n+nTyped && os.Getenv("C04_NIL_ONLY") != "" {
			return // debugging aid: only the nil-chunk sub-workloads
		}
		if idx < n && os.Getenv("C04_TYPED_ONLY") != "" {
			return // debugging aid: skip the gspec workload
		}
		if idx >= n+nTyped {
			// nil chunks next to real chunks in front of the run-time type checks (nilchunk_test.go)
			nilChunkCase(ctx, rep, rng, cfg, idx < n+nTyped+3)
			return
		}
		if idx >= n {
			// typed sub-workload (typed_*_test.go): nodes over string / any / a named interface /
			// pointer / struct / map, nil values, typed nils, absent keys
			typedCase(ctx, rep, rng, cfg, idx < n+3)
			return
		}
		if idx%6 == 5 {
			chainCase(ctx, rep, rng, cfg)
			return
		}
		mode := gspec.Mode(idx % 3)
		spec := gspec.Gen(rng, genOpts(rng, cfg, mode))
		graphCase(ctx, rep, rng, cfg, spec, idx < 3)
	})
}

var paras = []string{"I", "S", "C", "T"}

func paraSets(spec *gspec.GraphSpec, execs []gspec.RefExec) map[int]bool {
	sets := map[int]bool{}
	var find func(g *gspec.GraphSpec, key string) *gspec.NodeSpec
	find = func(g *gspec.GraphSpec, key string) *gspec.NodeSpec {
		for i := range g.Nodes {
			if g.Nodes[i].Key == key {
				return &g.Nodes[i]
			}
			if g.Nodes[i].Sub != nil {
				if n := find(g.Nodes[i].Sub, key); n != nil {
					return n
				}
			}
		}
		return nil
	}
	for _, e := range execs {
		if n := find(spec, e.Node); n != nil {
			sets[n.Para] = true
		}
	}
	return sets
}

func graphCase(ctx context.Context, rep *mon.Reporter, rng *mon.Rand, cfg mon.Config, spec *gspec.GraphSpec, sample bool) {
	r, err := gspec.Build(ctx, spec, gspec.BuildOpts{})
	if err != nil {
		rep.Violation(ID+"/build-error", err.Error(), spec)
		return
	}
	rep.Distinct("shapes", spec.Shape())
	nin := 2
	for i := 0; i < nin; i++ {
		in := gspec.V{"in": rng.Str(1, 7)}
		if rng.Prob(0.3) {
			in["in2"] = rng.Str(0, 4)
		}
		ref := gspec.EvalGraph(spec, in, nil)
		if ref.Err == "collision" || ref.Err == "keymissing" {
			rep.Count("skipped_undefined_cases", 1)
			continue
		}
		nchunk := cfg.Pick(2, 4)
		ok := true
		for _, para := range paras {
			reps := 1
			if para == "C" || para == "T" {
				reps = nchunk
			}
			for k := 0; k < reps && ok; k++ {
				ok = oneRun(ctx, rep, spec, r, in, ref, nil, para, rng.Uint64(), []int{-1, 0, 1}[rng.Intn(3)], "agree")
			}
			if !ok {
				break
			}
		}
		if len(ref.Execs) >= 2 && len(paraSets(spec, ref.Execs)) >= 2 {
			rep.NonTrivial(spec.Digest() + "|" + gspec.Canon(in))
		}
		if sample && i == 0 {
			rep.Sample(map[string]any{"spec": spec, "input": in, "reference": ref.String()})
		}
		// failure must be reported in every paradigm
		if ok && i == 0 && ref.Err == "" && spec.Mode != gspec.Pregel {
			victims := dataAncestors(spec, ref)
			if len(victims) > 0 {
				v := victims[rng.Intn(len(victims))]
				kind := []gspec.Fault{gspec.FailSentinel, gspec.FailMidStream, gspec.FailCustom}[rng.Intn(3)]
				faults := map[string]gspec.Fault{v: kind}
				fref := gspec.EvalGraph(spec, in, &gspec.RefEnv{Faults: faults})
				for _, para := range paras {
					if !oneRun(ctx, rep, spec, r, in, fref, faults, para, rng.Uint64(), -1, "failure") {
						break
					}
				}
				rep.Count("fault_injections", 1)
			}
		}
	}
}

// dataAncestors: top-level body nodes whose output provably flows into the value delivered to END
// (data provenance computed by the reference; nested graphs are provenance barriers, because whether
// they use their input is not tracked).
func dataAncestors(spec *gspec.GraphSpec, ref *gspec.RefResult) []string {
	var out []string
	for _, n := range spec.Nodes {
		if ref.Contrib[n.Key] && n.Kind != gspec.Passthrough && n.Kind != gspec.Sub && n.Kind != gspec.Rename {
			out = append(out, n.Key)
		}
	}
	return out
}

func oneRun(ctx context.Context, rep *mon.Reporter, spec *gspec.GraphSpec, r interface{}, in gspec.V, ref *gspec.RefResult, faults map[string]gspec.Fault, para string, chunkSeed uint64, pipeCap int, sub string) bool {
	ctl := gspec.NewCtl("r")
	ctl.Faults = faults
	ctl.EOFInChain = faults != nil && chunkSeed%3 == 0 // the injected error also wraps io.EOF: still a failure
	out, wres, dump := callAny(gspec.WithCtl(ctx, ctl), r, para, in, chunkSeed, pipeCap)
	rep.AddEvaluations(1)
	rep.Count("runs_"+para, 1)
	wit := map[string]any{"spec": spec, "input": in, "paradigm": para, "chunk_seed": chunkSeed, "pipe_cap": pipeCap, "faults": faults, "io_EOF_in_chain": ctl.EOFInChain}
	if wres == mon.Stuck {
		where, detail := gspec.StuckSignature(dump)
		rep.Violation(ID+"/"+sub+"/hang/"+para+"/"+where, "paradigm "+para+" can never finish: every goroutine is parked\n"+detail, wit)
		return false
	}
	if wres == mon.Inconclusive {
		rep.Inconclusive("watchdog fired while goroutines were active")
		return false
	}
	execs, _, _, _ := ctl.Log.Snapshot()
	rep.Count("body_executions_observed", int64(len(execs)))
	for _, e := range execs {
		rep.Distinct("native_form_used", fmt.Sprintf("%s-called-as-%s-by-%s", e.Node[len(e.Node)-1:], e.Para, para))
	}
	rep.Count("output_chunks_read", int64(out.Chunks))
	extra := fmt.Sprintf("paradigm=%s input=%s faults=%v\nreference: %s", para, gspec.Canon(in), faults, ref.String())
	if m := gspec.CompareResult(ref, out); m != nil {
		rep.Violation(ID+"/"+sub+"/"+para+"/"+m.Class, m.Detail+"\n"+extra, wit)
		return false
	}
	return true
}
