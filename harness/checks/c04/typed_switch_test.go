package c04

// Typed sub-workload, second coverage round, part 3: branch-selected typed consumers whose
// not-selected siblings would not pass the checks of their edge (hunt/skipped-target-edge-check).
//
// Workflow ("switch" segment): the consumers read the predecessor's output over data-only inputs
// (AddInputWithOptions(pred, mappings, WithNoDirectDependency())), whole-to-whole or through a field
// mapping; a branch - on the predecessor itself or on a node that follows it - selects the one
// that runs. The generator knows the value that flows: the selected consumer mostly fits it, the
// siblings mostly do not (another concrete type behind an interface-typed output, a mapping from
// a key that is not there, a mapped value of the wrong type). A sibling that is skipped reads
// nothing, so nothing about its edge may fail the run, in no paradigm; a consumer that is
// selected and does not fit must fail the run in every paradigm. What comes next (a node or END)
// joins the consumers with ToField mappings; only the selected one contributes.
//
// Graph, both trigger modes, and Chain (rule "type" of a "branch" segment): a type switch over the
// predecessor's output, the targets declared with different types of which at most the selected
// one takes the value.

import (
	"github.com/cloudwego/eino/compose"

	"verifharness/internal/mon"
)

// switchSeg: the reference evaluation of a "switch" segment.
func (r *rres) switchSeg(sg *tseg, cur []pend, env refEnv) []pend {
	next := make([]pend, len(sg.Nodes))
	for i, n := range sg.Nodes {
		next[i] = pend{Ty: n.effOut(), STy: n.effOut(), Skip: i != 0}
	}
	if r.stopped() {
		return next
	}
	src := cur[0]
	if sg.Sel != nil {
		g := r.consume(cur, sg.Sel.effIn(), sg.Sel.Map, nil)
		if r.stopped() {
			return next
		}
		out := r.runNode(sg.Sel, g, env)
		if r.stopped() {
			return next
		}
		src = pend{V: out.V, Ty: sg.Sel.effOut(), Multi: out.Multi, STy: out.STy}
	}
	cv := r.edge(src.V, src.Ty, sg.CondTy)
	if r.stopped() {
		return next
	}
	if cv == nil {
		r.event("nil-branch-input")
	}
	if src.Multi && isIface(sg.CondTy) {
		r.soft(hzChunksIface)
	}
	sel := pickTarget(sg, cv)
	for i, n := range sg.Nodes {
		next[i].Skip = i != sel
		if i == sel {
			continue
		}
		// would the edge into the skipped sibling have failed?
		probe := &rres{}
		probe.consume(cur, n.effIn(), n.Map, nil)
		if probe.stopped() {
			r.event("skipped-target-edge")
		}
	}
	n := sg.Nodes[sel]
	g := r.consume(cur, n.effIn(), n.Map, nil)
	if r.stopped() {
		return next
	}
	out := r.runNode(n, g, env)
	if r.stopped() {
		return next
	}
	next[sel] = pend{V: out.V, Ty: n.effOut(), Multi: out.Multi, STy: out.STy}
	return next
}

// ---- generator -------------------------------------------------------------------------------------

// misfits: the declared types that may statically follow `from` but do not take the value v.
func misfits(from ty, v any) []ty {
	var out []ty
	for _, t := range followers(from) {
		if !dynOK(v, t) {
			out = append(out, t)
		}
	}
	return out
}

// genSwitchConsumer: a consumer of p over a data-only input. fit: it should take the value.
func (g *tgen) genSwitchConsumer(s *tspec, p pend, fit bool, plain bool) *tnode {
	r := g.r
	n := &tnode{Key: g.key()}
	pFit := 0.92
	if !fit {
		pFit = 0.12
	}
	wantFit := r.Prob(pFit)
	canFrom := p.Ty == tRec || p.Ty == tPtr || p.Ty == tMap
	switch {
	case plain || !canFrom || r.Prob(0.4):
		// whole to whole: the run-time check of an interface -> concrete edge
		n.In = g.chooseIn([]pend{p}, 1.0)
		if mf := misfits(p.Ty, p.V); !wantFit && len(mf) > 0 {
			n.In = mon.PickOne(r, mf)
		}
	case wantFit:
		n.Map, n.In = g.genMapping(p)
	default:
		// FromField(f) onto the whole input of a type the field's value does not fit, or from a key
		// that is not there
		m := &fmapSpec{}
		n.In = ty(r.Intn(int(nTy)))
		switch x := p.V.(type) {
		case map[string]any:
			ks := mon.SortedKeys(x)
			if len(ks) > 0 && r.Prob(0.5) {
				m.From = mon.PickOne(r, ks)
				if mf := misfits(tAny, x[m.From]); len(mf) > 0 {
					n.In = mon.PickOne(r, mf)
				}
			} else {
				m.From = "zz"
			}
		default:
			m.From = mon.PickOne(r, recFields)
			ft, _ := fieldTy(tRec, m.From)
			var taken any = zeroOf(ft)
			switch y := x.(type) {
			case Rec:
				taken = recField(y, m.From)
			case *Rec:
				if y != nil {
					taken = recField(*y, m.From)
				}
			}
			n.In = mon.PickOne(r, followers(ft))
			if mf := misfits(ft, taken); len(mf) > 0 {
				n.In = mon.PickOne(r, mf)
			}
		}
		n.Map = m
	}
	if s != nil && n.Map != nil && n.Map.To != "" && (n.In == tRec || n.In == tPtr) {
		s.Atomic = true
	}
	probe := &rres{}
	v := probe.consume([]pend{p}, n.effIn(), n.Map, nil).V
	g.fillOrSpecial(n, v, !probe.stopped(), true)
	return n
}

// genSwitch: a "switch" segment of a workflow behind the single predecessor cur[0].
func (g *tgen) genSwitch(s *tspec, sg *tseg, cur []pend, depth int, atStart bool) {
	r := g.r
	p := cur[0]
	src := p
	// (a workflow whose START has a branch and no other control successor does not compile: "start
	// node not set")
	if atStart || r.Bool() {
		// the branch sits on a node that runs after the predecessor: the siblings have been handed
		// the value before anybody knows that they are skipped
		sg.Sel = g.genWorkflowNode(s, cur, depth)
		g.normPre(sg.Sel)
		probe := &rres{}
		in := probe.consume(cur, sg.Sel.effIn(), sg.Sel.Map, nil)
		var out got
		if !probe.stopped() {
			out = probe.runNode(sg.Sel, in, refEnv{})
		}
		if probe.stopped() {
			out = got{V: zeroOf(sg.Sel.effOut()), STy: sg.Sel.effOut()}
		}
		src = pend{V: out.V, Ty: sg.Sel.effOut(), Multi: out.Multi, STy: out.STy}
	}
	sg.CondTy = g.chooseIn([]pend{src}, 0.92)
	sg.CondStream = r.Bool()
	sg.CondRule = mon.PickOne(r, []string{"nil", "hash", "hash", "type", "type"})
	if sg.Sel != nil && sg.CondRule == "type" {
		sg.CondRule = "hash" // the type switch looks at the value the consumers read
	}
	k := r.Range(2, 3)
	if sg.CondRule == "nil" {
		k = 2
	}
	if sg.CondRule == "type" {
		// the consumers are declared with different types; the one that fits sits at a PRNG position
		at := r.Intn(k)
		for i := 0; i < k; i++ {
			sg.Nodes = append(sg.Nodes, g.genSwitchConsumer(s, p, i == at, true))
		}
		return
	}
	sel := 0
	switch sg.CondRule {
	case "nil":
		if !isNilish(src.V) {
			sel = 1
		}
	default:
		sel = int(mon.HashStr(canon(src.V)) % uint64(k))
	}
	for i := 0; i < k; i++ {
		sg.Nodes = append(sg.Nodes, g.genSwitchConsumer(s, p, i == sel, false))
	}
}

// typeSwitchTargets re-types the targets of a "branch" segment with rule "type" (graphs, chains): the
// target at a PRNG position keeps a type that takes the value, the others get types that do not.
func (g *tgen) typeSwitchTargets(sg *tseg, cur []pend) {
	r := g.r
	at := r.Intn(len(sg.Nodes))
	for i, n := range sg.Nodes {
		if i == at || n.InKey != "" || n.Sub != nil || n.Pass || n.Dyn == dSame || n.Conv != "" {
			continue
		}
		if mf := misfits(cur[0].Ty, cur[0].V); len(mf) > 0 {
			n.In = mon.PickOne(r, mf)
		}
	}
}

// ---- lowering --------------------------------------------------------------------------------------

type workflowBranchAPI interface {
	AddBranch(fromNodeKey string, branch *compose.GraphBranch) *compose.WorkflowBranch
}

// lowerSwitch declares the nodes and the branch of a "switch" segment; addNode declares one node of
// the spec and returns the workflow node that takes its input.
func lowerSwitch(wf workflowAPI, sg *tseg, pred string, addNode func(n *tnode) (*compose.WorkflowNode, error)) ([]string, error) {
	on := pred
	if sg.Sel != nil {
		wn, err := addNode(sg.Sel)
		if err != nil {
			return nil, err
		}
		wn.AddInput(pred, fieldMappings(sg.Sel.Map)...)
		on = sg.Sel.Key
	}
	var entries, exits []string
	for _, n := range sg.Nodes {
		wn, err := addNode(n)
		if err != nil {
			return nil, err
		}
		wn.AddInputWithOptions(pred, fieldMappings(n.Map), compose.WithNoDirectDependency())
		entries = append(entries, entryKey(n))
		exits = append(exits, n.Key)
	}
	wf.(workflowBranchAPI).AddBranch(on, graphBranchFor(sg, entries))
	return exits, nil
}
