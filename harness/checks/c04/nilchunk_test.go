package c04

// Nil-chunk sub-workload, part 1: nil chunks next to real chunks on streams whose element type is an
// interface, in front of the run-time type checks (hunt/nil-chunk-stream-typecheck).
//
// A source declared `any` / `Named` (or map[string]any under WithInputKey) delivers a PRNG list of
// chunks: the pieces of one real value (string pieces, maps spread over chunks, one pointer / struct /
// value chunk possibly next to zero chunks of the same type) with untyped nil chunks (nil values below
// the key) put in front, between and behind them. The source is either a node that natively streams
// (and natively returns the concatenation where it also implements Invoke / Collect) or the caller of
// Collect / Transform. What follows is a mechanism with a run-time check: a checked edge into a
// concretely typed or interface typed consumer (lambda, nested graph, END, two consumers of one fan-out),
// a pass-through node in between, a value / stream branch condition declared over a type, WithInputKey.
//
// Oracle: the stream is its concatenation. value = harness-concat(chunks); if the value fits the
// declared type(s) every paradigm delivers consumer(value); if it does not (only nil chunks into a
// concrete type, real chunks of another type) every paradigm reports a failure.

import (
	"context"
	"fmt"
	"strings"

	"github.com/cloudwego/eino/compose"
	"github.com/cloudwego/eino/schema"

	"verifharness/internal/mon"
)

type ncSpec struct {
	Cont       string   `json:"container"`
	Mode       string   `json:"mode"`   // edge | pass | branch | key | sub | fan | end
	Src        string   `json:"source"` // node | caller
	SrcTy      ty       `json:"-"`
	SrcTyName  string   `json:"source_type"`
	Kind       string   `json:"kind"` // nil-next-to-real-chunks | no-nil-chunk | only-nil-chunks | wrong-type-chunks
	Chunks     []any    `json:"-"`
	ChunkStr   []string `json:"chunks"`
	PPara      string   `json:"producer_native"`
	Pre, Post  bool
	PrePara    string `json:"pre_native"`
	PostPara   string `json:"post_native"`
	T, T2      ty     `json:"-"`
	TName      string `json:"consumer_type"`
	T2Name     string `json:"second_consumer_type,omitempty"`
	CPara      string `json:"consumer_native"`
	C2Para     string `json:"second_consumer_native,omitempty"`
	BranchTy   ty     `json:"-"`
	BranchName string `json:"branch_condition_type,omitempty"`
	StreamCond bool   `json:"stream_condition,omitempty"`
	SubCont    string `json:"nested_container,omitempty"`
	Lazy       bool   `json:"lazy_transform_behind_the_check,omitempty"` // the checked stream is first read by whoever follows an unread hand-over
	Input      string `json:"input"`
	Seed       uint64 `json:"seed"`

	pPara, prePara, postPara, cPara, c2Para int
}

func (s *ncSpec) digest() string {
	return mon.H8(fmt.Sprint(s.Cont, s.Mode, s.Src, s.SrcTy, s.Kind, s.ChunkStr, s.pPara, s.Pre, s.Post, s.prePara, s.postPara, s.T, s.T2, s.cPara, s.c2Para, s.BranchTy, s.StreamCond, s.SubCont, s.Lazy))
}

func ncPara(r *mon.Rand) int { return 1 + r.Intn(15) }

// ncRealChunks: the chunks of one real value of dynamic kind d.
func ncRealChunks(r *mon.Rand, d dyn) []any {
	s := r.Str(1, 6)
	switch d {
	case dStr:
		return anyStrs(splitStr(s, r))
	case dMap:
		n := r.Range(1, 3)
		m := map[string]any{}
		for i := 0; i < n; i++ {
			k := string(rune('a' + i))
			switch r.Intn(4) {
			case 0:
				m[k] = nil
			case 1:
				m[k] = &Rec{S: s + k}
			default:
				m[k] = s + "." + k
			}
		}
		out := splitMap(m, r)
		if r.Prob(0.3) {
			// a key whose value is unknown (nil) in one chunk and known in another
			k := mon.PickOne(r, mon.SortedKeys(m))
			extra := map[string]any{k: nil}
			i := r.Intn(len(out) + 1)
			out = append(out[:i:i], append([]any{extra}, out[i:]...)...)
		}
		return out
	case dPtr:
		out := []any{&Rec{S: s, X: s + ".x"}}
		if r.Prob(0.2) {
			out = ncInsert(r, out, (*Rec)(nil))
		}
		return out
	case dNilPtr:
		return []any{(*Rec)(nil)}
	case dRec:
		out := []any{Rec{S: s, M: map[string]any{"m": s}}}
		if r.Prob(0.2) {
			out = ncInsert(r, out, Rec{})
		}
		return out
	case dLbl:
		return []any{Lbl{L: s}}
	}
	panic("ncRealChunks: bad dyn")
}

func ncInsert(r *mon.Rand, xs []any, v any) []any {
	i := r.Intn(len(xs) + 1)
	out := make([]any, 0, len(xs)+1)
	out = append(out, xs[:i]...)
	out = append(out, v)
	return append(out, xs[i:]...)
}

// ncFitting: dynamic kinds that fit the declared type t (and can be held by the source type).
func ncFitting(t, src ty) []dyn {
	var ds []dyn
	switch t {
	case tStr:
		ds = []dyn{dStr}
	case tPtr:
		ds = []dyn{dPtr, dPtr, dNilPtr}
	case tRec:
		ds = []dyn{dRec}
	case tMap:
		ds = []dyn{dMap}
	case tNamed:
		ds = []dyn{dPtr, dLbl, dNilPtr}
	default:
		ds = []dyn{dStr, dStr, dMap, dPtr, dRec, dLbl, dNilPtr}
	}
	if src != tNamed {
		return ds
	}
	var out []dyn
	for _, d := range ds {
		if d == dPtr || d == dLbl || d == dNilPtr {
			out = append(out, d)
		}
	}
	return out
}

func ncDynFits(d dyn, t ty) bool {
	for _, x := range ncFitting(t, tAny) {
		if x == d {
			return true
		}
	}
	return false
}

func ncGen(r *mon.Rand) *ncSpec {
	s := &ncSpec{Seed: r.Uint64(), Input: r.Str(1, 6)}
	s.Mode = mon.PickOne(r, []string{"edge", "edge", "edge", "pass", "branch", "branch", "key", "key", "key", "sub", "fan", "end", "end"})
	s.Cont = mon.PickOne(r, []string{"pregel", "dag", "chain", "workflow"})
	if s.Cont == "workflow" && (s.Mode == "branch" || s.Mode == "fan" || s.Mode == "key") {
		s.Cont = mon.PickOne(r, []string{"pregel", "dag", "chain"})
	}
	s.Src = "node"
	if s.Mode != "end" && r.Prob(0.35) {
		s.Src = "caller"
	}
	switch {
	case s.Mode == "key":
		s.SrcTy = tMap
	case r.Prob(0.25):
		s.SrcTy = tNamed
	default:
		s.SrcTy = tAny
	}
	// the checked types
	cands := []ty{tStr, tStr, tPtr, tRec, tMap, tNamed, tAny}
	if s.SrcTy == tNamed {
		cands = []ty{tPtr, tPtr, tNamed, tAny}
	}
	s.T = mon.PickOne(r, cands)
	s.T2 = s.T
	if s.Mode == "fan" {
		s.T2 = mon.PickOne(r, cands)
	}
	elem := s.SrcTy // the declared type of what is checked
	if s.Mode == "key" {
		elem = tAny
	}
	s.BranchTy = s.T
	if r.Prob(0.4) {
		s.BranchTy = elem
	}
	s.StreamCond = r.Bool()
	s.SubCont = mon.PickOne(r, []string{"pregel", "dag", "chain"})
	s.pPara, s.prePara, s.postPara, s.cPara, s.c2Para = ncPara(r), ncPara(r), ncPara(r), ncPara(r), ncPara(r)
	if r.Prob(0.85) && s.pPara&(pS|pT) == 0 {
		s.pPara |= mon.PickOne(r, []int{pS, pT, pS | pT})
	}
	s.Pre = s.Src == "node" && r.Prob(0.4)
	s.Post = s.Mode != "end" && s.Mode != "fan" && r.Prob(0.4)
	s.Lazy = (s.Mode == "edge" || s.Mode == "key" || s.Mode == "end" || s.Mode == "pass") && r.Prob(0.3)

	// the chunks
	switch x := r.Intn(100); {
	case x < 62:
		s.Kind = "nil-next-to-real-chunks"
	case x < 70:
		s.Kind = "no-nil-chunk"
	case x < 85:
		s.Kind = "only-nil-chunks"
	default:
		s.Kind = "wrong-type-chunks"
	}
	var real []any
	switch s.Kind {
	case "only-nil-chunks":
	case "wrong-type-chunks":
		var wrong []dyn
		for _, d := range ncFitting(tAny, elem) {
			if !ncDynFits(d, s.T) || !ncDynFits(d, s.T2) {
				wrong = append(wrong, d)
			}
		}
		if len(wrong) == 0 {
			// everything the source can hold fits: a plain fitting value
			s.Kind = "nil-next-to-real-chunks"
			real = ncRealChunks(r, mon.PickOne(r, ncFitting(s.T, elem)))
		} else {
			real = ncRealChunks(r, mon.PickOne(r, wrong))
		}
	default:
		// a value that fits both consumers
		var both []dyn
		for _, d := range ncFitting(s.T, elem) {
			if ncDynFits(d, s.T2) {
				both = append(both, d)
			}
		}
		if len(both) == 0 {
			s.T2 = s.T
			both = ncFitting(s.T, elem)
		}
		real = ncRealChunks(r, mon.PickOne(r, both))
	}
	chunks := real
	nn := 0
	switch s.Kind {
	case "only-nil-chunks":
		nn = r.Range(1, 3)
	case "no-nil-chunk":
	default:
		nn = r.Range(1, 3)
		if s.Kind == "wrong-type-chunks" && r.Prob(0.3) {
			nn = 0
		}
	}
	for i := 0; i < nn; i++ {
		switch r.Intn(4) {
		case 0:
			chunks = append([]any{nil}, chunks...) // in front
		case 1:
			chunks = append(chunks[:len(chunks):len(chunks)], nil) // behind
		default:
			chunks = ncInsert(r, chunks, nil)
		}
	}
	if s.Mode == "key" {
		// below the key "k" of map chunks; other keys and chunks without "k" around
		var ms []any
		oUsed := false
		for _, c := range chunks {
			m := map[string]any{"k": c}
			if !oUsed && r.Prob(0.3) {
				m["o"] = "other"
				oUsed = true
			}
			ms = append(ms, m)
		}
		if r.Prob(0.3) {
			m := map[string]any{"p": "no k here"}
			ms = ncInsert(r, ms, m)
		}
		chunks = ms
	}
	s.Chunks = chunks
	for _, c := range chunks {
		s.ChunkStr = append(s.ChunkStr, canon(c))
	}
	s.SrcTyName, s.TName, s.T2Name, s.BranchName = s.SrcTy.String(), s.T.String(), "", ""
	if s.Mode == "fan" {
		s.T2Name, s.C2Para = s.T2.String(), paraStr(s.c2Para)
	}
	if s.Mode == "branch" {
		s.BranchName = s.BranchTy.String()
	}
	s.PPara, s.PrePara, s.PostPara, s.CPara = paraStr(s.pPara), paraStr(s.prePara), paraStr(s.postPara), paraStr(s.cPara)
	return s
}

// ---- reference -------------------------------------------------------------------------------

type ncRef struct {
	Fail string
	Val  any
}

func (r ncRef) String() string {
	if r.Fail != "" {
		return "must fail: " + r.Fail
	}
	return "value " + canon(r.Val)
}

func ncPick(v any) int { return int(mon.HashStr(canon(v)) % 2) }

func ncEval(s *ncSpec) ncRef {
	whole, err := joinVals(s.Chunks)
	if err != nil {
		return ncRef{Fail: "harness: chunks do not concatenate: " + err.Error()}
	}
	v := whole
	if s.Mode == "key" {
		v = whole.(map[string]any)["k"]
	}
	check := func(t ty, what string) string {
		if !dynOK(v, t) {
			return fmt.Sprintf("%s: %s does not fit %s", what, canon(v), t)
		}
		return ""
	}
	post := func(o string) string {
		if s.Post {
			return o + ">post"
		}
		return o
	}
	switch s.Mode {
	case "end":
		if f := check(s.T, "edge into END"); f != "" {
			return ncRef{Fail: f}
		}
		return ncRef{Val: v}
	case "fan":
		if f := check(s.T, "edge into c"); f != "" {
			return ncRef{Fail: f}
		}
		if f := check(s.T2, "edge into d"); f != "" {
			return ncRef{Fail: f}
		}
		return ncRef{Val: map[string]any{"a": "c(" + canon(v) + ")", "b": "d(" + canon(v) + ")"}}
	case "branch":
		if f := check(s.BranchTy, "branch condition input"); f != "" {
			return ncRef{Fail: f}
		}
		if f := check(s.T, "edge into the selected target"); f != "" {
			return ncRef{Fail: f}
		}
		return ncRef{Val: post([]string{"c", "d"}[ncPick(v)] + "(" + canon(v) + ")")}
	default:
		if f := check(s.T, s.Mode); f != "" {
			return ncRef{Fail: f}
		}
		return ncRef{Val: post("c(" + canon(v) + ")")}
	}
}

// ---- lambdas -----------------------------------------------------------------------------------

// ncLam: a lambda I -> O that natively implements the forms in para. fn computes the output from the
// (concatenated) input; emit cuts the output into the chunks of the native stream forms.
func ncLam[I, O any](para int, seed uint64, fn func(in any) (any, error), emit func(out any, r *mon.Rand) []any) *compose.Lambda {
	run := func(in I) (O, error) {
		o, err := fn(any(in))
		if err != nil {
			var z O
			return z, err
		}
		return as[O](o)
	}
	stream := func(o O) (*schema.StreamReader[O], error) {
		r := mon.NewRand(seed)
		return toStream[O](emit(any(o), r), r)
	}
	var (
		inv compose.Invoke[I, O, topt]
		str compose.Stream[I, O, topt]
		col compose.Collect[I, O, topt]
		tra compose.Transform[I, O, topt]
	)
	if para&pI != 0 {
		inv = func(ctx context.Context, in I, _ ...topt) (O, error) { return run(in) }
	}
	if para&pS != 0 {
		str = func(ctx context.Context, in I, _ ...topt) (*schema.StreamReader[O], error) {
			o, err := run(in)
			if err != nil {
				return nil, err
			}
			return stream(o)
		}
	}
	if para&pC != 0 {
		col = func(ctx context.Context, sr *schema.StreamReader[I], _ ...topt) (O, error) {
			in, err := drain(sr)
			if err != nil {
				var z O
				return z, err
			}
			return run(in)
		}
	}
	if para&pT != 0 {
		tra = func(ctx context.Context, sr *schema.StreamReader[I], _ ...topt) (*schema.StreamReader[O], error) {
			in, err := drain(sr)
			if err != nil {
				return nil, err
			}
			o, err := run(in)
			if err != nil {
				return nil, err
			}
			return stream(o)
		}
	}
	l, err := compose.AnyLambda(inv, str, col, tra)
	if err != nil {
		panic(err)
	}
	return l
}

type ncFn = func(in any) (any, error)
type ncEmit = func(out any, r *mon.Rand) []any

func ncLamOut[I any](out ty, para int, seed uint64, fn ncFn, emit ncEmit) *compose.Lambda {
	switch out {
	case tStr:
		return ncLam[I, string](para, seed, fn, emit)
	case tAny:
		return ncLam[I, any](para, seed, fn, emit)
	case tNamed:
		return ncLam[I, Named](para, seed, fn, emit)
	case tPtr:
		return ncLam[I, *Rec](para, seed, fn, emit)
	case tRec:
		return ncLam[I, Rec](para, seed, fn, emit)
	default:
		return ncLam[I, map[string]any](para, seed, fn, emit)
	}
}

func ncLamFor(in, out ty, para int, seed uint64, fn ncFn, emit ncEmit) *compose.Lambda {
	switch in {
	case tStr:
		return ncLamOut[string](out, para, seed, fn, emit)
	case tAny:
		return ncLamOut[any](out, para, seed, fn, emit)
	case tNamed:
		return ncLamOut[Named](out, para, seed, fn, emit)
	case tPtr:
		return ncLamOut[*Rec](out, para, seed, fn, emit)
	case tRec:
		return ncLamOut[Rec](out, para, seed, fn, emit)
	default:
		return ncLamOut[map[string]any](out, para, seed, fn, emit)
	}
}

func ncEmitStr(out any, r *mon.Rand) []any {
	if s, ok := out.(string); ok {
		return anyStrs(splitStr(s, r))
	}
	return []any{out}
}

// ncStrLam: string -> string node that appends a tag.
func ncStrLam(tag string, para int, seed uint64) *compose.Lambda {
	return ncLamFor(tStr, tStr, para, seed, func(in any) (any, error) { return in.(string) + tag, nil }, ncEmitStr)
}

// ncConsumer: t -> string node "name(<canonical input>)".
func ncConsumer(name string, t ty, para int, seed uint64) *compose.Lambda {
	return ncLamFor(t, tStr, para, seed, func(in any) (any, error) { return name + "(" + canon(in) + ")", nil }, ncEmitStr)
}

// ncProducer: string -> source type; the stream forms emit the spec's chunks as they are, the value
// forms return their concatenation.
func ncProducer(s *ncSpec, chunks []any, srcTy ty, para int, wantIn string) *compose.Lambda {
	return ncLamFor(tStr, srcTy, para, s.Seed^0x9e37, func(in any) (any, error) {
		if in.(string) != wantIn {
			return nil, fmt.Errorf("harness: the producer ran on %q instead of %q", in, wantIn)
		}
		return joinVals(chunks)
	}, func(out any, r *mon.Rand) []any { return chunks })
}

// ncLazy: T -> T, natively a Transform that hands its input stream on without reading it.
func ncLazy[T any](same bool) *compose.Lambda {
	return compose.TransformableLambda(func(ctx context.Context, sr *schema.StreamReader[T]) (*schema.StreamReader[T], error) {
		if same {
			return sr, nil
		}
		return schema.StreamReaderWithConvert(sr, func(t T) (T, error) { return t, nil }), nil
	})
}

func ncLazyFor(t ty, same bool) *compose.Lambda {
	switch t {
	case tStr:
		return ncLazy[string](same)
	case tAny:
		return ncLazy[any](same)
	case tNamed:
		return ncLazy[Named](same)
	case tPtr:
		return ncLazy[*Rec](same)
	case tRec:
		return ncLazy[Rec](same)
	default:
		return ncLazy[map[string]any](same)
	}
}

func ncGraphBranch[T any](stream bool, keys []string) *compose.GraphBranch {
	ends := map[string]bool{}
	for _, k := range keys {
		ends[k] = true
	}
	if stream {
		return compose.NewStreamGraphBranch(func(ctx context.Context, sr *schema.StreamReader[T]) (string, error) {
			v, err := drain(sr)
			if err != nil {
				return "", err
			}
			return keys[ncPick(any(v))], nil
		}, ends)
	}
	return compose.NewGraphBranch(func(ctx context.Context, in T) (string, error) { return keys[ncPick(any(in))], nil }, ends)
}

func ncChainBranch[T any](stream bool, keys []string) *compose.ChainBranch {
	if stream {
		return compose.NewStreamChainBranch(func(ctx context.Context, sr *schema.StreamReader[T]) (string, error) {
			v, err := drain(sr)
			if err != nil {
				return "", err
			}
			return keys[ncPick(any(v))], nil
		})
	}
	return compose.NewChainBranch(func(ctx context.Context, in T) (string, error) { return keys[ncPick(any(in))], nil })
}

func ncGraphBranchFor(t ty, stream bool, keys []string) *compose.GraphBranch {
	switch t {
	case tStr:
		return ncGraphBranch[string](stream, keys)
	case tAny:
		return ncGraphBranch[any](stream, keys)
	case tNamed:
		return ncGraphBranch[Named](stream, keys)
	case tPtr:
		return ncGraphBranch[*Rec](stream, keys)
	case tRec:
		return ncGraphBranch[Rec](stream, keys)
	default:
		return ncGraphBranch[map[string]any](stream, keys)
	}
}

func ncChainBranchFor(t ty, stream bool, keys []string) *compose.ChainBranch {
	switch t {
	case tStr:
		return ncChainBranch[string](stream, keys)
	case tAny:
		return ncChainBranch[any](stream, keys)
	case tNamed:
		return ncChainBranch[Named](stream, keys)
	case tPtr:
		return ncChainBranch[*Rec](stream, keys)
	case tRec:
		return ncChainBranch[Rec](stream, keys)
	default:
		return ncChainBranch[map[string]any](stream, keys)
	}
}

// ---- programs ------------------------------------------------------------------------------------

// ncItem: one step of the linear program.
type ncItem struct {
	Kind    string // lam | pass | sub | branch | fan
	Key     string
	Lam     *compose.Lambda
	Opts    []compose.GraphAddNodeOpt
	Sub     compose.AnyGraph
	Targets []ncItem // branch targets / fan members (lam; fan members: Key = output key as well)
}

func ncSubGraph(s *ncSpec) (compose.AnyGraph, error) {
	c := ncConsumer("c", s.T, s.cPara, s.Seed^1)
	switch s.T {
	case tStr:
		return ncSubOf[string](s, c)
	case tAny:
		return ncSubOf[any](s, c)
	case tNamed:
		return ncSubOf[Named](s, c)
	case tPtr:
		return ncSubOf[*Rec](s, c)
	case tRec:
		return ncSubOf[Rec](s, c)
	default:
		return ncSubOf[map[string]any](s, c)
	}
}

func ncSubOf[T any](s *ncSpec, c *compose.Lambda) (compose.AnyGraph, error) {
	if s.SubCont == "chain" {
		return compose.NewChain[T, string]().AppendLambda(c), nil
	}
	g := compose.NewGraph[T, string]()
	if err := g.AddLambdaNode("inner", c); err != nil {
		return nil, err
	}
	if err := g.AddEdge(compose.START, "inner"); err != nil {
		return nil, err
	}
	if err := g.AddEdge("inner", compose.END); err != nil {
		return nil, err
	}
	return g, nil
}

func ncItems(s *ncSpec) ([]ncItem, error) {
	var items []ncItem
	want := s.Input
	if s.Pre {
		items = append(items, ncItem{Kind: "lam", Key: "pre", Lam: ncStrLam("<pre", s.prePara, s.Seed^2)})
		want += "<pre"
	}
	if s.Src == "node" {
		items = append(items, ncItem{Kind: "lam", Key: "p", Lam: ncProducer(s, s.Chunks, s.SrcTy, s.pPara, want)})
	}
	// the node behind the check: the consumer, or a transform that hands the checked stream on unread
	var keyOpt []compose.GraphAddNodeOpt
	if s.Mode == "key" {
		keyOpt = []compose.GraphAddNodeOpt{compose.WithInputKey("k")}
	}
	checked := []ncItem{{Kind: "lam", Key: "c", Lam: ncConsumer("c", s.T, s.cPara, s.Seed^1), Opts: keyOpt}}
	if s.Lazy {
		checked = []ncItem{{Kind: "lam", Key: "lazy", Lam: ncLazyFor(s.T, s.Seed&1 == 0), Opts: keyOpt}}
		if s.Mode != "end" {
			checked = append(checked, ncItem{Kind: "lam", Key: "c", Lam: ncConsumer("c", s.T, s.cPara, s.Seed^1)})
		}
	}
	switch s.Mode {
	case "edge", "key":
		items = append(items, checked...)
	case "pass":
		items = append(items, ncItem{Kind: "pass", Key: "pass"})
		items = append(items, checked...)
	case "sub":
		sub, err := ncSubGraph(s)
		if err != nil {
			return nil, err
		}
		items = append(items, ncItem{Kind: "sub", Key: "c", Sub: sub})
	case "branch":
		items = append(items, ncItem{Kind: "branch", Key: "br", Targets: []ncItem{
			{Kind: "lam", Key: "c", Lam: ncConsumer("c", s.T, s.cPara, s.Seed^1)},
			{Kind: "lam", Key: "d", Lam: ncConsumer("d", s.T, s.c2Para, s.Seed^3)},
		}})
	case "fan":
		items = append(items, ncItem{Kind: "fan", Key: "fan", Targets: []ncItem{
			{Kind: "lam", Key: "a", Lam: ncConsumer("c", s.T, s.cPara, s.Seed^1)},
			{Kind: "lam", Key: "b", Lam: ncConsumer("d", s.T2, s.c2Para, s.Seed^3)},
		}})
	case "end":
		if s.Lazy {
			items = append(items, checked...)
		}
	}
	if s.Post {
		items = append(items, ncItem{Kind: "lam", Key: "post", Lam: ncStrLam(">post", s.postPara, s.Seed^4)})
	}
	if len(items) == 0 {
		return nil, fmt.Errorf("harness: empty program")
	}
	return items, nil
}

func ncBuildIO[I, O any](s *ncSpec, items []ncItem) (caller, error) {
	ctx := context.Background()
	var first error
	note := func(err error) {
		if err != nil && first == nil {
			first = err
		}
	}
	switch s.Cont {
	case "pregel", "dag":
		g := compose.NewGraph[I, O]()
		prev := []string{compose.START}
		link := func(to string) {
			for _, p := range prev {
				note(g.AddEdge(p, to))
			}
		}
		for _, it := range items {
			switch it.Kind {
			case "lam":
				note(g.AddLambdaNode(it.Key, it.Lam, it.Opts...))
				link(it.Key)
				prev = []string{it.Key}
			case "pass":
				note(g.AddPassthroughNode(it.Key))
				link(it.Key)
				prev = []string{it.Key}
			case "sub":
				note(g.AddGraphNode(it.Key, it.Sub, it.Opts...))
				link(it.Key)
				prev = []string{it.Key}
			case "branch":
				var keys []string
				for _, t := range it.Targets {
					note(g.AddLambdaNode(t.Key, t.Lam))
					keys = append(keys, t.Key)
				}
				note(g.AddBranch(prev[0], ncGraphBranchFor(s.BranchTy, s.StreamCond, keys)))
				prev = keys
			case "fan":
				var keys []string
				for _, t := range it.Targets {
					note(g.AddLambdaNode(t.Key, t.Lam, compose.WithOutputKey(t.Key)))
					link(t.Key)
					keys = append(keys, t.Key)
				}
				prev = keys
			}
		}
		link(compose.END)
		if first != nil {
			return nil, first
		}
		var opts []compose.GraphCompileOption
		if s.Cont == "dag" {
			opts = append(opts, compose.WithNodeTriggerMode(compose.AllPredecessor))
		}
		r, err := g.Compile(ctx, opts...)
		if err != nil {
			return nil, err
		}
		return mkCaller(r), nil
	case "chain":
		c := compose.NewChain[I, O]()
		for _, it := range items {
			switch it.Kind {
			case "lam":
				c.AppendLambda(it.Lam, it.Opts...)
			case "pass":
				c.AppendPassthrough()
			case "sub":
				c.AppendGraph(it.Sub, it.Opts...)
			case "branch":
				var keys []string
				for _, t := range it.Targets {
					keys = append(keys, t.Key)
				}
				cb := ncChainBranchFor(s.BranchTy, s.StreamCond, keys)
				for _, t := range it.Targets {
					cb.AddLambda(t.Key, t.Lam)
				}
				c.AppendBranch(cb)
			case "fan":
				p := compose.NewParallel()
				for _, t := range it.Targets {
					p.AddLambda(t.Key, t.Lam)
				}
				c.AppendParallel(p)
			}
		}
		r, err := c.Compile(ctx)
		if err != nil {
			return nil, err
		}
		return mkCaller(r), nil
	default:
		wf := compose.NewWorkflow[I, O]()
		prev := compose.START
		for _, it := range items {
			switch it.Kind {
			case "lam":
				wf.AddLambdaNode(it.Key, it.Lam, it.Opts...).AddInput(prev)
			case "pass":
				wf.AddPassthroughNode(it.Key).AddInput(prev)
			case "sub":
				wf.AddGraphNode(it.Key, it.Sub, it.Opts...).AddInput(prev)
			default:
				return nil, fmt.Errorf("harness: %s in a workflow is not generated", it.Kind)
			}
			prev = it.Key
		}
		wf.End().AddInput(prev)
		r, err := wf.Compile(ctx)
		if err != nil {
			return nil, err
		}
		return mkCaller(r), nil
	}
}

func ncBuildO[I any](s *ncSpec, items []ncItem, out ty) (caller, error) {
	switch out {
	case tStr:
		return ncBuildIO[I, string](s, items)
	case tAny:
		return ncBuildIO[I, any](s, items)
	case tNamed:
		return ncBuildIO[I, Named](s, items)
	case tPtr:
		return ncBuildIO[I, *Rec](s, items)
	case tRec:
		return ncBuildIO[I, Rec](s, items)
	default:
		return ncBuildIO[I, map[string]any](s, items)
	}
}

func ncBuild(s *ncSpec) (caller, error) {
	items, err := ncItems(s)
	if err != nil {
		return nil, err
	}
	out := tStr
	switch s.Mode {
	case "end":
		out = s.T
	case "fan":
		out = tMap
	}
	in := tStr
	if s.Src == "caller" {
		in = s.SrcTy
	}
	switch in {
	case tStr:
		return ncBuildO[string](s, items, out)
	case tAny:
		return ncBuildO[any](s, items, out)
	case tNamed:
		return ncBuildO[Named](s, items, out)
	default:
		return ncBuildO[map[string]any](s, items, out)
	}
}

// ---- running and judging -----------------------------------------------------------------------------

func ncSite(s *ncSpec) string {
	switch s.Mode {
	case "key":
		return "input-key"
	case "branch":
		return "branch-input"
	}
	return "checked-edge"
}

// ncRun calls the four paradigms. in / chunks: the caller's input as a whole and cut.
func ncRun(ctx context.Context, rep *mon.Reporter, rng *mon.Rand, call caller, in any, chunksOf func(r *mon.Rand) []any, reps int, counter string) ([]tobs, bool) {
	var obs []tobs
	for _, para := range paras {
		n := 1
		if para == "C" || para == "T" {
			n = reps
		}
		for k := 0; k < n; k++ {
			cr := mon.NewRand(rng.Uint64())
			chunks := chunksOf(cr)
			pipeCap := []int{-1, 0, 1}[cr.Intn(3)]
			o, res := callTyped(ctx, call, para, in, chunks, pipeCap)
			rep.AddEvaluations(1)
			rep.Count(counter+"_runs_"+para, 1)
			if res == mon.Inconclusive {
				rep.Inconclusive("watchdog fired while goroutines were active (" + counter + " workload)")
				return nil, false
			}
			obs = append(obs, o)
			if o.Stuck {
				return obs, true
			}
		}
	}
	return obs, true
}

// ncDeviations: panics / hangs are reported at once (returns bad = true); otherwise the classes of
// deviation from the reference with the paradigms that show them.
func ncDeviations(rep *mon.Reporter, prefix string, obs []tobs, fail bool, want string, detail string, wit any) (dev map[string]string, bad bool) {
	seen := map[string]bool{}
	for _, o := range obs {
		var sig, extra string
		switch {
		case o.Panic != nil:
			sig = prefix + "/panic/" + o.Para + "/" + panicFrame(o.Panic)
			extra = "\npanic on the caller's goroutine: " + o.Panic.Value + "\n" + o.Panic.Stack
		case o.Stuck:
			sig = prefix + "/hang/" + o.Para + "/" + o.Where
			extra = "\n" + o.Err
		default:
			continue
		}
		bad = true
		if !seen[sig] {
			seen[sig] = true
			rep.Violation(sig, detail+extra, wit)
		}
	}
	if bad {
		return nil, true
	}
	dev = map[string]string{}
	for _, o := range obs {
		var class string
		switch {
		case fail && !o.Failed:
			class = "missing-error"
		case !fail && o.Failed:
			class = "unexpected-error"
		case !fail && o.Val != want:
			class = "wrong-value"
		default:
			continue
		}
		if !strings.Contains(dev[class], o.Para) {
			dev[class] += o.Para
		}
	}
	return dev, false
}

func ncForms(paras string) string {
	switch {
	case paras == "I":
		return "in-invoke-only"
	case !strings.Contains(paras, "I"):
		return "in-stream-forms-only"
	}
	return "in-value-and-stream-forms"
}

func nilChunkCase(ctx context.Context, rep *mon.Reporter, rng *mon.Rand, cfg mon.Config, sample bool) {
	s := ncGen(rng)
	ref := ncEval(s)
	wit := map[string]any{"spec": s, "reference": ref.String()}
	if strings.HasPrefix(ref.Fail, "harness:") {
		rep.Violation(ID+"/nilchunk/harness-error", ref.Fail, wit)
		return
	}
	call, err := ncBuild(s)
	if err != nil {
		rep.Violation(ID+"/nilchunk/build-error", "the generated program does not build: "+err.Error(), wit)
		return
	}
	rep.Count("nilchunk_cases", 1)
	rep.Count("nilchunk_mode_"+s.Mode, 1)
	rep.Count("nilchunk_kind_"+s.Kind, 1)
	rep.Count("nilchunk_source_"+s.Src, 1)
	rep.Count("nilchunk_cont_"+s.Cont, 1)
	if s.Lazy {
		rep.Count("nilchunk_lazy_transform_behind_check", 1)
	}
	if ref.Fail != "" {
		rep.Count("nilchunk_ref_must_fail", 1)
	} else {
		rep.Count("nilchunk_ref_value", 1)
	}
	nils := 0
	for _, c := range s.ChunkStr {
		if c == "nil" || strings.Contains(c, "k:nil") {
			nils++
		}
	}
	rep.Count("nilchunk_nil_chunks", int64(nils))
	rep.Distinct("nilchunk_shapes", fmt.Sprint(s.Cont, s.Mode, s.Src, s.SrcTy, s.T, s.T2, s.BranchTy, s.StreamCond, s.Kind, s.Pre, s.Post, s.Lazy))

	var in any = s.Input
	chunksOf := func(r *mon.Rand) []any { return anyStrs(splitStr(s.Input, r)) }
	if s.Src == "caller" {
		whole, _ := joinVals(s.Chunks)
		in = whole
		chunksOf = func(r *mon.Rand) []any { return s.Chunks }
	}
	obs, ok := ncRun(ctx, rep, rng, call, in, chunksOf, cfg.Pick(1, 2), "nilchunk")
	if !ok {
		return
	}
	var lines []string
	for _, o := range obs {
		lines = append(lines, o.String())
	}
	wit["observed"] = lines
	detail := fmt.Sprintf("container %s, mode %s, source %s declared %s, checked type %s", s.Cont, s.Mode, s.Src, s.SrcTy, s.T)
	if s.Mode == "fan" {
		detail += " and " + s.T2.String()
	}
	if s.Mode == "branch" {
		detail += fmt.Sprintf(", branch condition over %s (stream form: %v)", s.BranchTy, s.StreamCond)
	}
	detail += "\nchunks of the source: [" + strings.Join(s.ChunkStr, ", ") + "]\nreference (the stream is its concatenation): " + ref.String() + "\nobserved:\n  " + strings.Join(lines, "\n  ")
	dev, bad := ncDeviations(rep, ID+"/nilchunk", obs, ref.Fail != "", canon(ref.Val), detail, wit)
	if !bad {
		for _, class := range mon.SortedKeys(dev) {
			rep.Violation(ID+"/nilchunk/"+ncSite(s)+"/"+s.Kind+"/"+class+"/"+ncForms(dev[class]), detail+"\ndeviating paradigms: "+dev[class], wit)
		}
	}
	if len(s.Chunks) >= 2 {
		rep.NonTrivial("nilchunk|" + s.digest())
	}
	if sample {
		rep.Sample(wit)
	}
}
