package c04

// Typed sub-workload, part 2: the spec of a typed series-parallel program and its reference
// evaluation (what the program computes, independent of any calling paradigm).

import (
	"fmt"
	"sort"
	"strings"

	"verifharness/internal/mon"
)

const (
	pI = 1 << iota
	pS
	pC
	pT
)

func paraStr(p int) string {
	s := ""
	for i, c := range "ISCT" {
		if p&(1<<uint(i)) != 0 {
			s += string(c)
		}
	}
	return s
}

// fmapSpec: the field mapping on the edge into a workflow node (or END). From == "" takes the
// whole predecessor output, To == "" sets the whole successor input.
type fmapSpec struct {
	From, To string
}

type tnode struct {
	Key      string
	In, Out  ty
	Dyn      dyn
	Leaves   []leaf    `json:",omitempty"` // dMap: the entries
	XKind    dyn       // dPtr/dRec: what field X holds (dNil, dStr, dMap, dPtr, dNilPtr)
	WithP    bool      `json:",omitempty"`
	MLeaves  []leaf    `json:",omitempty"` // dPtr/dRec: field M (nil = nil map)
	Para     int       // native paradigms, bit set of pI|pS|pC|pT
	Lazy     bool      `json:",omitempty"` // dSame + native Transform: hands the input stream on without reading it
	Pass     bool      `json:",omitempty"` // AddPassthroughNode
	InKey    string    `json:",omitempty"`
	OutKey   string    `json:",omitempty"`
	Seed     uint64    // chunking of the node's native stream output
	Map      *fmapSpec `json:",omitempty"` // workflow: mapping on the single incoming edge
	JoinKeys []string  `json:",omitempty"` // workflow: fan-in, predecessor i is mapped ToField(JoinKeys[i])
	Sub      *tspec    `json:",omitempty"` // a nested graph / chain / workflow

	// Pre: the node stands for a small pipeline around one of the framework's own lambdas
	// (typed_builtin_test.go): "tolist" = compose.ToList[In] -> consumer over []In;
	// "msgparse" = producer In -> *schema.Message -> compose.MessageParser[Out];
	// "msglist" = producer -> compose.ToList[*schema.Message] -> consumer over []*schema.Message.
	// Para is the paradigm set of the last node of the pipeline, PrePara that of the message producer.
	Pre     string `json:",omitempty"`
	PrePara int    `json:",omitempty"`
	MsgFrom string `json:",omitempty"` // "content" | "tool_call"
	MsgPath string `json:",omitempty"` // ParseKeyPath of the parser: "", "w", "w.v"

	// Conv: an identity node whose Transform form is schema.StreamReaderWithConvert over its input
	// and whose convert function "panic"s / returns an "error" on the chunk that holds the trigger
	// (typed_conv_test.go).
	Conv      string `json:",omitempty"`
	TrigByte  string `json:",omitempty"` // string chunks: the byte that triggers
	TrigKey   string `json:",omitempty"` // map chunks: the key that triggers
	TrigOther bool   `json:",omitempty"` // any other chunk (nil, pointer, struct): triggers or not
}

// effIn / effOut: the declared types as the surrounding graph sees them.
func (n *tnode) effIn() ty {
	if n.InKey != "" {
		return tMap
	}
	return n.In
}

func (n *tnode) effOut() ty {
	if n.OutKey != "" {
		return tMap
	}
	return n.Out
}

type tseg struct {
	// "switch" (workflow, typed_switch_test.go): the consumers Nodes read the predecessor's output
	// over data-only inputs (WithNoDirectDependency, possibly field-mapped: tnode.Map), a branch on
	// the predecessor (Sel == nil) or on a node Sel that follows it selects the one that runs.
	Kind       string // "node" | "par" | "branch" | "switch"
	Nodes      []*tnode
	Sel        *tnode `json:",omitempty"`
	CondTy     ty     `json:",omitempty"`
	CondStream bool   `json:",omitempty"`
	// "nil": nil-ish -> target 0, else target 1; "hash": by content; "type": the first target whose
	// declared input type takes the dynamic value (a type switch), else target 0
	CondRule string `json:",omitempty"`
}

type tspec struct {
	Cont    string // "pregel" | "dag" | "chain" | "workflow"
	In, Out ty
	Segs    []*tseg
	EndMap  *fmapSpec `json:",omitempty"` // workflow: mapping on the edge into END
	EndJoin []string  `json:",omitempty"` // workflow: fan-in at END
	Atomic  bool      `json:",omitempty"` // every stream of this program is a single chunk
}

func (s *tspec) digest() string {
	return mon.H8(fmt.Sprintf("%+v", s.render()))
}

func (s *tspec) render() string {
	var b strings.Builder
	fmt.Fprintf(&b, "%s[%s->%s]", s.Cont, s.In, s.Out)
	for _, sg := range s.Segs {
		b.WriteString(" ")
		switch sg.Kind {
		case "node":
			b.WriteString(sg.Nodes[0].render())
		case "par":
			b.WriteString("par(")
			for i, n := range sg.Nodes {
				if i > 0 {
					b.WriteString(" | ")
				}
				b.WriteString(n.render())
			}
			b.WriteString(")")
		case "branch":
			fmt.Fprintf(&b, "branch<%s,%s,stream=%v>(", sg.CondTy, sg.CondRule, sg.CondStream)
			for i, n := range sg.Nodes {
				if i > 0 {
					b.WriteString(" | ")
				}
				b.WriteString(n.render())
			}
			b.WriteString(")")
		case "switch":
			fmt.Fprintf(&b, "switch<%s,%s,stream=%v", sg.CondTy, sg.CondRule, sg.CondStream)
			if sg.Sel != nil {
				fmt.Fprintf(&b, ",on %s", sg.Sel.render())
			}
			b.WriteString(">(")
			for i, n := range sg.Nodes {
				if i > 0 {
					b.WriteString(" | ")
				}
				b.WriteString(n.render())
			}
			b.WriteString(")")
		}
	}
	if s.EndMap != nil {
		fmt.Fprintf(&b, " end-map(%q->%q)", s.EndMap.From, s.EndMap.To)
	}
	if s.EndJoin != nil {
		fmt.Fprintf(&b, " end-join%v", s.EndJoin)
	}
	if s.Atomic {
		b.WriteString(" atomic")
	}
	return b.String()
}

func (n *tnode) render() string {
	var b strings.Builder
	if n.Sub != nil {
		fmt.Fprintf(&b, "%s:sub{%s}", n.Key, n.Sub.render())
	} else if n.Pass {
		fmt.Fprintf(&b, "%s:pass", n.Key)
	} else {
		fmt.Fprintf(&b, "%s:%s->%s=%s/%s", n.Key, n.In, n.Out, n.Dyn, paraStr(n.Para))
		if n.Lazy {
			b.WriteString("/lazy")
		}
		if n.Conv != "" {
			fmt.Fprintf(&b, "/conv-%s(%q,%q,%v)", n.Conv, n.TrigByte, n.TrigKey, n.TrigOther)
		}
		if n.Pre != "" {
			fmt.Fprintf(&b, "/%s", n.Pre)
			if n.Pre != "tolist" {
				fmt.Fprintf(&b, "(%s,%s,%q)", paraStr(n.PrePara), n.MsgFrom, n.MsgPath)
			}
		}
		if n.Dyn == dMap {
			fmt.Fprintf(&b, "%v", n.Leaves)
		}
		if n.Dyn == dPtr || n.Dyn == dRec {
			fmt.Fprintf(&b, "{X:%s,P:%v,M:%v}", n.XKind, n.WithP, n.MLeaves)
		}
	}
	if n.InKey != "" {
		fmt.Fprintf(&b, " inkey=%s", n.InKey)
	}
	if n.OutKey != "" {
		fmt.Fprintf(&b, " outkey=%s", n.OutKey)
	}
	if n.Map != nil {
		fmt.Fprintf(&b, " map(%q->%q)", n.Map.From, n.Map.To)
	}
	if n.JoinKeys != nil {
		fmt.Fprintf(&b, " join%v", n.JoinKeys)
	}
	return b.String()
}

// ---- reference evaluation -------------------------------------------------------------------

// The situations in which eino's paradigms are known to disagree (open findings): the reference
// does not define a result for them, the oracle only demands that the paradigms agree.
const (
	hzDupKey       = "fanin-dup-key"
	hzAnyFanIn     = "fanin-any-typed"
	hzMissingInKey = "missing-input-key"
	hzMissingMapK  = "missing-mapped-key"
	// not "undefined" (the value is what Invoke returns), but known to fail in the stream forms:
	// several non-nil chunks arrive where an interface type is declared and must be concatenated
	hzChunksIface = "chunks-into-interface-input"
	// likewise: a map that may arrive in several chunks is the source of a mapping FromField(k) /
	// MapFields(k, f); in the stream forms every chunk without k becomes an item of its own: a fresh
	// non-nil pointer for a successor declared as a pointer (mapping onto the whole input), a nil for
	// one declared as an interface (which then fails the run-time check of a later edge)
	hzPtrWhole = "mapping-from-chunked-map"
)

// softOrder: the marks in the order in which a deviation is attributed to them.
var softOrder = []string{hzPtrWhole, hzChunksIface}

type rres struct {
	Val    any
	Fail   string // the run must fail in every paradigm (reason class)
	Hazard string // result undefined (one of the hz constants)
	// Soft: conditions under which the stream forms are known to fail although the value is
	// defined (hzChunksIface, hzPtrWhole)
	Soft     map[string]bool
	OutMulti bool
	OutSTy   ty
	Events   map[string]bool
	Execs    int
}

func (r *rres) event(e string) {
	if r.Events == nil {
		r.Events = map[string]bool{}
	}
	r.Events[e] = true
}

func (r *rres) soft(m string) {
	if r.Soft == nil {
		r.Soft = map[string]bool{}
	}
	r.Soft[m] = true
}

func (r *rres) stopped() bool { return r.Fail != "" || r.Hazard != "" }

// sitePriority: the nil sites that name a violation signature (where an untyped nil meets a
// mechanism of the framework), most specific first; the signature carries the first one that
// occurred in the run. The other events are only counted.
var sitePriority = []string{
	// (second coverage round) the mechanisms of typed_conv / typed_switch / typed_builtin
	"lazy-converter-fires", "skipped-target-edge", "builtin-tolist", "builtin-msgparse", "builtin-msglist", "lazy-converter-passes",
	"nil-at-fan-in", "nil-under-input-key", "nil-under-output-key", "nil-branch-input", "nil-mapped", "nil-at-END", "nil-node-input",
}

func (r *rres) eventsStr() string {
	for _, s := range sitePriority {
		if r.Events[s] {
			return s
		}
	}
	return "no-nil-site"
}

func (r *rres) allEvents() string {
	ks := make([]string, 0, len(r.Events))
	for k := range r.Events {
		ks = append(ks, k)
	}
	sort.Strings(ks)
	return strings.Join(ks, "+")
}

func (r *rres) String() string {
	switch {
	case r.Hazard != "":
		return "undefined (" + r.Hazard + ")"
	case r.Fail != "":
		return "failure (" + r.Fail + ")"
	}
	return "value " + canon(r.Val)
}

// pend: a value on its way to the next consumer, with the type it was declared as. Multi: in
// stream form it may arrive as two or more non-nil chunks.
type pend struct {
	V     any
	Ty    ty
	Multi bool
	// STy: the chunk type of the stream form. It is the type the producing node was declared with
	// and changes only where the framework converts (a run-time checked edge, a key wrapper, a
	// mapping, a fan-in); a nested graph hands on whatever reached its END.
	STy ty
	// Skip: the producing node was not selected by the branch of a "switch" segment: nothing arrives
	Skip bool
}

// got: what a consumer receives.
type got struct {
	V     any
	Multi bool
	STy   ty
}

// splittable: may splitVal cut v, declared as static, into several chunks.
func splittable(v any, static ty) bool {
	switch x := v.(type) {
	case string:
		return static == tStr
	case map[string]any:
		_ = x // (a nil map may have become an empty one on the way, which splits into empty chunks)
		return static == tMap
	}
	return false
}

// edge: what crossing an edge from a declared type to a declared type does to a value.
func (r *rres) edge(v any, from, to ty) any {
	switch latOf(from, to) {
	case latMust:
		return v
	case latMay:
		if v == nil {
			r.event("nil-runtime-check")
		}
		if !dynOK(v, to) {
			r.Fail = "runtime-type-check"
		}
		return v
	}
	r.Fail = "harness: edge " + from.String() + "->" + to.String() + " must not exist"
	return v
}

// deliver: the value a consumer declared as `to` sees, given what its predecessors sent.
// One predecessor: the edge. Several: every edge, then eino's fan-in merge.
func (r *rres) deliver(ps []pend, to ty) got {
	after := func(p pend) ty {
		if latOf(p.Ty, to) == latMay {
			return to // the run-time check hands on values (chunks) of the consumer's type
		}
		return p.STy
	}
	if len(ps) == 1 {
		return got{r.edge(ps[0].V, ps[0].Ty, to), ps[0].Multi, after(ps[0])}
	}
	vals := make([]any, len(ps))
	statics := make([]ty, len(ps))
	for i, p := range ps {
		vals[i] = r.edge(p.V, p.Ty, to)
		if r.stopped() {
			return got{}
		}
		statics[i] = after(p)
	}
	for _, v := range vals {
		if v == nil {
			r.event("nil-at-fan-in")
			r.Fail = "fan-in-of-nil"
			return got{}
		}
	}
	valueOK, dup := true, false
	merged := map[string]any{}
	for _, v := range vals {
		m, ok := v.(map[string]any)
		if !ok {
			valueOK = false
			break
		}
		for _, k := range mon.SortedKeys(m) {
			if _, exists := merged[k]; exists {
				dup = true
			}
			merged[k] = m[k]
		}
	}
	streamOK := true
	for _, s := range statics {
		if s != tMap {
			streamOK = false
		}
	}
	switch {
	case !valueOK && streamOK:
		r.Fail = "harness: map-typed streams of non-maps"
	case !valueOK:
		r.Fail = "fan-in-of-non-maps"
	case dup && streamOK:
		r.Hazard = hzDupKey
	case dup:
		r.Fail = "fan-in-duplicate-key-and-not-maps"
	case !streamOK:
		r.Hazard = hzAnyFanIn
	default:
		return got{merged, true, tMap} // one chunk per predecessor at least
	}
	return got{}
}

// fieldTy: the declared type of field / key `f` of a value declared as t.
func fieldTy(t ty, f string) (ty, bool) {
	switch t {
	case tRec, tPtr:
		switch f {
		case "S":
			return tStr, true
		case "X":
			return tAny, true
		case "P":
			return tPtr, true
		case "M":
			return tMap, true
		}
		return 0, false
	case tMap:
		return tAny, true
	}
	return 0, false
}

// targetFieldTy: the type of field / key f of a successor input declared as t (an `any` input is
// expanded to a map[string]any by the framework).
func targetFieldTy(t ty, f string) (ty, bool) {
	if t == tAny {
		return tAny, true
	}
	return fieldTy(t, f)
}

func recField(r Rec, f string) any {
	switch f {
	case "S":
		return r.S
	case "X":
		return r.X
	case "P":
		return r.P
	case "M":
		return r.M
	}
	return nil
}

func setRecField(r *Rec, f string, v any) {
	switch f {
	case "S":
		r.S = v.(string)
	case "X":
		r.X = v
	case "P":
		r.P = v.(*Rec)
	case "M":
		r.M = v.(map[string]any)
	}
}

// mapOne: one field mapping applied to the value v declared as `from`, for a successor declared
// as `to`. Returns what the successor receives.
func (r *rres) mapOne(v any, from ty, m *fmapSpec, to ty) any {
	taken, ft := v, from
	if m.From != "" {
		var ok bool
		ft, ok = fieldTy(from, m.From)
		if !ok {
			r.Fail = "harness: no field " + m.From + " in " + from.String()
			return nil
		}
		switch x := v.(type) {
		case Rec:
			taken = recField(x, m.From)
		case *Rec:
			if x == nil {
				r.Fail = "mapping-from-nil-pointer"
				return nil
			}
			taken = recField(*x, m.From)
		case map[string]any:
			var present bool
			taken, present = x[m.From]
			if !present {
				r.Hazard = hzMissingMapK
				return nil
			}
		default:
			r.Fail = "harness: mapping source " + canon(v)
			return nil
		}
	}
	tft := to
	if m.To != "" {
		var ok bool
		tft, ok = targetFieldTy(to, m.To)
		if !ok {
			r.Fail = "harness: no target field " + m.To + " in " + to.String()
			return nil
		}
	}
	if taken == nil {
		r.event("nil-mapped")
	}
	switch latOf(ft, tft) {
	case latMustNot:
		r.Fail = "harness: mapping " + ft.String() + "->" + tft.String() + " must not exist"
		return nil
	case latMay:
		if taken == nil {
			if !nilable(tft) {
				r.Fail = "mapping-nil-to-non-nilable"
				return nil
			}
		} else if !dynOK(taken, tft) {
			r.Fail = "mapping-runtime-type-check"
			return nil
		}
	}
	if m.To == "" {
		if taken == nil {
			return zeroOf(to) // the successor sees the nil value of its own declared type
		}
		return taken
	}
	switch to {
	case tMap, tAny:
		return map[string]any{m.To: taken}
	case tRec, tPtr:
		var rec Rec
		if taken != nil {
			setRecField(&rec, m.To, taken)
		}
		if to == tPtr {
			return &rec
		}
		return rec
	}
	r.Fail = "harness: mapping target " + to.String()
	return nil
}

// consume: what the consumer declared as `to` receives: over a plain edge, a mapped edge
// (workflow), or a mapped fan-in (workflow: predecessor i goes ToField(join[i])).
func (r *rres) consume(ps []pend, to ty, m *fmapSpec, join []string) got {
	if join != nil {
		merged := map[string]any{}
		for i, p := range ps {
			if p.Skip {
				continue
			}
			if p.V == nil {
				r.event("nil-mapped")
			}
			merged[join[i]] = p.V
		}
		return got{merged, true, to}
	}
	if m != nil {
		if _, isMap := ps[0].V.(map[string]any); isMap && ps[0].Multi && m.From != "" && ((m.To == "" && to == tPtr) || isIface(to)) {
			r.soft(hzPtrWhole)
		}
		return got{r.mapOne(ps[0].V, ps[0].Ty, m, to), ps[0].Multi, to}
	}
	return r.deliver(ps, to)
}

// refEnv: what the reference has to know about the run besides the spec.
type refEnv struct {
	atomic bool // every producer emits a single chunk
}

// runNode: a node body applied to its (already delivered) input.
func (r *rres) runNode(n *tnode, g got, env refEnv) got {
	in, multi, sty := g.V, g.Multi, g.STy
	if n.InKey != "" {
		m, ok := in.(map[string]any)
		if !ok {
			r.Fail = "harness: keyed node got " + canon(in)
			return got{}
		}
		v, present := m[n.InKey]
		if !present {
			r.Hazard = hzMissingInKey
			return got{}
		}
		if v == nil {
			r.event("nil-under-input-key")
		}
		if !dynOK(v, n.In) {
			r.Fail = "input-key-type-check"
			return got{}
		}
		in, sty = v, n.In
	}
	var out any
	switch {
	case n.Sub != nil:
		if in == nil {
			r.event("nil-into-nested")
		}
		sub := evalSpec(n.Sub, pend{V: in, Ty: n.In, Multi: multi, STy: sty}, env)
		r.Execs += sub.Execs
		for e := range sub.Events {
			r.event(e)
		}
		for m := range sub.Soft {
			r.soft(m)
		}
		if sub.stopped() {
			r.Fail, r.Hazard = sub.Fail, sub.Hazard
			return got{}
		}
		out, multi, sty = sub.Val, sub.OutMulti, sub.OutSTy
		if out == nil {
			r.event("nil-out-of-nested")
		}
	case n.Pass:
		out = in
	default:
		if in == nil {
			r.event("nil-node-input")
		}
		if multi && isIface(n.In) {
			r.soft(hzChunksIface)
		}
		r.Execs++
		if n.Conv != "" {
			if convFires(n, in) {
				r.event("lazy-converter-fires")
				r.Fail = "converter-" + n.Conv
				return got{}
			}
			r.event("lazy-converter-passes")
		}
		out = n.body(in)
		if n.Pre != "" {
			r.event("builtin-" + n.Pre)
			if n.Pre != "tolist" {
				// the value travels as JSON text inside a message
				var err error
				if out, err = jsonRoundTrip(out, n.Out); err != nil {
					r.Fail = "harness: " + err.Error()
					return got{}
				}
			}
		}
		sty = n.Out
		if !(n.Dyn == dSame && n.Lazy && n.Para&pT != 0) {
			// (an untyped nil may come as several nil chunks, which an output key turns into maps)
			multi = !env.atomic && n.Para&(pS|pT) != 0 && (splittable(out, n.Out) || out == nil)
		}
	}
	if n.OutKey != "" {
		if out == nil {
			r.event("nil-under-output-key")
		}
		out = map[string]any{n.OutKey: out}
		sty = tMap
	}
	return got{out, multi, sty}
}

// body: the function a lambda node computes (shared by the reference and the real node).
func (n *tnode) body(in any) any {
	if n.Dyn == dSame {
		return in
	}
	s := n.Key + ":" + mon.H8(canon(in))
	return makeVal(n.Dyn, s, n.Leaves, n.XKind, n.WithP, n.MLeaves)
}

// pick: the target a branch condition chooses for v.
func pickTarget(sg *tseg, v any) int {
	rule, k := sg.CondRule, len(sg.Nodes)
	if rule == "type" {
		for i, n := range sg.Nodes {
			if n.Map == nil && dynOK(v, n.effIn()) {
				return i
			}
		}
		return 0
	}
	if rule == "nil" {
		if isNilish(v) {
			return 0
		}
		return 1
	}
	return int(mon.HashStr(canon(v)) % uint64(k))
}

func zeroOf(t ty) any {
	switch t {
	case tStr:
		return ""
	case tPtr:
		return (*Rec)(nil)
	case tRec:
		return Rec{}
	case tMap:
		return map[string]any(nil)
	}
	return nil
}

// segs evaluates the segments of s on cur. Once the evaluation has stopped (failure / undefined)
// it only tracks the declared types, with zero values as stand-ins.
func (r *rres) segs(s *tspec, cur []pend, env refEnv) []pend {
	for _, sg := range s.Segs {
		var next []pend
		switch sg.Kind {
		case "node":
			n := sg.Nodes[0]
			to, oty := n.effIn(), n.effOut()
			if n.Pass {
				to, oty = cur[0].Ty, cur[0].Ty
			}
			var out got
			if !r.stopped() {
				g := r.consume(cur, to, n.Map, n.JoinKeys)
				if !r.stopped() {
					out = r.runNode(n, g, env)
				}
			}
			next = []pend{{V: out.V, Ty: oty, Multi: out.Multi, STy: out.STy}}
		case "par":
			for _, n := range sg.Nodes {
				var out got
				if !r.stopped() {
					g := r.consume(cur, n.effIn(), n.Map, nil)
					if !r.stopped() {
						out = r.runNode(n, g, env)
					}
				}
				next = append(next, pend{V: out.V, Ty: n.effOut(), Multi: out.Multi, STy: out.STy})
			}
		case "branch":
			var out got
			oty := sg.Nodes[0].effOut()
			if !r.stopped() {
				cv := r.edge(cur[0].V, cur[0].Ty, sg.CondTy)
				if !r.stopped() {
					if cv == nil {
						r.event("nil-branch-input")
					}
					if cur[0].Multi && isIface(sg.CondTy) {
						r.soft(hzChunksIface)
					}
					n := sg.Nodes[pickTarget(sg, cv)]
					oty = n.effOut()
					g := r.consume(cur, n.effIn(), nil, nil)
					if !r.stopped() {
						out = r.runNode(n, g, env)
					}
				}
			}
			next = []pend{{V: out.V, Ty: oty, Multi: out.Multi, STy: out.STy}}
		case "switch":
			next = r.switchSeg(sg, cur, env)
		}
		if r.stopped() {
			for i := range next {
				next[i].V, next[i].Multi, next[i].STy = zeroOf(next[i].Ty), false, next[i].Ty
			}
		}
		cur = next
	}
	return cur
}

// evalSpec: the reference result of the program s on the input `in` (in.Multi: the input may
// arrive as several non-nil chunks, which is the case for Collect / Transform calls and nested
// programs).
func evalSpec(s *tspec, in pend, env refEnv) *rres {
	r := &rres{}
	if in.V == nil {
		r.event("nil-graph-input")
	}
	cur := r.segs(s, []pend{in}, env)
	if r.stopped() {
		return r
	}
	g := r.consume(cur, s.Out, s.EndMap, s.EndJoin)
	if r.stopped() {
		return r
	}
	if g.V == nil {
		r.event("nil-at-END")
	}
	if g.Multi && isIface(s.Out) {
		r.soft(hzChunksIface)
	}
	r.Val, r.OutMulti, r.OutSTy = g.V, g.Multi, g.STy
	return r
}
