package c04

// Typed sub-workload, part 1: the type universe, the values that flow, their canonical
// rendering, the harness's own chunk splitter and concatenator.
//
// The gspec workload of this check only ever moves map[string]any with string leaves. Here the
// node types are string, any, a named interface, a pointer, a struct and a map; values can be an
// untyped nil, a typed nil pointer, a nil map, and maps can hold nil under a key.

import (
	"fmt"
	"reflect"
	"sort"
	"strconv"
	"strings"

	"verifharness/internal/mon"
)

// Rec is the struct of the universe. X is interface-typed (may hold nil), P a pointer, M a map.
type Rec struct {
	S string
	X any
	P *Rec
	M map[string]any
}

// Name makes *Rec (not Rec) implement Named; it is nil-safe so that a typed nil pointer is a
// perfectly usable Named.
func (r *Rec) Name() string {
	if r == nil {
		return "<nil-rec>"
	}
	return r.S
}

// Lbl is a value type that implements Named.
type Lbl struct{ L string }

func (l Lbl) Name() string { return l.L }

// Named is the named interface of the universe.
type Named interface{ Name() string }

type ty int

const (
	tStr ty = iota
	tAny
	tNamed
	tPtr
	tRec
	tMap
	nTy
)

var tyNames = [nTy]string{"string", "any", "Named", "*Rec", "Rec", "map"}

func (t ty) String() string { return tyNames[t] }

var rtypes = [nTy]reflect.Type{
	reflect.TypeOf(""),
	reflect.TypeOf((*any)(nil)).Elem(),
	reflect.TypeOf((*Named)(nil)).Elem(),
	reflect.TypeOf(&Rec{}),
	reflect.TypeOf(Rec{}),
	reflect.TypeOf(map[string]any{}),
}

func isIface(t ty) bool { return t == tAny || t == tNamed }

// lat: what eino's compile-time check says about an edge from a declared type to a declared type.
type lat int

const (
	latMustNot lat = iota
	latMust
	latMay
)

func latOf(from, to ty) lat {
	f, t := rtypes[from], rtypes[to]
	if f == t {
		return latMust
	}
	if t.Kind() == reflect.Interface && f.Implements(t) {
		return latMust
	}
	if f.Kind() == reflect.Interface && t.Implements(f) {
		return latMay
	}
	return latMustNot
}

// dynOK: may the dynamic value v be handed to something declared as `to` (what a type assertion,
// and nil-is-fine-for-interfaces, accept).
func dynOK(v any, to ty) bool {
	if v == nil {
		return isIface(to)
	}
	vt := reflect.TypeOf(v)
	t := rtypes[to]
	if vt == t {
		return true
	}
	return t.Kind() == reflect.Interface && vt.Implements(t)
}

// nilable: kinds for which a field mapping accepts an untyped nil.
func nilable(t ty) bool { return t == tAny || t == tNamed || t == tPtr || t == tMap }

// as is v.(T) that lets an untyped nil through as the zero T.
func as[T any](v any) (T, error) {
	if v == nil {
		var z T
		return z, nil
	}
	t, ok := v.(T)
	if !ok {
		var z T
		return z, fmt.Errorf("harness: got a %T where a %T was declared", v, z)
	}
	return t, nil
}

// dyn: what a node puts into its output.
type dyn int

const (
	dStr    dyn = iota // a string
	dNil               // the untyped nil (interface-typed outputs only)
	dMap               // a non-nil map[string]any
	dNilMap            // map[string]any(nil)
	dPtr               // &Rec{...}
	dNilPtr            // (*Rec)(nil)
	dRec               // Rec{...}
	dLbl               // Lbl{...}
	dSame              // the input itself (declared input type == declared output type)
)

var dynNames = []string{"str", "nil", "map", "nilmap", "ptr", "nilptr", "rec", "lbl", "same"}

func (d dyn) String() string { return dynNames[d] }

func dynsFor(t ty) []dyn {
	switch t {
	case tStr:
		return []dyn{dStr}
	case tAny:
		return []dyn{dStr, dNil, dMap, dNilMap, dPtr, dNilPtr, dRec, dLbl}
	case tNamed:
		return []dyn{dNil, dPtr, dNilPtr, dLbl}
	case tPtr:
		return []dyn{dPtr, dNilPtr}
	case tRec:
		return []dyn{dRec}
	case tMap:
		return []dyn{dMap, dNilMap}
	}
	return nil
}

// leaf: one entry of a produced map (or the X / M parts of a produced Rec).
type leaf struct {
	K    string
	Kind dyn // dStr, dNil, dPtr
}

// ---- canonical rendering ----------------------------------------------------------------

// canon renders a value of the universe. It tells the untyped nil, the typed nil pointer and
// the map apart; a nil map and an empty map are the same thing (concatenating map chunks builds
// a fresh map).
func canon(v any) string {
	switch x := v.(type) {
	case nil:
		return "nil"
	case string:
		return strconv.Quote(x)
	case *Rec:
		if x == nil {
			return "(*Rec)nil"
		}
		return "&" + canonRec(*x)
	case Rec:
		return canonRec(x)
	case Lbl:
		return "Lbl{" + strconv.Quote(x.L) + "}"
	case map[string]any:
		ks := make([]string, 0, len(x))
		for k := range x {
			ks = append(ks, k)
		}
		sort.Strings(ks)
		var b strings.Builder
		b.WriteString("map{")
		for i, k := range ks {
			if i > 0 {
				b.WriteByte(',')
			}
			b.WriteString(k)
			b.WriteByte(':')
			b.WriteString(canon(x[k]))
		}
		b.WriteByte('}')
		return b.String()
	default:
		return fmt.Sprintf("?%T(%v)", v, v)
	}
}

func canonRec(r Rec) string {
	return "Rec{S:" + strconv.Quote(r.S) + ",X:" + canon(r.X) + ",P:" + canon(r.P) + ",M:" + canon(r.M) + "}"
}

func isZeroRec(r Rec) bool { return r.S == "" && r.X == nil && r.P == nil && r.M == nil }

// isNilish: the untyped nil, a nil pointer, a nil map (what the "nil" branch rule looks at).
func isNilish(v any) bool {
	switch x := v.(type) {
	case nil:
		return true
	case *Rec:
		return x == nil
	case map[string]any:
		return x == nil
	}
	return false
}

// ---- making values -----------------------------------------------------------------------

// make builds the dynamic value d from the seed string s. The content depends on s only, so a
// node's output is a function of (its key, the canonical form of its input).
func makeVal(d dyn, s string, leaves []leaf, xKind dyn, withP bool, mLeaves []leaf) any {
	switch d {
	case dStr:
		return s
	case dNil:
		return nil
	case dMap:
		return makeMap(s, leaves)
	case dNilMap:
		return map[string]any(nil)
	case dPtr:
		r := makeRec(s, xKind, withP, mLeaves)
		return &r
	case dNilPtr:
		return (*Rec)(nil)
	case dRec:
		return makeRec(s, xKind, withP, mLeaves)
	case dLbl:
		return Lbl{L: s}
	}
	panic("makeVal: bad dyn")
}

func makeLeaf(s string, l leaf) any {
	switch l.Kind {
	case dNil:
		return nil
	case dPtr:
		return &Rec{S: s + "." + l.K}
	default:
		return s + "." + l.K
	}
}

func makeMap(s string, leaves []leaf) map[string]any {
	m := make(map[string]any, len(leaves))
	for _, l := range leaves {
		m[l.K] = makeLeaf(s, l)
	}
	return m
}

func makeRec(s string, xKind dyn, withP bool, mLeaves []leaf) Rec {
	r := Rec{S: s}
	switch xKind {
	case dStr:
		r.X = s + ".x"
	case dMap:
		r.X = map[string]any{"xk": s + ".xk"}
	case dPtr:
		r.X = &Rec{S: s + ".xp"}
	case dNilPtr:
		r.X = (*Rec)(nil)
	}
	if withP {
		r.P = &Rec{S: s + ".p"}
	}
	if mLeaves != nil {
		r.M = makeMap(s+".m", mLeaves)
	}
	return r
}

// ---- splitting a value into chunks ----------------------------------------------------------

// splitVal cuts a value of the declared type `static` into stream chunks whose concatenation is
// the value again. Only what eino documents as concatenable is cut: strings (also empty pieces)
// and maps declared as maps (keys spread over chunks, string leaves cut, an extra empty chunk). A
// value of any other declared type is one chunk; an untyped nil may come as several nil chunks.
func splitVal(v any, static ty, r *mon.Rand, atomic bool) []any {
	if atomic {
		return []any{v}
	}
	switch x := v.(type) {
	case nil:
		if r.Prob(0.25) {
			return []any{nil, nil}
		}
		return []any{nil}
	case string:
		if static != tStr {
			return []any{v}
		}
		return anyStrs(splitStr(x, r))
	case map[string]any:
		if static != tMap || x == nil {
			return []any{v}
		}
		return splitMap(x, r)
	}
	return []any{v}
}

func anyStrs(ss []string) []any {
	out := make([]any, len(ss))
	for i, s := range ss {
		out[i] = s
	}
	return out
}

func splitStr(s string, r *mon.Rand) []string {
	n := r.Range(1, 3)
	if n == 1 {
		return []string{s}
	}
	cuts := make([]int, n-1)
	for i := range cuts {
		cuts[i] = r.Intn(len(s) + 1)
	}
	sort.Ints(cuts)
	var out []string
	prev := 0
	for _, c := range cuts {
		out = append(out, s[prev:c])
		prev = c
	}
	out = append(out, s[prev:])
	return out
}

func splitMap(m map[string]any, r *mon.Rand) []any {
	ks := mon.SortedKeys(m)
	n := r.Range(1, 3)
	chunks := make([]map[string]any, n)
	for i := range chunks {
		chunks[i] = map[string]any{}
	}
	for _, k := range ks {
		v := m[k]
		if s, ok := v.(string); ok && n > 1 && r.Prob(0.5) {
			// a string leaf cut over two chunks, in stream order
			i := r.Intn(n - 1)
			j := i + 1 + r.Intn(n-1-i)
			c := r.Intn(len(s) + 1)
			chunks[i][k] = s[:c]
			chunks[j][k] = s[c:]
			continue
		}
		chunks[r.Intn(n)][k] = v
	}
	out := make([]any, 0, n)
	for _, c := range chunks {
		if len(c) == 0 && len(ks) > 0 && r.Prob(0.5) {
			continue // drop an empty chunk half of the time
		}
		out = append(out, c)
	}
	if len(out) == 0 {
		out = append(out, map[string]any{})
	}
	return out
}

// ---- concatenating chunks ---------------------------------------------------------------------

// joinVals is the harness's own concatenator (independent of eino's): untyped nils carry
// nothing; strings are joined; maps are merged key-wise, each key by these same rules; of any
// other type at most one chunk may be non-zero.
func joinVals(chunks []any) (any, error) {
	if len(chunks) == 0 {
		return nil, fmt.Errorf("no chunk at all")
	}
	var nn []any
	for _, c := range chunks {
		if c != nil {
			nn = append(nn, c)
		}
	}
	if len(nn) == 0 {
		return nil, nil
	}
	t0 := reflect.TypeOf(nn[0])
	for _, c := range nn[1:] {
		if reflect.TypeOf(c) != t0 {
			return nil, fmt.Errorf("chunks of different dynamic types %v and %T", t0, c)
		}
	}
	switch nn[0].(type) {
	case string:
		var b strings.Builder
		for _, c := range nn {
			b.WriteString(c.(string))
		}
		return b.String(), nil
	case map[string]any:
		if len(nn) == 1 {
			return nn[0], nil
		}
		per := map[string][]any{}
		for _, c := range nn {
			for k, v := range c.(map[string]any) {
				per[k] = append(per[k], v)
			}
		}
		out := make(map[string]any, len(per))
		for _, k := range mon.SortedKeys(per) {
			v, err := joinVals(per[k])
			if err != nil {
				return nil, fmt.Errorf("key %q: %w", k, err)
			}
			out[k] = v
		}
		return out, nil
	case *Rec:
		var keep any = (*Rec)(nil)
		n := 0
		for _, c := range nn {
			if c.(*Rec) != nil {
				keep = c
				n++
			}
		}
		if n > 1 {
			return nil, fmt.Errorf("%d non-nil *Rec chunks", n)
		}
		return keep, nil
	case Rec:
		var keep any = Rec{}
		n := 0
		for _, c := range nn {
			if !isZeroRec(c.(Rec)) {
				keep = c
				n++
			}
		}
		if n > 1 {
			return nil, fmt.Errorf("%d non-zero Rec chunks", n)
		}
		return keep, nil
	case Lbl:
		var keep any = Lbl{}
		n := 0
		for _, c := range nn {
			if c.(Lbl) != (Lbl{}) {
				keep = c
				n++
			}
		}
		if n > 1 {
			return nil, fmt.Errorf("%d non-zero Lbl chunks", n)
		}
		return keep, nil
	}
	return nil, fmt.Errorf("chunk of unknown type %T", nn[0])
}
