package c04

// Typed sub-workload, part 3: the generator. A program is grown segment by segment while the
// reference evaluates it on the chosen input, so that the generator knows the dynamic value
// that flows and can decide, with PRNG-chosen probabilities, between a well-typed continuation, a
// continuation that must fail its run-time check in every paradigm, and one of the situations
// the open findings are about.

import (
	"fmt"

	"verifharness/internal/mon"
)

type tgen struct {
	r       *mon.Rand
	maxSegs int
	maxNest int
	nkey    int
	// merged: a fan-in has been generated, so that streams of one chunk per predecessor exist.
	// From then on no field mapping targets a struct field: concatenating partial structs is the
	// (C15) open finding stream-struct-fan-in, not what this check is about.
	merged bool
	// lazyBias: this case prefers nodes that hand their input stream on unread
	lazyBias bool
	// noPre: no pipeline nodes (typed_builtin_test.go) here: the members of a chain's parallel /
	// branch are single nodes
	noPre bool
	// pConv, pPre: how often a lambda node becomes a lazily failing converter / a pipeline around a
	// built-in lambda
	pConv, pPre float64
}

// fillOrSpecial: the body and output side of the lambda node n, whose declared input type is
// chosen; v is the value the reference expects at its input (if known).
func (g *tgen) fillOrSpecial(n *tnode, v any, known bool, allowSame bool) {
	r := g.r
	switch {
	case allowSame && r.Prob(g.pConv):
		g.genConv(n, v, known)
	case !g.noPre && r.Prob(g.pPre):
		g.genPre(n)
	default:
		g.fill(n, allowSame)
	}
}

var keyAlphabet = []string{"a", "b", "c", "d"}

func (g *tgen) key() string {
	g.nkey++
	return fmt.Sprintf("n%d", g.nkey)
}

func (g *tgen) para() int {
	return 1 + g.r.Intn(15)
}

// genInput: a value of the declared type t.
func (g *tgen) genInput(t ty) any {
	r := g.r
	s := r.Str(1, 6)
	switch t {
	case tStr:
		return s
	case tAny:
		d := mon.PickOne(r, []dyn{dNil, dNil, dStr, dMap, dPtr, dNilPtr, dRec})
		return g.inputOf(d, s)
	case tNamed:
		return g.inputOf(mon.PickOne(r, []dyn{dNil, dNil, dPtr, dNilPtr, dLbl}), s)
	case tPtr:
		return g.inputOf(mon.PickOne(r, []dyn{dPtr, dPtr, dNilPtr}), s)
	case tRec:
		return g.inputOf(dRec, s)
	case tMap:
		return g.inputOf(mon.PickOne(r, []dyn{dMap, dMap, dMap, dNilMap}), s)
	}
	return s
}

func (g *tgen) inputOf(d dyn, s string) any {
	return makeVal(d, s, g.leaves(1, 3), g.xKind(), g.r.Bool(), g.mLeaves())
}

func (g *tgen) leaves(lo, hi int) []leaf {
	n := g.r.Range(lo, hi)
	perm := g.r.Perm(len(keyAlphabet))
	var out []leaf
	for i := 0; i < n; i++ {
		out = append(out, leaf{K: keyAlphabet[perm[i]], Kind: mon.PickOne(g.r, []dyn{dStr, dStr, dStr, dNil, dPtr})})
	}
	return out
}

func (g *tgen) xKind() dyn {
	return mon.PickOne(g.r, []dyn{dNil, dNil, dStr, dMap, dPtr, dNilPtr})
}

func (g *tgen) mLeaves() []leaf {
	if g.r.Prob(0.4) {
		return nil
	}
	return g.leaves(1, 2)
}

// staticOK: the declared types the compile-time check lets follow `from`.
func followers(from ty) []ty {
	var out []ty
	for t := ty(0); t < nTy; t++ {
		if latOf(from, t) != latMustNot {
			out = append(out, t)
		}
	}
	return out
}

// chooseIn: a declared input type for a consumer of the values ps (declared types and dynamic
// values known). Mostly one the dynamic values fit, sometimes one whose run-time check fails.
func (g *tgen) chooseIn(ps []pend, pFit float64) ty {
	var all, fit []ty
	for t := ty(0); t < nTy; t++ {
		ok, dok := true, true
		for _, p := range ps {
			if latOf(p.Ty, t) == latMustNot {
				ok = false
			}
			if !dynOK(p.V, t) {
				dok = false
			}
		}
		if ok {
			all = append(all, t)
			if dok {
				fit = append(fit, t)
			}
		}
	}
	if len(fit) > 0 && g.r.Prob(pFit) {
		return mon.PickOne(g.r, fit)
	}
	if len(all) == 0 {
		return tAny // cannot happen: any follows everything
	}
	return mon.PickOne(g.r, all)
}

// fill: the output side of a lambda node.
func (g *tgen) fill(n *tnode, allowSame bool) {
	r := g.r
	n.Para = g.para()
	n.Seed = r.Uint64()
	pSame := 0.3
	if g.lazyBias {
		pSame = 0.75
	}
	if allowSame && r.Prob(pSame) {
		n.Out = n.In
		n.Dyn = dSame
		if g.lazyBias {
			n.Para |= pT // a chain of stream-transparent nodes: the first reader is far downstream, often the caller
		}
		n.Lazy = n.Para&pT != 0 && (g.lazyBias || r.Prob(0.75))
		return
	}
	n.Out = mon.PickOne(r, []ty{tStr, tStr, tAny, tAny, tAny, tNamed, tPtr, tRec, tMap, tMap})
	ds := dynsFor(n.Out)
	n.Dyn = mon.PickOne(r, ds)
	if isIface(n.Out) && r.Prob(0.3) {
		n.Dyn = dNil
	}
	n.Leaves = g.leaves(1, 2)
	n.XKind = g.xKind()
	n.WithP = r.Bool()
	n.MLeaves = g.mLeaves()
}

// genNode: a consumer of ps (plain edges). cont tells what the container allows.
func (g *tgen) genNode(ps []pend, cont string, depth int, allowPass bool) *tnode {
	r := g.r
	n := &tnode{Key: g.key()}
	// a pass-through node (graphs only, single predecessor)
	if allowPass && len(ps) == 1 && (cont == "pregel" || cont == "dag") && r.Prob(0.06) {
		n.Pass = true
		n.In, n.Out = ps[0].Ty, ps[0].Ty
		return n
	}
	// an input key: the predecessor(s) must be able to hand over a map
	keyed := false
	if cont != "workflow" && r.Prob(0.22) {
		okStatic := true
		for _, p := range ps {
			if latOf(p.Ty, tMap) == latMustNot {
				okStatic = false
			}
		}
		if okStatic {
			// what will arrive, if it is a map at all
			probe := &rres{}
			v := probe.deliver(ps, tMap).V
			if m, ok := v.(map[string]any); ok && !probe.stopped() {
				keyed = true
				ks := mon.SortedKeys(m)
				if len(ks) > 0 && r.Prob(0.85) {
					n.InKey = mon.PickOne(r, ks)
					under := m[n.InKey]
					var fit []ty
					for t := ty(0); t < nTy; t++ {
						if dynOK(under, t) {
							fit = append(fit, t)
						}
					}
					if r.Prob(0.85) && len(fit) > 0 {
						n.In = mon.PickOne(r, fit)
					} else {
						n.In = ty(r.Intn(int(nTy)))
					}
				} else {
					n.InKey = "zz" // a key that never shows up
					n.In = ty(r.Intn(int(nTy)))
				}
			} else if r.Prob(0.3) {
				// not a map at run time (e.g. nil): the run-time check of the key wrapper must fail everywhere
				keyed = true
				n.InKey = mon.PickOne(r, keyAlphabet)
				n.In = ty(r.Intn(int(nTy)))
			}
		}
	}
	if !keyed {
		n.In = g.chooseIn(ps, 0.88)
	}
	// the value the reference expects at the node's input
	var v any
	known := true
	if n.InKey != "" {
		probe2 := &rres{}
		m := probe2.deliver(ps, tMap).V
		if mm, ok := m.(map[string]any); ok {
			v = mm[n.InKey]
		}
		if !dynOK(v, n.In) {
			v, known = g.genInput(n.In), false
		}
	} else {
		probe := &rres{}
		v = probe.deliver(ps, n.In).V
		if probe.stopped() {
			v, known = g.genInput(n.In), false
		}
	}
	// a nested program
	if depth < g.maxNest && r.Prob(0.14) {
		subCont := mon.PickOne(r, []string{"pregel", "dag", "chain", "workflow"})
		n.Sub = g.genSpec(subCont, n.In, v, depth+1)
		n.Out = n.Sub.Out
		n.Para = pI | pT
	} else {
		g.fillOrSpecial(n, v, known, true)
	}
	if cont != "workflow" && r.Prob(0.2) {
		n.OutKey = mon.PickOne(r, keyAlphabet)
	}
	return n
}

// genSpec grows a program of container kind cont for the input `in` declared as inTy.
func (g *tgen) genSpec(cont string, inTy ty, in any, depth int) *tspec {
	r := g.r
	s := &tspec{Cont: cont, In: inTy}
	defer func(old bool) { g.noPre = old }(g.noPre)
	g.noPre = false // (a restriction of the surrounding container does not reach into a nested program)
	nseg := r.Range(1, g.maxSegs)
	if depth > 0 {
		nseg = r.Range(1, 2)
	}
	cur := []pend{{V: in, Ty: inTy, STy: inTy}}
	lastKind := "start"
	for i := 0; i < nseg; i++ {
		kind := "node"
		if lastKind == "node" || lastKind == "start" {
			switch x := r.Intn(10); {
			case x < 2:
				kind = "par"
			case x < 4 && cont != "workflow":
				kind = "branch"
			case x < 5 && cont == "workflow":
				kind = "switch"
			}
		}
		sg := &tseg{Kind: kind}
		switch kind {
		case "node":
			var n *tnode
			if cont == "workflow" {
				n = g.genWorkflowNode(s, cur, depth)
			} else {
				n = g.genNode(cur, cont, depth, lastKind == "node" || lastKind == "start")
			}
			sg.Nodes = []*tnode{n}
		case "par":
			sg.Nodes = g.genPar(s, cur, cont, depth)
		case "branch":
			g.genBranch(sg, cur, cont, depth)
		case "switch":
			g.merged = true
			g.genSwitch(s, sg, cur, depth, lastKind == "start")
		}
		s.Segs = append(s.Segs, sg)
		// follow the value
		probe := evalSpecPrefix(s, in)
		cur = probe.cur
		lastKind = kind
		if probe.res.stopped() && r.Prob(0.5) {
			// nothing defined flows past this point: often end the program here (otherwise
			// it goes on with stand-in values, the rest only has to be well-formed)
			break
		}
	}
	g.genEnd(s, cur)
	return s
}

type prefixEval struct {
	res *rres
	cur []pend
}

// evalSpecPrefix evaluates the segments generated so far and returns what would be delivered to
// the next consumer (stand-ins of the declared types if the evaluation stops on the way).
func evalSpecPrefix(s *tspec, in any) prefixEval {
	r := &rres{}
	cur := r.segs(s, []pend{{V: in, Ty: s.In, STy: s.In}}, refEnv{})
	return prefixEval{r, cur}
}

// genPar: 2-3 parallel nodes that fan in at the next consumer.
func (g *tgen) genPar(s *tspec, cur []pend, cont string, depth int) []*tnode {
	r := g.r
	g.merged = true
	k := r.Range(2, 3)
	mode := "keys"
	if cont == "pregel" || cont == "dag" {
		mode = mon.PickOne(r, []string{"keys", "keys", "maps", "maps", "dupkey", "anymaps", "anynil", "mixed"})
	}
	perm := r.Perm(len(keyAlphabet))
	var nodes []*tnode
	// (any-predecessor mode: the arms of a fan-in must be equally long, a pipeline of several real
	// nodes would make the consumer run twice)
	defer func(old bool) { g.noPre = old }(g.noPre)
	g.noPre = cont == "chain" || cont == "pregel"
	for i := 0; i < k; i++ {
		var n *tnode
		if cont == "workflow" {
			n = g.genWorkflowNode(s, cur, depth)
		} else {
			n = g.genNode(cur, cont, depth, false)
		}
		defer g.normPre(n)
		n.OutKey = ""
		switch mode {
		case "keys":
			n.OutKey = keyAlphabet[perm[i]]
			if cont == "workflow" {
				n.OutKey = "" // the workflow joins through ToField mappings
			}
		case "maps":
			if n.Sub == nil {
				n.Out, n.Dyn = tMap, dMap
				n.Lazy = false
				n.Leaves = []leaf{{K: keyAlphabet[perm[i]], Kind: mon.PickOne(r, []dyn{dStr, dStr, dNil, dPtr})}}
				if r.Prob(0.1) {
					n.Dyn = dNilMap
				}
			} else {
				n.OutKey = keyAlphabet[perm[i]]
			}
		case "dupkey":
			// at least two predecessors deliver the same key
			kk := keyAlphabet[perm[i]]
			if i == 1 {
				kk = keyAlphabet[perm[0]]
			}
			if n.Sub == nil && r.Bool() {
				n.Out, n.Dyn = tMap, dMap
				n.Lazy = false
				n.Leaves = []leaf{{K: kk, Kind: mon.PickOne(r, []dyn{dStr, dStr, dPtr})}}
			} else {
				n.OutKey = kk
			}
		case "anymaps":
			if n.Sub == nil {
				n.Out, n.Dyn = tAny, dMap
				n.Lazy = false
				n.Leaves = []leaf{{K: keyAlphabet[perm[i]], Kind: dStr}}
				if i > 0 && r.Prob(0.3) {
					n.Out = tMap
				}
			} else {
				n.OutKey = keyAlphabet[perm[i]]
			}
		case "anynil":
			if n.Sub == nil {
				n.Out, n.Lazy = tAny, false
				n.Dyn = mon.PickOne(r, []dyn{dNil, dNil, dMap})
				n.Leaves = []leaf{{K: keyAlphabet[perm[i]], Kind: dStr}}
			} else {
				n.OutKey = keyAlphabet[perm[i]]
			}
		case "mixed":
			// whatever genNode chose
			if r.Bool() {
				n.OutKey = keyAlphabet[perm[i]]
			}
		}
		nodes = append(nodes, n)
	}
	return nodes
}

func (g *tgen) genBranch(sg *tseg, cur []pend, cont string, depth int) {
	r := g.r
	sg.CondTy = g.chooseIn(cur, 0.9)
	sg.CondStream = r.Bool()
	sg.CondRule = mon.PickOne(r, []string{"nil", "nil", "hash", "type"})
	k := r.Range(2, 3)
	if sg.CondRule == "nil" {
		k = 2
	}
	var outTy ty
	outKeyed := r.Prob(0.15)
	defer func(old bool) { g.noPre = old }(g.noPre)
	g.noPre = cont == "chain"
	if sg.CondRule == "type" {
		defer g.typeSwitchTargets(sg, cur)
	}
	for i := 0; i < k; i++ {
		n := g.genNode(cur, cont, depth, false)
		defer g.normPre(n)
		n.OutKey = ""
		if i == 0 {
			outTy = n.Out
		} else if n.Out != outTy {
			// all targets declare the same output type
			if n.Sub != nil {
				n.Sub = nil
				g.fill(n, false)
			}
			if n.Dyn == dSame {
				g.fill(n, false)
			}
			n.Out = outTy
			n.Dyn = mon.PickOne(r, dynsFor(outTy))
			n.Lazy = false
		}
		if n.Conv != "" && (n.Out != n.In || n.Dyn != dSame) {
			n.Conv = "" // re-typed: an ordinary node
		}
		if outKeyed {
			n.OutKey = "k"
		}
		sg.Nodes = append(sg.Nodes, n)
	}
}

// genEnd: the declared output type of the program (and, in a workflow, the mapping into END).
func (g *tgen) genEnd(s *tspec, cur []pend) {
	r := g.r
	if s.Cont == "workflow" {
		g.genWorkflowEnd(s, cur)
		return
	}
	if len(cur) > 1 {
		// fan-in at END
		allMap := true
		for _, p := range cur {
			if p.Ty != tMap {
				allMap = false
			}
		}
		if allMap && r.Prob(0.7) {
			s.Out = tMap
			return
		}
	}
	s.Out = g.chooseIn(cur, 0.9)
}

// ---- workflow --------------------------------------------------------------------------------

var recFields = []string{"S", "X", "P", "M"}

// genWorkflowNode: a workflow node fed by cur: over a plain whole-to-whole input, a field
// mapping (single predecessor) or ToField mappings (fan-in).
func (g *tgen) genWorkflowNode(s *tspec, cur []pend, depth int) *tnode {
	r := g.r
	if len(cur) > 1 {
		n := &tnode{Key: g.key()}
		n.In = mon.PickOne(r, []ty{tMap, tMap, tAny})
		perm := r.Perm(len(keyAlphabet))
		for i := range cur {
			n.JoinKeys = append(n.JoinKeys, "j"+keyAlphabet[perm[i]])
		}
		probe := &rres{}
		v := probe.consume(cur, n.In, nil, n.JoinKeys).V
		g.fillOrSpecial(n, v, !probe.stopped(), true)
		return n
	}
	p := cur[0]
	if r.Prob(0.45) {
		return g.genNode(cur, "workflow", depth, false)
	}
	n := &tnode{Key: g.key()}
	m, in := g.genMapping(p)
	n.Map, n.In = m, in
	probe := &rres{}
	v := probe.mapOne(p.V, p.Ty, m, in)
	g.fillOrSpecial(n, v, !probe.stopped(), true)
	if s != nil && m.To != "" && (in == tRec || in == tPtr) {
		s.Atomic = true
	}
	return n
}

// genMapping: a mapping from p to a successor; returns the mapping and the successor's declared
// input type.
func (g *tgen) genMapping(p pend) (*fmapSpec, ty) {
	r := g.r
	m := &fmapSpec{}
	ft := p.Ty
	taken := p.V
	canFrom := p.Ty == tRec || p.Ty == tPtr || p.Ty == tMap
	if x, ok := p.V.(map[string]any); ok && p.Ty == tMap && r.Prob(0.3) {
		// a pointer under a key of a map, mapped onto the whole input of a pointer-typed successor
		var ks []string
		for _, k := range mon.SortedKeys(x) {
			if _, isPtr := x[k].(*Rec); isPtr {
				ks = append(ks, k)
			}
		}
		if len(ks) > 0 {
			m.From = mon.PickOne(r, ks)
			return m, tPtr
		}
	}
	if canFrom && r.Prob(0.7) {
		switch x := p.V.(type) {
		case map[string]any:
			ks := mon.SortedKeys(x)
			if len(ks) > 0 && r.Prob(0.85) {
				m.From = mon.PickOne(r, ks)
				taken = x[m.From]
			} else {
				m.From = "zz" // a key that never shows up
				taken = nil
			}
			ft = tAny
		case Rec:
			m.From = mon.PickOne(r, recFields)
			taken = recField(x, m.From)
			ft, _ = fieldTy(tRec, m.From)
		case *Rec:
			m.From = mon.PickOne(r, recFields)
			if x != nil {
				taken = recField(*x, m.From)
			} else {
				taken = zeroOf(func() ty { t, _ := fieldTy(tRec, m.From); return t }())
			}
			ft, _ = fieldTy(tRec, m.From)
		}
	}
	// the target: the whole input, or a field / key of it
	toWhole := m.From != "" && r.Prob(0.5)
	if toWhole {
		return m, g.chooseIn([]pend{{V: taken, Ty: ft, STy: ft}}, 0.85)
	}
	// candidates (successor type, field) whose field type may take ft
	type cand struct {
		in  ty
		to  string
		fit bool
	}
	var cands []cand
	for _, in := range []ty{tRec, tPtr} {
		if g.merged {
			break
		}
		for _, f := range recFields {
			tft, _ := fieldTy(in, f)
			if latOf(ft, tft) != latMustNot {
				fit := dynOK(taken, tft) || (taken == nil && nilable(tft))
				cands = append(cands, cand{in, f, fit})
			}
		}
	}
	for _, in := range []ty{tMap, tAny} {
		cands = append(cands, cand{in, "t" + mon.PickOne(r, keyAlphabet), true})
		cands = append(cands, cand{in, "t" + mon.PickOne(r, keyAlphabet), true})
	}
	var fits []cand
	for _, c := range cands {
		if c.fit {
			fits = append(fits, c)
		}
	}
	c := mon.PickOne(r, cands)
	if r.Prob(0.85) {
		c = mon.PickOne(r, fits)
	}
	m.To = c.to
	return m, c.in
}

func (g *tgen) genWorkflowEnd(s *tspec, cur []pend) {
	r := g.r
	if len(cur) > 1 {
		s.Out = mon.PickOne(r, []ty{tMap, tMap, tAny})
		perm := r.Perm(len(keyAlphabet))
		for i := range cur {
			s.EndJoin = append(s.EndJoin, "j"+keyAlphabet[perm[i]])
		}
		return
	}
	if r.Prob(0.6) {
		s.Out = g.chooseIn(cur, 0.9)
		return
	}
	m, out := g.genMapping(cur[0])
	s.EndMap, s.Out = m, out
	if m.To != "" && (out == tRec || out == tPtr) {
		s.Atomic = true
	}
}
