package c04

// Typed sub-workload, part 5: running a program in the four paradigms and judging it.
//
// Oracle. The reference evaluation of the spec gives one of: a value, "must fail", "undefined".
//   value     -> every paradigm must deliver exactly that value (stream outputs concatenated by
//                the harness's own concatenator);
//   must fail -> every paradigm must report a failure (at call time or as an error item);
//   undefined -> (the situations of the open findings: two fan-in predecessors with the same
//                key, a fan-in of `any`-typed outputs that hold maps, an input key / a mapped
//                source key that never shows up) the four paradigms must still agree with each
//                other: all fail, or all deliver the same value.
// In every case: no panic on the caller's goroutine, no hang (quiescence monitor).

import (
	"context"
	"fmt"
	"strings"
	"time"

	"verifharness/internal/gspec"
	"verifharness/internal/mon"
)

type tobs struct {
	Para   string
	Failed bool
	Err    string
	Panic  *mon.Panic
	Stuck  bool
	Where  string
	Val    string // canonical form of the (concatenated) value
	Chunks int
}

func (o tobs) String() string {
	switch {
	case o.Panic != nil:
		return o.Para + ": PANIC " + o.Panic.Value
	case o.Stuck:
		return o.Para + ": HANG at " + o.Where
	case o.Failed:
		e := o.Err
		if len(e) > 260 {
			e = e[:260] + "..."
		}
		return o.Para + ": failure: " + e
	}
	return fmt.Sprintf("%s: value %s (%d chunk(s))", o.Para, o.Val, o.Chunks)
}

func callTyped(ctx context.Context, c caller, para string, in any, chunks []any, pipeCap int) (tobs, mon.WaitResult) {
	o := tobs{Para: para}
	var out callOut
	var p *mon.Panic
	done := make(chan struct{})
	go func() {
		defer close(done)
		p = mon.Safe(func() { out = c(ctx, para, in, chunks, pipeCap) })
	}()
	res, dump := mon.WaitDone(done, 120*time.Second)
	if res == mon.Stuck {
		o.Stuck = true
		where, detail := gspec.StuckSignature(dump)
		o.Where, o.Err = where, detail
		return o, res
	}
	if res != mon.Finished {
		return o, res
	}
	if p != nil {
		o.Panic = p
		return o, res
	}
	if out.Err != nil {
		o.Failed, o.Err = true, out.Err.Error()
		return o, res
	}
	o.Chunks = len(out.Vals)
	v, err := joinVals(out.Vals)
	if err != nil {
		o.Val = "!not-concatenable(" + err.Error() + ")"
		return o, res
	}
	o.Val = canon(v)
	return o, res
}

// panicFrame: the eino function in which the (original) panic was raised. With nested panics (a
// deferred function panicking again) the stack lists the latest first: the origin is the frame
// below the last "panic(" entry.
func panicFrame(p *mon.Panic) string {
	lines := strings.Split(p.Stack, "\n")
	start := 0
	for i, l := range lines {
		if strings.HasPrefix(l, "panic(") {
			start = i + 1
		}
	}
	for _, l := range lines[start:] {
		if strings.HasPrefix(l, "\t") || !strings.Contains(l, "github.com/cloudwego/eino/") {
			continue
		}
		f := l[strings.Index(l, "github.com/cloudwego/eino/")+len("github.com/cloudwego/eino/"):]
		if i := strings.LastIndexByte(f, '('); i > 0 {
			f = f[:i]
		}
		f = strings.ReplaceAll(f, "[...]", "")
		return strings.TrimSpace(f)
	}
	return "unknown-frame"
}

func hasSub(s *tspec) bool {
	for _, sg := range s.Segs {
		for _, n := range sg.allNodes() {
			if n.Sub != nil {
				return true
			}
		}
	}
	return false
}

// specKinds: which of the constructs of the second coverage round a program holds.
func specKinds(s *tspec) []string {
	set := map[string]bool{}
	var walk func(s *tspec)
	walk = func(s *tspec) {
		for _, sg := range s.Segs {
			if sg.Kind == "switch" {
				set["switch"] = true
			}
			if sg.Kind == "branch" && sg.CondRule == "type" {
				set["type-switch-branch"] = true
			}
			for _, n := range sg.allNodes() {
				if n.Sub != nil {
					walk(n.Sub)
				}
				if n.Conv != "" {
					set["converter-"+n.Conv] = true
				}
				if n.Pre != "" {
					set["builtin-"+n.Pre] = true
				}
			}
		}
	}
	walk(s)
	return mon.SortedKeys(set)
}

func countNodes(s *tspec) (n int, types map[ty]bool, paras map[int]bool) {
	types, paras = map[ty]bool{}, map[int]bool{}
	var walk func(s *tspec)
	walk = func(s *tspec) {
		types[s.In], types[s.Out] = true, true
		for _, sg := range s.Segs {
			for _, nd := range sg.allNodes() {
				if nd.Sub != nil {
					walk(nd.Sub)
					continue
				}
				n++
				types[nd.In], types[nd.Out] = true, true
				if !nd.Pass {
					paras[nd.Para] = true
				}
			}
		}
	}
	walk(s)
	return
}

// typedCase generates, builds, runs and judges one typed program.
func typedCase(ctx context.Context, rep *mon.Reporter, rng *mon.Rand, cfg mon.Config, sample bool) {
	g := &tgen{r: rng, maxSegs: cfg.Pick(4, 5), maxNest: cfg.Pick(1, 2)}
	g.lazyBias = rng.Prob(0.3)
	// second coverage round: lazily failing converters, pipelines around the built-in lambdas (more
	// of either in a third of the cases)
	g.pConv, g.pPre = 0.05, 0.07
	switch rng.Intn(6) {
	case 0:
		g.pConv = 0.25
	case 1:
		g.pPre = 0.3
	}
	cont := mon.PickOne(rng, []string{"pregel", "pregel", "dag", "dag", "chain", "workflow", "workflow"})
	inTy := mon.PickOne(rng, []ty{tStr, tStr, tAny, tAny, tNamed, tPtr, tRec, tMap, tMap})
	in := g.genInput(inTy)
	spec := g.genSpec(cont, inTy, in, 0)
	env := &tenv{atomic: anyAtomic(spec)}
	ref := evalSpec(spec, pend{V: in, Ty: spec.In, Multi: !env.atomic && (splittable(in, spec.In) || in == nil), STy: spec.In}, refEnv{atomic: env.atomic})

	wit := map[string]any{"program": spec.render(), "spec": spec, "input": canon(in), "reference": ref.String(), "nil_sites": ref.allEvents()}
	b := buildSpec(spec, env)
	if b.err != nil {
		rep.Violation(ID+"/typed/build-error", "the generated program was rejected while it was declared: "+b.err.Error(), wit)
		return
	}
	call, err := b.compile(ctx)
	if err != nil {
		rep.Violation(ID+"/typed/build-error", "the generated program does not compile: "+err.Error(), wit)
		return
	}
	rep.Count("typed_cases", 1)
	rep.Count("typed_cases_"+spec.Cont, 1)
	switch {
	case ref.Hazard != "":
		rep.Count("typed_ref_undefined_"+ref.Hazard, 1)
	case ref.Fail != "":
		rep.Count("typed_ref_must_fail", 1)
		rep.Distinct("typed_failure_classes", ref.Fail)
	default:
		rep.Count("typed_ref_value", 1)
	}
	for e := range ref.Events {
		rep.Count("typed_site_"+e, 1)
	}
	for _, k := range specKinds(spec) {
		rep.Count("typed_programs_with_"+k, 1)
	}
	rep.Distinct("typed_shapes", spec.render())

	nrep := cfg.Pick(1, 2)
	var obs []tobs
	for _, para := range paras {
		reps := 1
		if para == "C" || para == "T" {
			reps = nrep
		}
		for k := 0; k < reps; k++ {
			cr := mon.NewRand(rng.Uint64())
			chunks := splitVal(in, spec.In, cr, env.atomic)
			pipeCap := []int{-1, 0, 1}[cr.Intn(3)]
			o, res := callTyped(ctx, call, para, in, chunks, pipeCap)
			rep.AddEvaluations(1)
			rep.Count("typed_runs_"+para, 1)
			if res == mon.Inconclusive {
				rep.Inconclusive("watchdog fired while goroutines were active (typed workload)")
				return
			}
			obs = append(obs, o)
			if o.Stuck {
				break
			}
		}
	}
	judgeTyped(rep, spec, ref, obs, wit)

	nodes, types, parasets := countNodes(spec)
	if nodes >= 2 && len(types) >= 2 && (len(parasets) >= 2 || hasSub(spec)) {
		rep.NonTrivial("typed|" + spec.digest() + "|" + canon(in))
	}
	if sample {
		rep.Sample(wit)
	}
}

// newSite: the run passes one of the mechanisms added in the second coverage round.
func newSite(ref *rres) bool {
	for _, e := range []string{"lazy-converter-fires", "lazy-converter-passes", "skipped-target-edge", "builtin-tolist", "builtin-msgparse", "builtin-msglist"} {
		if ref.Events[e] {
			return true
		}
	}
	return false
}

func judgeTyped(rep *mon.Reporter, spec *tspec, ref *rres, obs []tobs, wit map[string]any) {
	var lines []string
	for _, o := range obs {
		lines = append(lines, o.String())
	}
	detail := "program: " + spec.render() + "\ninput: " + fmt.Sprint(wit["input"]) + "\nreference: " + ref.String() + " (nil sites: " + ref.allEvents() + ")\nobserved:\n  " + strings.Join(lines, "\n  ")
	wit["observed"] = lines

	// panics and hangs: always violations, named after where they happen
	bad := false
	seen := map[string]bool{}
	for _, o := range obs {
		var sig string
		switch {
		case o.Panic != nil && (strings.Contains(o.Panic.Value, injectedPanic) || strings.Contains(o.Panic.Stack, "c04.convFail")):
			// the panic of a node's own per-chunk code, raised where the caller reads the output
			sig = ID + "/typed/lazy-converter/panic-on-caller/" + o.Para + "/" + panicFrame(o.Panic)
		case o.Panic != nil:
			sig = ID + "/typed/panic/" + o.Para + "/" + panicFrame(o.Panic)
		case o.Stuck:
			sig = ID + "/typed/hang/" + o.Para + "/" + o.Where
		default:
			continue
		}
		bad = true
		if !seen[sig] {
			seen[sig] = true
			extra := ""
			if o.Panic != nil {
				extra = "\npanic on the caller's goroutine: " + o.Panic.Value + "\n" + o.Panic.Stack
			} else {
				extra = "\n" + o.Err
			}
			rep.Violation(sig, detail+extra, wit)
		}
	}
	if bad {
		return
	}

	if ref.Hazard != "" {
		nfail := 0
		vals := map[string]bool{}
		for _, o := range obs {
			if o.Failed {
				nfail++
			} else {
				vals[o.Val] = true
			}
		}
		switch {
		case nfail > 0 && nfail < len(obs):
			rep.Violation(ID+"/typed/open/"+ref.Hazard+"/failure-not-in-every-paradigm", detail, wit)
		case nfail == 0 && len(vals) > 1:
			rep.Violation(ID+"/typed/open/"+ref.Hazard+"/values-differ", detail, wit)
		default:
			rep.Count("typed_undefined_but_agreeing", 1)
		}
		return
	}

	// which paradigms deviate from the reference, per class of deviation
	want := canon(ref.Val)
	dev := map[string]string{}
	for _, o := range obs {
		var class string
		switch {
		case ref.Fail != "" && !o.Failed:
			class = "missing-error"
		case ref.Fail == "" && o.Failed:
			class = "unexpected-error"
		case ref.Fail == "" && o.Val != want:
			class = "wrong-value"
		default:
			continue
		}
		if !strings.Contains(dev[class], o.Para) {
			dev[class] += o.Para
		}
	}
	if len(dev) == 0 {
		return
	}
	// the open findings in which the value forms are right (they deliver the reference value, or
	// fail where the reference fails) and only stream forms deviate
	if !strings.Contains(dev["unexpected-error"]+dev["wrong-value"]+dev["missing-error"], "I") {
		onlyBroken := ref.Fail == ""
		for _, o := range obs {
			if !o.Failed && o.Val != want && !strings.HasPrefix(o.Val, "!not-concatenable") {
				onlyBroken = false
			}
		}
		for _, m := range softOrder {
			if !ref.Soft[m] || newSite(ref) {
				// (a run that passes one of the mechanisms of the second coverage round is named after that)
				continue
			}
			switch {
			case onlyBroken:
				rep.Violation(ID+"/typed/open/"+m+"/failure-not-in-every-paradigm", detail, wit)
				return
			case m == hzPtrWhole && ref.Fail != "":
				// the spurious non-nil pointer takes the place of the nil one that makes the value forms fail
				rep.Violation(ID+"/typed/open/"+m+"/failure-not-in-every-paradigm", detail, wit)
				return
			case m == hzPtrWhole:
				// ... or of the nil one that the value forms hand on
				rep.Violation(ID+"/typed/open/"+m+"/values-differ", detail, wit)
				return
			}
		}
	}
	for _, class := range mon.SortedKeys(dev) {
		// which forms deviate: only Invoke, only forms that run the graph on streams, or both
		forms := "in-value-and-stream-forms"
		switch {
		case dev[class] == "I":
			forms = "in-invoke-only"
		case !strings.Contains(dev[class], "I"):
			forms = "in-stream-forms-only"
		}
		rep.Violation(ID+"/typed/"+ref.eventsStr()+"/"+class+"/"+forms, detail+"\ndeviating paradigms: "+dev[class], wit)
	}
}
