package c04

// Typed sub-workload, part 4: lowering a spec to eino's public API (Graph in both trigger modes,
// Chain, Workflow, nested as graph nodes), with statically instantiated generic makers for every
// pair of types of the universe.

import (
	"context"
	"fmt"
	"io"
	"os"

	"github.com/cloudwego/eino/compose"
	"github.com/cloudwego/eino/schema"

	"verifharness/internal/mon"
)

type topt struct{}

type tenv struct {
	atomic bool
}

// allNodes: the nodes of a segment, the selector of a "switch" included.
func (sg *tseg) allNodes() []*tnode {
	if sg.Sel != nil {
		return append([]*tnode{sg.Sel}, sg.Nodes...)
	}
	return sg.Nodes
}

func anyAtomic(s *tspec) bool {
	if s.Atomic {
		return true
	}
	for _, sg := range s.Segs {
		for _, n := range sg.allNodes() {
			if n.Sub != nil && anyAtomic(n.Sub) {
				return true
			}
		}
	}
	return false
}

// ---- node bodies -------------------------------------------------------------------------

func drain[I any](sr *schema.StreamReader[I]) (I, error) {
	defer sr.Close()
	var zero I
	var chunks []any
	for {
		c, err := sr.Recv()
		if err == io.EOF {
			break
		}
		if err != nil {
			return zero, err
		}
		chunks = append(chunks, any(c))
	}
	if len(chunks) == 0 {
		// a loop over Recv that sees EOF at once: the node works on the zero value
		return zero, nil
	}
	v, err := joinVals(chunks)
	if err != nil {
		return zero, fmt.Errorf("harness: the chunks handed to the node do not concatenate: %w", err)
	}
	return as[I](v)
}

func toStream[O any](chunks []any, r *mon.Rand) (*schema.StreamReader[O], error) {
	typed := make([]O, len(chunks))
	for i, c := range chunks {
		t, err := as[O](c)
		if err != nil {
			return nil, err
		}
		typed[i] = t
	}
	switch r.Intn(3) {
	case 0:
		return schema.StreamReaderFromArray(typed), nil
	default:
		sr, sw := schema.Pipe[O](r.Intn(2))
		go func() {
			defer sw.Close()
			for _, c := range typed {
				if sw.Send(c, nil) {
					return
				}
			}
		}()
		return sr, nil
	}
}

var typedTrace = os.Getenv("C04_TYPED_TRACE") != ""

func mkLambda[I, O any](n *tnode, env *tenv) *compose.Lambda {
	if n.Conv != "" {
		return mkConvLambda[I, O](n, env)
	}
	run := func(in I) (O, error) {
		if typedTrace {
			fmt.Printf("TRACE %s runs on %s\n", n.Key, canon(any(in)))
		}
		return as[O](n.body(any(in)))
	}
	emit := func(o O) (*schema.StreamReader[O], error) {
		r := mon.NewRand(n.Seed)
		chunks := splitVal(any(o), n.Out, r, env.atomic)
		if typedTrace {
			fmt.Printf("TRACE %s emits %d chunk(s): %s\n", n.Key, len(chunks), canon(map[string]any{"chunks": fmt.Sprint(len(chunks))}))
			for _, c := range chunks {
				fmt.Printf("TRACE   %s\n", canon(c))
			}
		}
		return toStream[O](chunks, r)
	}
	var (
		inv compose.Invoke[I, O, topt]
		str compose.Stream[I, O, topt]
		col compose.Collect[I, O, topt]
		tra compose.Transform[I, O, topt]
	)
	if n.Para&pI != 0 {
		inv = func(ctx context.Context, in I, _ ...topt) (O, error) { return run(in) }
	}
	if n.Para&pS != 0 {
		str = func(ctx context.Context, in I, _ ...topt) (*schema.StreamReader[O], error) {
			o, err := run(in)
			if err != nil {
				return nil, err
			}
			return emit(o)
		}
	}
	if n.Para&pC != 0 {
		col = func(ctx context.Context, sr *schema.StreamReader[I], _ ...topt) (O, error) {
			in, err := drain(sr)
			if err != nil {
				var z O
				return z, err
			}
			return run(in)
		}
	}
	if n.Para&pT != 0 {
		tra = func(ctx context.Context, sr *schema.StreamReader[I], _ ...topt) (*schema.StreamReader[O], error) {
			if n.Lazy && n.Dyn == dSame {
				// hands the stream on without reading it: the first reader is whoever comes next
				if same, ok := any(sr).(*schema.StreamReader[O]); ok && n.Seed&1 == 0 {
					return same, nil
				}
				return schema.StreamReaderWithConvert(sr, func(i I) (O, error) { return as[O](any(i)) }), nil
			}
			in, err := drain(sr)
			if err != nil {
				return nil, err
			}
			o, err := run(in)
			if err != nil {
				return nil, err
			}
			return emit(o)
		}
	}
	l, err := compose.AnyLambda(inv, str, col, tra)
	if err != nil {
		panic(err)
	}
	return l
}

func lambdaOut[I any](n *tnode, env *tenv) *compose.Lambda {
	switch n.Out {
	case tStr:
		return mkLambda[I, string](n, env)
	case tAny:
		return mkLambda[I, any](n, env)
	case tNamed:
		return mkLambda[I, Named](n, env)
	case tPtr:
		return mkLambda[I, *Rec](n, env)
	case tRec:
		return mkLambda[I, Rec](n, env)
	default:
		return mkLambda[I, map[string]any](n, env)
	}
}

func lambdaFor(n *tnode, env *tenv) *compose.Lambda {
	switch n.In {
	case tStr:
		return lambdaOut[string](n, env)
	case tAny:
		return lambdaOut[any](n, env)
	case tNamed:
		return lambdaOut[Named](n, env)
	case tPtr:
		return lambdaOut[*Rec](n, env)
	case tRec:
		return lambdaOut[Rec](n, env)
	default:
		return lambdaOut[map[string]any](n, env)
	}
}

// ---- branch conditions ----------------------------------------------------------------------

func mkGraphBranch[T any](sg *tseg, keys []string) *compose.GraphBranch {
	ends := map[string]bool{}
	for _, k := range keys {
		ends[k] = true
	}
	decide := func(v any) string { return keys[pickTarget(sg, v)] }
	if sg.CondStream {
		return compose.NewStreamGraphBranch(func(ctx context.Context, sr *schema.StreamReader[T]) (string, error) {
			v, err := drain(sr)
			if err != nil {
				return "", err
			}
			return decide(any(v)), nil
		}, ends)
	}
	return compose.NewGraphBranch(func(ctx context.Context, in T) (string, error) { return decide(any(in)), nil }, ends)
}

func graphBranchFor(sg *tseg, keys []string) *compose.GraphBranch {
	switch sg.CondTy {
	case tStr:
		return mkGraphBranch[string](sg, keys)
	case tAny:
		return mkGraphBranch[any](sg, keys)
	case tNamed:
		return mkGraphBranch[Named](sg, keys)
	case tPtr:
		return mkGraphBranch[*Rec](sg, keys)
	case tRec:
		return mkGraphBranch[Rec](sg, keys)
	default:
		return mkGraphBranch[map[string]any](sg, keys)
	}
}

func mkChainBranch[T any](sg *tseg, keys []string) *compose.ChainBranch {
	decide := func(v any) string { return keys[pickTarget(sg, v)] }
	if sg.CondStream {
		return compose.NewStreamChainBranch(func(ctx context.Context, sr *schema.StreamReader[T]) (string, error) {
			v, err := drain(sr)
			if err != nil {
				return "", err
			}
			return decide(any(v)), nil
		})
	}
	return compose.NewChainBranch(func(ctx context.Context, in T) (string, error) { return decide(any(in)), nil })
}

func chainBranchFor(sg *tseg, keys []string) *compose.ChainBranch {
	switch sg.CondTy {
	case tStr:
		return mkChainBranch[string](sg, keys)
	case tAny:
		return mkChainBranch[any](sg, keys)
	case tNamed:
		return mkChainBranch[Named](sg, keys)
	case tPtr:
		return mkChainBranch[*Rec](sg, keys)
	case tRec:
		return mkChainBranch[Rec](sg, keys)
	default:
		return mkChainBranch[map[string]any](sg, keys)
	}
}

// ---- containers ------------------------------------------------------------------------------

// callOut: what one call of one paradigm delivered (values boxed into any).
type callOut struct {
	Vals []any // Invoke/Collect: one value; Stream/Transform: the chunks read before EOF / the error
	Err  error
}

// caller calls the compiled program in one paradigm. chunks is the input cut into chunks (used by
// Collect and Transform), pipeCap < 0 an array-backed input stream.
type caller func(ctx context.Context, para string, in any, chunks []any, pipeCap int) callOut

type built struct {
	g       compose.AnyGraph
	opts    []compose.GraphCompileOption
	compile func(ctx context.Context) (caller, error)
	err     error
}

type graphAPI interface {
	AddLambdaNode(key string, node *compose.Lambda, opts ...compose.GraphAddNodeOpt) error
	AddGraphNode(key string, node compose.AnyGraph, opts ...compose.GraphAddNodeOpt) error
	AddPassthroughNode(key string, opts ...compose.GraphAddNodeOpt) error
	AddEdge(startNode, endNode string) error
	AddBranch(startNode string, branch *compose.GraphBranch) error
}

func nodeOpts(n *tnode) []compose.GraphAddNodeOpt {
	var opts []compose.GraphAddNodeOpt
	if n.InKey != "" {
		opts = append(opts, compose.WithInputKey(n.InKey))
	}
	if n.OutKey != "" {
		opts = append(opts, compose.WithOutputKey(n.OutKey))
	}
	return opts
}

func fieldMappings(m *fmapSpec) []*compose.FieldMapping {
	switch {
	case m == nil:
		return nil
	case m.From == "":
		return []*compose.FieldMapping{compose.ToField(m.To)}
	case m.To == "":
		return []*compose.FieldMapping{compose.FromField(m.From)}
	}
	return []*compose.FieldMapping{compose.MapFields(m.From, m.To)}
}

func lowerGraph(g graphAPI, s *tspec, env *tenv) error {
	var first error
	chk := func(err error) {
		if err != nil && first == nil {
			first = err
		}
	}
	add := func(n *tnode) {
		switch {
		case n.Sub != nil:
			sub := buildSpec(n.Sub, env)
			chk(sub.err)
			if sub.err != nil {
				return
			}
			opts := nodeOpts(n)
			if len(sub.opts) > 0 {
				opts = append(opts, compose.WithGraphCompileOptions(sub.opts...))
			}
			chk(g.AddGraphNode(n.Key, sub.g, opts...))
		case n.Pass:
			chk(g.AddPassthroughNode(n.Key))
		default:
			// one real node, or the pipeline around a built-in lambda: the input key goes to the
			// first, the output key to the last
			rn := realNodes(n, env)
			for i, x := range rn {
				var opts []compose.GraphAddNodeOpt
				if i == 0 && n.InKey != "" {
					opts = append(opts, compose.WithInputKey(n.InKey))
				}
				if i == len(rn)-1 && n.OutKey != "" {
					opts = append(opts, compose.WithOutputKey(n.OutKey))
				}
				chk(g.AddLambdaNode(x.key, x.l, opts...))
				if i > 0 && first == nil {
					chk(g.AddEdge(rn[i-1].key, x.key))
				}
			}
		}
	}
	prev := []string{compose.START}
	for _, sg := range s.Segs {
		var keys, exits []string
		for _, n := range sg.Nodes {
			add(n)
			keys = append(keys, entryKey(n))
			exits = append(exits, n.Key)
		}
		if first != nil {
			return first
		}
		switch sg.Kind {
		case "node", "par":
			for _, k := range keys {
				for _, p := range prev {
					chk(g.AddEdge(p, k))
				}
			}
		case "branch":
			chk(g.AddBranch(prev[0], graphBranchFor(sg, keys)))
		default:
			return fmt.Errorf("harness: a %q segment in a graph", sg.Kind)
		}
		prev = exits
	}
	for _, p := range prev {
		chk(g.AddEdge(p, compose.END))
	}
	return first
}

type chainAPI interface {
	appendLambda(l *compose.Lambda, opts ...compose.GraphAddNodeOpt)
	appendGraph(g compose.AnyGraph, opts ...compose.GraphAddNodeOpt)
	appendParallel(p *compose.Parallel)
	appendBranch(b *compose.ChainBranch)
}

type chainAdapter[I, O any] struct{ c *compose.Chain[I, O] }

func (a chainAdapter[I, O]) appendLambda(l *compose.Lambda, opts ...compose.GraphAddNodeOpt) {
	a.c.AppendLambda(l, opts...)
}
func (a chainAdapter[I, O]) appendGraph(g compose.AnyGraph, opts ...compose.GraphAddNodeOpt) {
	a.c.AppendGraph(g, opts...)
}
func (a chainAdapter[I, O]) appendParallel(p *compose.Parallel)  { a.c.AppendParallel(p) }
func (a chainAdapter[I, O]) appendBranch(b *compose.ChainBranch) { a.c.AppendBranch(b) }

func lowerChain(c chainAPI, s *tspec, env *tenv) error {
	subOf := func(n *tnode) (compose.AnyGraph, []compose.GraphAddNodeOpt, error) {
		sub := buildSpec(n.Sub, env)
		if sub.err != nil {
			return nil, nil, sub.err
		}
		var opts []compose.GraphAddNodeOpt
		if len(sub.opts) > 0 {
			opts = append(opts, compose.WithGraphCompileOptions(sub.opts...))
		}
		return sub.g, opts, nil
	}
	for _, sg := range s.Segs {
		switch sg.Kind {
		case "node":
			n := sg.Nodes[0]
			if n.Sub != nil {
				g, opts, err := subOf(n)
				if err != nil {
					return err
				}
				c.appendGraph(g, append(opts, nodeOpts(n)...)...)
			} else {
				rn := realNodes(n, env)
				for i, x := range rn {
					var opts []compose.GraphAddNodeOpt
					if i == 0 && n.InKey != "" {
						opts = append(opts, compose.WithInputKey(n.InKey))
					}
					if i == len(rn)-1 && n.OutKey != "" {
						opts = append(opts, compose.WithOutputKey(n.OutKey))
					}
					c.appendLambda(x.l, opts...)
				}
			}
		case "par":
			p := compose.NewParallel()
			for _, n := range sg.Nodes {
				var opts []compose.GraphAddNodeOpt
				if n.InKey != "" {
					opts = append(opts, compose.WithInputKey(n.InKey))
				}
				if n.Sub != nil {
					g, sopts, err := subOf(n)
					if err != nil {
						return err
					}
					p.AddGraph(n.OutKey, g, append(sopts, opts...)...)
				} else {
					p.AddLambda(n.OutKey, lambdaFor(n, env), opts...)
				}
			}
			c.appendParallel(p)
		case "branch":
			var keys []string
			for _, n := range sg.Nodes {
				keys = append(keys, n.Key)
			}
			cb := chainBranchFor(sg, keys)
			for _, n := range sg.Nodes {
				if n.Sub != nil {
					g, opts, err := subOf(n)
					if err != nil {
						return err
					}
					cb.AddGraph(n.Key, g, append(opts, nodeOpts(n)...)...)
				} else {
					cb.AddLambda(n.Key, lambdaFor(n, env), nodeOpts(n)...)
				}
			}
			c.appendBranch(cb)
		}
	}
	return nil
}

type workflowAPI interface {
	AddLambdaNode(key string, lambda *compose.Lambda, opts ...compose.GraphAddNodeOpt) *compose.WorkflowNode
	AddGraphNode(key string, graph compose.AnyGraph, opts ...compose.GraphAddNodeOpt) *compose.WorkflowNode
	End() *compose.WorkflowNode
}

func lowerWorkflow(wf workflowAPI, s *tspec, env *tenv) error {
	prev := []string{compose.START}
	wire := func(wn *compose.WorkflowNode, m *fmapSpec, join []string) {
		if join != nil {
			for i, p := range prev {
				wn.AddInput(p, compose.ToField(join[i]))
			}
			return
		}
		wn.AddInput(prev[0], fieldMappings(m)...)
	}
	// addNode declares the node n (a nested program, a lambda, or the pipeline around a built-in
	// lambda) and returns the workflow node that takes its input
	addNode := func(n *tnode) (*compose.WorkflowNode, error) {
		if n.Sub != nil {
			sub := buildSpec(n.Sub, env)
			if sub.err != nil {
				return nil, sub.err
			}
			var opts []compose.GraphAddNodeOpt
			if len(sub.opts) > 0 {
				opts = append(opts, compose.WithGraphCompileOptions(sub.opts...))
			}
			return wf.AddGraphNode(n.Key, sub.g, opts...), nil
		}
		var entry *compose.WorkflowNode
		rn := realNodes(n, env)
		for i, x := range rn {
			wn := wf.AddLambdaNode(x.key, x.l)
			if i == 0 {
				entry = wn
			} else {
				wn.AddInput(rn[i-1].key)
			}
		}
		return entry, nil
	}
	for _, sg := range s.Segs {
		if sg.Kind == "switch" {
			exits, err := lowerSwitch(wf, sg, prev[0], addNode)
			if err != nil {
				return err
			}
			prev = exits
			continue
		}
		var keys []string
		for _, n := range sg.Nodes {
			wn, err := addNode(n)
			if err != nil {
				return err
			}
			wire(wn, n.Map, n.JoinKeys)
			keys = append(keys, n.Key)
		}
		prev = keys
	}
	wire(wf.End(), s.EndMap, s.EndJoin)
	return nil
}

func readAll[O any](sr *schema.StreamReader[O]) callOut {
	defer sr.Close()
	var out callOut
	for {
		c, err := sr.Recv()
		if err == io.EOF {
			return out
		}
		if err != nil {
			out.Err = err
			return out
		}
		out.Vals = append(out.Vals, any(c))
	}
}

func inStream[I any](chunks []any, pipeCap int) (*schema.StreamReader[I], error) {
	typed := make([]I, len(chunks))
	for i, c := range chunks {
		t, err := as[I](c)
		if err != nil {
			return nil, err
		}
		typed[i] = t
	}
	if pipeCap < 0 {
		return schema.StreamReaderFromArray(typed), nil
	}
	sr, sw := schema.Pipe[I](pipeCap)
	go func() {
		defer sw.Close()
		for _, c := range typed {
			if sw.Send(c, nil) {
				return
			}
		}
	}()
	return sr, nil
}

func mkCaller[I, O any](r compose.Runnable[I, O]) caller {
	return func(ctx context.Context, para string, in any, chunks []any, pipeCap int) callOut {
		switch para {
		case "I":
			tin, err := as[I](in)
			if err != nil {
				return callOut{Err: err}
			}
			o, err := r.Invoke(ctx, tin)
			if err != nil {
				return callOut{Err: err}
			}
			return callOut{Vals: []any{any(o)}}
		case "S":
			tin, err := as[I](in)
			if err != nil {
				return callOut{Err: err}
			}
			sr, err := r.Stream(ctx, tin)
			if err != nil {
				return callOut{Err: err}
			}
			return readAll(sr)
		case "C":
			isr, err := inStream[I](chunks, pipeCap)
			if err != nil {
				return callOut{Err: err}
			}
			o, err := r.Collect(ctx, isr)
			if err != nil {
				return callOut{Err: err}
			}
			return callOut{Vals: []any{any(o)}}
		default:
			isr, err := inStream[I](chunks, pipeCap)
			if err != nil {
				return callOut{Err: err}
			}
			sr, err := r.Transform(ctx, isr)
			if err != nil {
				return callOut{Err: err}
			}
			return readAll(sr)
		}
	}
}

func buildIO[I, O any](s *tspec, env *tenv) built {
	switch s.Cont {
	case "pregel", "dag":
		g := compose.NewGraph[I, O]()
		var opts []compose.GraphCompileOption
		if s.Cont == "dag" {
			opts = append(opts, compose.WithNodeTriggerMode(compose.AllPredecessor))
		}
		err := lowerGraph(g, s, env)
		return built{g: g, opts: opts, err: err, compile: func(ctx context.Context) (caller, error) {
			r, err := g.Compile(ctx, opts...)
			if err != nil {
				return nil, err
			}
			return mkCaller(r), nil
		}}
	case "chain":
		c := compose.NewChain[I, O]()
		err := lowerChain(chainAdapter[I, O]{c}, s, env)
		return built{g: c, err: err, compile: func(ctx context.Context) (caller, error) {
			r, err := c.Compile(ctx)
			if err != nil {
				return nil, err
			}
			return mkCaller(r), nil
		}}
	default:
		wf := compose.NewWorkflow[I, O]()
		err := lowerWorkflow(wf, s, env)
		return built{g: wf, err: err, compile: func(ctx context.Context) (caller, error) {
			r, err := wf.Compile(ctx)
			if err != nil {
				return nil, err
			}
			return mkCaller(r), nil
		}}
	}
}

func buildO[I any](s *tspec, env *tenv) built {
	switch s.Out {
	case tStr:
		return buildIO[I, string](s, env)
	case tAny:
		return buildIO[I, any](s, env)
	case tNamed:
		return buildIO[I, Named](s, env)
	case tPtr:
		return buildIO[I, *Rec](s, env)
	case tRec:
		return buildIO[I, Rec](s, env)
	default:
		return buildIO[I, map[string]any](s, env)
	}
}

func buildSpec(s *tspec, env *tenv) built {
	switch s.In {
	case tStr:
		return buildO[string](s, env)
	case tAny:
		return buildO[any](s, env)
	case tNamed:
		return buildO[Named](s, env)
	case tPtr:
		return buildO[*Rec](s, env)
	case tRec:
		return buildO[Rec](s, env)
	default:
		return buildO[map[string]any](s, env)
	}
}
