package c02

import (
	"context"
	"fmt"

	"github.com/cloudwego/eino/compose"
	"github.com/cloudwego/eino/schema"

	"verifharness/internal/mon"
)

// keyedZeroCase: "Its input is the merge of the outputs of exactly those data predecessors that ran and
// routed to it (the zero value when there are none)". A Workflow node x whose only data predecessor p is
// skipped by a branch while a control-only dependency makes it ready must run on the zero value — also
// when x has an input key, a field mapping, or both (the combination needs the "no input" value to carry
// the key AND to be in the map form the mapping converter expects).
func keyedZeroCase(ctx context.Context, rep *mon.Reporter, rng *mon.Rand) {
	keyed, mapped := rng.Bool(), rng.Bool()
	wf := compose.NewWorkflow[string, map[string]any]()
	lam := func(tag string) *compose.Lambda {
		return compose.InvokableLambda(func(_ context.Context, in string) (string, error) { return in + tag, nil })
	}
	wf.AddLambdaNode("a", lam("a")).AddInput(compose.START)
	wf.AddLambdaNode("p", lam("p")).AddInputWithOptions("a", nil, compose.WithNoDirectDependency())
	wf.AddLambdaNode("q", lam("q")).AddInputWithOptions("a", nil, compose.WithNoDirectDependency())
	pick := "p"
	if rng.Bool() {
		pick = "q"
	}
	wf.AddBranch("a", compose.NewGraphBranch(func(context.Context, string) (string, error) { return pick, nil }, map[string]bool{"p": true, "q": true}))
	var xopts []compose.GraphAddNodeOpt
	if keyed {
		xopts = append(xopts, compose.WithInputKey("k"))
	}
	x := wf.AddLambdaNode("x", lam("x"), xopts...)
	switch {
	case keyed && mapped:
		x.AddInputWithOptions("p", []*compose.FieldMapping{compose.ToField("k")}, compose.WithNoDirectDependency())
	case keyed:
		// the predecessor hands a map that holds the key
		wf.AddLambdaNode("pm", compose.InvokableLambda(func(_ context.Context, in string) (map[string]any, error) {
			return map[string]any{"k": in + "m"}, nil
		})).AddInput("p")
		x.AddInputWithOptions("pm", nil, compose.WithNoDirectDependency())
	default:
		x.AddInputWithOptions("p", nil, compose.WithNoDirectDependency())
	}
	x.AddDependency("a")
	wf.End().AddInput("x", compose.ToField("x"))
	wit := map[string]any{"input_key": keyed, "field_mapping": mapped, "branch_picks": pick}
	r, err := wf.Compile(ctx)
	if err != nil {
		rep.Violation(ID+"/keyed-zero-input/build-error", fmt.Sprintf("%v\n%+v", err, wit), wit)
		return
	}
	want := "x" // x("") when p was skipped
	if pick == "p" {
		switch {
		case keyed && !mapped:
			want = "iapmx"
		default:
			want = "iapx"
		}
	}
	for _, stream := range []bool{false, true} {
		var got map[string]any
		var rerr error
		p := mon.Safe(func() {
			if !stream {
				got, rerr = r.Invoke(ctx, "i")
				return
			}
			sr, err := r.Stream(ctx, "i")
			if err != nil {
				rerr = err
				return
			}
			got = map[string]any{}
			for {
				c, err := sr.Recv()
				if err != nil {
					if err.Error() != "EOF" {
						rerr = err
					}
					break
				}
				for k, v := range c {
					if s, ok := v.(string); ok {
						if o, _ := got[k].(string); true {
							got[k] = o + s
						}
					}
				}
			}
			sr.Close()
		})
		rep.AddEvaluations(1)
		rep.Count("keyed_zero_input_runs", 1)
		form := map[bool]string{false: "invoke", true: "stream"}[stream]
		if p != nil {
			rep.Violation(ID+"/keyed-zero-input/panic/"+form, fmt.Sprintf("%s\n%+v", p.Value, wit), wit)
			return
		}
		if rerr != nil {
			cl := "data-predecessor-ran"
			if pick != "p" {
				cl = "data-predecessor-skipped"
			}
			rep.Violation(ID+"/keyed-zero-input/run-failed/"+cl, fmt.Sprintf("%s: %v\nexpected x to run on %q and END to receive {x: %q}\n%+v", form, rerr, want[:len(want)-1], want, wit), wit)
			return
		}
		if fmt.Sprint(got["x"]) != want {
			rep.Violation(ID+"/keyed-zero-input/wrong-result", fmt.Sprintf("%s: got %v, want {x: %q}\n%+v", form, got, want, wit), wit)
			return
		}
	}
	rep.NonTrivial(fmt.Sprintf("keyedzero|%v|%v|%s", keyed, mapped, pick))
	_ = schema.ErrNoValue
}
