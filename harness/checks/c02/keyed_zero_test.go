package c02

import (
	"context"
	"fmt"
	"sort"
	"strings"

	"github.com/cloudwego/eino/compose"
	"github.com/cloudwego/eino/schema"

	"verifharness/internal/mon"
)

// keyedZeroCase: "Its input is the merge of the outputs of exactly those data predecessors that ran and
// routed to it (the zero value when there are none)". A Workflow node x whose only data predecessor p is
// skipped by a branch while a control-only dependency makes it ready must run on the zero value — also
// when x has an input key, a field mapping, or both (the combination needs the "no input" value to carry
// the key AND to be in the map form the mapping converter expects).
func keyedZeroCase(ctx context.Context, rep *mon.Reporter, rng *mon.Rand) {
	keyed, mapped := rng.Bool(), rng.Bool()
	wf := compose.NewWorkflow[string, map[string]any]()
	lam := func(tag string) *compose.Lambda {
		return compose.InvokableLambda(func(_ context.Context, in string) (string, error) { return in + tag, nil })
	}
	wf.AddLambdaNode("a", lam("a")).AddInput(compose.START)
	wf.AddLambdaNode("p", lam("p")).AddInputWithOptions("a", nil, compose.WithNoDirectDependency())
	wf.AddLambdaNode("q", lam("q")).AddInputWithOptions("a", nil, compose.WithNoDirectDependency())
	pick := "p"
	if rng.Bool() {
		pick = "q"
	}
	wf.AddBranch("a", compose.NewGraphBranch(func(context.Context, string) (string, error) { return pick, nil }, map[string]bool{"p": true, "q": true}))
	var xopts []compose.GraphAddNodeOpt
	if keyed {
		xopts = append(xopts, compose.WithInputKey("k"))
	}
	x := wf.AddLambdaNode("x", lam("x"), xopts...)
	switch {
	case keyed && mapped:
		x.AddInputWithOptions("p", []*compose.FieldMapping{compose.ToField("k")}, compose.WithNoDirectDependency())
	case keyed:
		// the predecessor hands a map that holds the key
		wf.AddLambdaNode("pm", compose.InvokableLambda(func(_ context.Context, in string) (map[string]any, error) {
			return map[string]any{"k": in + "m"}, nil
		})).AddInput("p")
		x.AddInputWithOptions("pm", nil, compose.WithNoDirectDependency())
	default:
		x.AddInputWithOptions("p", nil, compose.WithNoDirectDependency())
	}
	x.AddDependency("a")
	wf.End().AddInput("x", compose.ToField("x"))
	wit := map[string]any{"input_key": keyed, "field_mapping": mapped, "branch_picks": pick}
	r, err := wf.Compile(ctx)
	if err != nil {
		rep.Violation(ID+"/keyed-zero-input/build-error", fmt.Sprintf("%v\n%+v", err, wit), wit)
		return
	}
	want := "x" // x("") when p was skipped
	if pick == "p" {
		switch {
		case keyed && !mapped:
			want = "iapmx"
		default:
			want = "iapx"
		}
	}
	for _, stream := range []bool{false, true} {
		var got map[string]any
		var rerr error
		p := mon.Safe(func() {
			if !stream {
				got, rerr = r.Invoke(ctx, "i")
				return
			}
			sr, err := r.Stream(ctx, "i")
			if err != nil {
				rerr = err
				return
			}
			got = map[string]any{}
			for {
				c, err := sr.Recv()
				if err != nil {
					if err.Error() != "EOF" {
						rerr = err
					}
					break
				}
				for k, v := range c {
					if s, ok := v.(string); ok {
						if o, _ := got[k].(string); true {
							got[k] = o + s
						}
					}
				}
			}
			sr.Close()
		})
		rep.AddEvaluations(1)
		rep.Count("keyed_zero_input_runs", 1)
		form := map[bool]string{false: "invoke", true: "stream"}[stream]
		if p != nil {
			rep.Violation(ID+"/keyed-zero-input/panic/"+form, fmt.Sprintf("%s\n%+v", p.Value, wit), wit)
			return
		}
		if rerr != nil {
			cl := "data-predecessor-ran"
			if pick != "p" {
				cl = "data-predecessor-skipped"
			}
			rep.Violation(ID+"/keyed-zero-input/run-failed/"+cl, fmt.Sprintf("%s: %v\nexpected x to run on %q and END to receive {x: %q}\n%+v", form, rerr, want[:len(want)-1], want, wit), wit)
			return
		}
		if fmt.Sprint(got["x"]) != want {
			rep.Violation(ID+"/keyed-zero-input/wrong-result", fmt.Sprintf("%s: got %v, want {x: %q}\n%+v", form, got, want, wit), wit)
			return
		}
	}
	rep.NonTrivial(fmt.Sprintf("keyedzero|%v|%v|%s", keyed, mapped, pick))
	_ = schema.ErrNoValue
}

// keyedStaticCase widens keyedZeroCase by static values (finding keyed-static-skipped-input): the node x,
// field-mapped from predecessors that a branch skips, also has SetStaticValue at PRNG-chosen paths - at
// another key j of its map input (x never reads it), below its input key k (the control: the static value
// names the key itself), at both, below j - or none. x must run on {k: zero} merged with the static values
// in all four paradigms, exactly as it does when the predecessors ran (then with their values merged in).
//
//	shape A  x: string -> string, WithInputKey("k"), mapped ToField("k")
//	shape B  x: map[string]any -> string, WithInputKey("k"), mapped ToFieldPath{"k","y"} (and {"k","y2"})
//	shape C  x: map[string]any -> string, no input key, mapped ToField("k") (static values are visible)
//
// x becomes ready through a control-only dependency on the branch source (predecessors data-only), or takes
// control+data from its predecessor and a control-only dependency on the other branch target.
type keyedStatic struct {
	Shape   string     `json:"shape"`
	Static  [][]string `json:"static_value_paths"`
	Ctl     string     `json:"control"`
	Two     bool       `json:"two_mapped_predecessors"`
	XStream bool       `json:"x_is_a_transform_lambda"`
	Pick    string     `json:"branch_picks"`
}

func renderAny(v any) string {
	switch t := v.(type) {
	case map[string]any:
		ks := make([]string, 0, len(t))
		for k := range t {
			ks = append(ks, k)
		}
		sort.Strings(ks)
		var b strings.Builder
		b.WriteString("{")
		for i, k := range ks {
			if i > 0 {
				b.WriteString(",")
			}
			b.WriteString(k + "=" + renderAny(t[k]))
		}
		b.WriteString("}")
		return b.String()
	case nil:
		return "{}" // the zero value of a map input
	}
	return fmt.Sprint(v)
}

func keyedStaticCase(ctx context.Context, rep *mon.Reporter, rng *mon.Rand) {
	c := keyedStatic{Shape: []string{"A", "A", "B", "B", "C"}[rng.Intn(5)], Ctl: []string{"dependency-on-branch-source", "dependency-on-other-target"}[rng.Intn(2)], Pick: []string{"p", "q", "q"}[rng.Intn(3)]}
	var opts [][][]string
	switch c.Shape {
	case "A":
		opts = [][][]string{{{"j"}}, {{"j"}}, {{"j", "z"}}, {{"j"}, {"m"}}, {}}
	case "B":
		opts = [][][]string{{{"j"}}, {{"j"}}, {{"k", "x"}}, {{"j"}, {"k", "x"}}, {{"j", "z"}, {"k", "x"}}, {{"j", "z"}}, {}}
		c.Two = rng.Prob(0.4)
	default:
		opts = [][][]string{{{"j"}}, {{"j", "z"}}, {{"j"}, {"m"}}}
	}
	c.Static = opts[rng.Intn(len(opts))]
	c.XStream = c.Shape == "A" && rng.Prob(0.3)

	wf := compose.NewWorkflow[string, map[string]any]()
	lam := func(tag string) *compose.Lambda {
		return compose.InvokableLambda(func(_ context.Context, in string) (string, error) { return in + tag, nil })
	}
	wf.AddLambdaNode("a", lam("a")).AddInput(compose.START)
	wf.AddLambdaNode("p", lam("p")).AddInputWithOptions("a", nil, compose.WithNoDirectDependency())
	wf.AddLambdaNode("q", lam("q")).AddInputWithOptions("a", nil, compose.WithNoDirectDependency())
	pick := c.Pick
	wf.AddBranch("a", compose.NewGraphBranch(func(context.Context, string) (string, error) { return pick, nil }, map[string]bool{"p": true, "q": true}))
	var xopts []compose.GraphAddNodeOpt
	if c.Shape != "C" {
		xopts = append(xopts, compose.WithInputKey("k"))
	}
	var x *compose.WorkflowNode
	switch {
	case c.Shape == "A" && c.XStream:
		x = wf.AddLambdaNode("x", compose.TransformableLambda(func(_ context.Context, in *schema.StreamReader[string]) (*schema.StreamReader[string], error) {
			var b strings.Builder
			for {
				s, err := in.Recv()
				if err != nil {
					in.Close()
					if err.Error() != "EOF" {
						return nil, err
					}
					break
				}
				b.WriteString(s)
			}
			return schema.StreamReaderFromArray([]string{b.String(), "x"}), nil
		}), xopts...)
	case c.Shape == "A":
		x = wf.AddLambdaNode("x", lam("x"), xopts...)
	default:
		x = wf.AddLambdaNode("x", compose.InvokableLambda(func(_ context.Context, in map[string]any) (string, error) {
			return renderAny(in) + "x", nil
		}), xopts...)
	}
	var to [][]string // target paths of the mappings from p (and pp)
	switch c.Shape {
	case "A", "C":
		to = [][]string{{"k"}}
	default:
		to = [][]string{{"k", "y"}}
		if c.Two {
			to = append(to, []string{"k", "y2"})
		}
	}
	srcs := []string{"p", "pp"}
	if len(to) == 2 {
		wf.AddLambdaNode("pp", lam("pp")).AddInput("p")
	}
	for i, path := range to {
		fm := []*compose.FieldMapping{compose.ToFieldPath(compose.FieldPath(path))}
		if c.Ctl == "dependency-on-branch-source" {
			x.AddInputWithOptions(srcs[i], fm, compose.WithNoDirectDependency())
		} else {
			x.AddInput(srcs[i], fm...)
		}
	}
	if c.Ctl == "dependency-on-branch-source" {
		x.AddDependency("a")
	} else {
		x.AddDependency("q")
	}
	other, below := false, false
	for _, path := range c.Static {
		x.SetStaticValue(compose.FieldPath(path), "st"+path[len(path)-1])
		if path[0] == "k" {
			below = true
		} else {
			other = true
		}
	}
	wf.End().AddInput("x", compose.ToField("x"))
	cls := "no-static-value"
	switch {
	case c.Shape == "C":
		cls = "static-value-no-input-key"
	case other && below:
		cls = "static-values-at-another-key-and-below-the-input-key"
	case other:
		cls = "static-value-at-another-key"
	case below:
		cls = "static-value-below-the-input-key"
	}
	r, err := wf.Compile(ctx)
	if err != nil {
		rep.Violation(ID+"/keyed-zero-input/build-error/"+cls, fmt.Sprintf("%v\n%+v", err, c), c)
		return
	}
	// ---- the expected input of x
	ran := c.Pick == "p"
	all := map[string]any{}
	set := func(path []string, v any) {
		m := all
		for _, k := range path[:len(path)-1] {
			n, _ := m[k].(map[string]any)
			if n == nil {
				n = map[string]any{}
				m[k] = n
			}
			m = n
		}
		m[path[len(path)-1]] = v
	}
	for _, path := range c.Static {
		set(path, "st"+path[len(path)-1])
	}
	if ran {
		vals := []string{"iap", "iappp"}
		for i, path := range to {
			set(path, vals[i])
		}
	}
	var want string
	switch c.Shape {
	case "A":
		s, _ := all["k"].(string) // "" = the zero value
		want = s + "x"
	case "B":
		want = renderAny(all["k"]) + "x"
	default:
		want = renderAny(all) + "x"
	}
	for _, form := range []string{"invoke", "stream", "collect", "transform"} {
		var got map[string]any
		var rerr error
		drain := func(sr *schema.StreamReader[map[string]any]) {
			got = map[string]any{}
			for {
				ch, err := sr.Recv()
				if err != nil {
					if err.Error() != "EOF" {
						rerr = err
					}
					break
				}
				for k, v := range ch {
					if s, ok := v.(string); ok {
						o, _ := got[k].(string)
						got[k] = o + s
					}
				}
			}
			sr.Close()
		}
		p := mon.Safe(func() {
			switch form {
			case "invoke":
				got, rerr = r.Invoke(ctx, "i")
			case "collect":
				got, rerr = r.Collect(ctx, schema.StreamReaderFromArray([]string{"i"}))
			case "stream":
				sr, err := r.Stream(ctx, "i")
				if err != nil {
					rerr = err
					return
				}
				drain(sr)
			default:
				sr, err := r.Transform(ctx, schema.StreamReaderFromArray([]string{"i"}))
				if err != nil {
					rerr = err
					return
				}
				drain(sr)
			}
		})
		rep.AddEvaluations(1)
		rep.Count("keyed_static_runs", 1)
		rep.Count("keyed_static_runs_"+cls, 1)
		if p != nil {
			rep.Violation(ID+"/keyed-zero-input/panic/"+cls, fmt.Sprintf("%s: %s\n%+v", form, p.Value, c), c)
			return
		}
		pc := "data-predecessor-skipped"
		if ran {
			pc = "data-predecessor-ran"
		}
		if rerr != nil {
			rep.Violation(ID+"/keyed-zero-input/run-failed/"+pc+"/"+cls, fmt.Sprintf("%s: %v\nexpected x to run and END to receive {x: %q}\n%+v", form, rerr, want, c), c)
			return
		}
		if fmt.Sprint(got["x"]) != want {
			rep.Violation(ID+"/keyed-zero-input/wrong-result/"+pc+"/"+cls, fmt.Sprintf("%s: got %v, want {x: %q}\n%+v", form, got, want, c), c)
			return
		}
	}
	if !ran {
		rep.Count("keyed_static_cases_with_skipped_predecessors_"+cls, 1)
	}
	rep.NonTrivial("keyedstatic|" + mon.Canon(c))
}
