package c02

import (
	"fmt"
	"sort"

	"github.com/cloudwego/eino/compose"

	"verifharness/internal/gspec"
	"verifharness/internal/mon"
)

// model of one all-predecessor channel, written from the statement.
type modelChan struct {
	ctrl map[string]string // waiting | ready | skipped
	data map[string]bool   // reported
	vals map[string]gspec.V
}

func (m *modelChan) skippedAll() bool {
	if len(m.ctrl) == 0 {
		return false
	}
	for _, s := range m.ctrl {
		if s != "skipped" {
			return false
		}
	}
	return true
}

func (m *modelChan) ready() bool {
	if m.skippedAll() {
		return false
	}
	for _, s := range m.ctrl {
		if s == "waiting" {
			return false
		}
	}
	for _, r := range m.data {
		if !r {
			return false
		}
	}
	return true
}

// channelCase drives a real dagChannel with a runner-feasible report sequence:
// every predecessor reports exactly once (value and/or dependency, or skip), in a PRNG order.
func channelCase(rep *mon.Reporter, rng *mon.Rand) {
	nc := rng.Range(1, 4)
	nd := rng.Range(0, 3)
	var ctrl, data []string
	role := map[string]string{} // both | ctrl | data
	for i := 0; i < nc; i++ {
		k := fmt.Sprintf("c%d", i)
		ctrl = append(ctrl, k)
		role[k] = "ctrl"
		if rng.Prob(0.6) {
			data = append(data, k)
			role[k] = "both"
		}
	}
	for i := 0; i < nd; i++ {
		k := fmt.Sprintf("d%d", i)
		data = append(data, k)
		role[k] = "data"
	}
	ch := compose.VerifNewDAGChannel(ctrl, data)
	m := &modelChan{ctrl: map[string]string{}, data: map[string]bool{}, vals: map[string]gspec.V{}}
	for _, c := range ctrl {
		m.ctrl[c] = "waiting"
	}
	for _, d := range data {
		m.data[d] = false
	}
	preds := mon.SortedKeys(role)
	order := rng.Perm(len(preds))
	var trace []string
	for _, oi := range order {
		p := preds[oi]
		skip := rng.Prob(0.4)
		if skip {
			real := ch.ReportSkip([]string{p})
			if _, ok := m.ctrl[p]; ok {
				m.ctrl[p] = "skipped"
			}
			if _, ok := m.data[p]; ok {
				m.data[p] = true
			}
			trace = append(trace, "skip("+p+")")
			if real != m.skippedAll() {
				rep.Violation(ID+"/channel/skip-verdict", fmt.Sprintf("after %v: reportSkip returned %v, model says all-skipped=%v (ctrl=%v)", trace, real, m.skippedAll(), m.ctrl), nil)
				return
			}
		} else {
			if m.skippedAll() {
				// a skipped node's predecessors may still report; the channel must ignore it
			}
			if role[p] != "ctrl" {
				v := gspec.V{p: "v"}
				_ = ch.ReportValues(map[string]any{p: v})
				if !m.skippedAll() {
					m.data[p] = true
					m.vals[p] = v
				}
			}
			if role[p] != "data" {
				ch.ReportDependencies([]string{p})
				if !m.skippedAll() {
					m.ctrl[p] = "ready"
				}
			}
			trace = append(trace, "report("+p+")")
		}
		rep.Count("channel_reports", 1)
	}
	// after all predecessors reported: ready iff not all-skipped, value = merge of reported values
	v, ready, err := ch.Get()
	wantReady := m.ready()
	if ready != wantReady || (err != nil) {
		rep.Violation(ID+"/channel/ready-verdict", fmt.Sprintf("after %v: get ready=%v err=%v, model ready=%v (ctrl=%v data=%v)", trace, ready, err, wantReady, m.ctrl, m.data), nil)
		return
	}
	if ready {
		var vs []gspec.V
		ks := mon.SortedKeys(m.vals)
		sort.Strings(ks)
		for _, k := range ks {
			vs = append(vs, m.vals[k])
		}
		var want gspec.V
		if len(vs) > 0 {
			want, _ = gspec.MergeV(vs)
		}
		got, _ := v.(map[string]any)
		if !gspec.EqualV(want, got) {
			rep.Violation(ID+"/channel/value", fmt.Sprintf("after %v: value %s, model %s", trace, gspec.Canon(got), gspec.Canon(want)), nil)
			return
		}
	}
	rep.NonTrivial("chan|" + fmt.Sprint(ctrl, data, trace))
	rep.Count("channel_sequences", 1)
}
