package c02

import (
	"context"
	"fmt"
	"sort"

	"github.com/cloudwego/eino/compose"

	"verifharness/internal/gspec"
	"verifharness/internal/mon"
)

// Sub-workload "edge-plus-branch": a node x that its predecessor a reaches by a plain
// (unconditional) edge - Workflow: AddInput or AddDependency - AND lists among the end nodes of a
// branch on a. The statement decides the shape: a finished and routed to x through the edge, so x
// runs whatever the branches of a select (they can only add routes), provided its other control
// predecessors are resolved; when a itself is skipped and nobody else routes to x, x is skipped.
//
// The generator of internal/gspec never puts an edge and a branch on one pair, so the specs are
// built by hand here: x gets 0-2 further predecessors of four kinds (finishes; skipped or selected by
// a branch of an unrelated node; an unrelated node that lists x in a branch of its own; a node that is
// itself another end node of a's branch), a has one or two branches (single / multi / empty
// selections / stream conditions) and is reached by a plain edge, through a chain or through a branch
// that may skip it, x feeds END directly, through a successor, or not at all, and the whole graph may
// be the nested graph of a DAG / Workflow / Pregel parent. Every combination of branch outcomes is
// forced (sampled above 64). Oracles: (1) a dedicated one written from the statement - a executed
// => x executed, a did not and nobody else routed => x did not; (2) the all-predecessor reference
// interpreter (result, executions, happens-before), which treats "edge or selected" as routing.

const ebSub = "edge-plus-branch"

type runnable = compose.Runnable[gspec.V, gspec.V]

type ebPred struct {
	Kind string `json:"kind"` // fin | skip | branch | sibling
	O    string `json:"o"`    // the direct predecessor of x ("" for kind branch: the predecessor is Q)
	Q    string `json:"q"`    // fin: "", skip: node whose branch covers O, branch: node whose branch covers x
}

type ebShape struct {
	Mode     gspec.Mode       `json:"mode"`
	Nested   bool             `json:"nested"`
	Outer    gspec.Mode       `json:"outer_mode"`
	AVia     string           `json:"a_via"` // edge | chain | branch
	XOut     string           `json:"x_out"` // end | via | sink
	EdgeData bool             `json:"edge_carries_data"`
	Preds    []ebPred         `json:"preds"`
	Inner    *gspec.GraphSpec `json:"-"`
	Spec     *gspec.GraphSpec `json:"spec"`
}

func (s *ebShape) kindDigest() string {
	ks := []string{}
	for _, p := range s.Preds {
		ks = append(ks, p.Kind)
	}
	sort.Strings(ks)
	return fmt.Sprintf("%v|n%v|o%v|%s|%s|d%v|%v|b%d", s.Mode, s.Nested, s.Outer, s.AVia, s.XOut, s.EdgeData, ks, len(s.Inner.Branches))
}

// genEdgeBranch builds one shape. Pure function of r.
func genEdgeBranch(r *mon.Rand, streamy bool) *ebShape {
	sh := &ebShape{Mode: gspec.DAG}
	if r.Bool() {
		sh.Mode = gspec.Workflow
	}
	wf := sh.Mode == gspec.Workflow
	sh.Nested = r.Prob(0.25)
	g := &gspec.GraphSpec{Mode: sh.Mode}
	node := func(k string) {
		n := gspec.NodeSpec{Key: k, Kind: gspec.Hash, Para: gspec.PI, PipeCap: -1, Chunk: r.Uint64(), Wide: r.Prob(0.2)}
		if streamy {
			n.Para = 1 + r.Intn(15)
			n.PipeCap = []int{-1, 0, 1, 3}[r.Intn(4)]
			n.Lazy = r.Bool()
		}
		g.Nodes = append(g.Nodes, n)
	}
	// edge: control+data; in a Workflow data is field-mapped by the key of the source (every node is a
	// Hash node whose output has its own key), START hands over its whole value (it is the only data
	// input of the nodes it feeds)
	edge := func(from, to string, data bool) {
		e := gspec.EdgeSpec{From: from, To: to}
		if wf {
			if !data {
				e.NoData = true
			} else if from != gspec.START {
				e.Fields = []string{from}
			}
		}
		g.Edges = append(g.Edges, e)
	}
	// a Workflow branch carries no data: its end nodes may take a data-only input from the source
	dataOnly := func(from, to string) {
		if wf && r.Prob(0.6) {
			g.Edges = append(g.Edges, gspec.EdgeSpec{From: from, To: to, NoControl: true, Fields: []string{from}})
		}
	}
	toEnd := func(k string) { edge(k, gspec.END, true) }

	node("a")
	node("x")
	node("y")
	// ---- how a is reached
	switch r.Intn(4) {
	case 0:
		sh.AVia = "chain"
		node("s")
		edge(gspec.START, "s", true)
		edge("s", "a", true)
	case 1:
		sh.AVia = "branch" // a may itself be skipped
		node("s")
		node("v")
		edge(gspec.START, "s", true)
		g.Branches = append(g.Branches, gspec.BranchSpec{ID: "bs", From: "s", Targets: []string{"a", "v"}, Multi: r.Bool(), Stream: r.Prob(0.2)})
		if g.Branches[len(g.Branches)-1].Multi {
			g.Branches[len(g.Branches)-1].AllowEmpty = r.Prob(0.3)
		}
		dataOnly("s", "a")
		dataOnly("s", "v")
		toEnd("v")
	default:
		sh.AVia = "edge"
		edge(gspec.START, "a", true)
	}
	// ---- the pair: plain edge a -> x and a branch of a that lists x
	sh.EdgeData = !wf || r.Prob(0.7)
	xData := 0 // data inputs of x (Workflow bookkeeping: no duplicates from one source)
	edge("a", "x", sh.EdgeData)
	if sh.EdgeData {
		xData++
	}
	b0 := gspec.BranchSpec{ID: "b0", From: "a", Targets: []string{"x", "y"}, Multi: r.Prob(0.45), Stream: r.Prob(0.2)}
	dataOnly("a", "y")
	toEnd("y")
	if r.Prob(0.3) {
		node("y2")
		b0.Targets = append(b0.Targets, "y2")
		dataOnly("a", "y2")
		toEnd("y2")
	}
	if !wf && r.Prob(0.15) {
		b0.Targets = append(b0.Targets, gspec.END)
	}
	// ---- further predecessors of x
	xCtrl := []string{"a"} // nodes with a control relation to x (for the companion c1 below)
	np := r.Intn(3)
	for i := 0; i < np; i++ {
		o, q, z := fmt.Sprintf("o%d", i), fmt.Sprintf("q%d", i), fmt.Sprintf("z%d", i)
		switch r.Intn(4) {
		case 0: // finishes
			node(o)
			edge(gspec.START, o, true)
			edge(o, "x", !wf || r.Prob(0.7))
			xCtrl = append(xCtrl, o)
			sh.Preds = append(sh.Preds, ebPred{Kind: "fin", O: o})
		case 1: // skipped (or selected) by the branch of an unrelated, concurrently running node
			node(q)
			node(o)
			node(z)
			edge(gspec.START, q, true)
			bq := gspec.BranchSpec{ID: "bq" + fmt.Sprint(i), From: q, Targets: []string{o, z}, Multi: r.Prob(0.4), Stream: r.Prob(0.2)}
			if bq.Multi {
				bq.AllowEmpty = r.Prob(0.3)
			}
			g.Branches = append(g.Branches, bq)
			dataOnly(q, o)
			dataOnly(q, z)
			edge(o, "x", !wf || r.Prob(0.7))
			toEnd(z)
			xCtrl = append(xCtrl, o)
			sh.Preds = append(sh.Preds, ebPred{Kind: "skip", O: o, Q: q})
		case 2: // an unrelated node that lists x in a branch of its own
			node(q)
			node(z)
			edge(gspec.START, q, true)
			bq := gspec.BranchSpec{ID: "bq" + fmt.Sprint(i), From: q, Targets: []string{"x", z}, Multi: r.Prob(0.4), Stream: r.Prob(0.2)}
			if bq.Multi {
				bq.AllowEmpty = r.Prob(0.3)
			}
			g.Branches = append(g.Branches, bq)
			dataOnly(q, "x")
			dataOnly(q, z)
			toEnd(z)
			xCtrl = append(xCtrl, q)
			sh.Preds = append(sh.Preds, ebPred{Kind: "branch", Q: q})
		default: // another end node of a's own branch
			node(o)
			b0.Targets = append(b0.Targets, o)
			dataOnly("a", o)
			edge(o, "x", !wf || r.Prob(0.7))
			xCtrl = append(xCtrl, o)
			sh.Preds = append(sh.Preds, ebPred{Kind: "sibling", O: o, Q: "a"})
		}
	}
	if b0.Multi {
		b0.AllowEmpty = r.Prob(0.4)
	}
	g.Branches = append(g.Branches, b0)
	if r.Prob(0.3) {
		// a second branch on a: with or without x among its end nodes
		b1 := gspec.BranchSpec{ID: "b1", From: "a", Multi: r.Prob(0.4), Stream: r.Prob(0.2)}
		node("y3")
		dataOnly("a", "y3")
		toEnd("y3")
		if r.Bool() {
			b1.Targets = []string{"x", "y3"}
		} else {
			b1.Targets = []string{"y", "y3"}
		}
		if b1.Multi {
			b1.AllowEmpty = r.Prob(0.4)
		}
		g.Branches = append(g.Branches, b1)
	}
	// ---- what x feeds
	switch r.Intn(4) {
	case 0:
		sh.XOut = "via"
		node("t")
		edge("x", "t", true)
		toEnd("t")
	case 1:
		// x does not feed END. Its companion c1 has the same control predecessors (plain edges only) and
		// feeds END through c2: whenever x is triggered, it is triggered together with c1, two steps
		// before END can be reached - so x has been started when the run returns and has executed once
		// the process is quiescent.
		sh.XOut = "sink"
		if r.Bool() {
			node("t")
			edge("x", "t", true)
		}
		node("c1")
		node("c2")
		for _, p := range xCtrl {
			edge(p, "c1", true)
		}
		edge("c1", "c2", true)
		toEnd("c2")
	default:
		sh.XOut = "end"
		toEnd("x")
	}
	// declaration order
	perm := r.Perm(len(g.Edges))
	es := make([]gspec.EdgeSpec, len(g.Edges))
	for i, p := range perm {
		es[i] = g.Edges[p]
	}
	g.Edges = es
	sh.Inner = g
	sh.Spec = g
	if sh.Nested {
		sh.Outer = gspec.Mode(r.Intn(3))
		out := &gspec.GraphSpec{Mode: sh.Outer, Nodes: []gspec.NodeSpec{{Key: "sub", Kind: gspec.Sub, Sub: g, PipeCap: -1}}}
		if r.Bool() {
			out.Nodes = append(out.Nodes, gspec.NodeSpec{Key: "pre", Kind: gspec.Hash, Para: gspec.PI, PipeCap: -1, Chunk: r.Uint64()})
			out.Edges = []gspec.EdgeSpec{{From: gspec.START, To: "pre"}, {From: "pre", To: "sub"}, {From: "sub", To: gspec.END}}
		} else {
			out.Edges = []gspec.EdgeSpec{{From: gspec.START, To: "sub"}, {From: "sub", To: gspec.END}}
		}
		sh.Spec = out
	}
	gspec.FixNames(sh.Spec, "")
	return sh
}

// ebExpectX is the dedicated oracle, written from the statement for this shape only: does x run under
// the forced outcome vector? (tri-state: +1 must run, -1 must not run, 0 the statement leaves it to
// the general reference - a failed merge somewhere). sel(branch id) = forced selection.
func ebExpectX(sh *ebShape, ch map[string][]string) (want int, why string) {
	g := sh.Inner
	selected := func(from, to string) bool {
		for _, b := range g.Branches {
			if b.From != from {
				continue
			}
			for _, t := range ch[b.ID] {
				if t == to {
					return true
				}
			}
		}
		return false
	}
	aRuns := true
	if sh.AVia == "branch" {
		aRuns = selected("s", "a")
	}
	if aRuns {
		return 1, "a finished and its plain edge routes to x"
	}
	// a is skipped: so are the siblings (end nodes of a's branch); x runs iff another predecessor routes
	for _, p := range sh.Preds {
		switch p.Kind {
		case "fin":
			return 1, "a is skipped, but " + p.O + " finished and its plain edge routes to x"
		case "skip":
			if selected(p.Q, p.O) {
				return 1, "a is skipped, but " + p.O + " ran and its plain edge routes to x"
			}
		case "branch":
			if selected(p.Q, "x") {
				return 1, "a is skipped, but the branch of " + p.Q + " selected x"
			}
		}
	}
	return -1, "a is skipped and no other predecessor routed to x"
}

func edgeBranchCase(ctx context.Context, rep *mon.Reporter, rng *mon.Rand, cfg mon.Config, sample bool) {
	sh := genEdgeBranch(rng, rng.Prob(0.4))
	spec := sh.Spec
	r, err := gspec.Build(ctx, spec, gspec.BuildOpts{})
	if err != nil {
		rep.Violation(ID+"/"+ebSub+"/build-error", "a graph in which a node is both the target of a plain edge and an end node of a branch of the same predecessor was rejected: "+err.Error(), sh)
		return
	}
	rep.Count("edge_plus_branch_specs", 1)
	rep.Distinct("edge_plus_branch_shapes", sh.kindDigest())
	vecs, all := outcomeVectors(rng, spec, 32)
	if all {
		rep.Count("edge_plus_branch_specs_with_all_outcome_vectors", 1)
	} else {
		// sampled: the vector this sub-workload is about is always among them - a runs, no branch of a
		// selects x, the branches of the unrelated nodes select their z (every further predecessor of x
		// is skipped or does not route)
		t := map[string][]string{}
		for _, b := range gspec.AllBranches(spec) {
			switch {
			case b.ID == "bs":
				t[b.ID] = []string{"a"}
			case b.ID == "b1":
				t[b.ID] = []string{"y3"}
			case b.From == "a":
				t[b.ID] = []string{"y"}
			default:
				t[b.ID] = []string{b.Targets[len(b.Targets)-1]} // z<i>
			}
		}
		vecs = append([]map[string][]string{t}, vecs...)
	}
	in := gspec.V{"in": rng.Str(1, 6)}
	modeName := sh.Mode.String()
	for vi, ch := range vecs {
		ref := gspec.EvalGraph(spec, in, &gspec.RefEnv{Choices: ch})
		want, why := ebExpectX(sh, ch)
		// the two oracles must agree with each other before they judge the library
		refX := false
		for _, e := range ref.Execs {
			if e.Node == "x" {
				refX = true
			}
		}
		if !ref.Incomplete && ref.Err == "" && (want > 0) != refX {
			rep.Inconclusive(fmt.Sprintf("edge-plus-branch: the dedicated oracle (%d: %s) and the reference interpreter (x executes: %v) disagree on %s forced=%s", want, why, refX, spec.Digest(), renderChoices(ch)))
			return
		}
		paras := []string{"I"}
		if vi%2 == 0 && ref.Err != "collision" {
			paras = append(paras, []string{"S", "C", "T"}[rng.Intn(3)])
		}
		for _, para := range paras {
			if !ebRun(ctx, rep, sh, r, in, ch, ref, para, want, why, modeName, rng.Uint64(), []int{-1, 0, 2}[rng.Intn(3)]) {
				return
			}
		}
		if want > 0 {
			picked := false
			for _, b := range sh.Inner.Branches {
				if b.From == "a" {
					for _, t := range ch[b.ID] {
						if t == "x" {
							picked = true
						}
					}
				}
			}
			if !picked && ref.Err == "" {
				// the interesting vectors: x is triggered by the plain edge alone
				rep.Count("edge_plus_branch_runs_x_not_selected_by_any_branch", 1)
				rep.NonTrivial(ebSub + "|" + spec.Digest() + "|" + renderChoices(ch))
			}
		}
		if sample && vi == 0 {
			rep.Sample(map[string]any{"sub_workload": ebSub, "shape": sh, "input": in, "forced_branch_outcomes": ch, "reference": ref.String()})
		}
	}
}

func ebRun(ctx context.Context, rep *mon.Reporter, sh *ebShape, r runnable, in gspec.V, ch map[string][]string, ref *gspec.RefResult, para string, want int, why, modeName string, chunkSeed uint64, pipeCap int) bool {
	spec := sh.Spec
	ctl := gspec.NewCtl("r")
	ctl.Choices = ch
	out, wres, dump := gspec.CallGuarded(gspec.WithCtl(ctx, ctl), r, para, in, chunkSeed, pipeCap)
	rep.AddEvaluations(1)
	wit := map[string]any{"shape": sh, "input": in, "choices": ch, "paradigm": para}
	if wres == mon.Stuck {
		where, detail := gspec.StuckSignature(dump)
		rep.Violation(ID+"/"+ebSub+"/hang/"+where, "the run can never finish: every goroutine of the process is parked\n"+detail, wit)
		return false
	} else if wres == mon.Inconclusive {
		rep.Inconclusive("wall-clock watchdog fired while goroutines were still active")
		return false
	}
	rep.Count("runs_"+para, 1)
	execs, _, _, _ := ctl.Log.Snapshot() // at the moment the run returned
	if sh.XOut == "sink" {
		// x does not feed END: it was started before the run returned (see genEdgeBranch) but may
		// still be running: judge the execution set of a quiescent process
		if _, ok := mon.Settle(2, 400); !ok {
			rep.Count("settle_incomplete", 1)
		}
	}
	settled, _, _, _ := ctl.Log.Snapshot()
	rep.Count("body_executions_observed", int64(len(settled)))
	extra := fmt.Sprintf("paradigm=%s input=%s forced=%s\nreference: %s skipped=%v", para, gspec.Canon(in), renderChoices(ch), ref.String(), keys(ref.Skipped))
	if out.Panic != nil {
		rep.Violation(ID+"/"+ebSub+"/panic", "the run panicked on the caller goroutine: "+out.Panic.Value+"\n"+out.Panic.Stack+"\n"+extra, wit)
		return false
	}
	// ---- (1) the dedicated oracle
	if !ref.Incomplete && ref.Err == "" && out.Err == nil {
		nx := countNode(settled, sh.Inner.Path("x"))
		aRan := countNode(settled, sh.Inner.Path("a")) > 0
		switch {
		case want > 0 && nx == 0:
			rep.Violation(ID+"/"+ebSub+"/"+modeName+"/node-reached-by-plain-edge-not-run",
				fmt.Sprintf("x is reached from a by a plain edge and is also an end node of a branch of a. Under this outcome vector %s, so x must run - it did not (a executed: %v; x feeds END: %s)\n%s\n%s", why, aRan, sh.XOut, extra, gspec.RenderExecs(settled)), wit)
			return false
		case want < 0 && nx > 0:
			rep.Violation(ID+"/"+ebSub+"/"+modeName+"/node-executes-although-nobody-routed",
				fmt.Sprintf("%s, yet x executed %d time(s)\n%s\n%s", why, nx, extra, gspec.RenderExecs(settled)), wit)
			return false
		case nx > 1:
			rep.Violation(ID+"/"+ebSub+"/"+modeName+"/node-reached-by-edge-and-branch-runs-twice",
				fmt.Sprintf("x executed %d times in one run (it is routed to by the plain edge of a and possibly selected by a's branch as well: still one execution)\n%s\n%s", nx, extra, gspec.RenderExecs(settled)), wit)
			return false
		}
		rep.Count("edge_plus_branch_dedicated_oracle_checked", 1)
	}
	// ---- (2) the general reference
	if m := gspec.CompareResult(ref, out); m != nil {
		rep.Violation(ID+"/"+ebSub+"/"+m.Class, m.Detail+"\n"+extra, wit)
		return false
	}
	if ref.Err == "collision" || ref.Err == "keymissing" {
		return true
	}
	if m := gspec.CompareExecsAllPred(ref, settled); m != nil {
		rep.Violation(ID+"/"+ebSub+"/"+m.Class, m.Detail+"\n"+extra, wit)
		return false
	}
	if ref.Err == "" {
		if m := gspec.MissingMustRun(spec, ref, execs); m != nil {
			rep.Violation(ID+"/"+ebSub+"/"+m.Class, m.Detail+"\n"+extra, wit)
			return false
		}
		if para == "I" {
			for _, g := range []*gspec.GraphSpec{spec, sh.Inner} {
				if g.Mode == gspec.Pregel {
					continue
				}
				if m := gspec.CheckHappensBefore(g, settled); m != nil {
					rep.Violation(ID+"/"+ebSub+"/"+m.Class, m.Detail+"\n"+extra, wit)
					return false
				}
			}
			rep.Count("happens_before_checked", int64(len(settled)))
		}
	}
	return true
}
