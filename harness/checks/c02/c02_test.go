// Package c02: all-predecessor (DAG / Workflow) semantics: at most once, exactly when triggered.
package c02

import (
	"context"
	"fmt"
	"sort"
	"sync/atomic"
	"testing"

	"github.com/cloudwego/eino/compose"

	"verifharness/internal/gspec"
	"verifharness/internal/mon"
)

const ID = "C02"

func genOpts(r *mon.Rand, cfg mon.Config, mode gspec.Mode) gspec.GenOpts {
	return gspec.GenOpts{
		Mode: mode, MinNodes: 2, MaxNodes: cfg.Pick(7, 10),
		Branches: 0.7, Multi: 0.4, StreamCond: 0.25, AllowEmpty: 0.4,
		Nest: cfg.Pick(1, 2), NestProb: 0.1, State: 0.2, StreamState: 0.3,
		Streamy: r.Prob(0.4), Keys: 0.15, Renames: 0.1, Passthrough: 0.12, Wide: 0.25,
		CtrlOnly: 0.25, DataOnly: 0.35, Fields: 0.5,
		SubModes: []gspec.Mode{gspec.DAG, gspec.Workflow}, TwoBranches: 0.3,
	}
}

func TestCheck(t *testing.T) {
	cfg := mon.Load(ID)
	rep := mon.NewReporter(cfg, "exploration",
		"generated acyclic specs in graph-AllPredecessor mode and as Workflows (control-only, data-only and combined dependencies, field mappings, single/multi branches, converging branches, nested graphs); for every spec ALL combinations of branch outcomes are forced when there are <=64 (sampled otherwise); each run (Invoke and Stream) is compared with an independent all-predecessor reference interpreter: result, at-most-once, executed ⊆ triggered, ancestors of END executed, input = merge of the routed data predecessors, body entry after every control predecessor returned; a real dagChannel (hook VerifNewDAGChannel) is driven with runner-feasible report sequences next to a model channel; a sub-workload adds nodes without any predecessor; a sub-workload of hand-built specs (edge_branch_test.go) puts a plain edge AND a branch between the same pair of nodes (x with 0-2 further predecessors that finish / are skipped / select it, one or two branches on a, x feeding END or not, nested, all four paradigms) and judges it with a dedicated oracle (a executed => x executed exactly once) next to the reference; a sub-workload of hand-built Workflows (keyed_zero_test.go) whose node x is fed only by predecessors that a branch skips or takes, with or without an input key, field mappings (to the key, below it, two predecessors) and static values at PRNG-chosen paths (another key, below the input key, both, nested), x an invoke or transform lambda, in all four paradigms: x must run on the zero value merged with the static values. Non-trivial: the graph has a branch and the outcome vector skips at least one node while another still runs; distinct = distinct (spec, outcome vector) digests.",
		[]string{"node bodies deterministic", "nodes that are not ancestors of END may or may not have started when the run returns (only ⊆ is required for them)", "a plain edge plus a branch between the same pair of nodes: the edge routes unconditionally, the branch can only add routes (any-predecessor mode behaves the same; only the hand-built sub-workload generates the shape)", "shapes the statement does not define are not generated: data-only edges from non-ancestors, nodes fed only by data-only inputs"},
		150)
	defer func() {
		if err := rep.Flush(); err != nil {
			t.Fatalf("flush: %v", err)
		}
	}()
	ctx := context.Background()
	n := int64(cfg.Pick(600, 4000))
	rep.Cases(n, func(idx int64, rng *mon.Rand) {
		if idx%10 == 9 {
			keyedZeroCase(ctx, rep, rng.Sub("keyedzero"))
			keyedStaticCase(ctx, rep, rng.Sub("keyedstatic"))
		}
		switch {
		case idx%10 == 9:
			channelCase(rep, rng)
		case idx%10 == 8:
			orphanCase(ctx, rep, rng, cfg)
		case idx%10 == 3 || idx%10 == 6:
			edgeBranchCase(ctx, rep, rng, cfg, idx == 3)
		default:
			mode := gspec.DAG
			if rng.Bool() {
				mode = gspec.Workflow
			}
			spec := gspec.Gen(rng, genOpts(rng, cfg, mode))
			graphCase(ctx, rep, rng, spec, idx < 2)
		}
	})
}

// outcomeVectors enumerates forced branch outcomes (all when <= limit, else a PRNG sample).
func outcomeVectors(rng *mon.Rand, spec *gspec.GraphSpec, limit int) ([]map[string][]string, bool) {
	brs := gspec.AllBranches(spec)
	opts := make([][][]string, len(brs))
	total := 1
	for i, b := range brs {
		opts[i] = gspec.BranchOptions(b)
		total *= len(opts[i])
		if total > 1<<20 {
			total = 1 << 20
		}
	}
	if total <= limit {
		var out []map[string][]string
		idx := make([]int, len(brs))
		for {
			m := map[string][]string{}
			for i, b := range brs {
				m[b.ID] = opts[i][idx[i]]
			}
			out = append(out, m)
			k := 0
			for k < len(brs) {
				idx[k]++
				if idx[k] < len(opts[k]) {
					break
				}
				idx[k] = 0
				k++
			}
			if k == len(brs) {
				break
			}
		}
		return out, true
	}
	var out []map[string][]string
	for j := 0; j < limit/2; j++ {
		m := map[string][]string{}
		for i, b := range brs {
			m[b.ID] = opts[i][rng.Intn(len(opts[i]))]
		}
		out = append(out, m)
	}
	return out, false
}

func renderChoices(m map[string][]string) string {
	ks := mon.SortedKeys(m)
	s := ""
	for _, k := range ks {
		s += fmt.Sprintf("%s=%v;", k, m[k])
	}
	return s
}

func graphCase(ctx context.Context, rep *mon.Reporter, rng *mon.Rand, spec *gspec.GraphSpec, sample bool) {
	r, err := gspec.Build(ctx, spec, gspec.BuildOpts{})
	if err != nil {
		rep.Violation(ID+"/build-error", "a well-formed generated spec was rejected: "+err.Error(), spec)
		return
	}
	rep.Distinct("shapes", spec.Shape())
	vecs, all := outcomeVectors(rng, spec, 64)
	if all {
		rep.Count("specs_with_all_outcome_vectors", 1)
	} else {
		rep.Count("specs_with_sampled_outcome_vectors", 1)
	}
	in := gspec.V{"in": rng.Str(1, 6)}
	for vi, ch := range vecs {
		env := &gspec.RefEnv{Choices: ch}
		ref := gspec.EvalGraph(spec, in, env)
		rep.Count("ref_class_"+orOK(ref.Err), 1)
		paras := []string{"I"}
		if vi%2 == 0 && ref.Err != "collision" {
			paras = append(paras, "S")
		}
		for _, para := range paras {
			oneRun(ctx, rep, spec, r, in, ch, ref, para, "graph")
		}
		if len(spec.Branches) > 0 && len(ref.Skipped) > 0 && len(ref.Execs) >= 2 {
			rep.NonTrivial(spec.Digest() + "|" + renderChoices(ch))
		}
		if sample && vi == 0 {
			rep.Sample(map[string]any{"spec": spec, "input": in, "forced_branch_outcomes": ch, "reference": ref.String()})
		}
	}
}

func orOK(s string) string {
	if s == "" {
		return "ok"
	}
	return s
}

func oneRun(ctx context.Context, rep *mon.Reporter, spec *gspec.GraphSpec, r compose.Runnable[gspec.V, gspec.V], in gspec.V, ch map[string][]string, ref *gspec.RefResult, para, sub string) (execs []gspec.Exec, ok bool) {
	ctl := gspec.NewCtl("r")
	ctl.Choices = ch
	if sub == "orphan" {
		// bound the livelock the orphan defect can cause (the node is re-scheduled every round and
		// all-predecessor mode has no step limit): cancel the run after 25 executions of the orphan
		var cancel context.CancelFunc
		ctx, cancel = context.WithCancel(ctx)
		defer cancel()
		var cnt int64
		ctl.OnBody = func(_ context.Context, node string, _ any) {
			if node == "orph" && atomic.AddInt64(&cnt, 1) > 25 {
				cancel()
			}
		}
	}
	out, wres, dump := gspec.CallGuarded(gspec.WithCtl(ctx, ctl), r, para, in, 0, -1)
	rep.AddEvaluations(1)
	if wres == mon.Stuck {
		where, detail := gspec.StuckSignature(dump)
		rep.Violation(ID+"/"+sub+"/hang/"+where, "the run can never finish: every goroutine of the process is parked\n"+detail, map[string]any{"spec": spec, "input": in, "choices": ch})
		return nil, false
	} else if wres == mon.Inconclusive {
		rep.Inconclusive("wall-clock watchdog fired while goroutines were still active")
		return nil, false
	}
	rep.Count("runs_"+para, 1)
	execs, _, _, _ = ctl.Log.Snapshot()
	rep.Count("body_executions_observed", int64(len(execs)))
	extra := fmt.Sprintf("paradigm=%s input=%s forced=%s\nreference: %s skipped=%v", para, gspec.Canon(in), renderChoices(ch), ref.String(), keys(ref.Skipped))
	wit := map[string]any{"spec": spec, "input": in, "choices": ch}
	if sub == "orphan" {
		// the dedicated sub-workload: a node without any predecessor must never run
		for _, e := range execs {
			for _, o := range ref.Orphans {
				if e.Path == o {
					rep.Violation(ID+"/orphan/node-without-predecessor-executes", fmt.Sprintf("node %s has no incoming edge or branch, yet it executed (%d executions in this run)\n%s\n%s", o, countNode(execs, o), extra, gspec.RenderExecs(execs)), wit)
					return execs, false
				}
			}
		}
	}
	if m := gspec.CompareResult(ref, out); m != nil {
		rep.Violation(ID+"/"+sub+"/"+m.Class, m.Detail+"\n"+extra, wit)
		return execs, false
	}
	if ref.Err == "collision" || ref.Err == "keymissing" {
		// the reference stops at the failing merge: its execution set is incomplete, only the failure is compared
		return execs, true
	}
	if m := gspec.CompareExecsAllPred(ref, execs); m != nil {
		rep.Violation(ID+"/"+sub+"/"+m.Class, m.Detail+"\n"+extra, wit)
		return execs, false
	}
	if ref.Err == "" {
		if m := gspec.MissingMustRun(spec, ref, execs); m != nil {
			rep.Violation(ID+"/"+sub+"/"+m.Class, m.Detail+"\n"+extra, wit)
			return execs, false
		}
		if para == "I" {
			if m := gspec.CheckHappensBefore(spec, execs); m != nil {
				rep.Violation(ID+"/"+sub+"/"+m.Class, m.Detail+"\n"+extra, wit)
				return execs, false
			}
			rep.Count("happens_before_checked", int64(len(execs)))
		}
	}
	return execs, true
}

func countNode(execs []gspec.Exec, path string) int {
	n := 0
	for _, e := range execs {
		if e.Path == path {
			n++
		}
	}
	return n
}

func keys(m map[string]bool) []string {
	var ks []string
	for k := range m {
		ks = append(ks, k)
	}
	sort.Strings(ks)
	return ks
}

// orphanCase: an otherwise valid graph plus a node that has no incoming edge or branch.
func orphanCase(ctx context.Context, rep *mon.Reporter, rng *mon.Rand, cfg mon.Config) {
	mode := gspec.DAG
	if rng.Bool() {
		mode = gspec.Workflow
	}
	o := genOpts(rng, cfg, mode)
	o.Nest = 0
	o.Keys = 0
	spec := gspec.Gen(rng, o)
	orphan := gspec.NodeSpec{Key: "orph", Kind: gspec.Hash, Para: gspec.PI, PipeCap: -1}
	spec.Nodes = append(spec.Nodes, orphan)
	if rng.Bool() {
		// its output goes nowhere
	} else if mode == gspec.Workflow {
		spec.Edges = append(spec.Edges, gspec.EdgeSpec{From: "orph", To: gspec.END, NoData: true})
	} else {
		spec.Edges = append(spec.Edges, gspec.EdgeSpec{From: "orph", To: gspec.END})
	}
	r, err := gspec.Build(ctx, spec, gspec.BuildOpts{})
	if err != nil {
		// rejecting such a graph at compile time would be fine
		rep.Count("orphan_specs_rejected_at_compile", 1)
		return
	}
	rep.Count("orphan_specs", 1)
	vecs, _ := outcomeVectors(rng, spec, 8)
	in := gspec.V{"in": rng.Str(1, 6)}
	for _, ch := range vecs {
		ref := gspec.EvalGraph(spec, in, &gspec.RefEnv{Choices: ch})
		oneRun(ctx, rep, spec, r, in, ch, ref, "I", "orphan")
	}
}
