// Package c11: graph state is per run and accessed under mutual exclusion.
package c11

import (
	"context"
	"fmt"
	"runtime"
	"sort"
	"sync"
	"sync/atomic"
	"testing"
	"time"

	"github.com/anishathalye/porcupine"
	"github.com/cloudwego/eino/compose"

	"verifharness/internal/gspec"
	"verifharness/internal/mon"
)

const ID = "C11"

// op is one fetch-and-add on a state object, recorded at the client boundary.
type op struct {
	Serial int64
	Graph  string // St.Graph of the object the operation saw
	Node   string
	Kind   string // body | pre | post
	Delta  int64
	Prev   int64
	Call   int64
	Ret    int64
}

type history struct {
	mu    sync.Mutex
	clock int64
	ops   []op
	viol  []string
	occ   sync.Map // serial -> *int32
	delta int64
}

func (h *history) stamp() int64 { return atomic.AddInt64(&h.clock, 1) }

func (h *history) enter(serial int64) *int32 {
	p, _ := h.occ.LoadOrStore(serial, new(int32))
	c := p.(*int32)
	if n := atomic.AddInt32(c, 1); n != 1 {
		h.mu.Lock()
		h.viol = append(h.viol, fmt.Sprintf("%d holders inside the critical section of state object %d", n, serial))
		h.mu.Unlock()
	}
	return c
}

func yield(seed uint64) {
	switch seed % 4 {
	case 0:
		runtime.Gosched()
	case 1:
		time.Sleep(time.Duration(1+seed%20) * time.Microsecond)
	}
}

// bodyOps performs k fetch-and-add operations on the state through compose.ProcessState.
func (h *history) bodyOps(ctx context.Context, node string, k int, seed uint64) {
	for i := 0; i < k; i++ {
		d := atomic.AddInt64(&h.delta, 1) * 1000 // unique, never equal to a handler's +1
		o := op{Node: node, Kind: "body", Delta: d, Call: h.stamp()}
		err := compose.ProcessState[*gspec.St](ctx, func(_ context.Context, st *gspec.St) error {
			c := h.enter(st.Serial)
			o.Serial, o.Graph, o.Prev = st.Serial, st.Graph, st.Counter
			yield(seed + uint64(i))
			st.Counter += d
			atomic.AddInt32(c, -1)
			return nil
		})
		o.Ret = h.stamp()
		if err != nil {
			h.mu.Lock()
			h.viol = append(h.viol, "ProcessState failed in node "+node+": "+err.Error())
			h.mu.Unlock()
			continue
		}
		h.mu.Lock()
		h.ops = append(h.ops, o)
		h.mu.Unlock()
		yield(seed * 7)
	}
}

// onState is called inside every state handler (under the framework's lock), before the handler's own +1.
func (h *history) onState(_ context.Context, kind, node string, st *gspec.St) {
	c := h.enter(st.Serial)
	t := h.stamp()
	o := op{Serial: st.Serial, Graph: st.Graph, Node: node, Kind: kind, Delta: 1, Prev: st.Counter, Call: t, Ret: t}
	yield(uint64(t))
	atomic.AddInt32(c, -1)
	h.mu.Lock()
	h.ops = append(h.ops, o)
	h.mu.Unlock()
}

var faaModel = porcupine.Model{
	Partition: func(hist []porcupine.Operation) [][]porcupine.Operation {
		by := map[int64][]porcupine.Operation{}
		for _, o := range hist {
			s := o.Input.(op).Serial
			by[s] = append(by[s], o)
		}
		var ks []int64
		for k := range by {
			ks = append(ks, k)
		}
		sort.Slice(ks, func(i, j int) bool { return ks[i] < ks[j] })
		var out [][]porcupine.Operation
		for _, k := range ks {
			out = append(out, by[k])
		}
		return out
	},
	Init: func() interface{} { return int64(0) },
	Step: func(state, input, output interface{}) (bool, interface{}) {
		o := input.(op)
		return output.(int64) == state.(int64), state.(int64) + o.Delta
	},
	Equal: func(a, b interface{}) bool { return a.(int64) == b.(int64) },
}

func genOpts(r *mon.Rand, cfg mon.Config, mode gspec.Mode) gspec.GenOpts {
	o := gspec.GenOpts{
		Mode: mode, MinNodes: 3, MaxNodes: cfg.Pick(8, 9),
		Branches: 0.3, Multi: 0.6, StreamCond: 0.2, AllowEmpty: 0,
		Nest: 2, NestProb: 0.25, State: 1.0, SubState: 0.4, StreamState: 0.3,
		Streamy: r.Prob(0.3), Keys: 0, Renames: 0.05, Passthrough: 0.05, Wide: 0.2,
		CtrlOnly: 0.2, DataOnly: 0.3, Fields: 0.4,
	}
	if mode == gspec.Pregel {
		o.Cycles = 0.2
	}
	return o
}

func TestCheck(t *testing.T) {
	cfg := mon.Load(ID)
	rep := mon.NewReporter(cfg, "exploration",
		"stateful generated specs in all three modes with 2-8 parallel nodes whose bodies perform 1-6 fetch-and-add operations with unique deltas on the state through compose.ProcessState while pre/post (stream) handlers add +1, nested graphs with and without state of their own, PRNG yields inside the critical sections, GOMAXPROCS 2/16; plus interrupted+resumed histories (byte-only store, optional WithStateModifier) and concurrent runs. Oracles: an occupancy counter asserted inside every critical section (under the lock the framework itself uses) must never leave {0,1}; the client-boundary history of all operations on one state object must be linearizable as a fetch-and-add register (porcupine, partitioned by state object); conservation: the last value equals the sum of all deltas (no lost update), also across interrupt/resume; a body sees the state of the innermost stateful graph enclosing it; pre-handler before and post-handler after its node; state objects of different runs and of different nested executions are distinct; race detector. Non-trivial: a run with >=2 bodies operating on one state object and >=6 operations; distinct = (spec, input, schedule).",
		[]string{"porcupine v1.3.0 is trusted as history checker (2 min timeout = inconclusive)", "handler operations are stamped inside their critical section"},
		100)
	defer func() {
		if err := rep.Flush(); err != nil {
			t.Fatalf("flush: %v", err)
		}
	}()
	defer runtime.GOMAXPROCS(runtime.GOMAXPROCS(0))
	gspec.EnableInterruptHook()
	ctx := context.Background()
	n := int64(cfg.Pick(180, 500))
	rep.Require("operations_checked", 500)
	rep.Cases(n, func(idx int64, rng *mon.Rand) {
		mode := gspec.Mode(idx % 3)
		spec := gspec.Gen(rng, genOpts(rng, cfg, mode))
		if idx%5 == 4 {
			interruptCase(ctx, rep, rng, cfg, spec)
			return
		}
		specCase(ctx, rep, rng, cfg, spec, idx < 2)
	})
}

// owner: for every node key, the name of the innermost stateful graph enclosing it ("-" if none).
func owners(g *gspec.GraphSpec, inherited string, out map[string]string) {
	cur := inherited
	if g.State {
		cur = g.Name
	}
	for i := range g.Nodes {
		out[g.Nodes[i].Key] = cur
		if g.Nodes[i].Sub != nil {
			owners(g.Nodes[i].Sub, cur, out)
		}
	}
}

// curSpec is the spec of the case being judged (set by the case functions; one case at a time per process)
var curSpec *gspec.GraphSpec

// preNodes: body nodes of curSpec that have a (stream) state pre-handler.
func preNodes(own map[string]string) map[string]bool {
	out := map[string]bool{}
	var walk func(g *gspec.GraphSpec)
	walk = func(g *gspec.GraphSpec) {
		for i := range g.Nodes {
			n := &g.Nodes[i]
			if n.Sub != nil {
				walk(n.Sub)
				continue
			}
			if (n.Pre || n.StreamPre) && n.Kind != gspec.Passthrough && own[n.Key] != "-" {
				out[n.Key] = true
			}
		}
	}
	if curSpec != nil {
		walk(curSpec)
	}
	return out
}

func judge(rep *mon.Reporter, h *history, own map[string]string, execs []gspec.Exec, states []gspec.StateEvent, wit any, extra string, finalKnown map[int64]int64) bool {
	h.mu.Lock()
	ops := append([]op(nil), h.ops...)
	viol := append([]string(nil), h.viol...)
	h.mu.Unlock()
	rep.Count("operations_checked", int64(len(ops)))
	for _, v := range viol {
		rep.Violation(ID+"/mutual-exclusion/occupancy", v+"\n"+extra, wit)
		return false
	}
	// innermost stateful graph
	for _, o := range ops {
		if want, ok := own[o.Node]; ok && want != o.Graph {
			rep.Violation(ID+"/wrong-state-object", fmt.Sprintf("%s of node %s operated on the state of graph %q, the innermost stateful graph enclosing it is %q\n%s", o.Kind, o.Node, o.Graph, want, extra), wit)
			return false
		}
	}
	// linearizability per state object
	var hist []porcupine.Operation
	for i, o := range ops {
		hist = append(hist, porcupine.Operation{ClientId: i, Input: o, Call: o.Call, Output: o.Prev, Return: o.Ret})
	}
	res, _ := porcupine.CheckOperationsVerbose(faaModel, hist, 2*time.Minute)
	switch res {
	case porcupine.Illegal:
		sort.Slice(ops, func(i, j int) bool { return ops[i].Call < ops[j].Call })
		rep.Violation(ID+"/not-linearizable", fmt.Sprintf("the history of fetch-and-add operations on the state is not linearizable (lost or torn update)\n%+v\n%s", ops, extra), wit)
		return false
	case porcupine.Unknown:
		rep.Inconclusive("porcupine timed out")
		return false
	}
	rep.Count("histories_linearizable", 1)
	// conservation per state object
	sum, last := map[int64]int64{}, map[int64]int64{}
	for _, o := range ops {
		sum[o.Serial] += o.Delta
		if v := o.Prev + o.Delta; v > last[o.Serial] {
			last[o.Serial] = v
		}
	}
	for s, total := range sum {
		if last[s] != total {
			rep.Violation(ID+"/lost-update", fmt.Sprintf("state object %d: the largest value reached is %d but the deltas add up to %d\n%s", s, last[s], total, extra), wit)
			return false
		}
		if fk, ok := finalKnown[s]; ok && fk != total {
			rep.Violation(ID+"/lost-update/final-state", fmt.Sprintf("state object %d: final counter %d, the deltas add up to %d\n%s", s, fk, total, extra), wit)
			return false
		}
	}
	// pre before, post after
	entry := map[string][]int64{}
	exit := map[string][]int64{}
	for _, e := range execs {
		entry[e.Node] = append(entry[e.Node], e.Seq)
		if e.Err == "" {
			// post-handlers follow successful executions only (not the aborted attempt of a node that asked to be interrupted)
			exit[e.Node] = append(exit[e.Node], e.EndSeq)
		}
	}
	pres, posts := map[string][]int64{}, map[string][]int64{}
	for _, s := range states {
		switch s.Kind {
		case "pre":
			pres[s.Node] = append(pres[s.Node], s.Seq)
		case "post":
			posts[s.Node] = append(posts[s.Node], s.Seq)
		}
	}
	// a node's pre-handler runs before it: once for every time the node body is entered
	for n, want := range preNodes(own) {
		_ = want
		if len(entry[n]) != len(pres[n]) {
			rep.Violation(ID+"/handler-count/pre", fmt.Sprintf("node %s has a state pre-handler: its body was entered %d time(s) but the pre-handler ran %d time(s)\n%s", n, len(entry[n]), len(pres[n]), extra), wit)
			return false
		}
		rep.Count("pre_handler_counts_checked", 1)
	}
	for n, ps := range pres {
		for i, p := range ps {
			if i < len(entry[n]) && p > entry[n][i] {
				rep.Violation(ID+"/handler-order/pre-after-entry", fmt.Sprintf("pre-handler of %s ran after the node was entered\n%s", n, extra), wit)
				return false
			}
		}
	}
	for n, ps := range posts {
		for i, p := range ps {
			if i < len(exit[n]) && exit[n][i] != 0 && p < exit[n][i] {
				rep.Violation(ID+"/handler-order/post-before-exit", fmt.Sprintf("post-handler of %s ran before the node returned\n%s", n, extra), wit)
				return false
			}
		}
	}
	return true
}

func specCase(ctx context.Context, rep *mon.Reporter, rng *mon.Rand, cfg mon.Config, spec *gspec.GraphSpec, sample bool) {
	own := map[string]string{}
	owners(spec, "-", own)
	curSpec = spec
	in := gspec.V{"in": rng.Str(1, 5)}
	ref := gspec.EvalGraph(spec, in, nil)
	if ref.Err != "" {
		return
	}
	var cur atomic.Value // *history of the run in progress (handlers find it here)
	r, err := gspec.Build(ctx, spec, gspec.BuildOpts{OnState: func(ctx context.Context, kind, node string, st *gspec.St) {
		if h, _ := ctx.Value(histKey{}).(*history); h != nil {
			h.onState(ctx, kind, node, st)
		}
	}})
	_ = cur
	if err != nil {
		rep.Violation(ID+"/build-error", err.Error(), spec)
		return
	}
	serialsSeen := map[int64]int{}
	for sched := 0; sched < cfg.Pick(4, 8); sched++ {
		runtime.GOMAXPROCS([]int{2, 16}[rng.Intn(2)])
		h := &history{}
		ctl := gspec.NewCtl("r")
		seed := rng.Uint64()
		kops := 1 + rng.Intn(6)
		ctl.OnBody = func(c context.Context, node string, _ any) {
			if own[node] != "-" {
				h.bodyOps(c, node, kops, seed^mon.HashStr(node))
			}
		}
		para := []string{"I", "I", "S", "T"}[rng.Intn(4)]
		cctx := context.WithValue(gspec.WithCtl(ctx, ctl), histKey{}, h)
		out, wres, dump := gspec.CallGuarded(cctx, r, para, in, seed, -1)
		rep.AddEvaluations(1)
		wit := map[string]any{"spec": spec, "input": in, "schedule": sched, "paradigm": para}
		if wres == mon.Stuck {
			where, detail := gspec.StuckSignature(dump)
			rep.Violation(ID+"/hang/"+where, detail, wit)
			return
		}
		if wres != mon.Finished {
			rep.Inconclusive("watchdog")
			return
		}
		mon.Settle(2, 200) // lazily streaming bodies may still be operating on the state
		extra := fmt.Sprintf("paradigm=%s input=%s ops-per-body=%d\nreference: %s", para, gspec.Canon(in), kops, ref.String())
		if m := gspec.CompareResult(ref, out); m != nil {
			rep.Violation(ID+"/result/"+m.Class, m.Detail+"\n"+extra, wit)
			return
		}
		execs, _, _, states := ctl.Log.Snapshot()
		if !judge(rep, h, own, execs, states, wit, extra, nil) {
			return
		}
		// state objects are fresh per run and per nested execution
		for _, s := range states {
			if s.Kind == "gen" {
				if prev, ok := serialsSeen[s.Serial]; ok && prev != sched {
					rep.Violation(ID+"/state-shared-between-runs", fmt.Sprintf("state object %d generated in run %d is used again in run %d", s.Serial, prev, sched), wit)
					return
				}
				serialsSeen[s.Serial] = sched
			}
		}
		bodies := map[int64]map[string]bool{}
		h.mu.Lock()
		nops := len(h.ops)
		for _, o := range h.ops {
			if o.Kind == "body" {
				if bodies[o.Serial] == nil {
					bodies[o.Serial] = map[string]bool{}
				}
				bodies[o.Serial][o.Node] = true
			}
		}
		h.mu.Unlock()
		multi := false
		for _, b := range bodies {
			if len(b) >= 2 {
				multi = true
			}
		}
		if multi && nops >= 6 {
			rep.NonTrivial(fmt.Sprintf("%s|%s|%d", spec.Digest(), gspec.Canon(in), sched))
		}
		if sample && sched == 0 {
			rep.Sample(map[string]any{"spec": spec, "input": in, "operations": nops})
		}
	}
	runtime.GOMAXPROCS(16)
	overlapCase(ctx, rep, rng, cfg, spec, r, own, ref, in)
}

type histKey struct{}

// interruptCase: state and the updates made to it survive interrupt and resume.
// addReruns marks some stateful Hash nodes as nodes that ask to be interrupted on their first attempt
// (InterruptAndRerun) and are re-run, after their pre-handler, when the run is resumed.
func addReruns(r *mon.Rand, g *gspec.GraphSpec) {
	if g.State {
		for i := range g.Nodes {
			n := &g.Nodes[i]
			if n.Kind == gspec.Hash && n.InputKey == "" && !n.StreamPre && r.Prob(0.35) {
				n.Pre, n.Rerun, n.Lazy = true, true, false
			}
		}
	}
	for i := range g.Nodes {
		if g.Nodes[i].Sub != nil {
			addReruns(r, g.Nodes[i].Sub)
		}
	}
}

func interruptCase(ctx context.Context, rep *mon.Reporter, rng *mon.Rand, cfg mon.Config, spec *gspec.GraphSpec) {
	addReruns(rng, spec)
	own := map[string]string{}
	owners(spec, "-", own)
	in := gspec.V{"in": rng.Str(1, 5)}
	ref := gspec.EvalGraph(spec, in, nil)
	if ref.Err != "" {
		return
	}
	pts := gspec.AllPoints(spec)
	if len(pts) == 0 {
		return
	}
	for t := 0; t < cfg.Pick(6, 16); t++ {
		plan := gspec.Plan{pts[rng.Intn(len(pts))]}
		if rng.Bool() {
			plan = append(plan, pts[rng.Intn(len(pts))])
		}
		ps := gspec.ApplyPlan(spec, plan)
		curSpec = ps
		store := gspec.NewByteStore()
		h := &history{}
		r, err := gspec.Build(ctx, ps, gspec.BuildOpts{Store: store, OnState: func(c context.Context, kind, node string, st *gspec.St) {
			h.onState(c, kind, node, st)
		}})
		if err != nil {
			rep.Violation(ID+"/build-error/with-interrupts", err.Error(), ps)
			return
		}
		seed := rng.Uint64()
		withMod := rng.Prob(0.3)
		var mod compose.StateModifier
		modDelta := int64(0)
		if withMod {
			mod = func(_ context.Context, path compose.NodePath, state any) error {
				if st, ok := state.(*gspec.St); ok && len(path.GetPath()) == 0 {
					// a caller-supplied modification, recorded as an operation of its own
					d := atomic.AddInt64(&h.delta, 1) * 1000
					t := h.stamp()
					h.mu.Lock()
					h.ops = append(h.ops, op{Serial: st.Serial, Graph: st.Graph, Node: "<modifier>", Kind: "modifier", Delta: d, Prev: st.Counter, Call: t, Ret: t})
					h.mu.Unlock()
					st.Counter += d
					atomic.AddInt64(&modDelta, d)
				}
				return nil
			}
		}
		hist := gspec.RunHistory(ctx, ps, r, store, in, plan, gspec.HistoryOpts{Paras: []string{"I"}, CheckPoint: true, MaxCalls: 4*(len(ref.Execs)+4) + 4, StateMod: mod,
			OnBody: func(c context.Context, node string, _ any) {
				if own[node] != "-" {
					h.bodyOps(c, node, 2, seed^mon.HashStr(node))
				}
			}})
		rep.AddEvaluations(int64(len(hist.Calls)))
		rep.Count("interrupt_histories", 1)
		wit := map[string]any{"spec": ps, "input": in, "plan": plan.String(), "state_modifier": withMod}
		if hist.Stuck != "" {
			rep.Violation(ID+"/interrupt/hang/"+hist.Stuck, hist.StuckDetail, wit)
			return
		}
		if hist.Inconclusive || hist.NoProgress || !hist.Completed || hist.Final().Failed() {
			rep.Count("interrupt_histories_not_judged", 1) // what a resumed run computes is C05's business
			continue
		}
		extra := fmt.Sprintf("input=%s\n%s", gspec.Canon(in), hist.Render())
		// across interrupt and resume a state object keeps its serial (it is data), so the register
		// model applies to the whole history: a lost update or a stale restore is a linearizability violation
		if !judge(rep, h, own, hist.AllExecs(), hist.AllStates(), wit, "interrupted history (state carried through a byte-only checkpoint store)\n"+extra, nil) {
			return
		}
		if len(hist.Calls) > 1 {
			rep.Count("interrupt_histories_with_resume", 1)
			rep.NonTrivial(fmt.Sprintf("int|%s|%s|%s", spec.Digest(), gspec.Canon(in), plan))
		}
	}
}
