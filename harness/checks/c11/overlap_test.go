package c11

import (
	"context"
	"fmt"
	"sync"
	"time"

	"github.com/cloudwego/eino/compose"

	"verifharness/internal/gspec"
	"verifharness/internal/mon"
)

// overlapCase: k runs of ONE compiled runnable overlap in time (the first body of every run waits until
// every run has entered its first body). Each run has its own client-side history. Every run must work
// on state objects of its own: a state object (serial) that shows up in the histories of two runs, or a
// history that is not linearizable/conserving on its own, means runs share state.
func overlapCase(ctx context.Context, rep *mon.Reporter, rng *mon.Rand, cfg mon.Config, spec *gspec.GraphSpec, r compose.Runnable[gspec.V, gspec.V], own map[string]string, ref *gspec.RefResult, in gspec.V) bool {
	if len(ref.Execs) == 0 {
		return true
	}
	k := 2 + rng.Intn(3)
	hs := make([]*history, k)
	ctls := make([]*gspec.RunCtl, k)
	outs := make([]gspec.Outcome, k)
	paras := make([]string, k)
	var barrier sync.WaitGroup
	barrier.Add(k)
	var wg sync.WaitGroup
	done := make(chan struct{})
	for i := 0; i < k; i++ {
		hs[i] = &history{}
		ctls[i] = gspec.NewCtl(fmt.Sprintf("r%d", i))
		h, seed, kops := hs[i], rng.Uint64(), 1+rng.Intn(4)
		var once sync.Once
		ctls[i].OnBody = func(c context.Context, node string, _ any) {
			once.Do(func() {
				barrier.Done()
				barrier.Wait()
			})
			if own[node] != "-" {
				h.bodyOps(c, node, kops, seed^mon.HashStr(node))
			}
		}
		paras[i] = []string{"I", "S", "T", "I"}[rng.Intn(4)]
	}
	for i := 0; i < k; i++ {
		wg.Add(1)
		go func(i int) {
			defer wg.Done()
			cctx := context.WithValue(gspec.WithCtl(ctx, ctls[i]), histKey{}, hs[i])
			outs[i] = gspec.Call(cctx, r, paras[i], in, uint64(i), -1)
		}(i)
	}
	go func() { wg.Wait(); close(done) }()
	wres, dump := mon.WaitDone(done, 120*time.Second)
	rep.AddEvaluations(int64(k))
	rep.Count("overlapping_runs", int64(k))
	wit := map[string]any{"spec": spec, "input": in, "overlapping_runs": k, "paradigms": paras}
	if wres == mon.Stuck {
		where, detail := gspec.StuckSignature(dump)
		rep.Violation(ID+"/overlap/hang/"+where, detail, wit)
		return false
	}
	if wres != mon.Finished {
		rep.Inconclusive("watchdog")
		return false
	}
	mon.Settle(2, 200)
	ownerRun := map[int64]int{}
	for i := 0; i < k; i++ {
		extra := fmt.Sprintf("run %d of %d overlapping runs, paradigm=%s input=%s\nreference: %s", i, k, paras[i], gspec.Canon(in), ref.String())
		if m := gspec.CompareResult(ref, outs[i]); m != nil {
			rep.Violation(ID+"/overlap/result/"+m.Class, m.Detail+"\n"+extra, wit)
			return false
		}
		_, _, _, states := ctls[i].Log.Snapshot()
		for _, s := range states {
			if s.Kind == "gen" {
				if prev, ok := ownerRun[s.Serial]; ok && prev != i {
					rep.Violation(ID+"/state-shared-between-runs", fmt.Sprintf("state object %d was generated for run %d and for run %d", s.Serial, prev, i), wit)
					return false
				}
				ownerRun[s.Serial] = i
			}
		}
	}
	for i := 0; i < k; i++ {
		hs[i].mu.Lock()
		ops := append([]op(nil), hs[i].ops...)
		hs[i].mu.Unlock()
		for _, o := range ops {
			if g, ok := ownerRun[o.Serial]; !ok || g != i {
				who := "nobody in this batch"
				if ok {
					who = fmt.Sprintf("run %d", g)
				}
				rep.Violation(ID+"/state-shared-between-runs", fmt.Sprintf("%s of node %s in run %d operated on state object %d, which was generated for %s (runs of one compiled graph overlap in time)\n%+v", o.Kind, o.Node, i, o.Serial, who, wit), wit)
				return false
			}
		}
	}
	for i := 0; i < k; i++ {
		execs, _, _, states := ctls[i].Log.Snapshot()
		extra := fmt.Sprintf("run %d of %d overlapping runs, paradigm=%s input=%s", i, k, paras[i], gspec.Canon(in))
		if !judge(rep, hs[i], own, execs, states, wit, extra, nil) {
			return false
		}
	}
	rep.Count("overlap_batches_checked", 1)
	return true
}
