// Package c16: call options reach exactly the nodes they address.
package c16

import (
	"context"
	"fmt"
	"strings"
	"sync"
	"testing"
	"time"

	"github.com/cloudwego/eino/callbacks"
	"github.com/cloudwego/eino/compose"
	"github.com/cloudwego/eino/schema"

	"verifharness/internal/gspec"
	"verifharness/internal/mon"
)

const ID = "C16"

func genOpts(r *mon.Rand, cfg mon.Config, mode gspec.Mode) gspec.GenOpts {
	o := gspec.GenOpts{
		Mode: mode, MinNodes: 2, MaxNodes: cfg.Pick(6, 8),
		Branches: 0.3, Multi: 0.5, AllowEmpty: 0,
		Nest: 3, NestProb: 0.25, State: 0.1,
		Streamy: true, Keys: 0.3, Renames: 0.1, Passthrough: 0.2, Wide: 0.2,
		CtrlOnly: 0.2, DataOnly: 0.3, Fields: 0.4,
		SubModes: []gspec.Mode{gspec.DAG, gspec.Workflow, gspec.Pregel, gspec.DAG, gspec.Workflow},
	}
	return o
}

// node inventory of a spec tree
type nodeInfo struct {
	path    []string // keys from the top level
	kind    gspec.Kind
	optTy   int
	subMode gspec.Mode // nested graphs: their mode
}

func inventory(g *gspec.GraphSpec, prefix []string, out *[]nodeInfo) {
	for i := range g.Nodes {
		n := &g.Nodes[i]
		p := append(append([]string(nil), prefix...), n.Key)
		ni := nodeInfo{path: p, kind: n.Kind, optTy: n.OptType}
		if n.Sub != nil {
			ni.subMode = n.Sub.Mode
		}
		*out = append(*out, ni)
		if n.Sub != nil {
			inventory(n.Sub, p, out)
		}
	}
}

func setOptTypes(r *mon.Rand, g *gspec.GraphSpec) {
	for i := range g.Nodes {
		g.Nodes[i].OptType = r.Intn(2)
		if g.Nodes[i].Sub != nil {
			setOptTypes(r, g.Nodes[i].Sub)
		}
	}
}

// one generated call option
type optSpec struct {
	ID      string     `json:"id"`
	Ty      int        `json:"type"`    // 0: OptA, 1: OptB
	Vals    int        `json:"values"`  // number of option values in it
	Paths   [][]string `json:"paths"`   // designated paths (empty: undesignated)
	Base    int        `json:"base"`    // >=0: derived from shared base option #Base by a further DesignateNode
	Handler bool       `json:"handler"` // a callback handler instead of a component option
	// ValTys: ONE compose.Option whose values are of different option types (WithLambdaOption takes ...any):
	// the type of every value (len == Vals); nil: all values are of type Ty
	ValTys []int `json:"value_types,omitempty"`
	// Steps > 0: not a component option but WithRuntimeMaxSteps(Steps), an option for graphs
	Steps int `json:"max_steps,omitempty"`
}

func (o optSpec) valTy(v int) int {
	if o.ValTys != nil {
		return o.ValTys[v]
	}
	return o.Ty
}

// mixed: the option carries values of both option types
func (o optSpec) mixed() bool {
	for v := 1; v < o.Vals; v++ {
		if o.valTy(v) != o.valTy(0) {
			return true
		}
	}
	return false
}

// payloadsFor: the payloads of the values of option type ty, in the order they were given
func (o optSpec) payloadsFor(ty int) []string {
	var out []string
	for v := 0; v < o.Vals; v++ {
		if o.valTy(v) == ty {
			out = append(out, fmt.Sprintf("%s:%s.%d", []string{"A", "B"}[ty], o.ID, v))
		}
	}
	return out
}

// route: the reference router. Returns the expected ordered payload list per node path
// ("a/b") and whether the call must be rejected.
func route(spec *gspec.GraphSpec, opts []optSpec) (map[string][]string, bool, string) {
	exp := map[string][]string{}
	var bad string
	badOwner = ""
	subSteps = nil
	var deliver func(g *gspec.GraphSpec, prefix string, o optSpec, path []string)
	deliver = func(g *gspec.GraphSpec, prefix string, o optSpec, path []string) {
		if len(path) == 0 {
			// undesignated within g: every lambda of the option's type, recursively
			for i := range g.Nodes {
				n := &g.Nodes[i]
				p := prefix + n.Key
				switch {
				case n.Sub != nil:
					deliver(n.Sub, p+"/", o, nil)
				case n.Kind == gspec.Passthrough:
				default:
					// every value goes to the nodes that take its type, whatever else the Option carries
					exp[p] = append(exp[p], o.payloadsFor(n.OptType)...)
				}
			}
			return
		}
		n := g.Node(path[0])
		badOwner = strings.TrimSuffix(prefix, "/") // the graph that detects a problem with this path element
		if n == nil {
			bad = "unknown-node"
			return
		}
		p := prefix + n.Key
		if len(path) == 1 && o.Steps > 0 {
			// a run-time step limit is an option for graphs: no other node can take it
			switch {
			case n.Sub != nil:
				if subSteps == nil {
					subSteps = map[string]int{}
				}
				subSteps[n.Sub.Name] = o.Steps
			case n.Kind == gspec.Passthrough:
				bad = "step-limit-for-passthrough"
			default:
				bad = "step-limit-for-component"
			}
			return
		}
		if len(path) == 1 {
			switch {
			case n.Sub != nil:
				deliver(n.Sub, p+"/", o, nil)
			case n.Kind == gspec.Passthrough:
				bad = "option-for-passthrough"
			case len(o.payloadsFor(n.OptType)) != o.Vals:
				bad = "wrong-option-type"
				if len(o.payloadsFor(n.OptType)) > 0 {
					bad = "wrong-option-type/one-of-several-values"
				}
			default:
				exp[p] = append(exp[p], o.payloadsFor(n.OptType)...)
			}
			return
		}
		if n.Sub == nil {
			if n.Kind == gspec.Passthrough {
				bad = "path-below-passthrough"
			} else {
				bad = "path-below-component"
			}
			return
		}
		deliver(n.Sub, p+"/", o, path[1:])
	}
	for _, o := range opts {
		if o.Handler {
			continue
		}
		if len(o.Paths) == 0 {
			deliver(spec, "", o, nil)
			continue
		}
		for _, p := range o.Paths {
			deliver(spec, "", o, p)
			if bad != "" {
				return nil, true, bad
			}
		}
	}
	return exp, false, ""
}

func TestCheck(t *testing.T) {
	cfg := mon.Load(ID)
	rep := mon.NewReporter(cfg, "exploration",
		"generated nested specs (depth <=3; nested graphs in all three modes) mixing lambdas of two option types, pass-through nodes and nested graphs; 10 (quick) / 40 (thorough) calls per spec, each with 0-6 call options: undesignated, DesignateNode, DesignateNodeWithPath with several paths, several option values, ONE option carrying values of both option types (undesignated / designated to a nested graph: every value reaches the nodes of its type; designated to a lambda: an error), options derived in different calls from one shared base option, run-time step limits designated to nested graphs (reference: the limit bounds that graph only), invalid designations (unknown node, path below a lambda, path below a pass-through node, wrong option type, one wrong value among several, any option designated to a pass-through node, a step limit designated to a lambda or a pass-through node), and callback handlers designated to nodes; sequential calls and 8-way concurrent calls. Oracle: a reference router computes for every node path the expected ordered payload list; every executed body's received options must equal it; a call with an invalid designation must fail; a valid call with a multi-type option that fails while the same call with one Option per value succeeds is a violation; a designated handler may fire only for its node; payloads carry (call id, option id) so that leakage between calls is visible. Non-trivial: a call with >=2 options of which >=1 designated into a nested graph; distinct = (spec, options). PLUS (every 5th case) hand-shaped and generated graphs of chat models, lambdas, pass-through nodes and nested graphs (designation_gaps_test.go, component_test.go, iface_option_test.go): chat-model options, lambda options, one Option with values of two or three option types (also a chat-model option inside WithLambdaOption), step limits (undesignated: the top-level graph only), each undesignated or designated to every kind of node, Invoke and Stream. PLUS (every 5th case, resume_test.go) graph-run options designated to nested graphs: on resumes of interrupts inside stateful nested graphs (depth 1-3, one or two interrupt points, so that enclosing graphs, nested graphs and siblings are restored together) WithStateModifier designated to 1-3 nested graphs must be called exactly for the designated graphs whose state the call restores, with their node path and their state object, and only their states show the modification to the state handlers that run afterwards; WithCheckPointID designated to a nested graph must not make the top-level graph touch its store. PLUS (same cases, nested_statemod_test.go) trees (1-3 nesting levels) of Graphs in both trigger modes, Chains and Workflows made of Lambdas, pass-through nodes, chat models and nested graphs, with and without local states: fresh calls and resumes of an interrupt before a node at any depth (Invoke / Stream) carry 1-3 WithStateModifier options, undesignated or designated (DesignateNode / DesignateNodeWithPath, 1-3 paths) to graph nodes and to non-graph nodes at depth 1-4, next to lambda options, designated callbacks and step limits in any order: a modifier designated to a non-graph node at any depth makes the call an error (a refused resume leaves the checkpoint usable); otherwise every modifier is called exactly once for every restored graph it addresses, with that graph's path and state, the bodies that run afterwards see exactly these modifications, and the other options are delivered as without the modifiers.",
		[]string{"an option designated to a graph node addresses that graph (all nodes of its type inside)", "a pass-through node takes no option: any option designated to it is 'an option of the wrong type'; a run-time step limit is an option for graphs: designated to another node it is of the wrong type", "a step limit designated to a nested graph in all-predecessor mode is not generated (eino refuses step limits for such graphs; the statement is silent)", "the graphs whose state a resume restores are those that the interrupt information of the resumed interrupt reports with a state"},
		100)
	defer func() {
		if err := rep.Flush(); err != nil {
			t.Fatalf("flush: %v", err)
		}
	}()
	ctx := context.Background()
	rep.Require("designated_state_modifier_calls_checked", 100)
	rep.Require("restored_states_left_alone_checked", 100)
	rep.Require("component_graph_calls", 500)
	rep.Require("nested_modifier_invalid_calls_refused", 200)
	rep.Require("nested_modifier_invalid_resumes_refused", 50)
	rep.Require("nested_modifier_applications_checked", 100)
	rep.Require("nested_modifier_valid_fresh_calls", 100)
	rep.Require("rejected_option-for-passthrough", 20)
	rep.Require("rejected_step-limit-for-component", 20)
	rep.Require("valid_calls_with_one_option_of_two_value_types", 200)
	rep.Require("spare_capacity_second_call_started_while_first_held", 50)
	rep.Require("spare_capacity_caller_slices_with_spare_capacity_checked", 200)
	n := int64(cfg.Pick(300, 1000))
	rep.Cases(n, func(idx int64, rng *mon.Rand) {
		if idx%5 == 3 {
			for k := 0; k < cfg.Pick(6, 12); k++ {
				designatedStateModifierCase(ctx, rep, rng.Sub(fmt.Sprint("statemod", k)), cfg)
			}
			for k := 0; k < cfg.Pick(8, 10); k++ {
				nestedStateModifierCase(ctx, rep, rng.Sub(fmt.Sprint("nestedmod", k)), cfg)
			}
		}
		if idx%5 == 4 {
			componentCase(ctx, rep, rng)
			ifaceOptionCase(ctx, rep, rng.Sub("iface"))
			for k := 0; k < 3; k++ {
				componentGapsCase(ctx, rep, rng.Sub(fmt.Sprint("gaps", k)))
			}
			// caller-owned option value slices with spare capacity (spare_capacity_test.go)
			for k := 0; k < cfg.Pick(4, 8); k++ {
				spareCapacityCase(ctx, rep, rng.Sub(fmt.Sprint("spare", k)))
			}
			return
		}
		mode := gspec.Mode(idx % 3)
		spec := gspec.Gen(rng, genOpts(rng, cfg, mode))
		setOptTypes(rng, spec)
		specCase(ctx, rep, rng, cfg, spec, idx < 2)
	})
}

func genOptions(rng *mon.Rand, inv []nodeInfo, callID string, invalidProb float64) []optSpec {
	var lambdas, subs, passes, pregelSubs []nodeInfo
	for _, n := range inv {
		switch {
		case n.kind == gspec.Sub:
			subs = append(subs, n)
			if n.subMode == gspec.Pregel {
				pregelSubs = append(pregelSubs, n)
			}
		case n.kind == gspec.Passthrough:
			passes = append(passes, n)
		default:
			lambdas = append(lambdas, n)
		}
	}
	k := rng.Intn(7)
	var out []optSpec
	haveSteps := false
	for i := 0; i < k; i++ {
		o := optSpec{ID: fmt.Sprintf("%s-o%d", callID, i), Ty: rng.Intn(2), Vals: 1 + rng.Intn(2), Base: -1}
		toGraphs := true // every path (if any) addresses a nested graph as a whole
		switch r := rng.Intn(10); {
		case r < 3: // undesignated
		case r < 8 && len(lambdas) > 0: // designated to 1..3 lambdas of the right type (any depth)
			toGraphs = false
			np := 1 + rng.Intn(3)
			first := lambdas[rng.Intn(len(lambdas))]
			o.Ty = first.optTy
			o.Paths = append(o.Paths, first.path)
			for j := 1; j < np; j++ {
				// further paths of the same option address lambdas of the same option type
				for t := 0; t < 6; t++ {
					c := lambdas[rng.Intn(len(lambdas))]
					if c.optTy == o.Ty {
						o.Paths = append(o.Paths, c.path)
						break
					}
				}
			}
		case len(subs) > 0: // designated to a nested graph as a whole
			o.Paths = append(o.Paths, subs[rng.Intn(len(subs))].path)
		}
		if toGraphs && rng.Prob(0.3) {
			// ONE option with values of both option types, undesignated or designated to a nested graph:
			// every value reaches the nodes (in that graph) that take its type, and no other node
			o.Vals = 2 + rng.Intn(3)
			o.ValTys = make([]int, o.Vals)
			for v := range o.ValTys {
				o.ValTys[v] = rng.Intn(2)
			}
			w := rng.Intn(o.Vals)
			o.ValTys[w] = 1 - o.ValTys[(w+1)%o.Vals]
			o.Ty = o.ValTys[0]
		}
		if !haveSteps && len(pregelSubs) > 0 && rng.Prob(0.12) {
			// a run-time step limit designated to a nested graph applies to that graph (and to nothing else)
			haveSteps = true
			o = optSpec{ID: o.ID, Base: -1, Steps: []int{1, 2, 3, 1000}[rng.Intn(4)], Paths: [][]string{pregelSubs[rng.Intn(len(pregelSubs))].path}}
		}
		if rng.Prob(invalidProb) {
			switch rng.Intn(8) {
			case 0:
				o.Paths = append(o.Paths, []string{"nope"})
			case 1:
				if len(lambdas) > 0 {
					l := lambdas[rng.Intn(len(lambdas))]
					o.Paths = append(o.Paths, append(append([]string(nil), l.path...), "x"))
				}
			case 2:
				if len(passes) > 0 {
					p := passes[rng.Intn(len(passes))]
					o.Paths = append(o.Paths, append(append([]string(nil), p.path...), "x"))
				}
			case 3:
				if len(lambdas) > 0 && o.Steps == 0 {
					l := lambdas[rng.Intn(len(lambdas))]
					o.Ty, o.ValTys = 1-l.optTy, nil
					o.Paths = [][]string{l.path}
				}
			case 4:
				// a pass-through node (any depth) takes no option at all: designating one to it cannot be
				// right, whatever the option's type; alone, or before / after valid paths of the same option
				if len(passes) > 0 {
					p := passes[rng.Intn(len(passes))]
					if rng.Bool() {
						o.Paths = append(o.Paths, p.path)
					} else {
						o.Paths = append([][]string{p.path}, o.Paths...)
					}
				}
			case 5:
				// a step limit is an option for graphs: a lambda cannot take it
				if len(lambdas) > 0 {
					l := lambdas[rng.Intn(len(lambdas))]
					o = optSpec{ID: o.ID, Base: -1, Steps: 1 + rng.Intn(60), Paths: [][]string{l.path}}
					if len(pregelSubs) > 0 && !haveSteps && rng.Bool() {
						haveSteps = true
						o.Paths = append([][]string{pregelSubs[rng.Intn(len(pregelSubs))].path}, o.Paths...)
						o.Steps = 1000
					}
				}
			case 6:
				// ... nor can a pass-through node
				if len(passes) > 0 {
					p := passes[rng.Intn(len(passes))]
					o = optSpec{ID: o.ID, Base: -1, Steps: 1 + rng.Intn(60), Paths: [][]string{p.path}}
				}
			case 7:
				// ONE option designated to a lambda, one of whose values is of the other option type (at any
				// position among the values)
				if len(lambdas) > 0 && o.Steps == 0 {
					l := lambdas[rng.Intn(len(lambdas))]
					o.Ty = l.optTy
					o.Vals = 2 + rng.Intn(3)
					o.ValTys = make([]int, o.Vals)
					for v := range o.ValTys {
						o.ValTys[v] = l.optTy
					}
					o.ValTys[rng.Intn(o.Vals)] = 1 - l.optTy
					o.Paths = [][]string{l.path}
				}
			}
		}
		out = append(out, o)
	}
	return out
}

func toOption(o optSpec, bases map[int]compose.Option) compose.Option {
	var opt compose.Option
	if o.Steps > 0 {
		opt = compose.WithRuntimeMaxSteps(o.Steps)
	} else {
		var vals []any
		for v := 0; v < o.Vals; v++ {
			id := fmt.Sprintf("%s.%d", o.ID, v)
			if o.valTy(v) == 0 {
				vals = append(vals, gspec.OptA{ID: id})
			} else {
				vals = append(vals, gspec.OptB{ID: id})
			}
		}
		opt = compose.WithLambdaOption(vals...)
	}
	for _, p := range o.Paths {
		opt = opt.DesignateNodeWithPath(compose.NewNodePath(p...))
	}
	return opt
}

// splitOptions: the same call with every option of several values written as one Option per value
// (same designation): WithLambdaOption(a, b) and WithLambdaOption(a), WithLambdaOption(b) say the same.
func splitOptions(os []optSpec) []compose.Option {
	var out []compose.Option
	for _, o := range os {
		if o.Steps > 0 || o.Vals <= 1 {
			out = append(out, toOption(o, nil))
			continue
		}
		for v := 0; v < o.Vals; v++ {
			id := fmt.Sprintf("%s.%d", o.ID, v)
			var val any = gspec.OptA{ID: id}
			if o.valTy(v) == 1 {
				val = gspec.OptB{ID: id}
			}
			opt := compose.WithLambdaOption(val)
			for _, p := range o.Paths {
				opt = opt.DesignateNodeWithPath(compose.NewNodePath(p...))
			}
			out = append(out, opt)
		}
	}
	return out
}

// badOwner: path ("a/b") of the nested graph node whose run detects the invalid designation ("" = top level)
var badOwner string

// subSteps: the step limits the routed options designate to nested graphs (graph name -> limit); nil: none
var subSteps map[string]int

func refEnv() *gspec.RefEnv {
	if len(subSteps) == 0 {
		return nil
	}
	m := map[string]int{}
	for k, v := range subSteps {
		m[k] = v
	}
	return &gspec.RefEnv{SubMaxSteps: m}
}

type runResult struct {
	out   gspec.Outcome
	execs []gspec.Exec
}

func doCall(ctx context.Context, r compose.Runnable[gspec.V, gspec.V], in gspec.V, opts []compose.Option) runResult {
	ctl := gspec.NewCtl("c")
	out := gspec.Call(gspec.WithCtl(ctx, ctl), r, "I", in, 0, -1, opts...)
	execs, _, _, _ := ctl.Log.Snapshot()
	return runResult{out: out, execs: execs}
}

func doCallPara(ctx context.Context, r compose.Runnable[gspec.V, gspec.V], para string, in gspec.V, opts []compose.Option) runResult {
	ctl := gspec.NewCtl("c")
	out := gspec.Call(gspec.WithCtl(ctx, ctl), r, para, in, 0, -1, opts...)
	execs, _, _, _ := ctl.Log.Snapshot()
	return runResult{out: out, execs: execs}
}

// mixedClass: if the difference between the expected and the received payloads of a node concerns a value of
// an Option that carries values of both option types, the class of that (narrower) violation; else "".
func mixedClass(os []optSpec, want, got []string) string {
	ws, gs := map[string]bool{}, map[string]bool{}
	for _, w := range want {
		ws[w] = true
	}
	for _, g := range got {
		gs[g] = true
	}
	of := func(payload string) bool { // "A:<id>.<v>"
		for _, o := range os {
			if o.mixed() && strings.HasPrefix(payload[2:], o.ID+".") {
				return true
			}
		}
		return false
	}
	for _, g := range got {
		if !ws[g] && of(g) {
			return "one-option-with-values-of-two-types/value-delivered-to-node-it-does-not-address"
		}
	}
	for _, w := range want {
		if !gs[w] && of(w) {
			return "one-option-with-values-of-two-types/value-not-delivered"
		}
	}
	return ""
}

// judge: rerun (optional) repeats the call with other options (same input, same paradigm).
func judge(rep *mon.Reporter, spec *gspec.GraphSpec, in gspec.V, os []optSpec, res runResult, how string, rerun ...func([]compose.Option) runResult) bool {
	exp, mustFail, why := route(spec, os)
	wit := map[string]any{"spec": spec, "input": in, "options": os, "how": how}
	if mustFail {
		if badOwner != "" && !res.out.Failed() {
			// "designating an unknown node, a path below a non-graph node, or an option of the wrong type
			// is an error" — of the call, whether or not the nested graph the path leads into gets to run
			owner := badOwner[strings.LastIndexByte(badOwner, '/')+1:]
			if ref := gspec.EvalGraph(spec, in, nil); len(ref.SubIn[owner]) == 0 {
				rep.Violation(ID+"/invalid-designation-accepted/"+why+"/in-nested-graph-that-did-not-run", fmt.Sprintf("the call designates an option invalidly (%s, inside nested graph %s, which no branch selected in this run) but ran and returned %s\noptions: %+v", why, badOwner, gspec.Canon(res.out.Out), os), wit)
				return false
			}
		}
		if !res.out.Failed() {
			rep.Violation(ID+"/invalid-designation-accepted/"+why, fmt.Sprintf("the call designates an option invalidly (%s) but ran and returned %s\noptions: %+v", why, gspec.Canon(res.out.Out), os), wit)
			return false
		}
		rep.Count("invalid_designations_rejected", 1)
		rep.Count("rejected_"+why, 1)
		return true
	}
	ref := gspec.EvalGraph(spec, in, refEnv())
	if len(subSteps) > 0 {
		rep.Count("calls_with_step_limit_designated_to_nested_graph", 1)
		if ref.Err == "maxsteps" {
			rep.Count("calls_where_designated_step_limit_stops_nested_graph", 1)
		}
	}
	mixedWhere := ""
	for _, o := range os {
		if o.mixed() {
			if len(o.Paths) == 0 {
				mixedWhere = "undesignated"
			} else if mixedWhere == "" {
				mixedWhere = "designated-to-nested-graph"
			}
		}
	}
	if mixedWhere != "" {
		rep.Count("valid_calls_with_one_option_of_two_value_types", 1)
		if res.out.Failed() && ref.Err == "" && len(rerun) > 0 {
			// the same call with one Option per value (same designations) says the same thing
			if res2 := rerun[0](splitOptions(os)); !res2.out.Failed() {
				rep.Violation(ID+"/one-option-with-values-of-two-types/valid-call-failed/"+mixedWhere, fmt.Sprintf("one compose.Option carries values of both lambda option types (%s); every value is of the option type of some node it addresses, yet the call failed: %v\nthe same call with one Option per value (same designations) succeeds\noptions: %+v", mixedWhere, res.out.Err, os), wit)
				return false
			}
		}
	}
	if m := gspec.CompareResult(ref, res.out); m != nil {
		rep.Violation(ID+"/result/"+m.Class, m.Detail+fmt.Sprintf("\noptions: %+v", os), wit)
		return false
	}
	for _, e := range res.execs {
		if ref.Err != "" && len(e.Opts) == 0 && !e.InOK && !e.Done && e.EndSeq == 0 {
			// the run was stopped by the step limit while this body was just being entered (the log entry
			// exists, its options are not recorded yet): nothing is known about what it received
			continue
		}
		want := exp[e.Path]
		got := e.Opts
		if strings.Join(want, ",") != strings.Join(got, ",") {
			cl := "wrong-options"
			ws, gs := map[string]bool{}, map[string]bool{}
			for _, w := range want {
				ws[w] = true
			}
			for _, g := range got {
				gs[g] = true
			}
			extra, missing := false, false
			for g := range gs {
				if !ws[g] {
					extra = true
				}
			}
			for w := range ws {
				if !gs[w] {
					missing = true
				}
			}
			switch {
			case extra && !missing:
				cl = "received-option-not-addressed-to-it"
			case missing && !extra:
				cl = "did-not-receive-option-addressed-to-it"
			case !extra && !missing:
				cl = "wrong-order-or-multiplicity"
			}
			if mc := mixedClass(os, want, got); mc != "" {
				cl = mc
			}
			rep.Violation(ID+"/"+cl+"/"+how, fmt.Sprintf("node %s received %v, the reference router delivers %v\noptions: %+v", e.Path, got, want, os), wit)
			return false
		}
		rep.Count("node_option_lists_checked", 1)
	}
	return true
}

func specCase(ctx context.Context, rep *mon.Reporter, rng *mon.Rand, cfg mon.Config, spec *gspec.GraphSpec, sample bool) {
	r, err := gspec.Build(ctx, spec, gspec.BuildOpts{})
	if err != nil {
		rep.Violation(ID+"/build-error", err.Error(), spec)
		return
	}
	var inv []nodeInfo
	inventory(spec, nil, &inv)
	in := gspec.V{"in": rng.Str(1, 5)}
	if ref := gspec.EvalGraph(spec, in, nil); ref.Err != "" {
		return
	}
	ncalls := cfg.Pick(10, 40)
	for c := 0; c < ncalls; c++ {
		os := genOptions(rng, inv, fmt.Sprintf("k%d", c), 0.15)
		var opts []compose.Option
		for _, o := range os {
			opts = append(opts, toOption(o, nil))
		}
		para := []string{"I", "S", "C", "T"}[c%4]
		res := doCallPara(ctx, r, para, in, opts)
		rep.AddEvaluations(1)
		rep.Count("sequential_calls_"+para, 1)
		if !judge(rep, spec, in, os, res, "sequential/"+para, func(o2 []compose.Option) runResult { return doCallPara(ctx, r, para, in, o2) }) {
			return
		}
		nested := false
		for _, o := range os {
			for _, p := range o.Paths {
				if len(p) > 1 {
					nested = true
				}
			}
		}
		if len(os) >= 2 && nested {
			rep.NonTrivial(spec.Digest() + fmt.Sprint(os))
		}
		if sample && c == 0 {
			rep.Sample(map[string]any{"spec": spec, "options": os})
		}
	}
	resumeCase(ctx, rep, rng, spec, inv, in)
	unknownCallbackTarget(ctx, rep, rng, spec, r, in)
	sharedBaseCase(ctx, rep, rng, spec, r, inv, in)
	flatSharedBase(ctx, rep, rng)
	handlerCase(ctx, rep, rng, spec, r, inv, in)
	concurrentCase(ctx, rep, rng, spec, r, inv, in)
}

// sharedBaseCase: two calls use options derived from one base option by a further DesignateNode.
func sharedBaseCase(ctx context.Context, rep *mon.Reporter, rng *mon.Rand, spec *gspec.GraphSpec, r compose.Runnable[gspec.V, gspec.V], inv []nodeInfo, in gspec.V) {
	byTy := map[int][]nodeInfo{}
	for _, n := range inv {
		if n.kind != gspec.Sub && n.kind != gspec.Passthrough && len(n.path) == 1 {
			byTy[n.optTy] = append(byTy[n.optTy], n)
		}
	}
	for ty, ls := range byTy {
		if len(ls) < 3 {
			continue
		}
		perm := rng.Perm(len(ls))
		nb := 1 + rng.Intn(len(ls)-2) // the base designates nb nodes (1..n-2): every slice-capacity situation
		var baseKeys []string
		for _, i := range perm[:nb] {
			baseKeys = append(baseKeys, ls[i].path[0])
		}
		d1, d2 := ls[perm[nb]].path[0], ls[perm[nb+1]].path[0]
		var val any = gspec.OptA{ID: "shared.0"}
		if ty == 1 {
			val = gspec.OptB{ID: "shared.0"}
		}
		base := compose.WithLambdaOption(val).DesignateNode(baseKeys...)
		o1 := base.DesignateNode(d1)
		o2 := base.DesignateNode(d2)
		mk := func(extra string) []optSpec {
			o := optSpec{ID: "shared", Ty: ty, Vals: 1, Base: 0}
			for _, k := range append(append([]string(nil), baseKeys...), extra) {
				o.Paths = append(o.Paths, []string{k})
			}
			return []optSpec{o}
		}
		res1 := doCall(ctx, r, in, []compose.Option{o1})
		res2 := doCall(ctx, r, in, []compose.Option{o2})
		rep.AddEvaluations(2)
		rep.Count("shared_base_pairs", 1)
		if !judge(rep, spec, in, mk(d1), res1, "derived-from-shared-base-option") {
			return
		}
		if !judge(rep, spec, in, mk(d2), res2, "derived-from-shared-base-option") {
			return
		}
	}
}

// handlerCase: a callback handler designated to one node must fire for that node only.
func handlerCase(ctx context.Context, rep *mon.Reporter, rng *mon.Rand, spec *gspec.GraphSpec, r compose.Runnable[gspec.V, gspec.V], inv []nodeInfo, in gspec.V) {
	// one WithCallbacks option designated to 1-3 nodes at any depth, in PRNG order (a nested path may
	// come before a direct node key): the handler fires for exactly these nodes, once per execution
	var cands []nodeInfo
	for _, n := range inv {
		if n.kind != gspec.Passthrough && n.kind != gspec.Sub {
			cands = append(cands, n)
		}
	}
	if len(cands) == 0 {
		return
	}
	k := 1 + rng.Intn(3)
	if k > len(cands) {
		k = len(cands)
	}
	var targets []nodeInfo
	for _, i := range rng.Perm(len(cands))[:k] {
		targets = append(targets, cands[i])
	}
	var mu sync.Mutex
	fired := map[string]int{}
	h := callbacks.NewHandlerBuilder().OnStartFn(func(ctx context.Context, info *callbacks.RunInfo, _ callbacks.CallbackInput) context.Context {
		mu.Lock()
		fired[info.Name]++
		mu.Unlock()
		return ctx
	}).OnStartWithStreamInputFn(func(ctx context.Context, info *callbacks.RunInfo, in *schema.StreamReader[callbacks.CallbackInput]) context.Context {
		in.Close()
		mu.Lock()
		fired[info.Name]++
		mu.Unlock()
		return ctx
	}).Build()
	opt := compose.WithCallbacks(h)
	allTop := true
	var paths []*compose.NodePath
	var shown [][]string
	for _, t := range targets {
		if len(t.path) > 1 {
			allTop = false
		}
		paths = append(paths, compose.NewNodePath(t.path...))
		shown = append(shown, t.path)
	}
	if allTop && rng.Bool() {
		var keys []string
		for _, t := range targets {
			keys = append(keys, t.path[0])
		}
		opt = opt.DesignateNode(keys...)
	} else {
		opt = opt.DesignateNodeWithPath(paths...)
	}
	para := []string{"I", "S", "C", "T"}[rng.Intn(4)]
	res := doCallPara(ctx, r, para, in, []compose.Option{opt})
	rep.AddEvaluations(1)
	rep.Count("designated_handler_calls", 1)
	if len(targets) > 1 {
		rep.Count("designated_handler_calls_with_several_paths", 1)
	}
	wit := map[string]any{"spec": spec, "targets": shown, "paradigm": para}
	if res.out.Failed() {
		rep.Violation(ID+"/designated-callback/run-failed", fmt.Sprintf("a call with one callbacks option designated to the existing nodes %v failed: %v", shown, res.out.Err), wit)
		return
	}
	want := map[string]int{}
	for _, t := range targets {
		for _, e := range res.execs {
			if e.Path == strings.Join(t.path, "/") {
				want[t.path[len(t.path)-1]]++
			}
		}
	}
	mu.Lock()
	defer mu.Unlock()
	for f := range fired {
		if _, ok := want[f]; !ok {
			rep.Violation(ID+"/designated-callback-fired-elsewhere", fmt.Sprintf("handler designated to %v fired for %v", shown, fired), wit)
			return
		}
	}
	for n, w := range want {
		if fired[n] != w {
			cl := "designated-callback-not-fired"
			if fired[n] > w {
				cl = "designated-callback-fired-too-often"
			}
			rep.Violation(ID+"/"+cl, fmt.Sprintf("handler designated to %v (paradigm %s): node %s executed %d time(s), its start callback fired %d time(s); all firings: %v", shown, para, n, w, fired[n], fired), wit)
			return
		}
	}
}

// concurrentCase: 8 calls at once, each with its own options.
func concurrentCase(ctx context.Context, rep *mon.Reporter, rng *mon.Rand, spec *gspec.GraphSpec, r compose.Runnable[gspec.V, gspec.V], inv []nodeInfo, in gspec.V) {
	const n = 8
	oss := make([][]optSpec, n)
	optss := make([][]compose.Option, n)
	for i := 0; i < n; i++ {
		oss[i] = genOptions(rng, inv, fmt.Sprintf("p%d", i), 0.05)
		for _, o := range oss[i] {
			optss[i] = append(optss[i], toOption(o, nil))
		}
	}
	results := make([]runResult, n)
	start := make(chan struct{})
	var wg sync.WaitGroup
	for i := 0; i < n; i++ {
		wg.Add(1)
		go func(i int) {
			defer wg.Done()
			<-start
			results[i] = doCall(ctx, r, in, optss[i])
		}(i)
	}
	done := make(chan struct{})
	go func() { wg.Wait(); close(done) }()
	close(start)
	wres, dump := mon.WaitDone(done, 120*time.Second)
	if wres == mon.Stuck {
		where, detail := gspec.StuckSignature(dump)
		rep.Violation(ID+"/hang/"+where, detail, spec)
		return
	}
	if wres != mon.Finished {
		rep.Inconclusive("watchdog")
		return
	}
	rep.AddEvaluations(n)
	rep.Count("concurrent_calls", n)
	for i := 0; i < n; i++ {
		if !judge(rep, spec, in, oss[i], results[i], "concurrent", func(o2 []compose.Option) runResult { return doCall(ctx, r, in, o2) }) {
			return
		}
	}
}

// flatSharedBase: a flat graph with seven lambdas of one option type, so that a base option with
// 1..5 designated nodes (every slice capacity situation) can be extended differently by two calls.
func flatSharedBase(ctx context.Context, rep *mon.Reporter, rng *mon.Rand) {
	spec := &gspec.GraphSpec{Mode: gspec.DAG}
	for i := 0; i < 7; i++ {
		k := fmt.Sprintf("n%d", i)
		spec.Nodes = append(spec.Nodes, gspec.NodeSpec{Key: k, Kind: gspec.Hash, Para: gspec.PI, PipeCap: -1})
		spec.Edges = append(spec.Edges, gspec.EdgeSpec{From: gspec.START, To: k}, gspec.EdgeSpec{From: k, To: gspec.END})
	}
	r, err := gspec.Build(ctx, spec, gspec.BuildOpts{})
	if err != nil {
		rep.Violation(ID+"/build-error", err.Error(), spec)
		return
	}
	var inv []nodeInfo
	inventory(spec, nil, &inv)
	sharedBaseCase(ctx, rep, rng, spec, r, inv, gspec.V{"in": rng.Str(1, 4)})
}
